/-
C06 — Consolidation keeps pods schedulable and strictly lowers cost.

Property theorems only (helper lemmas: `Karp/Proofs/Consolidate.lean`).
Model: `Karp/Model/Consolidate.lean` (computeConsolidation, spot-to-spot, the price filter, WorstLaunchPrice,
       filterOutSameInstanceType, validateCommand, IsEmpty; the scheduling simulation is an input).
Spec:  `Karp/Spec/Consolidation.lean` (evaluated by the driver on the commands of the real code).

Every theorem is stated for ALL catalogs, requirement sets, candidate lists, simulation results and feature-gate
values; `ridKey` is the provider's reservation-id label (any key other than the capacity-type key).
-/
import Karp.Proofs.Consolidate
import Karp.Proofs.ConsolidateValidate
import Karp.Proofs.ConsolidateSpec
import Karp.Proofs.ConsolidateEmpty
import Karp.Spec.Consolidation

namespace Karp.C06
open Karp.Req Karp.Consolidate

/-! ## Fact expectations over the regenerated facts -/

/-- "enough cheaper alternatives": 15 -/
theorem fact_min_spot_to_spot : Karp.Gen.C06Facts.minInstanceTypesForSpotToSpot = 15 := by decide
/-- the specification's floor is the code's constant -/
theorem fact_spec_floor : Karp.Spec.Consolidation.spotFloor = minSpot := by decide
/-- capacity-type precedence of `WorstLaunchPrice`: reserved, then spot, then on-demand -/
theorem fact_precedence : Karp.Gen.C06Facts.worstLaunchPrecedence = ["reserved", "spot", "on-demand"] := by decide
theorem fact_capacity_types :
    Karp.Gen.C06Facts.capacityTypeKey = "karpenter.sh/capacity-type" ∧ Karp.Gen.C06Facts.ctSpot = "spot" ∧
    Karp.Gen.C06Facts.ctOnDemand = "on-demand" ∧ Karp.Gen.C06Facts.ctReserved = "reserved" := by decide
theorem fact_spec_keys : Karp.Spec.Consolidation.ctKey = ctKey ∧ Karp.Spec.Consolidation.zoneKey = zoneKey := by decide
/-- the reservation-id label of the harness's provider is not the capacity-type key -/
theorem fact_rid_key : Karp.Gen.C06Facts.testReservationIDLabel ≠ ctKey := by decide
/-- commands are re-validated after 15 s -/
theorem fact_validation_delay : Karp.Gen.C06Facts.commandValidationDelayNs = 15 * 1000000000 := by decide
theorem fact_per_node_base : Karp.Gen.C06Facts.perNodeBaseCostNum = 1 ∧ Karp.Gen.C06Facts.perNodeBaseCostDen = 1 := by decide

/-- the price filter keeps an option iff its launch price is STRICTLY below the bound, computed over the AVAILABLE
    offerings, then checks minValues -/
theorem fact_price_filter :
    Karp.Gen.C06Facts.removeByPriceCmps = ["launchPrice < maxPrice"] ∧
    Karp.Gen.C06Facts.removeByPriceCalls = ["WorstLaunchPrice", "Available", "SatisfiesMinValues"] := by decide

theorem fact_worst_launch_price :
    Karp.Gen.C06Facts.worstLaunchPriceCmps = ["len(compatOfs) != 0"] ∧
    Karp.Gen.C06Facts.mostExpensiveCmps = ["a.Price > b.Price"] ∧
    Karp.Gen.C06Facts.cheapestCmps = ["a.Price < b.Price"] := by decide

/-- the candidate's price: first offering with the node's zone and capacity type -/
theorem fact_offering_price :
    Karp.Gen.C06Facts.offeringPriceCmps = ["o.Zone() == zone", "o.CapacityType() == capacityType"] ∧
    Karp.Gen.C06Facts.resolveNodePriceCmps = ["instanceType == nil"] := by decide

/-- the guards of `computeConsolidation`, in source order, and its essential call order: simulate, all-scheduled test,
    price sum, sort, spot-to-spot branch, price filter, spot pin (`Add`) AFTER the filter -/
theorem fact_compute_consolidation :
    Karp.Gen.C06Facts.computeConsolidationCmps =
      ["len(results.NewNodeClaims) == 0", "len(results.NewNodeClaims) != 1", "cn.capacityType != v1.CapacityTypeSpot",
       "len(results.NewNodeClaims[0].InstanceTypeOptions) == 0"] ∧
    Karp.Gen.C06Facts.computeConsolidationCalls =
      ["SimulateScheduling", "AllNonPendingPodsScheduled", "sumCandidatePrices", "OrderByPrice", "computeSpotToSpotConsolidation",
       "RemoveInstanceTypeOptionsByPriceAndMinValues", "Add"] := by decide

/-- spot-to-spot: the spot pin (`Add`) comes BEFORE the filter; the guards in source order -/
theorem fact_spot_to_spot :
    Karp.Gen.C06Facts.spotToSpotCmps =
      ["len(results.NewNodeClaims[0].InstanceTypeOptions) == 0", "len(candidates) > 1",
       "len(results.NewNodeClaims[0].InstanceTypeOptions) < MinInstanceTypesForSpotToSpotConsolidation"] ∧
    Karp.Gen.C06Facts.spotToSpotCalls = ["Add", "RemoveInstanceTypeOptionsByPriceAndMinValues"] := by decide

theorem fact_same_type :
    Karp.Gen.C06Facts.sameTypeCmps =
      ["len(compatibleOfferings) == 0", "p < existingPrice", "pricesByInstanceType[it.Name] < maxPrice"] ∧
    Karp.Gen.C06Facts.firstNCalls = ["computeConsolidation", "filterOutSameInstanceType"] := by decide

/-- `validateCommand`: the comparisons and the essential calls in source order; after the all-scheduled and the
    NodeClaim-count tests it rejects unless the command's instance types are a subset of the re-simulated ones AND the
    command's replacement requirements are a subset of the re-simulated requirements — command first, re-simulation
    second in both calls — and accepts otherwise -/
theorem fact_validate_command :
    Karp.Gen.C06Facts.validateCommandCmps =
      ["len(candidates) == 0", "len(results.NewNodeClaims) == 0", "len(cmd.Replacements) == 0",
       "len(results.NewNodeClaims) > 1", "len(cmd.Replacements) == 0"] ∧
    Karp.Gen.C06Facts.validateCommandCalls =
      ["SimulateScheduling", "AllNonPendingPodsScheduled", "instanceTypesAreSubset", "requirementsAreSubset"] ∧
    Karp.Gen.C06Facts.subsetCmps = ["len(rhsNames.Intersection(lhsNames)) == len(lhsNames)"] ∧
    Karp.Gen.C06Facts.isValidCalls = ["After", "validateCommand"] := by decide

theorem fact_validate_guards :
    Karp.Gen.C06Facts.validateCommandGuards =
      ["len(candidates) == 0 => return NewValidationError(…)",
       "err != nil => return fmt.Errorf(…)",
       "!results.AllNonPendingPodsScheduled() => return NewSchedulingValidationError(…)",
       "len(results.NewNodeClaims) == 0 => return NewSchedulingValidationError(…)",
       "len(cmd.Replacements) == 0 => return nil",
       "len(results.NewNodeClaims) > 1 => return NewSchedulingValidationError(…)",
       "len(cmd.Replacements) == 0 => return NewSchedulingValidationError(…)",
       "!instanceTypesAreSubset(cmd.Replacements[0].InstanceTypeOptions, results.NewNodeClaims[0].InstanceTypeOptions) => return NewSchedulingValidationError(…)",
       "!requirementsAreSubset(cmd.Replacements[0].Requirements, results.NewNodeClaims[0].Requirements) => return NewSchedulingValidationError(…)",
       "end => return nil"] := rfl

/-- `requirementsAreSubset(lhs, rhs)`: ranges over `rhs`, reads `lhs.Get(key)` (an undefined key is `Exists`) and
    compares `Len` of the intersection with `Len` of the `lhs` requirement (the model's `reqsSubset`) -/
theorem fact_requirements_subset :
    Karp.Gen.C06Facts.reqSubsetSkeletonParams = ["lhs", "rhs"] ∧
    Karp.Gen.C06Facts.reqSubsetSkeleton =
      ["for key, r := range rhs", "l := lhs.Get(key)", "if l.Intersection(r).Len() != l.Len()", "return false", "return true"] ∧
    Karp.Gen.C06Facts.reqSubsetCmps = ["l.Intersection(r).Len() != l.Len()"] := by decide

/-- every method releases a command only after validation -/
theorem fact_methods :
    Karp.Gen.C06Facts.singleComputeCalls = ["computeConsolidation", "Validate"] ∧
    Karp.Gen.C06Facts.multiComputeCalls = ["firstNConsolidationOption", "Validate"] ∧
    Karp.Gen.C06Facts.emptinessComputeCalls = ["Validate"] ∧
    Karp.Gen.C06Facts.decisionCmps =
      ["len(c.Candidates) > 0", "len(c.Replacements) > 0", "len(c.Candidates) > 0", "len(c.Replacements) == 0"] := by decide

/-- Emptiness releases THE VALIDATOR'S command: `ComputeCommands` keeps the command `Validate` returns (`validCmd`) and
    that is what its last statement hands back; a validation error yields no command; only candidates that are empty go
    into the command in the first place.  `EmptinessValidator.Validate` waits, re-derives the candidates and returns the
    command WITH ITS CANDIDATES REPLACED by the validated ones; `validateCandidates` takes the current candidates
    (`GetCandidates` under `Emptiness.ShouldDisrupt`, which asks `IsEmpty`), keeps those of the command (`mapCandidates`),
    fails when none is left, then filters by nomination and budget (the model's `emptinessValidate`). -/
theorem fact_emptiness_release :
    Karp.Gen.C06Facts.emptinessValidateAssign = ["validCmd, err := e.validator.Validate(ctx, cmd, commandValidationDelay)"] ∧
    Karp.Gen.C06Facts.emptinessComputeReturns = "return []Command{validCmd}, nil" ∧
    Karp.Gen.C06Facts.emptinessComputeGuards =
      ["e.IsConsolidated() => return []Command{}, nil",
       "!candidate.IsEmpty() => continue",
       "disruptionBudgetMapping[candidate.NodePool.Name] == 0 => continue",
       "len(empty) == 0 => return []Command{}, nil",
       "!constrainedByBudgets => (falls through)",
       "err != nil => return []Command{}, err",
       "IsValidationError(err) => return []Command{}, nil",
       "end => return []Command{…}, nil"] := by decide

theorem fact_emptiness_validator :
    Karp.Gen.C06Facts.emptinessValidateSkeletonParams = ["ctx", "cmd", "validationPeriod"] ∧
    Karp.Gen.C06Facts.emptinessValidateSkeleton =
      ["if validationPeriod > 0", "(other statement)",
       "validatedCandidates, err := e.validateCandidates(ctx, cmd.Candidates...)",
       "if err != nil", "return Command{}, err",
       "cmd.Candidates = validatedCandidates", "return cmd, nil"] ∧
    Karp.Gen.C06Facts.emptinessValidateCandidatesCalls =
      ["GetCandidates", "mapCandidates", "BuildDisruptionBudgetMapping", "IsNodeNominated"] ∧
    Karp.Gen.C06Facts.emptinessValidateCandidatesCmps =
      ["len(validatedCandidates) == 0", "disruptionBudgetMapping[cn.NodePool.Name] == 0", "len(valid) > 0"] ∧
    Karp.Gen.C06Facts.emptinessShouldDisruptCalls = ["IsEmpty"] := by decide

/-- the simulation: solve, truncate, then turn placements on uninitialized nodes into pod errors -/
theorem fact_simulate :
    Karp.Gen.C06Facts.simulateSchedulingCalls =
      ["Solve", "TruncateInstanceTypes", "Initialized", "NewUninitializedNodeError"] := by decide

/-- `IsEmpty`: reschedule cost at most the per-node base; cost = base + Σ max(0, EvictionCost) -/
theorem fact_is_empty :
    Karp.Gen.C06Facts.isEmptyCmps = ["c.RescheduleDisruptionCost <= PerNodeBaseDisruptionCost"] ∧
    Karp.Gen.C06Facts.rescheduleCostCalls = ["Max", "EvictionCost"] := by decide

/-- eviction cost = 1 + deletion-cost / 2^27 + priority / 2^25, clamped to [-10, 10] -/
theorem fact_eviction_cost :
    Karp.Gen.C06Facts.evictionBase = 1 ∧ Karp.Gen.C06Facts.evictionDelExp = 27 ∧ Karp.Gen.C06Facts.evictionPrioExp = 25 ∧
    Karp.Gen.C06Facts.evictionClampLo = -10 ∧ Karp.Gen.C06Facts.evictionClampHi = 10 := by decide

/-! ## A small catalog used by the non-vacuity examples and the validation witnesses -/

def ofr (z ct : String) (p : Nat) (av : Bool := true) (rid : String := "") : Offering :=
  { zone := z, ct := ct, price := p, available := av, resID := rid }

def big : IType := { name := "big", offerings := [ofr "z1" "on-demand" 1000, ofr "z1" "spot" 400] }
def small : IType := { name := "small", offerings := [ofr "z1" "on-demand" 300, ofr "z1" "spot" 100, ofr "z2" "spot" 120 false] }
def mid : IType := { name := "mid", offerings := [ofr "z1" "on-demand" 1200, ofr "z1" "spot" 350] }

/-! ## Strictly cheaper -/

/-- **C06_price** — whenever `computeConsolidation` decides to replace, EVERY launch the replacement request permits
    (every available offering of every listed instance type that the FINAL requirements admit — not only the
    capacity type `WorstLaunchPrice` looked at) costs strictly less than the removed nodes together.
    Hypotheses on the claim handed over by the scheduler (`ClaimHyps`): offerings are reserved / spot / on-demand,
    and a claim that can launch into a reservation was pinned to `reserved` (derived for the scheduler's last step in
    `C06_reserved_pin`). -/
theorem C06_price (ridKey : String) (hrid : ridKey ≠ ctKey) (gate : Bool) (cands : List Cand) (sim : Sim)
    (R' : Reqs) (kept : List IType) (n : Nat)
    (h : compute ridKey gate cands sim = .replace R' kept n) :
    ∃ c, sim.claims = [c] ∧
      (ClaimHyps ridKey c →
        ∀ it ∈ kept, ∀ o ∈ it.offerings, o.available = true → offeringCompat ridKey R' o = true →
          o.price < sumPrices cands) := by
  obtain ⟨_, c, hc, hb⟩ := compute_replace_inv ridKey gate cands sim R' kept n h
  refine ⟨c, hc, ?_⟩
  intro hyp it hit o ho hav hcomp
  cases hb with
  | spot _ _ hR hk _ _ =>
    subst hR
    exact spot_branch_price ridKey hrid c.reqs _ _ kept hk it hit o ho hav hcomp
  | general _ hk _ hR _ =>
    subst hR
    exact general_branch_price ridKey hrid c hyp _ kept hk it hit o ho hav hcomp

/-- **C06_od_no_fallback** — in particular no permitted ON-DEMAND launch costs as much as (or more than) the removed
    nodes: an on-demand node is never replaced by a request that can fall back to an equal-or-dearer on-demand launch. -/
theorem C06_od_no_fallback (ridKey : String) (hrid : ridKey ≠ ctKey) (gate : Bool) (cands : List Cand) (sim : Sim)
    (R' : Reqs) (kept : List IType) (n : Nat) (c : Claim)
    (h : compute ridKey gate cands sim = .replace R' kept n) (hc : sim.claims = [c]) (hyp : ClaimHyps ridKey c)
    (it : IType) (hit : it ∈ kept.take n) (o : Offering) (ho : o ∈ it.offerings)
    (hav : o.available = true) (hcomp : offeringCompat ridKey R' o = true) (_hod : o.ct = onDemand) :
    ¬ (sumPrices cands ≤ o.price) := by
  obtain ⟨c', hc', hp⟩ := C06_price ridKey hrid gate cands sim R' kept n h
  have : c' = c := by rw [hc] at hc'; exact (List.cons.inj hc').1.symm
  subst this
  have := hp hyp it (List.mem_of_mem_take hit) o ho hav hcomp
  omega

/-- **C06_pin** — when the simulated claim could launch both spot and on-demand, the final requirements admit spot
    only: the cheaper-than filter was computed on the spot prices, so the on-demand fallback is removed. -/
theorem C06_pin (ridKey : String) (hrid : ridKey ≠ ctKey) (gate : Bool) (cands : List Cand) (sim : Sim)
    (R' : Reqs) (kept : List IType) (n : Nat) (c : Claim)
    (h : compute ridKey gate cands sim = .replace R' kept n) (hc : sim.claims = [c])
    (hboth : (c.reqs.get ctKey).has spot = true ∧ (c.reqs.get ctKey).has onDemand = true)
    (o : Offering) (hcomp : offeringCompat ridKey R' o = true) : o.ct = spot := by
  obtain ⟨_, c', hc', hb⟩ := compute_replace_inv ridKey gate cands sim R' kept n h
  have : c' = c := by rw [hc] at hc'; exact (List.cons.inj hc').1.symm
  subst this
  have key : ∀ R, offeringCompat ridKey (Reqs.add1 R spotReq) o = true → o.ct = spot := by
    intro R hx
    rw [compat_add1_spot ridKey hrid] at hx
    cases h1 : (o.ct == spot) with
    | true => simpa using h1
    | false => rw [h1] at hx; simp at hx
  cases hb with
  | spot _ _ hR _ _ _ => subst hR; exact key _ hcomp
  | general _ _ _ hR _ =>
    subst hR
    simp only [hboth.1, hboth.2, Bool.and_self, if_true] at hcomp
    exact key _ hcomp

/-! ## Spot-to-spot -/

/-- **C06_spot_to_spot** — a replacement of spot-only candidates by a request that may launch spot needs the
    feature gate; the request is pinned to spot, every option has an available spot offering it can launch, and for
    a single candidate at least 15 (strictly cheaper, by `C06_price`) options remain after the cut. -/
theorem C06_spot_to_spot (ridKey : String) (gate : Bool) (cands : List Cand) (sim : Sim)
    (R' : Reqs) (kept : List IType) (n : Nat) (c : Claim)
    (h : compute ridKey gate cands sim = .replace R' kept n) (hc : sim.claims = [c])
    (hspot : cands.all (fun cn => cn.ct == spot) = true) (hmay : (c.reqs.get ctKey).has spot = true) :
    gate = true ∧ R' = c.reqs.add1 spotReq ∧
    (∀ it ∈ kept, ∃ o ∈ it.offerings, o.available = true ∧ offeringCompat ridKey R' o = true) ∧
    (cands.length ≤ 1 → minSpot ≤ (kept.take n).length) := by
  obtain ⟨_, c', hc', hb⟩ := compute_replace_inv ridKey gate cands sim R' kept n h
  have : c' = c := by rw [hc] at hc'; exact (List.cons.inj hc').1.symm
  subst this
  cases hb with
  | general hs _ _ _ _ => rw [hspot, hmay] at hs; cases hs
  | spot _ hg hR hk _ hn =>
    refine ⟨hg, hR, ?_, ?_⟩
    · intro it hit
      have := (removeByPrice_mem ridKey R' _ _ kept hk it hit).1
      exact (compatibleTypes_mem ridKey R' c'.its it this).2
    · intro hle
      rcases hn with ⟨h1, _⟩ | ⟨_, h2, h3⟩
      · omega
      · rw [List.length_take]; omega

/-! ## Feasible home: what the decision guarantees about the simulation it was built from -/

/-- **C06_feasible** — a command is produced only from a simulation in which every non-pending pod was scheduled
    (placements on uninitialized nodes count as failures) and that opened at most one NodeClaim: none for a delete,
    exactly one for a replace.  The replacement only NARROWS the simulated claim: its options are among the claim's
    options and every launch its final requirements permit was already permitted by the simulated requirements — so
    whatever holds for every launch of the simulated claim (C01: each pod has an admissible home there) holds for every
    launch of the command's replacement. -/
theorem C06_feasible (ridKey : String) (hrid : ridKey ≠ ctKey) (gate : Bool) (cands : List Cand) (sim : Sim) :
    (compute ridKey gate cands sim = .delete → sim.allScheduled = true ∧ sim.claims = []) ∧
    (∀ R' kept n, compute ridKey gate cands sim = .replace R' kept n →
      sim.allScheduled = true ∧ ∃ c, sim.claims = [c] ∧ kept ≠ [] ∧
        (∀ it ∈ kept.take n, it ∈ c.its) ∧
        (∀ o, offeringCompat ridKey R' o = true → offeringCompat ridKey c.reqs o = true)) := by
  refine ⟨compute_delete_inv ridKey gate cands sim, ?_⟩
  intro R' kept n h
  obtain ⟨ha, c, hc, hb⟩ := compute_replace_inv ridKey gate cands sim R' kept n h
  refine ⟨ha, c, hc, ?_⟩
  have narrow : ∀ o, offeringCompat ridKey (c.reqs.add1 spotReq) o = true → offeringCompat ridKey c.reqs o = true := by
    intro o ho
    rw [compat_add1_spot ridKey hrid] at ho
    cases hx : offeringCompat ridKey c.reqs o <;> simp_all
  cases hb with
  | spot _ _ hR hk hne _ =>
    subst hR
    refine ⟨hne, ?_, narrow⟩
    intro it hit
    have := (removeByPrice_mem ridKey _ _ _ kept hk it (List.mem_of_mem_take hit)).1
    exact (compatibleTypes_mem ridKey _ c.its it this).1
  | general _ hk hne hR _ =>
    subst hR
    refine ⟨hne, ?_, ?_⟩
    · intro it hit
      exact (removeByPrice_mem ridKey _ _ _ kept hk it (List.mem_of_mem_take hit)).1
    · intro o ho
      split at ho
      · exact narrow o ho
      · exact ho

/-- **C06_at_most_one** — no decision is taken from a simulation that opened two or more NodeClaims -/
theorem C06_at_most_one (ridKey : String) (gate : Bool) (cands : List Cand) (sim : Sim)
    (h : 2 ≤ sim.claims.length) : compute ridKey gate cands sim = .noop := by
  unfold compute
  cases sim.allScheduled with
  | false => simp
  | true =>
    simp only [Bool.not_true, Bool.false_eq_true, if_false]
    match hc : sim.claims, h with
    | _ :: _ :: _, _ => rfl

/-- a simulation with an unscheduled non-pending pod (or a placement on an uninitialized node) yields no command -/
theorem C06_unscheduled_noop (ridKey : String) (gate : Bool) (cands : List Cand) (sim : Sim)
    (h : sim.allScheduled = false) : compute ridKey gate cands sim = .noop := by
  unfold compute; simp [h]

/-! ## Multi-node -/

/-- **C06_multi** — a multi-node step keeps a replacement only by narrowing `computeConsolidation`'s (so `C06_price`,
    `C06_spot_to_spot`, `C06_feasible` carry over to every candidate prefix the binary search tries), and
    **C06_same_type**: every kept option is strictly cheaper, by its worst-case launch price, than the cheapest
    removed node of any instance type that was itself among the options. -/
theorem C06_multi (ridKey : String) (gate : Bool) (cands : List Cand) (sim : Sim) (R : Reqs) (kept : List IType) (n : Nat)
    (h : multiStep ridKey gate cands sim = .replace R kept n) :
    ∃ kept0 n0, compute ridKey gate cands sim = .replace R kept0 n0 ∧ kept ≠ [] ∧ n = kept.length ∧
      (∀ it ∈ kept, it ∈ kept0.take n0) ∧
      (∀ it ∈ kept, ∀ it' ∈ kept0.take n0, cands.any (fun c => c.itName == it'.name) = true →
        ∃ p, launchPrice ridKey R it = some p ∧ p < (typePrice cands it'.name).getD 0) := by
  obtain ⟨kept0, n0, hc, hr, hne, hn⟩ := multiStep_replace_inv ridKey gate cands sim R kept n h
  refine ⟨kept0, n0, hc, hne, hn, ?_, ?_⟩
  · intro it hit
    have := (removeByPrice_eq ridKey R _ _ kept hr).1
    rw [this] at hit
    exact (List.mem_filter.mp hit).1
  · intro it hit it' hit' hcand
    obtain ⟨m, hm, hle⟩ := sameTypeMax_le cands (kept0.take n0) it' hit' hcand
    rw [hm] at hr
    obtain ⟨_, p, hp, hlt⟩ := removeByPrice_mem ridKey R m _ kept hr it hit
    exact ⟨p, hp, by omega⟩

theorem C06_multi_delete (ridKey : String) (gate : Bool) (cands : List Cand) (sim : Sim)
    (h : multiStep ridKey gate cands sim = .delete) : sim.allScheduled = true ∧ sim.claims = [] :=
  compute_delete_inv ridKey gate cands sim (multiStep_delete_inv ridKey gate cands sim h)

/-! ## Validation -/

/-- **C06_validate_subset** — validation accepts a command only if the re-simulation schedules every non-pending pod,
    opens exactly as many NodeClaims as the command has replacements, offers every instance type of the command's
    replacement, and passes `requirementsAreSubset` against the command's replacement requirements. -/
theorem C06_validate_subset (re : Sim) :
    (∀ R names, validateCommand (some (R, names)) re = true →
      re.allScheduled = true ∧ ∃ c, re.claims = [c] ∧ (∀ n ∈ names, n ∈ c.its.map (·.name)) ∧ reqsSubset R c.reqs = true) ∧
    (validateCommand none re = true → re.allScheduled = true ∧ re.claims = []) :=
  ⟨fun R names h => validateCommand_replace R names re h, validateCommand_delete re⟩

/-- **C06_validate_requirements** — the replacement that is released is still what the pods need: if validation accepts
    a replace command, every instance type of the command is one the RE-SIMULATED NodeClaim offers and every launch the
    command's replacement requirements permit (every offering — in particular every available offering of a listed
    instance type) is a launch the re-simulated NodeClaim's requirements permit.  So whatever C01 guarantees for every launch
    of the re-simulated claim (each pod placed on it has an admissible home there) holds for every launch of the
    command's replacement.

    `lenExact` (decidable, `Karp/Proofs/ConsolidateValidate.lean`) names the conditions under which the size comparison
    `l.Intersection(r).Len() == l.Len()` of `requirementsAreSubset` is exact on the three offering keys (zone, capacity
    type, reservation id):
    * no `Gt`/`Lt`/`Gte`/`Lte` bound on them in either requirement set — needed: `C06_len_test_inexact_for_bounds`;
    * the value sets on them hold fewer than 2^63 - 1 values together (`Len` of a complement set is `MaxInt64 - |excluded|`;
      a Go set cannot be that large);
    * the re-simulated claim tolerates an absent reservation-id label, or is pinned to reserved capacity (as
      `FinalizeScheduling` leaves it, `C06_reserved_pin`) — needed: `C06_len_test_ignores_absence`. -/
theorem C06_validate_requirements (ridKey : String) (cmdReqs : Reqs) (names : List String) (re : Sim) (c : Claim)
    (h : validateCommand (some (cmdReqs, names)) re = true) (hc : re.claims = [c])
    (hex : lenExact ridKey cmdReqs c.reqs = true) :
    (∀ n ∈ names, ∃ it ∈ c.its, it.name = n) ∧
    (∀ o, offeringCompat ridKey cmdReqs o = true → offeringCompat ridKey c.reqs o = true) ∧
    (∀ it ∈ c.its, it.name ∈ names → ∀ o ∈ it.offerings, o.available = true →
      offeringCompat ridKey cmdReqs o = true → offeringCompat ridKey c.reqs o = true) := by
  obtain ⟨_, c', hc', hn, hsub⟩ := validateCommand_replace cmdReqs names re h
  have : c' = c := by rw [hc] at hc'; exact (List.cons.inj hc').1.symm
  subst this
  have hall : ∀ o, offeringCompat ridKey cmdReqs o = true → offeringCompat ridKey c'.reqs o = true :=
    fun o ho => reqsSubset_offeringCompat ridKey cmdReqs c'.reqs hsub hex o ho
  refine ⟨?_, hall, fun _ _ _ o _ _ ho => hall o ho⟩
  intro n hn'
  obtain ⟨it, hit, hname⟩ := List.mem_map.mp (hn n hn')
  exact ⟨it, hit, hname⟩

/-- the same in the specification's vocabulary: every launch the specification's `permits` allows the released
    replacement, it allows the re-simulated NodeClaim -/
theorem C06_validate_requirements_spec (ridKey : String) (cmdReqs : Reqs) (names : List String) (re : Sim) (c : Claim)
    (h : validateCommand (some (cmdReqs, names)) re = true) (hc : re.claims = [c])
    (hex : lenExact ridKey cmdReqs c.reqs = true) (o : Karp.Scn.Offering)
    (ho : Karp.Spec.Consolidation.permits ridKey cmdReqs o = true) :
    Karp.Spec.Consolidation.permits ridKey c.reqs o = true := by
  rw [permits_eq] at ho ⊢
  exact (C06_validate_requirements ridKey cmdReqs names re c h hc hex).2.1 _ ho

/-! ### The witness of the repaired finding, and why the hypotheses of `C06_validate_requirements` are needed

`C06-validation-stale-replacement-requirements` (repaired by `fix: consolidation validation released a replacement whose
requirements had gone stale`): validation compared instance-type names only.  The command below — a zone-unrestricted
replacement, re-simulated claim pinned to `z2` — was accepted; it is rejected now (`corpus/c06.validate/001-…` replays the
cluster on the real code). -/

def staleCmdReqs : Reqs := []
def zoneIn (zs : List String) : String × Req := (zoneKey, { key := zoneKey, complement := false, values := zs })
def ctIn (cts : List String) : String × Req := (ctKey, { key := ctKey, complement := false, values := cts })
def staleResim : Sim := { allScheduled := true, claims := [{ reqs := [zoneIn ["z2"]], its := [small, big] }] }

/-- the stale command is rejected; the launch that made it wrong (`small` in `z1`) is exactly what the new conjunct sees -/
theorem C06_validate_rejects_stale_requirements :
    validateCommand (some (staleCmdReqs, ["small"])) staleResim = false ∧
    namesSubset ["small"] ["small", "big"] = true ∧
    ∃ o, o ∈ small.offerings ∧ o.available = true ∧
      offeringCompat "rid" staleCmdReqs o = true ∧ offeringCompat "rid" [zoneIn ["z2"]] o = false := by
  refine ⟨by decide, by decide, ofr "z1" "spot" 100, by decide, by decide, by decide, by decide⟩

/-- non-vacuity of `C06_validate_requirements`: a command pinned to spot in `z2` (what `computeConsolidation` leaves after
    its spot pin) against a re-simulated claim that still allows spot and on-demand in `z2`/`z3` is accepted and meets
    `lenExact`; so is a claim pinned to its reservation -/
example : validateCommand (some ([zoneIn ["z2"], ctIn ["spot"]], ["small"]))
      { allScheduled := true, claims := [{ reqs := [zoneIn ["z2", "z3"], ctIn ["spot", "on-demand"]], its := [small, big] }] } = true ∧
    lenExact "rid" [zoneIn ["z2"], ctIn ["spot"]] [zoneIn ["z2", "z3"], ctIn ["spot", "on-demand"]] = true := by decide
example :
    let pinned : Reqs := [ctIn ["reserved"], ("rid", { key := "rid", complement := false, values := ["r-1"] })]
    validateCommand (some (pinned, ["small"])) { allScheduled := true, claims := [{ reqs := pinned, its := [small] }] } = true ∧
    lenExact "rid" pinned pinned = true := by decide
/-- … and the converse direction is rejected: a command that still allows on-demand against a re-simulated claim that
    needs spot -/
example : validateCommand (some ([ctIn ["spot", "on-demand"]], ["small"]))
      { allScheduled := true, claims := [{ reqs := [ctIn ["spot"]], its := [small, big] }] } = false := by decide

/-- **the size test is inexact for numeric bounds**: `zone Gt 3` against a re-simulated `zone Gt 5` — both are complement
    sets excluding nothing, `Len` is `MaxInt64` on both sides of the comparison, validation accepts, and the command
    permits a launch in zone "4" that the re-simulated claim does not -/
theorem C06_len_test_inexact_for_bounds :
    let gt (n : Int) : String × Req := (zoneKey, { key := zoneKey, complement := true, values := [], gte := some (n + 1) })
    let re : Sim := { allScheduled := true, claims := [{ reqs := [gt 5], its := [small] }] }
    validateCommand (some ([gt 3], ["small"])) re = true ∧
    lenExact "rid" [gt 3] [gt 5] = false ∧
    offeringCompat "rid" [gt 3] (ofr "4" "spot" 1) = true ∧ offeringCompat "rid" [gt 5] (ofr "4" "spot" 1) = false := by
  decide

/-- **the size test does not see absence**: `Get` reads an undefined key as `Exists`, so a command that says nothing about
    the reservation id passes against a re-simulated claim that REQUIRES one (`rid Exists`), although only the command
    permits a launch without a reservation; likewise the empty set (`rid DoesNotExist`) is a subset of `rid In [r-1]` -/
theorem C06_len_test_ignores_absence :
    let ridExists : Reqs := [("rid", { key := "rid", complement := true, values := [] })]
    let ridNone : Reqs := [("rid", { key := "rid", complement := false, values := [] })]
    let ridIn : Reqs := [("rid", { key := "rid", complement := false, values := ["r-1"] })]
    (validateCommand (some ([], ["small"])) { allScheduled := true, claims := [{ reqs := ridExists, its := [small] }] } = true ∧
     lenExact "rid" [] ridExists = false ∧
     offeringCompat "rid" [] (ofr "z1" "spot" 100) = true ∧ offeringCompat "rid" ridExists (ofr "z1" "spot" 100) = false) ∧
    (validateCommand (some (ridNone, ["small"])) { allScheduled := true, claims := [{ reqs := ridIn, its := [small] }] } = true ∧
     lenExact "rid" ridNone ridIn = false ∧
     offeringCompat "rid" ridNone (ofr "z1" "spot" 100) = true ∧ offeringCompat "rid" ridIn (ofr "z1" "spot" 100) = false) := by
  decide

/-! ## The scheduler's reserved pin (discharges `ClaimHyps.pinned`) -/

/-- **C06_reserved_pin** — with the `ReservedCapacity` gate on, a claim whose last placement left it an available,
    compatible reserved offering comes out of `FinalizeScheduling` admitting neither spot nor on-demand. -/
theorem C06_reserved_pin (ridKey : String) (hrid : ridKey ≠ ctKey) (R0 : Reqs) (its : List IType) :
    let c : Claim := { reqs := finalize ridKey R0 (offeringsToReserve ridKey true R0 its), its := its }
    ∀ it ∈ c.its, ∀ o ∈ it.offerings, o.available = true → offeringCompat ridKey c.reqs o = true → o.ct = reserved →
      (c.reqs.get ctKey).has spot = false ∧ (c.reqs.get ctKey).has onDemand = false := by
  intro c it hit o ho hav hcomp hres
  exact finalize_pins ridKey hrid R0 its it hit o ho hav hcomp hres

/-! ## minValues -/

/-- **C06_min_values** — the options of a non-truncating replacement still meet every minValues floor of the final
    filter's requirements (the filter returns an error otherwise and no command is produced). -/
theorem C06_min_values (ridKey : String) (R : Reqs) (m : Option Nat) (its kept : List IType)
    (h : removeByPrice ridKey R m its = some kept) (hmk : hasMinValues R = true) (hne : kept ≠ []) :
    ∃ i, 1 ≤ i ∧ i ≤ kept.length ∧ minSatisfied (minKeys R) (kept.take i) = true := by
  have := satisfiesMinValues_ok R kept (removeByPrice_eq ridKey R m its kept h).2 hmk hne
  exact ⟨_, this.1, this.2.1, this.2.2⟩

/-! ## Emptiness -/

/-- **C06_empty** — `IsEmpty` holds exactly when no reschedulable pod has a positive eviction cost
    (1 + deletion-cost/2^27 + priority/2^25 > 0; the clamp to [-10, 10] never changes the sign). -/
theorem C06_empty (pods : List PodCost) :
    isEmpty pods = true ↔ ∀ p ∈ pods, ¬ (0 < (2 : Int) ^ 27 + p.delCost.getD 0 + 4 * p.prio.getD 0) := by
  unfold isEmpty
  rw [decide_eq_true_iff, podCostSum_le_zero]
  constructor
  · intro h p hp hpos
    have := (evictionCost_pos_iff p).mpr hpos
    have := h p hp
    omega
  · intro h p hp
    have := h p hp
    have h2 := (evictionCost_pos_iff p)
    by_cases hx : 0 < evictionCostScaled p
    · exact absurd (h2.mp hx) this
    · omega

/-- the model's rule and the specification's `evictionCostPositive` are the same predicate -/
theorem C06_empty_spec (infos : List (Karp.Spec.Consolidation.PodInfo)) :
    isEmpty (infos.map (fun i => { delCost := i.delCost, prio := i.prio })) =
      infos.all (fun i => !Karp.Spec.Consolidation.evictionCostPositive i) := by
  have h := C06_empty (infos.map (fun i => ({ delCost := i.delCost, prio := i.prio } : PodCost)))
  cases hb : isEmpty (infos.map (fun i => ({ delCost := i.delCost, prio := i.prio } : PodCost))) with
  | true =>
    symm
    rw [List.all_eq_true]
    intro i hi
    have := h.mp hb _ (List.mem_map.mpr ⟨i, hi, rfl⟩)
    simp only [Karp.Spec.Consolidation.evictionCostPositive, Bool.not_eq_true', decide_eq_false_iff_not]
    simp only at this
    omega
  | false =>
    symm
    cases ha : infos.all (fun i => !Karp.Spec.Consolidation.evictionCostPositive i) with
    | false => rfl
    | true =>
      exfalso
      have : isEmpty (infos.map (fun i => ({ delCost := i.delCost, prio := i.prio } : PodCost))) = true := by
        apply h.mpr
        intro p hp
        obtain ⟨i, hi, rfl⟩ := List.mem_map.mp hp
        have := List.all_eq_true.mp ha i hi
        simp only [Karp.Spec.Consolidation.evictionCostPositive, Bool.not_eq_true', decide_eq_false_iff_not] at this
        simp only
        omega
      rw [this] at hb; cases hb

/-! ### Emptiness: the command that is released after the validation delay -/

/-- **C06_empty_validated** — the Emptiness command that is RELEASED after the validation delay removes only nodes that
    were in the computed command AND are still candidates after the wait (`current`: what `GetCandidates` returns under
    `Emptiness.ShouldDisrupt`, i.e. nodes that are empty THEN) and are not nominated; it is never empty; and no NodePool
    loses more nodes than its budget at that moment allows.  So a node that received a pod during the wait — and for that
    reason is no longer among `current` — is not deleted, whatever happens to the other candidates of the command. -/
theorem C06_empty_validated (poolOf : String → String) (nominated : String → Bool) (budgets : List (String × Nat))
    (cmd current rel : List String) (h : emptinessValidate poolOf nominated budgets cmd current = some rel) :
    rel ≠ [] ∧ (∀ n ∈ rel, n ∈ cmd ∧ n ∈ current ∧ nominated n = false) ∧
    (∀ p, (rel.filter (fun n => poolOf n == p)).length ≤ (budgets.lookup p).getD 0) := by
  obtain ⟨hne, hrel⟩ := emptinessValidate_some poolOf nominated budgets cmd current rel h
  refine ⟨hne, ?_, ?_⟩
  · intro n hn
    rw [hrel] at hn
    obtain ⟨hm, hnom⟩ := budgetFilter_mem poolOf nominated _ _ n hn
    obtain ⟨hc, hp⟩ := (mapCandidates_mem cmd current n).mp hm
    exact ⟨hp, hc, hnom⟩
  · intro p
    rw [hrel]
    exact budgetFilter_budget poolOf nominated _ budgets p

/-- … and `Emptiness.ComputeCommands` returns exactly that command, or none: nothing outside `cmd ∩ current` is ever
    released -/
theorem C06_empty_release_subset (poolOf : String → String) (nominated : String → Bool) (budgets : List (String × Nat))
    (cmd current : List String) :
    ∀ n ∈ emptinessRelease poolOf nominated budgets cmd current, n ∈ cmd ∧ n ∈ current := by
  intro n hn
  unfold emptinessRelease at hn
  cases h : emptinessValidate poolOf nominated budgets cmd current with
  | none => rw [h] at hn; simp at hn
  | some rel =>
    rw [h] at hn
    have := (C06_empty_validated poolOf nominated budgets cmd current rel h).2.1 n (by simpa using hn)
    exact ⟨this.1, this.2.1⟩

/-- where neither a budget binds nor a node is nominated, validation is EXACT: every candidate of the command that is
    still a candidate is released (a still-empty node is not dropped because another one received a pod) -/
theorem C06_empty_validate_exact (poolOf : String → String) (nominated : String → Bool) (budgets : List (String × Nat))
    (cmd current : List String)
    (hb : ∀ p, ((mapCandidates cmd current).filter (fun n => !nominated n && poolOf n == p)).length ≤ (budgets.lookup p).getD 0) :
    emptinessRelease poolOf nominated budgets cmd current = (mapCandidates cmd current).filter (fun n => !nominated n) := by
  unfold emptinessRelease emptinessValidate
  simp only
  rw [budgetFilter_exact poolOf nominated _ budgets hb]
  cases h1 : mapCandidates cmd current with
  | nil => rfl
  | cons a as =>
    cases h2 : List.filter (fun n => !nominated n) (a :: as) with
    | nil => rfl
    | cons b bs => rfl

/-- **C06_empty_at_release** — the property's third sentence AT RELEASE: if every node `GetCandidates` returns after the
    wait is empty by `IsEmpty` at that moment (that is `Emptiness.ShouldDisrupt`; `pods n` = the eviction-cost inputs of the
    reschedulable pods on `n` after the wait), then no reschedulable pod on a released node has a positive eviction cost. -/
theorem C06_empty_at_release (poolOf : String → String) (nominated : String → Bool) (budgets : List (String × Nat))
    (cmd current rel : List String) (pods : String → List PodCost)
    (h : emptinessValidate poolOf nominated budgets cmd current = some rel)
    (hcur : ∀ n ∈ current, isEmpty (pods n) = true) :
    ∀ n ∈ rel, ∀ p ∈ pods n, ¬ (0 < (2 : Int) ^ 27 + p.delCost.getD 0 + 4 * p.prio.getD 0) := by
  intro n hn
  have := (C06_empty_validated poolOf nominated budgets cmd current rel h).2.1 n hn
  exact (C06_empty (pods n)).mp (hcur n this.2.1)

/-- **C06_empty_release_spec** — the model's released Emptiness command passes the SAME executable `empty` rule the driver
    evaluates on the real command, on the cluster as it is at release (`s`: the scenario after the change), provided the
    still-valid candidates are empty by `isEmpty` there (checked by the driver on what the real `GetCandidates` returns). -/
theorem C06_empty_release_spec (s : Karp.Scn.Scenario) (infos : List Karp.Spec.Consolidation.PodInfo)
    (poolOf : String → String) (nominated : String → Bool) (budgets : List (String × Nat)) (cmd current : List String)
    (hcur : ∀ n ∈ current, ∀ nd, s.node? n = some nd →
      isEmpty (((Karp.Spec.Consolidation.reschedulable infos nd).map (fun p => Karp.Spec.Consolidation.infoOf infos p.name)).map
        (fun i => { delCost := i.delCost, prio := i.prio })) = true)
    (c : Karp.Spec.Consolidation.Command) (hc : c.cands = emptinessRelease poolOf nominated budgets cmd current) :
    Karp.Spec.Consolidation.emptyRule s infos c = none := by
  unfold Karp.Spec.Consolidation.emptyRule
  split
  · rfl
  · apply firstV_none
    intro v hv
    obtain ⟨nd, hnd, rfl⟩ := List.mem_map.mp hv
    obtain ⟨n, hn, hsn⟩ := List.mem_filterMap.mp hnd
    rw [hc] at hn
    have hin := (C06_empty_release_subset poolOf nominated budgets cmd current n hn).2
    have he := hcur n hin nd hsn
    rw [C06_empty_spec] at he
    have hnone : (Karp.Spec.Consolidation.reschedulable infos nd).find?
        (fun p => Karp.Spec.Consolidation.evictionCostPositive (Karp.Spec.Consolidation.infoOf infos p.name)) = none := by
      rw [List.find?_eq_none]
      intro p hp
      have := List.all_eq_true.mp he (Karp.Spec.Consolidation.infoOf infos p.name) (List.mem_map.mpr ⟨p, hp, rfl⟩)
      simpa using this
    rw [hnone]

/-- non-vacuity: two empty candidates, `n2` receives a pod during the wait (it is no longer among the current candidates):
    only `n1` is released; when both receive one, no command is released; a nominated node is dropped; a budget of one
    lets one node through -/
example : emptinessValidate (fun _ => "pool") (fun _ => false) [("pool", 5)] ["n1", "n2"] ["n3", "n1"] = some ["n1"] := by decide
example : emptinessValidate (fun _ => "pool") (fun _ => false) [("pool", 5)] ["n1", "n2"] ["n3"] = none := by decide
example : emptinessValidate (fun _ => "pool") (fun n => n == "n1") [("pool", 5)] ["n1", "n2"] ["n2", "n1"] = some ["n2"] := by decide
example : emptinessValidate (fun _ => "pool") (fun _ => false) [("pool", 1)] ["n1", "n2"] ["n2", "n1"] = some ["n2"] := by decide
example : emptinessRelease (fun _ => "pool") (fun _ => false) [] ["n1"] ["n1"] = [] := by decide
/-- … and what the property forbids — releasing the command AS COMPUTED — differs from the model on that input -/
example : emptinessRelease (fun _ => "pool") (fun _ => false) [("pool", 5)] ["n1", "n2"] ["n3", "n1"] ≠ ["n1", "n2"] := by decide

/-! ## The model's decision meets the executable specification

The driver evaluates `Karp.Spec.Consolidation` on the commands of the REAL code.  These theorems say that the MODEL's
decision, read as a command over the scenario it was computed for (`candOf`, `itypeOf`: `Karp/Model/ConsolidateScn.lean`),
passes the price and the spot-to-spot clauses of that same specification — for every scenario, candidate list, simulation
result and gate value. -/

/-- **C06_spec_strictly_cheaper** — the specification's "every permitted launch is strictly cheaper than the removed nodes
    together" holds of the model's replace decision. -/
theorem C06_spec_strictly_cheaper (s : Karp.Scn.Scenario) (ridKey : String) (hrid : ridKey ≠ ctKey) (gate : Bool)
    (nodes : List Karp.Scn.Node) (hnodes : ∀ n ∈ nodes, s.node? n.name = some n)
    (sim : Sim) (R' : Reqs) (kept : List IType) (n : Nat) (c : Karp.Consolidate.Claim)
    (hdec : compute ridKey gate (nodes.map (candOf s)) sim = .replace R' kept n) (hc : sim.claims = [c])
    (hyp : ClaimHyps ridKey c)
    (hcat : ∀ it ∈ kept, ∃ sit, s.it? it.name = some sit ∧ itypeOf sit = it)
    (cmd : Karp.Spec.Consolidation.Command) (hcands : cmd.cands = nodes.map (·.name))
    (cl : Karp.Scn.Claim) (hrepl : cmd.repl = [cl]) (hreqs : cl.reqs = R') (hits : cl.its = (kept.take n).map (·.name)) :
    Karp.Spec.Consolidation.strictlyCheaper s ridKey cmd = none := by
  obtain ⟨c', hc', hp⟩ := C06_price ridKey hrid gate _ sim R' kept n hdec
  have : c' = c := by rw [hc] at hc'; exact (List.cons.inj hc').1.symm
  subst this
  have hprice := hp hyp
  unfold Karp.Spec.Consolidation.strictlyCheaper
  rw [hrepl, hcands, combinedPrice_eq s nodes hnodes]
  apply firstV_none
  intro v hv
  simp only [List.map_cons, List.map_nil, List.mem_singleton] at hv
  subst hv
  apply firstV_none
  intro v hv
  obtain ⟨itn, hitn, rfl⟩ := List.mem_map.mp hv
  rw [hits] at hitn
  obtain ⟨it, hit, rfl⟩ := List.mem_map.mp hitn
  have hk : it ∈ kept := List.mem_of_mem_take hit
  obtain ⟨sit, hs, he⟩ := hcat it hk
  simp only [hs]
  have hnone : (Karp.Spec.Consolidation.launches ridKey cl.reqs sit).find?
      (fun o => decide (sumPrices (nodes.map (candOf s)) ≤ o.price)) = none := by
    rw [List.find?_eq_none]
    intro o ho
    have ho' := List.mem_filter.mp ho
    have hav : o.available = true := by
      have := ho'.2; cases h1 : o.available <;> simp_all
    have hperm : Karp.Spec.Consolidation.permits ridKey cl.reqs o = true := by
      have := ho'.2; cases h1 : Karp.Spec.Consolidation.permits ridKey cl.reqs o <;> simp_all
    rw [permits_eq, hreqs] at hperm
    have hmem : offeringOf o ∈ it.offerings := by
      rw [← he]; exact List.mem_map.mpr ⟨o, ho'.1, rfl⟩
    have := hprice it hk (offeringOf o) hmem hav hperm
    simp only [offeringOf] at this
    simp only [decide_eq_true_eq]
    omega
  rw [hnone]


/-- **C06_spec_spot_to_spot** — the specification's spot-to-spot clause (gate, and for a single node at least 15
    launchable options) holds of the model's replace decision. -/
theorem C06_spec_spot_to_spot (s : Karp.Scn.Scenario) (ridKey : String) (gate : Bool)
    (nodes : List Karp.Scn.Node) (hnodes : ∀ n ∈ nodes, s.node? n.name = some n)
    (sim : Sim) (R' : Reqs) (kept : List IType) (n : Nat) (c : Karp.Consolidate.Claim)
    (hdec : compute ridKey gate (nodes.map (candOf s)) sim = .replace R' kept n) (hc : sim.claims = [c])
    (hcat : ∀ it ∈ kept, ∃ sit, s.it? it.name = some sit ∧ itypeOf sit = it)
    (cmd : Karp.Spec.Consolidation.Command) (hcands : cmd.cands = nodes.map (·.name))
    (cl : Karp.Scn.Claim) (hrepl : cmd.repl = [cl]) (hreqs : cl.reqs = R') (hits : cl.its = (kept.take n).map (·.name)) :
    Karp.Spec.Consolidation.spotToSpot s ridKey gate cmd = none := by
  unfold Karp.Spec.Consolidation.spotToSpot
  rw [hrepl]
  apply firstV_none
  intro v hv
  simp only [List.map_cons, List.map_nil, List.mem_singleton] at hv
  subst hv
  by_cases hcond : (Karp.Spec.Consolidation.allSpot s cmd.cands && (cl.reqs.get Karp.Spec.Consolidation.ctKey).has "spot") = true
  · rw [if_pos hcond]
    have hk : Karp.Spec.Consolidation.ctKey = ctKey := by decide
    have hsp : ("spot" : String) = spot := by decide
    rw [hcands, allSpot_eq s nodes hnodes, hk, hsp, hreqs] at hcond
    have hall : (nodes.map (candOf s)).all (fun cn => cn.ct == spot) = true := by
      cases hx : (nodes.map (candOf s)).all (fun cn => cn.ct == spot) <;> simp_all
    have hR' : (R'.get ctKey).has spot = true := by
      cases hx : (R'.get ctKey).has spot <;> simp_all
    -- the simulated claim could launch spot, too
    obtain ⟨_, c', hc', hb⟩ := compute_replace_inv ridKey gate _ sim R' kept n hdec
    have : c' = c := by rw [hc] at hc'; exact (List.cons.inj hc').1.symm
    subst this
    have hmay : (c'.reqs.get ctKey).has spot = true := by
      cases hb with
      | spot _ _ hR _ _ _ => subst hR; exact get_add1_spot_has _ _ hR'
      | general _ _ _ hR _ =>
        subst hR
        split at hR'
        · exact get_add1_spot_has _ _ hR'
        · exact hR'
    obtain ⟨hg, _, hlaunch, hlen⟩ := C06_spot_to_spot ridKey gate _ sim R' kept n c' hdec hc hall hmay
    simp only [hg, Bool.not_true, Bool.false_eq_true, if_false]
    have hlt : (Karp.Spec.Consolidation.launchableTypes s ridKey cl).length = (kept.take n).length := by
      unfold Karp.Spec.Consolidation.launchableTypes
      rw [hits, hreqs]
      exact launchable_length s ridKey R' (kept.take n)
        (fun it hit => hcat it (List.mem_of_mem_take hit)) (fun it hit => hlaunch it (List.mem_of_mem_take hit))
    by_cases h1 : (cmd.cands.length == 1) = true
    · have hone : (nodes.map (candOf s)).length ≤ 1 := by
        rw [hcands] at h1
        simp only [List.length_map, beq_iff_eq] at h1 ⊢
        omega
      have := hlen hone
      have hfloor : Karp.Spec.Consolidation.spotFloor = minSpot := by decide
      rw [hlt, hfloor]
      simp only [h1, Bool.true_and]
      rw [if_neg (by simp only [decide_eq_true_eq]; omega)]
    · simp [h1]
  · rw [if_neg hcond]


/-! ## The launch cap (`Results.TruncateInstanceTypes`)

`C06_feasible` starts from a simulation that "scheduled every non-pending pod".  Between the solver and that reading sits
the cut to the `MaxInstanceTypes` cheapest options; these theorems say that the cut cannot make pods disappear from the
account: every pod of a new NodeClaim is, after the cut, either still on a NodeClaim or an entry of `PodErrors`, so a
simulation that lost a NodeClaim to the cap is never read as "all scheduled" and yields no command. -/

/-- **C06_truncate_accounts** — no pod vanishes: after the cut every pod of the solver's new NodeClaims is on a remaining
    NodeClaim or reported as a pod error. -/
theorem C06_truncate_accounts (strict : Bool) (cap : Nat) (claims : List PClaim) (p : String)
    (hp : p ∈ claims.flatMap (·.pods)) :
    p ∈ (truncateResults strict cap claims).1.flatMap (·.pods) ∨ p ∈ (truncateResults strict cap claims).2 := by
  induction claims with
  | nil => simp at hp
  | cons c cs ih =>
    simp only [List.flatMap_cons, List.mem_append] at hp
    unfold truncateResults
    cases ht : truncateTypes strict cap c.claim.reqs c.claim.its with
    | none =>
      simp only [List.mem_append]
      rcases hp with h | h
      · exact Or.inr (Or.inl h)
      · rcases ih h with h' | h'
        · exact Or.inl h'
        · exact Or.inr (Or.inr h')
    | some t =>
      simp only [List.flatMap_cons, List.mem_append]
      rcases hp with h | h
      · exact Or.inl (Or.inl h)
      · rcases ih h with h' | h'
        · exact Or.inl (Or.inr h')
        · exact Or.inr h'

/-- the NodeClaims that remain are NodeClaims of the solver's result, in order, each cut to a prefix of at most `cap`
    options that still meets minValues under the Strict policy -/
theorem C06_truncate_kept (strict : Bool) (cap : Nat) (claims : List PClaim) (k : PClaim)
    (hk : k ∈ (truncateResults strict cap claims).1) :
    ∃ c ∈ claims, k.pods = c.pods ∧ k.claim.reqs = c.claim.reqs ∧ k.claim.its = c.claim.its.take cap ∧
      k.claim.its.length ≤ cap ∧ (strict = true → (satisfiesMinValues k.claim.reqs k.claim.its).2 = false) := by
  induction claims with
  | nil => simp [truncateResults] at hk
  | cons c cs ih =>
    unfold truncateResults at hk
    cases ht : truncateTypes strict cap c.claim.reqs c.claim.its with
    | none =>
      rw [ht] at hk
      obtain ⟨c', hc', h⟩ := ih hk
      exact ⟨c', List.mem_cons_of_mem _ hc', h⟩
    | some t =>
      rw [ht] at hk
      simp only [List.mem_cons] at hk
      rcases hk with rfl | hk
      · refine ⟨c, List.mem_cons_self, rfl, rfl, ?_, ?_, ?_⟩
        · unfold truncateTypes at ht
          simp only at ht
          split at ht
          · cases ht
          · exact (Option.some.inj ht).symm
        · unfold truncateTypes at ht
          simp only at ht
          split at ht
          · cases ht
          · have := (Option.some.inj ht).symm
            simp only [this, List.length_take]
            omega
        · intro hs
          unfold truncateTypes at ht
          simp only at ht
          split at ht
          · cases ht
          · rename_i hcond
            have ht' := (Option.some.inj ht).symm
            simp only [ht']
            subst hs
            unfold satisfiesMinValues at hcond ⊢
            unfold hasMinValues at hcond
            by_cases hm : (minKeys c.claim.reqs).isEmpty = true
            · simp [hm]
            · simp only [hm, Bool.not_false, Bool.true_and, Bool.and_true] at hcond
              simpa [hm] using hcond
      · obtain ⟨c', hc', h⟩ := ih hk
        exact ⟨c', List.mem_cons_of_mem _ hc', h⟩

/-- **C06_cap_no_silent_loss** — a simulation that lost a NodeClaim (with a pod on it) to the cap is not read as "all
    scheduled": `computeConsolidation` returns no command for it, whatever the candidates and the gate. -/
theorem C06_cap_no_silent_loss (ridKey : String) (gate : Bool) (cands : List Cand) (strict : Bool) (cap : Nat)
    (errs : List String) (claims : List PClaim) (p : String) (hp : p ∈ claims.flatMap (·.pods))
    (hlost : p ∉ (truncateResults strict cap claims).1.flatMap (·.pods)) :
    compute ridKey gate cands (simAfterCap strict cap errs claims) = .noop := by
  have hacc := C06_truncate_accounts strict cap claims p hp
  have herr : p ∈ (truncateResults strict cap claims).2 := by
    rcases hacc with h | h
    · exact absurd h hlost
    · exact h
  have hne : (errs ++ (truncateResults strict cap claims).2).isEmpty = false := by
    cases hx : errs ++ (truncateResults strict cap claims).2 with
    | nil =>
      have : p ∈ errs ++ (truncateResults strict cap claims).2 := List.mem_append.mpr (Or.inr herr)
      rw [hx] at this; cases this
    | cons _ _ => rfl
  unfold compute simAfterCap
  simp [hne]

/-- the shape of the seeded witness: three cheap amd64 types, one dear arm64 type, arch minValues 2, cap 3 — the cut list
    is all amd64, the NodeClaim is dropped, its pod is reported, no command -/
def capTypes : List IType :=
  [{ name := "a1", offerings := [ofr "z1" "on-demand" 10], vals := [("kubernetes.io/arch", ["amd64"])] },
   { name := "a2", offerings := [ofr "z1" "on-demand" 11], vals := [("kubernetes.io/arch", ["amd64"])] },
   { name := "a3", offerings := [ofr "z1" "on-demand" 12], vals := [("kubernetes.io/arch", ["amd64"])] },
   { name := "b1", offerings := [ofr "z1" "on-demand" 50], vals := [("kubernetes.io/arch", ["arm64"])] }]
def capReqs : Reqs := [("kubernetes.io/arch", { key := "kubernetes.io/arch", complement := false, values := ["amd64", "arm64"], minValues := some 2 })]
def capClaim : PClaim := { pods := ["p"], claim := { reqs := capReqs, its := capTypes } }
example : (truncateResults true 3 [capClaim]).1.length = 0 ∧ (truncateResults true 3 [capClaim]).2 = ["p"] := by decide
example : (truncateResults true 4 [capClaim]).1.length = 1 ∧ (truncateResults true 4 [capClaim]).2 = [] := by decide
example : (truncateResults false 3 [capClaim]).1.length = 1 := by decide
example : (simAfterCap true 3 [] [capClaim]).allScheduled = false := by decide
example : (simAfterCap true 4 [] [capClaim]).allScheduled = true := by decide

/-- the code: the pods of a dropped NodeClaim are stored into `r.PodErrors` — the map of the Results value that is
    RETURNED (`return r`; `r` is the value receiver, its `NewNodeClaims` replaced by the valid ones) -/
theorem fact_truncate_results :
    Karp.Gen.C06Facts.truncateResultsOutlineRecv = "r Results" ∧
    Karp.Gen.C06Facts.truncateResultsOutline =
      ["var validNewNodeClaims",
       "for _, newNodeClaim := range r.NewNodeClaims",
       "var err",
       "newNodeClaim.InstanceTypeOptions, err = newNodeClaim.InstanceTypeOptions.Truncate(…)",
       "if err != nil",
       "for _, pod := range newNodeClaim.Pods",
       "r.PodErrors[pod] = serrors.Wrap(…)",
       "end",
       "else",
       "validNewNodeClaims = append(…)",
       "end",
       "end",
       "r.NewNodeClaims = validNewNodeClaims",
       "return r"] := by decide

/-- `InstanceTypes.Truncate`: the first `maxItems` of the price order; the minValues error under the Strict policy only -/
theorem fact_truncate_types :
    Karp.Gen.C06Facts.truncateTypesOutline =
      ["truncatedInstanceTypes := lo.Slice(…)",
       "if requirements.HasMinValues()",
       "if options.FromContext(ctx).MinValuesPolicy != options.MinValuesPolicyBestEffort",
       "if err != nil",
       "return its, fmt.Errorf(…)",
       "end", "end", "end",
       "return truncatedInstanceTypes, nil"] := by decide

/-- "all non-pending pods scheduled" is read off `PodErrors` -/
theorem fact_all_scheduled_reads_pod_errors :
    Karp.Gen.C06Facts.allNonPendingCmps =
      ["len(lo.OmitBy(r.PodErrors, (func(p *corev1.Pod, err error) bool literal))) == 0"] := by decide

/-! ## What the simulation may leave out (facts)

`C06_feasible` speaks about "every non-pending pod" of the simulation.  Which pods the real simulation covers, and which of
its errors it may ignore, is code outside the model; these regenerated facts pin the three places where a realistic change
silently shrinks that set (each also has generated inputs and a corpus witness judged by the specification). -/

/-- an ignorable pod error is one of a pod that was ALREADY unschedulable (`IsProvisionable`: unbound, marked unschedulable
    by kube-scheduler) — never "phase Pending", which also holds of a pod bound to the candidate that is still starting -/
theorem fact_ignorable_errors :
    Karp.Gen.C06Facts.allNonPendingCalls = ["IsProvisionable"] ∧
    Karp.Gen.C06Facts.nonPendingErrorsCalls = ["IsProvisionable"] := by decide

/-- `pdb.Limits.isEvictable`: the `unhealthyPodEvictionPolicy: AlwaysAllow` exception for a pod that reports Ready=False is
    taken BEFORE the blocker-specific test, so `CanEvictPods` (is the node a candidate?) and `isFullyBlocked` /
    `IsCurrentlyReschedulable` (is the pod part of the simulation?) agree on it -/
theorem fact_pdb_unhealthy_exception :
    Karp.Gen.C06Facts.pdbIsEvictableOutline =
      ["if !podutil.IsEvictable(pod, clk, recorder)", "return []client.ObjectKey{}, true", "end",
       "matchingPDBs := lo.Filter(…)",
       "if len(matchingPDBs) > 1", "return lo.Map(…), false", "end",
       "for _, pdb := range matchingPDBs",
       "if pdb.canAlwaysEvictUnhealthyPods",
       "for _, c := range pod.Status.Conditions",
       "if c.Type == v1.PodReady && c.Status == v1.ConditionFalse",
       "return []client.ObjectKey{}, true",
       "end", "end", "end",
       "(other statement)",
       "end",
       "return []client.ObjectKey{}, true"] := by decide

/-- NodeOverlay prices: the store writes an adjusted price into a fresh COPY of the offering (`&cloudprovider.Offering{…}`)
    and shares the provider's object only where nothing is adjusted — a relative adjustment is applied once per call, to
    the provider's price, and cannot compound over the several `GetInstanceTypes` calls of one disruption pass -/
theorem fact_overlay_copies_offering :
    Karp.Gen.C06Facts.applyPriceOverlaysOutline =
      ["result := make(…)",
       "for i, offering := range offerings",
       "if ok",
       "copiedOffering := &cloudprovider.Offering{…}",
       "(other statement)",
       "result[i] = copiedOffering",
       "else",
       "result[i] = offering",
       "end", "end",
       "return result"] := by decide

/-! ## Price tables per NodePool

Prices belong to the NodePool that buys: `Karp.Spec.Consolidation.Tables`.  The model needs no change — a candidate
carries the offerings of its type as ITS NodePool is charged for them (`Cand.offerings`: `NewCandidate` resolves
`Candidate.Price` from `nodePoolToInstanceTypesMap[candidate's NodePool]`), the options of the simulated NodeClaim are the
replacement NodePool's instance types — and `C06_price` holds for ALL candidate lists and option lists.  What has to be
shown is that the model's decision, fed that way, passes the specification that prices each removed node at its own
NodePool's price and each launch at the replacement NodePool's price. -/

/-- **C06_tables_conservative** — without per-NodePool tables the specification is the one-catalog specification. -/
theorem C06_tables_conservative (s : Karp.Scn.Scenario) (ridKey : String) (gate : Bool)
    (infos : List Karp.Spec.Consolidation.PodInfo) (cmd : Karp.Spec.Consolidation.Command) (cands : List String) (w : Bool) :
    Karp.Spec.Consolidation.commandOKT [] s ridKey gate infos cmd cands w =
      Karp.Spec.Consolidation.commandOK s ridKey gate infos cmd cands w := by
  have hv : ∀ p, Karp.Spec.Consolidation.poolView [] s p = s := fun _ => rfl
  have h1 : Karp.Spec.Consolidation.strictlyCheaperT [] s ridKey cmd = Karp.Spec.Consolidation.strictlyCheaper s ridKey cmd := by
    simp only [Karp.Spec.Consolidation.strictlyCheaperT, Karp.Spec.Consolidation.strictlyCheaper,
      Karp.Spec.Consolidation.combinedPriceT, Karp.Spec.Consolidation.combinedPrice, hv]
    rfl
  have h2 : Karp.Spec.Consolidation.spotToSpotT [] s ridKey gate cmd = Karp.Spec.Consolidation.spotToSpot s ridKey gate cmd := by
    simp only [Karp.Spec.Consolidation.spotToSpotT, Karp.Spec.Consolidation.spotToSpot, hv]
    try rfl
  have h3 : Karp.Spec.Consolidation.onDemandFallbackT [] s ridKey cmd = Karp.Spec.Consolidation.onDemandFallback s ridKey cmd := by
    simp only [Karp.Spec.Consolidation.onDemandFallbackT, Karp.Spec.Consolidation.onDemandFallback,
      Karp.Spec.Consolidation.combinedPriceT, Karp.Spec.Consolidation.combinedPrice, hv]
    try rfl
  simp only [Karp.Spec.Consolidation.commandOKT, Karp.Spec.Consolidation.commandOK, h1, h2, h3]
  cases cmd.repl <;> rfl

/-- **C06_spec_strictly_cheaper_tables** — with prices per NodePool: the model's replace decision, computed from candidates
    that carry their OWN NodePool's offerings and a simulated NodeClaim whose options are the REPLACEMENT NodePool's
    instance types, passes the specification's "every permitted launch (at the replacement NodePool's price) is strictly
    cheaper than the removed nodes together (each at its own NodePool's price)". -/
theorem C06_spec_strictly_cheaper_tables (t : Karp.Spec.Consolidation.Tables) (s : Karp.Scn.Scenario) (ridKey : String)
    (hrid : ridKey ≠ ctKey) (gate : Bool)
    (nodes : List Karp.Scn.Node) (hnodes : ∀ n ∈ nodes, s.node? n.name = some n)
    (sim : Sim) (R' : Reqs) (kept : List IType) (n : Nat) (c : Karp.Consolidate.Claim)
    (hdec : compute ridKey gate (nodes.map (fun nd => candOf (Karp.Spec.Consolidation.poolView t s nd.pool) nd)) sim = .replace R' kept n)
    (hc : sim.claims = [c]) (hyp : ClaimHyps ridKey c)
    (cmd : Karp.Spec.Consolidation.Command) (hcands : cmd.cands = nodes.map (·.name))
    (cl : Karp.Scn.Claim) (hrepl : cmd.repl = [cl]) (hreqs : cl.reqs = R') (hits : cl.its = (kept.take n).map (·.name))
    (hcat : ∀ it ∈ kept, ∃ sit, (Karp.Spec.Consolidation.poolView t s cl.pool).it? it.name = some sit ∧ itypeOf sit = it) :
    Karp.Spec.Consolidation.strictlyCheaperT t s ridKey cmd = none := by
  obtain ⟨c', hc', hp⟩ := C06_price ridKey hrid gate _ sim R' kept n hdec
  have : c' = c := by rw [hc] at hc'; exact (List.cons.inj hc').1.symm
  subst this
  have hprice := hp hyp
  unfold Karp.Spec.Consolidation.strictlyCheaperT
  rw [hrepl, hcands, combinedPriceT_eq t s nodes hnodes]
  apply firstV_none
  intro v hv
  simp only [List.map_cons, List.map_nil, List.mem_singleton] at hv
  subst hv
  apply firstV_none
  intro v hv
  obtain ⟨itn, hitn, rfl⟩ := List.mem_map.mp hv
  rw [hits] at hitn
  obtain ⟨it, hit, rfl⟩ := List.mem_map.mp hitn
  have hk : it ∈ kept := List.mem_of_mem_take hit
  obtain ⟨sit, hs, he⟩ := hcat it hk
  simp only [hs]
  have hnone : (Karp.Spec.Consolidation.launches ridKey cl.reqs sit).find?
      (fun o => decide (sumPrices (nodes.map (fun nd => candOf (Karp.Spec.Consolidation.poolView t s nd.pool) nd)) ≤ o.price)) = none := by
    rw [List.find?_eq_none]
    intro o ho
    have ho' := List.mem_filter.mp ho
    have hav : o.available = true := by
      have := ho'.2; cases h1 : o.available <;> simp_all
    have hperm : Karp.Spec.Consolidation.permits ridKey cl.reqs o = true := by
      have := ho'.2; cases h1 : Karp.Spec.Consolidation.permits ridKey cl.reqs o <;> simp_all
    rw [permits_eq, hreqs] at hperm
    have hmem : offeringOf o ∈ it.offerings := by
      rw [← he]; exact List.mem_map.mpr ⟨o, ho'.1, rfl⟩
    have := hprice it hk (offeringOf o) hmem hav hperm
    simp only [offeringOf] at this
    simp only [decide_eq_true_eq]
    omega
  rw [hnone]

/-- the code: `BuildNodePoolMap` asks the provider for the instance types of EVERY NodePool (one unguarded
    `GetInstanceTypes` call per iteration, stored under that NodePool's name), and `NewCandidate` prices the node from it -/
theorem fact_node_pool_map :
    Karp.Gen.C06Facts.buildNodePoolMapOutline =
      ["nodePoolMap := map[string]*v1.NodePool{}",
       "nodePools, err := nodepoolutils.ListManaged(…)",
       "if err != nil", "return nil, nil, fmt.Errorf(…)", "end",
       "nodePoolToInstanceTypesMap := map[string]map[string]*cloudprovider.InstanceType{}",
       "for _, np := range nodePools",
       "nodePoolMap[np.Name] = np",
       "nodePoolInstanceTypes, err := cloudProvider.GetInstanceTypes(…)",
       "if err != nil",
       "if cloudprovider.IsUnevaluatedNodePoolError(err)", "(other statement)", "(other statement)", "end",
       "(other statement)", "(other statement)", "end",
       "if len(nodePoolInstanceTypes) == 0", "(other statement)", "end",
       "nodePoolToInstanceTypesMap[np.Name] = map[string]*cloudprovider.InstanceType{}",
       "for _, it := range nodePoolInstanceTypes",
       "nodePoolToInstanceTypesMap[np.Name][it.Name] = it",
       "end", "end",
       "return nodePoolMap, nodePoolToInstanceTypesMap, nil"] ∧
    Karp.Gen.C06Facts.newCandidateCalls = ["resolveNodePrice"] := by decide

/-! Non-vacuity and necessity: NodePool `b` is charged a quarter of the list price for `big`.  A `big` node of `b` (250)
    may not be replaced by `small` from NodePool `a` (300 on demand) although 300 is below `big`'s LIST price 1000 — pricing
    the candidate by another NodePool's table (here: the catalog) is exactly what the specification rejects. -/
def tblScn : Karp.Scn.Scenario :=
  { its := [{ name := "big", cpu := 8000, mem := 8000, pods := 10, arch := "amd64", os := ["linux"], overhead := 0,
              offerings := [{ zone := "z1", ct := "on-demand", price := 1000, available := true, resID := "", resN := 0 }] },
            { name := "small", cpu := 2000, mem := 2000, pods := 10, arch := "amd64", os := ["linux"], overhead := 0,
              offerings := [{ zone := "z1", ct := "on-demand", price := 300, available := true, resID := "", resN := 0 }] }],
    pools := [], daemonsets := [], pods := [], ignorePreferences := false, bestEffortMinValues := false, parallelism := 1,
    reservedCapacity := false,
    nodes := [{ name := "n1", pool := "b", it := "big", zone := "z1", ct := "on-demand", labels := [], taints := [], stage := "initialized",
                deleting := false, pods := [] }] }
def tblB : Karp.Spec.Consolidation.Tables :=
  [("b", [{ name := "big", cpu := 8000, mem := 8000, pods := 10, arch := "amd64", os := ["linux"], overhead := 0,
            offerings := [{ zone := "z1", ct := "on-demand", price := 250, available := true, resID := "", resN := 0 }] },
          { name := "small", cpu := 2000, mem := 2000, pods := 10, arch := "amd64", os := ["linux"], overhead := 0,
            offerings := [{ zone := "z1", ct := "on-demand", price := 75, available := true, resID := "", resN := 0 }] }])]
def tblCmd (pool : String) : Karp.Spec.Consolidation.Command :=
  { method := "single", cands := ["n1"], existing := [], errors := [], newClaims := 1,
    repl := [{ pool := pool, pods := [], reqs := [], its := ["small"], reqCPU := 0, reqMem := 0, reqPods := 0, taints := [] }] }

example : Karp.Spec.Consolidation.combinedPriceT tblB tblScn ["n1"] = 250 := by decide
example : Karp.Spec.Consolidation.combinedPrice tblScn ["n1"] = 1000 := by decide
/-- replaced from NodePool `a` (list prices): 300 is not below 250 — rejected, although the one-catalog reading accepts -/
theorem C06_tables_needed :
    (Karp.Spec.Consolidation.strictlyCheaperT tblB tblScn "rid" (tblCmd "a")).isSome = true ∧
    Karp.Spec.Consolidation.strictlyCheaper tblScn "rid" (tblCmd "a") = none := by decide
/-- replaced within NodePool `b` (75 < 250): accepted -/
example : Karp.Spec.Consolidation.strictlyCheaperT tblB tblScn "rid" (tblCmd "b") = none := by decide

/-! ## Non-vacuity: concrete catalogs exercising every branch -/

def odCand : Cand := { name := "n1", itName := "big", zone := "z1", ct := "on-demand", offerings := big.offerings }
def spotCand : Cand := { name := "n2", itName := "big", zone := "z1", ct := "spot", offerings := big.offerings }
def claim0 : Claim := { reqs := [], its := [small, mid, big] }
def sim0 : Sim := { allScheduled := true, claims := [claim0] }

/-- on-demand → spot: all three survive on their spot prices (100, 350, 400 < 1000) and the request is pinned to spot;
    `mid`'s on-demand offering (1200 ≥ 1000) is exactly what the pin excludes -/
example : (compute "rid" false [odCand] sim0).its.map (·.name) = ["small", "mid", "big"] := by decide
/-- a claim restricted to on-demand: only `small` (300 < 1000) survives -/
example : (compute "rid" false [odCand] { allScheduled := true, claims := [{ reqs := [(ctKey, { key := ctKey, complement := false, values := ["on-demand"] })], its := [small, mid, big] }] }).its.map (·.name) = ["small"] := by decide
example : ((compute "rid" false [odCand] sim0).reqs.get ctKey).has onDemand = false := by decide
example : ClaimHyps "rid" claim0 := ⟨by decide, by decide⟩
/-- spot → spot with the gate off: no command; with the gate on but fewer than 15 cheaper options: no command -/
example : (compute "rid" false [spotCand] sim0).isReplace = false := by decide
example : (compute "rid" true [spotCand] sim0).isReplace = false := by decide
/-- two spot candidates (multi-node): the 15-option floor does not apply -/
example : (compute "rid" true [spotCand, spotCand] sim0).its.map (·.name) = ["small", "mid", "big"] := by decide
/-- … and the multi-node step then removes `big` (the candidates' own type) and everything as dear as it -/
example : (multiStep "rid" true [spotCand, spotCand] sim0).its.map (·.name) = ["small", "mid"] := by decide
/-- emptiness: cost exactly 0 is empty, one step above is not -/
example : isEmpty [{ delCost := some (-134217728), prio := none }] = true := by decide
example : isEmpty [{ delCost := some (-134217727), prio := none }] = false := by decide
example : isEmpty [{ delCost := none, prio := some (-33554432) }, { delCost := some (-2147483647), prio := none }] = true := by decide

/-- the `ClaimHyps.pinned` hypothesis is needed: a claim that may launch spot although an available reserved offering
    is compatible is priced by the reservation and would admit a dearer spot launch -/
def resType : IType := { name := "res", offerings := [ofr "z1" "reserved" 10 true "r-1", ofr "z1" "spot" 5000] }
example : (compute "rid" false [odCand] { allScheduled := true, claims := [{ reqs := [], its := [resType] }] }).its.map (·.name) = ["res"] := by decide

end Karp.C06
