/-
Independent specification of C20 at the level an operator sees it: the `NodeRegistrationHealthy`
condition of a NodePool along the pool's life.  Written from the property text, not from the code;
it shares only the *vocabulary* of events (`Ev`) with the model.

State: the log of launch outcomes of the pool since the last reset, and the condition.

* recording a failure sets the condition False exactly when failures then fill at least half of the
  window (the four most recent outcomes); otherwise the condition keeps its value;
* recording a success sets it True exactly when failures then fill less than half; otherwise it keeps
  its value;
* a reset (NodePool or NodeClass edited, or the NodeClass replaced by another version of it) forgets every
  earlier outcome and makes the condition Unknown.  Kubernetes identifies the version of an object's spec by
  `metadata.generation`: the NodeClass has changed iff its generation is not the one the pool launched with
  before — whether it went up (an edit) or down (the object was deleted and re-created: generation 1 again);
  a replacement that carries the same generation is not observable as a change and is no reset;
* other writers of the NodePool's status (nodepool.readiness reporting NodeClassReady, whatever copy of the
  NodePool it worked from) do not touch the condition;
* a restart loses the log; what survives is the persisted condition, and the log restarts from the
  shortest history that reproduces it (True: one success; False: the least number of failures that fill
  half of the window; Unknown: nothing);
* nothing else touches either (other pools, NodeClaims of other NodePool objects, idle reconciles);
* a launch attempt is ONE outcome — a success if its Node joined, a failure if the NodeClaim was given up —
  whenever and however often the controller looks at the NodeClaim and whatever API calls failed and were
  retried in between;
* the tracker's status and both what-if verdicts are the health of the window / of the window after
  the hypothetical outcome.
-/
import Karp.Model.PoolHealth
import Karp.Spec.HealthHistory

namespace Karp.Spec.PoolHealth
open Karp.Ring (bufferSize thrNum thrDen)
open Karp.PoolHealth (Ev)
open Karp.Spec.Window
open Karp.Spec.HealthHistory (seedFailures)

/-- the condition an operator reads -/
inductive C | unknown | true_ | false_
deriving Repr, DecidableEq

structure S where
  cond : C
  log  : List Bool
  /-- `metadata.generation` of the NodeClass the pool launches with -/
  classGen : Nat
deriving Repr, DecidableEq

def S.init : S := { cond := .unknown, log := [], classGen := 1 }

/-- a reset: every earlier outcome is forgotten, the condition is Unknown -/
def S.forget (classGen : Nat) : S := { cond := .unknown, log := [], classGen := classGen }

/-- health of the four most recent outcomes of a log -/
def healthOf (log : List Bool) : Health := health bufferSize thrNum thrDen log

def recordFailure (s : S) : S :=
  let log := s.log ++ [false]
  { s with log := log, cond := if healthOf log = .unhealthy then .false_ else s.cond }

def recordSuccess (s : S) : S :=
  let log := s.log ++ [true]
  { s with log := log, cond := if healthOf log = .healthy then .true_ else s.cond }

/-- One launch attempt is one outcome: however late, however often the controller looks at the NodeClaim,
    and whatever the API server answered in between (the `Fault` an event carries is invisible here). -/
def step (s : S) : Ev → S
  | .success _ => recordSuccess s
  -- the Node joined: a successful launch, also when the controller notices only after its own timeout
  | .lateSuccess _ => recordSuccess s
  | .slowSuccess _ => recordSuccess s
  | .failure _ => recordFailure s
  | .launchFailure _ => recordFailure s
  -- one launch attempt is one outcome, however late the controller notices that it failed
  | .lateFailure _ => recordFailure s
  | .noise => s
  | .resync => s
  | .poolEdit _ => S.forget s.classGen
  | .classEdit _ => S.forget (s.classGen + 1)
  -- another version of the NodeClass (lower or higher generation): a reset; the same generation: nothing to see
  | .classReplace g _ => if g = s.classGen then s else S.forget g
  | .restart =>
    { s with log := match s.cond with
        | .true_ => [true]
        | .false_ => List.replicate seedFailures false
        | .unknown => [] }

/-! ### The known deviation, described at the operator's level

Finding `C20-success-lost-on-nodepool-api-failure`: a registration whose NodePool call fails is never
counted — the `Get`, or the status patch when one is needed (the window turns healthy and the
condition is not True yet).  `stepKnown` is the specification with exactly these attempts dropped; it
is used to state precisely how far the controllers are from `step` (theorem
`C20_pool_observations_known`) and to classify a violation — never to judge. -/

open Karp.PoolHealth (Fault) in
def lostSuccess (s : S) (f : Fault) : Bool :=
  f = .get || (f = .patch && healthOf (s.log ++ [true]) = .healthy && s.cond != .true_)

def lost (s : S) : Ev → Bool
  | .success f => lostSuccess s f
  | .lateSuccess f => lostSuccess s f
  | .slowSuccess f => lostSuccess s f
  | _ => false

def stepKnown (s : S) (e : Ev) : S := if lost s e then s else step s e

def condCode : C → Nat
  | .unknown => 0
  | .true_ => 1
  | .false_ => 2

def healthCode : Health → Nat
  | .unknown => Karp.Gen.Health.statusUnknown
  | .healthy => Karp.Gen.Health.statusHealthy
  | .unhealthy => Karp.Gen.Health.statusUnhealthy

/-- what must be observed in a state: condition, status of the window, what-if verdicts -/
def observe (s : S) : List Nat :=
  [condCode s.cond, healthCode (healthOf s.log), healthCode (healthOf (s.log ++ [true])), healthCode (healthOf (s.log ++ [false]))]

def run (s : S) : List Ev → S
  | [] => s
  | e :: es => run (step s e) es

def observations (s : S) : List Ev → List (List Nat)
  | [] => []
  | e :: es => observe (step s e) :: observations (step s e) es

def runKnown (s : S) : List Ev → S
  | [] => s
  | e :: es => runKnown (stepKnown s e) es

def observationsKnown (s : S) : List Ev → List (List Nat)
  | [] => []
  | e :: es => observe (stepKnown s e) :: observationsKnown (stepKnown s e) es

/-- no attempt of the script falls under the known deviation -/
def noLoss (s : S) : List Ev → Bool
  | [] => true
  | e :: es => !lost s e && noLoss (step s e) es

end Karp.Spec.PoolHealth
