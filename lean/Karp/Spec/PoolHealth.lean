/-
Independent specification of C20 at the level an operator sees it: the `NodeRegistrationHealthy`
condition of a NodePool along the pool's life.  Written from the property text, not from the code;
it shares only the *vocabulary* of events (`Ev`) with the model.

State: the log of launch outcomes of the pool since the last reset, and the condition.

* recording a failure sets the condition False exactly when failures then fill at least half of the
  window (the four most recent outcomes); otherwise the condition keeps its value;
* recording a success sets it True exactly when failures then fill less than half; otherwise it keeps
  its value;
* a reset (NodePool or NodeClass edited) forgets every earlier outcome and makes the condition Unknown;
* a restart loses the log; what survives is the persisted condition, and the log restarts from the
  shortest history that reproduces it (True: one success; False: the least number of failures that fill
  half of the window; Unknown: nothing);
* nothing else touches either (other pools, NodeClaims of other NodePool objects, idle reconciles);
* the tracker's status and both what-if verdicts are the health of the window / of the window after
  the hypothetical outcome.
-/
import Karp.Model.PoolHealth
import Karp.Spec.HealthHistory

namespace Karp.Spec.PoolHealth
open Karp.Ring (bufferSize thrNum thrDen)
open Karp.PoolHealth (Ev)
open Karp.Spec.Window
open Karp.Spec.HealthHistory (seedFailures)

/-- the condition an operator reads -/
inductive C | unknown | true_ | false_
deriving Repr, DecidableEq

structure S where
  cond : C
  log  : List Bool
deriving Repr, DecidableEq

def S.init : S := { cond := .unknown, log := [] }

/-- health of the four most recent outcomes of a log -/
def healthOf (log : List Bool) : Health := health bufferSize thrNum thrDen log

def recordFailure (s : S) : S :=
  let log := s.log ++ [false]
  { log := log, cond := if healthOf log = .unhealthy then .false_ else s.cond }

def step (s : S) : Ev → S
  | .success =>
    let log := s.log ++ [true]
    { log := log, cond := if healthOf log = .healthy then .true_ else s.cond }
  | .failure => recordFailure s
  -- one launch attempt is one outcome, however late the controller notices that it failed
  | .lateFailure => recordFailure s
  | .noise => s
  | .resync => s
  | .poolEdit => { cond := .unknown, log := [] }
  | .classEdit => { cond := .unknown, log := [] }
  | .restart =>
    { s with log := match s.cond with
        | .true_ => [true]
        | .false_ => List.replicate seedFailures false
        | .unknown => [] }

def condCode : C → Nat
  | .unknown => 0
  | .true_ => 1
  | .false_ => 2

def healthCode : Health → Nat
  | .unknown => Karp.Gen.Health.statusUnknown
  | .healthy => Karp.Gen.Health.statusHealthy
  | .unhealthy => Karp.Gen.Health.statusUnhealthy

/-- what must be observed in a state: condition, status of the window, what-if verdicts -/
def observe (s : S) : List Nat :=
  [condCode s.cond, healthCode (healthOf s.log), healthCode (healthOf (s.log ++ [true])), healthCode (healthOf (s.log ++ [false]))]

def run (s : S) : List Ev → S
  | [] => s
  | e :: es => run (step s e) es

def observations (s : S) : List Ev → List (List Nat)
  | [] => []
  | e :: es => observe (step s e) :: observations (step s e) es

end Karp.Spec.PoolHealth
