/-
Specification side of C19 for whole provisioning passes: which NodePool may a pod that needs a new
node end up in, and which instance types may the created NodeClaim name.

Written from the property text and the Kubernetes scheduling rules (a pod fits a node iff the node's
labels satisfy its node selector / required node affinity, it tolerates the node's taints and its requests fit
the allocatable), for the fragment the pass generator produces: set operators In/NotIn/Exists/DoesNotExist
(on zone / capacity type / instance type / the NodePool name label / custom template labels),
one required affinity term, NoSchedule taints, PreferNoSchedule taints (a preference, never a reason to leave a pod
without a node), cpu and pod-count resources, no inter-pod constraints, no NodePool limits, no reserved capacity.  Which pools are "ready" is read off the NodePool's stored status conditions
(`readyCondition`).
-/
import Karp.Spec.WeightPrice
import Karp.Model.ReservedFallback

namespace Karp.Spec.PoolPass
open Karp.PriceOrder Karp.Spec.WeightPrice

def itKey : String := "node.kubernetes.io/instance-type"
def nodePoolKey : String := "karpenter.sh/nodepool"

structure PType where
  name      : String
  cpu       : Nat          -- capacity, milli-cores
  pods      : Nat          -- pod capacity
  overhead  : Nat          -- reserved cpu, milli-cores
  offerings : List Offering
deriving Repr, DecidableEq

structure PPool where
  name     : String
  weight   : Int           -- nil ⇒ 0
  ready    : Bool          -- used when `conds` is not given: the pool is Ready
  static   : Bool
  deleting : Bool
  reqs     : List Req
  labels   : List (String × String)
  taints   : List String
  types    : List PType
  /-- keys of the template's `PreferNoSchedule` taints -/
  softTaints : List String := []
  /-- `minValues` of the template's requirement on the instance-type key (0 = none): the NodePool asks that a NodeClaim
      keeps at least that many instance types to choose from -/
  minTypes : Nat := 0
  /-- the operator runs with `MinValuesPolicy=BestEffort` (a cluster-wide option, the same on every pool of a pass):
      `minValues` is then a wish — a pool that cannot offer that many types launches with what it has.  Under the
      default `Strict` a NodeClaim with fewer options must not be created, so the pool cannot host the pod. -/
  relaxMin : Bool := false
  /-- the status conditions stored on the NodePool, (type, status) with status "True" | "False" | "Unknown";
      `some []` = a NodePool that reports nothing yet -/
  conds    : Option (List (String × String)) := none
deriving Repr

structure PPod where
  name : String
  cpu  : Nat
  reqs : List Req          -- node selector entries and the required affinity term, as one conjunction
  tol  : List String       -- keys tolerated for the effect NoSchedule
  /-- keys tolerated for every effect (a toleration without an effect) -/
  tolAll  : List String := []
  /-- keys tolerated for the effect PreferNoSchedule only -/
  tolSoft : List String := []
deriving Repr

/-- the labels of a node launched from pool `p` as instance type `t` through offering `o` -/
def nodeLabels (p : PPool) (t : PType) (o : Offering) : List (String × String) :=
  [(zoneKey, o.zone), (ctKey, o.ct), (itKey, t.name), (nodePoolKey, p.name)] ++ p.labels

/-- Kubernetes: a selector entry against concrete node labels (an absent label satisfies only NotIn / DoesNotExist) -/
def satisfied (labels : List (String × String)) (r : Req) : Bool :=
  match labels.lookup r.key with
  | some v => admits r v
  | none => r.op == .notIn || r.op == .doesNotExist

/-- The property's "ready NodePool", read off the API object: the NodePool reports the condition `Ready` and reports it
    as `True`.  A pool whose readiness is `False`, is `Unknown` (a dependency such as its NodeClass has not been resolved
    or validated yet) or is not reported at all (nobody has reconciled the pool yet) is NOT a ready pool: nothing is
    known to be launchable from it, so its weight must not attract pods. -/
def readyCondition (conds : List (String × String)) : Bool :=
  conds.any (fun c => c.1 == "Ready" && c.2 == "True") && conds.all (fun c => !(c.1 == "Ready") || c.2 == "True")

def poolReady (p : PPool) : Bool :=
  match p.conds with
  | some cs => readyCondition cs
  | none => p.ready

/-- a "ready NodePool" the provisioner may use: Ready, dynamic (no replicas), not being deleted -/
def poolUsable (p : PPool) : Bool := poolReady p && !p.static && !p.deleting

/-- why a pool is not usable (verdict text only) -/
def whyUnusable (p : PPool) : String :=
  if p.static then "it is a static pool"
  else if p.deleting then "it is being deleted"
  else match p.conds with
    | none => "its Ready condition is not True"
    | some cs => match cs.lookup "Ready" with
      | some st => s!"its Ready condition is {st}, not True"
      | none => "it reports no Ready condition (not reconciled yet)"

/-- Kubernetes: the pod tolerates every `NoSchedule` taint of the pool's nodes (a toleration matches a taint of its key
    if it names the taint's effect or no effect at all) -/
def tolerates (p : PPool) (pod : PPod) : Bool := p.taints.all (fun k => pod.tol.contains k || pod.tolAll.contains k)

/-- Kubernetes: `PreferNoSchedule` is a PREFERENCE — the scheduler avoids nodes carrying such a taint the pod does not
    tolerate as long as it has an alternative, and uses them when it has none.  `prefers p pod` = placing `pod` in `p`
    goes against no such preference. -/
def prefers (p : PPool) (pod : PPod) : Bool :=
  p.softTaints.all (fun k => pod.tolAll.contains k || pod.tolSoft.contains k)

/-- a node of type `t` bought through offering `o` in pool `p` can run all of `group` together -/
def canLaunchFor (p : PPool) (group : List PPod) (t : PType) (o : Offering) : Bool :=
  let labels := nodeLabels p t o
  o.available &&
  p.reqs.all (satisfied labels) &&
  group.all (fun pod => pod.reqs.all (satisfied labels)) &&
  decide ((group.map (·.cpu)).sum + t.overhead ≤ t.cpu) &&
  decide (group.length ≤ t.pods)

/-- the instance types of the pool that can run `group` -/
def optionsFor (p : PPool) (group : List PPod) : List PType :=
  p.types.filter (fun t => t.offerings.any (canLaunchFor p group t))

/-- the pool's `minValues` leaves `group` a node: met by the instance types that can run the group, or waived by the
    BestEffort policy -/
def minValuesOk (p : PPool) (group : List PPod) : Bool :=
  p.relaxMin || decide (p.minTypes ≤ (optionsFor p group).length)

/-- pool `p` is able to host `group` on one new node -/
def hosts (p : PPool) (group : List PPod) : Bool :=
  poolUsable p && group.all (tolerates p) && !(optionsFor p group).isEmpty && minValuesOk p group

/-- pool `p` is able to host `pod` on a new node, when the taint preferences are to be honoured (`strict`) or may be
    overridden (`!strict`).  Being able to host never depends on a preference: `hostsAt false p pod = hosts p [pod]`. -/
def hostsAt (strict : Bool) (p : PPool) (pod : PPod) : Bool :=
  hosts p [pod] && (!strict || prefers p pod)

/-- the taint preferences can be honoured for `pod`: some pool hosts it without going against one -/
def preferenceSatisfiable (pools : List PPool) (pod : PPod) : Bool := pools.any (fun q => hostsAt true q pod)

/-- the requirements a node for (`p`, `group`) has to meet -/
def claimReqs (p : PPool) (group : List PPod) : List Req := p.reqs ++ group.flatMap (·.reqs)

def toIType (t : PType) : IType := { name := t.name, offerings := t.offerings }

/-- one created NodeClaim as observed -/
structure Claim where
  pool  : String
  pods  : List String      -- first = the pod that needed the new node
  types : List String
  /-- values of the created NodeClaim's own requirement `karpenter.sh/nodepool In […]` when it was observed:
      `some none` = observed and there is no such requirement -/
  poolReq : Option (Option (List String)) := none
deriving Repr

def findPool (pools : List PPool) (n : String) : Option PPool := pools.find? (·.name == n)
def findPod (pods : List PPod) (n : String) : Option PPod := pods.find? (·.name == n)

/-- verdict on one created NodeClaim: `none` = fine, `some why` = the property is violated -/
def claimVerdict (pools : List PPool) (pods : List PPod) (maxTypes : Int) (c : Claim) : Option String :=
  match findPool pools c.pool with
  | none => some s!"NodeClaim for unknown NodePool {c.pool}"
  | some p =>
    let group := c.pods.filterMap (findPod pods)
    if group.length != c.pods.length || group.isEmpty then some s!"NodeClaim in {c.pool} names unknown pods or none"
    else
      match group with
      | [] => none
      | opener :: _ =>
        if !poolUsable p then some s!"pod {opener.name} was given a node in NodePool {p.name}, which is not a ready dynamic pool: {whyUnusable p}"
        else if !hosts p [opener] then some s!"pod {opener.name} was given a node in NodePool {p.name}, which cannot host it"
        else
          -- the node the claim stands for will carry the label nodepool=<p>: a claim that requires another value can
          -- never become a node its pods may bind to
          match c.poolReq with
          | some (some vs) =>
            if !vs.contains p.name then some s!"the NodeClaim for {c.pods} is labelled {nodePoolKey}={p.name} but requires {nodePoolKey} In {vs}: its pods can never bind to the node launched for them"
            else weightAndPrice p group opener
          | _ => weightAndPrice p group opener
where
  weightAndPrice (p : PPool) (group : List PPod) (opener : PPod) : Option String :=
    -- PreferNoSchedule taints are honoured while some pool can host the pod without going against one; "infeasible
    -- for that pod" is read at that level.  They never leave the pod without a node (see `passVerdict`).
    let strict := preferenceSatisfiable pools opener
    if strict && !prefers p opener then
      some s!"pod {opener.name} was given a node in NodePool {p.name} against its PreferNoSchedule taint although {(pools.filter (fun q => hostsAt true q opener)).map (·.name)} can host it without going against one"
    else
      match pools.find? (fun q => decide (p.weight < q.weight) && hostsAt strict q opener) with
      | some q => some s!"pod {opener.name} opened a node in NodePool {p.name} (weight {p.weight}) although the higher-weight NodePool {q.name} (weight {q.weight}) can host it"
      | none =>
        let opts := (optionsFor p group).map toIType
        if !cheapestKeptSpec (claimReqs p group) maxTypes opts c.types then
          some s!"NodeClaim in {p.name} for {c.pods}: instance types {c.types} are not the {maxTypes} cheapest of the options {opts.map (·.name)}"
        else if !p.relaxMin && decide (c.types.length < p.minTypes) then
          some s!"NodeClaim in {p.name} for {c.pods} names {c.types.length} instance types, fewer than the NodePool's minValues {p.minTypes} (policy Strict)"
        else none

/-- verdict on one pass -/
def passVerdict (pools : List PPool) (pods : List PPod) (maxTypes : Int)
    (claims : List Claim) (unscheduled : List String) : Option String :=
  match claims.findSome? (claimVerdict pools pods maxTypes) with
  | some why => some why
  | none =>
    let placed := claims.flatMap (·.pods)
    if !noDuplicates placed then some "a pod was placed on two NodeClaims"
    else
      match unscheduled.filterMap (findPod pods) |>.find? (fun pod => pools.any (fun q => hosts q [pod])) with
      | some pod => some s!"pod {pod.name} was left unscheduled although a ready NodePool can host it"
      | none =>
        if unscheduled.any (placed.contains ·) then some "a pod is both placed and reported unschedulable" else none

/-! ## Passes with capacity reservations and limits (every pod needs a node of its own)

A pod may use a lower-weight pool only if every higher-weight pool able to host it has reached its limit.  A pod may
be left waiting only for reserved capacity of a pool it would legitimately use: some pool able to host it owns a
reservation that the nodes opened in this pass have used up, and every higher-weight pool able to host it is full.
It must never be sent to a lower-weight pool instead, and never wait because of a lower-ranked pool's reservation.
(Judged on the end state of the pass: claim counters only grow, so "full when the pod was considered" implies
"full at the end".) -/

namespace Reserved
open Karp.ReservedFallback

def ableToHost (q : RPool) (p : RPod) : Bool :=
  (p.team.isEmpty || q.team == p.team) && decide (p.cpu ≤ q.alloc)

/-- `placed` = (pod, pool) for every created NodeClaim; `deferred` = pods reported as waiting for reserved
    capacity; `unschedulable` = pods reported with any other error -/
def verdict (pools : List RPool) (pods : List RPod) (placed : List (String × String))
    (deferred unschedulable : List String) : Option String :=
  let podOf (n : String) := pods.find? (·.name == n)
  let poolOf (n : String) := pools.find? (·.name == n)
  let claimsIn (q : RPool) : Nat := (placed.filter (fun pq => pq.2 == q.name)).length
  -- the pool's cpu limit admits no further node of its instance type
  let full (q : RPool) : Bool := match q.limit with
    | none => false
    | some l => decide (l < (claimsIn q + 1) * q.cpu)
  let all := placed.map (·.1) ++ deferred ++ unschedulable
  if !noDuplicates all || all.length != pods.length || !all.all (fun n => (podOf n).isSome) then
    some "the pods are not accounted for exactly once"
  else
    let badPlaced := placed.findSome? (fun (pn, qn) =>
      match podOf pn, poolOf qn with
      | some p, some q =>
        if !ableToHost q p then some s!"pod {pn} was given a node in NodePool {qn}, which cannot host it"
        else match pools.find? (fun r => decide (q.weight < r.weight) && ableToHost r p && !full r) with
          | some r => some s!"pod {pn} opened a node in NodePool {qn} (weight {q.weight}) although the higher-weight NodePool {r.name} (weight {r.weight}) can host it and is not at its limit"
          | none => none
      | _, _ => some s!"unknown pod or pool in claim ({pn}, {qn})")
    match badPlaced with
    | some why => some why
    | none =>
      match unschedulable.filterMap podOf |>.find? (fun p => pools.any (fun q => ableToHost q p && !full q)) with
      | some p => some s!"pod {p.name} was left unscheduled although a NodePool that is not at its limit can host it"
      | none =>
        (deferred.filterMap podOf).findSome? (fun p =>
          if pools.any (fun q => ableToHost q p && decide (0 < q.cap) && decide (q.cap ≤ claimsIn q) &&
              pools.all (fun r => !(decide (q.weight < r.weight) && ableToHost r p) || full r)) then none
          else some s!"pod {p.name} was deferred for reserved capacity although no NodePool able to host it has an exhausted reservation with every higher-weight alternative full")

end Reserved

end Karp.Spec.PoolPass
