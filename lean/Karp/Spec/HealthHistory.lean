/-
Spec side of C20 for whole histories: the log of outcomes since the last reset, and what an
observer must see after each op.  Shares only the *vocabulary* (`Op`, `Status`) with the model.
-/
import Karp.Model.Ring
import Karp.Spec.Window

namespace Karp.Spec.HealthHistory
open Karp.Ring Karp.Spec.Window

/-- re-hydrating "unhealthy" must seed the least number of failures that makes the window unhealthy:
    `⌈size * num / den⌉` -/
def seedFailures : Nat := (bufferSize * thrNum + thrDen - 1) / thrDen

/-! ## The abstract history semantics (spec side) -/

/-- the log of outcomes since the last reset, as the property describes it; re-hydration after a
    restart seeds the log with the outcomes that reproduce the persisted condition -/
def specStep (log : List Bool) : Op → List Bool
  | .update ok => log ++ [ok]
  | .reset => []
  | .set .unknown => []
  | .set .healthy => [true]
  | .set .unhealthy => List.replicate seedFailures false
  | .restart => []
  | .dry _ => log
  | .status => log

def specRun (log : List Bool) : List Op → List Bool
  | [] => log
  | op :: ops => specRun (specStep log op) ops

def toStatus : Health → Status
  | .unknown => .unknown
  | .healthy => .healthy
  | .unhealthy => .unhealthy

def specHealth (log : List Bool) : Status := toStatus (health bufferSize thrNum thrDen log)

/-- what an observer must see after each op, according to the spec alone -/
def specObserve (log : List Bool) : Op → Status
  | .dry ok => specHealth (log ++ [ok])
  | op => specHealth (specStep log op)

def specObservations (log : List Bool) : List Op → List Status
  | [] => []
  | op :: ops => specObserve log op :: specObservations (specStep log op) ops


end Karp.Spec.HealthHistory
