/-
Independent specification for C15, written from the property text and the documented API rules, not from the code.

Part 1 (fingerprint): when must two NodePools carry the same static-drift hash, when must they differ.
  "The NodePool template hash is unchanged by reordering of lists and maps and by edits to fields documented as
   non-drifting (budgets, requirements, limits, weight, consolidation settings), and changes when any other template
   field changes."
Part 2 (drift verdict) is in the second half of this file.

Shares only the vocabulary (`Template`, `Pool`, selector expressions) with the model.
-/
import Karp.Model.Hash
import Karp.Spec.K8sSelector

namespace Karp.Spec.DriftSpec
open Karp.Hash

/-! ## Part 1: the fingerprint -/

def distinct [BEq α] : List α → Bool
  | [] => true
  | x :: xs => !xs.contains x && distinct xs

/-- what the API guarantees of a stored NodePool template: `nodeClassRef` is required; a taint (key, effect) pair occurs
    once over `taints` and `startupTaints` (runtime validation); maps have distinct keys; `expireAfter` keeps its raw
    text exactly when it holds a duration (`NillableDuration.UnmarshalJSON`) -/
def validTemplate (t : Template) : Bool :=
  t.nodeClassRef.isSome &&
  (t.expireAfter.isSome == t.expireAfterRaw.isSome) &&
  distinct ((t.taints.getD [] ++ t.startupTaints.getD []).map (fun x => (x.key, x.effect))) &&
  distinct ((t.labels.getD []).map (·.1)) && distinct ((t.annotations.getD []).map (·.1))

/-- the drift-relevant content agrees up to the order of lists and maps: everything in the template except
    `requirements` (and the spelling of `expireAfter`) -/
def sameUpToOrder (a b : Template) : Bool :=
  (a.labels.getD []).isPerm (b.labels.getD []) &&
  (a.annotations.getD []).isPerm (b.annotations.getD []) &&
  (a.taints.getD []).isPerm (b.taints.getD []) &&
  (a.startupTaints.getD []).isPerm (b.startupTaints.getD []) &&
  a.nodeClassRef == b.nodeClassRef && a.tgp == b.tgp && a.expireAfter == b.expireAfter

/-- an absent collection and an empty one are the same to a user; whether the code distinguishes them is not part of
    the property (the model says it does) -/
def sameRepresentation (a b : Template) : Bool :=
  a.labels.isSome == b.labels.isSome && a.annotations.isSome == b.annotations.isSome &&
  a.taints.isSome == b.taints.isSome && a.startupTaints.isSome == b.startupTaints.isSome

inductive Verdict | mustEqual | mustDiffer | unspecified
deriving Repr, DecidableEq

/-- everything outside `template` (weight, limits, budgets, consolidation settings, replicas, metadata) is non-drifting -/
def fingerprintVerdict (a b : Pool) : Verdict :=
  if !(validTemplate a.template && validTemplate b.template) then .unspecified
  else if sameUpToOrder a.template b.template then
    (if sameRepresentation a.template b.template then .mustEqual else .unspecified)
  else .mustDiffer

/-! ## Part 2: when must / may a NodeClaim be reported Drifted

  "A NodeClaim freshly created from a NodePool and launched as any permitted instance type and offering is not reported
   Drifted; it is reported Drifted when its labels stop satisfying the NodePool's requirements or its hash differs
   under the same hash version."

Requirements are read with the Kubernetes node-selector semantics (`Karp.Spec.K8s.k8sMatch`), expression by expression. -/

open Karp.Req Karp.Spec.K8s

abbrev Labels := List (String × String)

/-- both objects carry both annotations, the hash versions agree, the hashes differ -/
def hashDiffersUnderSameVersion (poolHash poolVersion claimHash claimVersion : Option String) : Bool :=
  match poolHash, poolVersion, claimHash, claimVersion with
  | some ph, some pv, some ch, some cv => pv == cv && ph != ch
  | _, _, _, _ => false

/-- deprecated aliases (`beta.kubernetes.io/arch` …) are rewritten by Karpenter; the Kubernetes reading is only stated
    for expressions and labels that do not use them and whose operands are valid -/
def aliasKey (k : String) : Bool := (Karp.Gen.Labels.normalizedLabels.lookup k).isSome

def readable (sels : List Sel) (labels : Labels) : Bool :=
  sels.all (fun s => validOperands s.op s.values && !aliasKey s.key &&
    -- the Kubernetes API rule: "If the operator is In or NotIn, the values array must be non-empty"
    !((s.op == .in_ || s.op == .notIn) && s.values.isEmpty)) &&
  labels.all (fun kv => !aliasKey kv.1)

/-- the node's labels satisfy every requirement expression of the NodePool -/
def labelsSatisfy (sels : List Sel) (labels : Labels) : Bool :=
  sels.all (fun s => k8sMatch s.op s.values (labels.lookup s.key))

/-- an offering as the provider lists it: zone, capacity type, reservation id ("" unless reserved) -/
structure OfferingS where
  zone : String
  capacityType : String
  reservationID : String := ""
deriving Repr

def zoneKey : String := "topology.kubernetes.io/zone"
def instanceTypeKey : String := "node.kubernetes.io/instance-type"

/-- the provider no longer lists the claim's instance type, or none of its offerings is in the claim's zone with the
    claim's capacity type (a reserved claim may have been demoted to on-demand; its reservation id is not compared) -/
def instanceGone (its : List (String × List OfferingS)) (labels : Labels) (reservationLabel : String) : Bool :=
  match its.find? (fun it => it.1 == (labels.lookup instanceTypeKey).getD "") with
  | none => true
  | some (_, ofs) =>
    let z := labels.lookup zoneKey
    let ct := labels.lookup Karp.Gen.Labels.capacityTypeLabelKey
    let reserved := ct == some Karp.Gen.Labels.capacityTypeReserved
    !(ofs.any (fun o =>
      (z.isNone || z == some o.zone) &&
      (ct.isNone || ct == some o.capacityType || (reserved && o.capacityType == Karp.Gen.Labels.capacityTypeOnDemand)) &&
      (reserved || (match labels.lookup reservationLabel with
                    | none => true
                    | some id => o.capacityType == Karp.Gen.Labels.capacityTypeReserved && o.reservationID == id))))

/-! ### Classes of missed requirement drift (recorded findings; see `known_findings.json`)

Both come from the representation of a requirement in `pkg/scheduling` (the same root cause as the C01 findings):
the expressions of one key are intersected into one value set, and an empty value set is read as "the label must be
absent", while a complement set with exclusions forgets that some expression needed the label to be present. -/

/-- candidate label values that are complete for "some present value satisfies all of these expressions":
    every mentioned value, the integers next to every bound (also zero-padded), and a fresh string -/
def witnessValues (es : List Sel) : List String :=
  let mentioned := (es.map (·.values)).flatten
  let ints : List Int := (es.filterMap (fun e =>
      match e.op, e.values with
      | .gt, [n] | .lt, [n] | .gte, [n] | .lte, [n] => atoi n
      | _, _ => none)).flatMap (fun j => [j - 1, j, j + 1])
  let pads := List.range (mentioned.length + 2)
  let padded : List String := ints.flatMap (fun i => pads.map (fun k =>
      let body := toString i.natAbs
      let z := String.ofList (List.replicate k '0')
      if i < 0 then "-" ++ z ++ body else z ++ body))
  let fresh : String := String.ofList (List.replicate ((mentioned.foldl (fun m s => max m s.length) 0) + 1) 'z')
  (mentioned ++ padded ++ [fresh]).eraseDups

def satisfiableWhenPresent (es : List Sel) : Bool :=
  (witnessValues es).any (fun v => es.all (fun e => k8sMatch e.op e.values (some v)))

def needsPresence (e : Sel) : Bool := !k8sMatch e.op e.values none

/-- why an absent label that violates the expressions of `key` was not noticed -/
def missClassOfKey (sels : List Sel) (labels : Labels) (key : String) : String :=
  let es := sels.filter (·.key == key)
  if (labels.lookup key).isSome then "present"
  else if !satisfiableWhenPresent es then "unsat"
  else if es.any (fun e => e.op == .notIn && !e.values.isEmpty) &&
          es.all (fun e => e.op == .notIn || e.op == .exists_ || e.op == .gt || e.op == .lt || e.op == .gte || e.op == .lte) then "notin"
  else "other"

/-- the class of a missed requirement drift: every violated key must be explained by a recorded class -/
def missClass (sels : List Sel) (labels : Labels) : String :=
  let violated := (sels.filter (fun s => !k8sMatch s.op s.values (labels.lookup s.key))).map (·.key) |>.eraseDups
  let cs := violated.map (missClassOfKey sels labels)
  if cs.isEmpty then "requirements-drift-missed"
  else if cs.all (· == "unsat") then "unsatisfiable-requirements-read-as-absent"
  else if cs.all (fun c => c == "unsat" || c == "notin") then "presence-lost-with-notin"
  else "requirements-drift-missed"

structure Facts where
  launched : Bool
  poolHash : Option String
  poolVersion : Option String
  claimHash : Option String
  claimVersion : Option String
  sels : List Sel
  labels : Labels
  instanceGone : Bool
  providerDrift : Bool

/-- the property's "is reported Drifted when …" -/
def mustBeDrifted (f : Facts) : Bool :=
  f.launched && (hashDiffersUnderSameVersion f.poolHash f.poolVersion f.claimHash f.claimVersion ||
    (readable f.sels f.labels && !labelsSatisfy f.sels f.labels))

/-- "never self-inflicted": a Drifted report needs one of these causes -/
def mayBeDrifted (f : Facts) : Bool :=
  f.launched && (hashDiffersUnderSameVersion f.poolHash f.poolVersion f.claimHash f.claimVersion ||
    !readable f.sels f.labels || !labelsSatisfy f.sels f.labels || f.instanceGone || f.providerDrift)

/-! ### Freshly created NodeClaims

  "A NodeClaim freshly created from a NodePool … is not reported Drifted" and "never self-inflicted": the hash a NodeClaim
  carries stands for the template it was created from.  For a NodeClaim whose creation is part of the observed history we
  know that template (`created`), so a differing hash is a cause for drift only if the NodePool's template has changed
  since in a way that is not "must hash equal" (reordering / non-drifting fields only, or no change at all).  For a
  NodeClaim that existed before the history its annotations are all we know: they are taken at face value.

  The NodePool's hash is read from its annotation, which the hash controller brings up to date after every edit.  While
  the annotation is behind the template (`annotationStale`) the two clauses of the property pull in opposite directions
  for a NodeClaim created in that window — its hash does differ from the NodePool's annotation under the same hash
  version — and no verdict is given: the property is read for NodePools the hash controller has caught up with (the
  standing assumption recorded in manifest/C15.json). -/

/-- is "its hash differs under the same hash version" a cause that is not self-inflicted? -/
def hashCause (created : Option Pool) (current : Pool) (annotationStale : Bool) : Bool :=
  match created with
  | none => true
  | some p0 => annotationStale || fingerprintVerdict p0 current != .mustEqual

/-- `mayBeDrifted` for a NodeClaim whose creation was observed -/
def mayBeDriftedFresh (created : Option Pool) (current : Pool) (annotationStale : Bool) (f : Facts) : Bool :=
  f.launched && ((hashDiffersUnderSameVersion f.poolHash f.poolVersion f.claimHash f.claimVersion && hashCause created current annotationStale) ||
    !readable f.sels f.labels || !labelsSatisfy f.sels f.labels || f.instanceGone || f.providerDrift)

/-- what a NodeClaim must carry right after it was created from a NodePool whose stored template hashes to
    `templateHash`: that hash (not whatever the NodePool's annotation says at that moment) and the current hash version -/
def stampedFromTemplate (templateHash : String) (currentVersion : String) (claimHash claimVersion : Option String) : Bool :=
  claimHash == some templateHash && claimVersion == some currentVersion

theorem mayBeDriftedFresh_none (current : Pool) (stale : Bool) (f : Facts) :
    mayBeDriftedFresh none current stale f = mayBeDrifted f := by
  unfold mayBeDriftedFresh mayBeDrifted hashCause
  simp

end Karp.Spec.DriftSpec
