/-
Specification of C07 over histories, written from the property text: what happened to the node is kept as a plain
LOG (no windows, no "until" instants, no cached flags), and the blockers are read off the log:

* "already deleting"      — the last mark/unmark record is a mark (or the NodeClaim is deleting / terminating)
* "recently nominated"    — SOME nomination record is younger than the protection window
* the objects that count  — the last NodeClaim / Node that was delivered (a Node event that the cluster state does
                            not accept yet — managed, no instance type, not initialized — is not a delivery)
* the log starts afresh when both objects are gone (the node left the cluster)
* Consolidatable          — every run of the nodeclaim.disruption controller is logged with what held at that instant
                            (a run whose drift check failed counts like any other; a run that could not read the
                            NodePool or whose status write was refused changes nothing)

Shares only vocabulary (`Ev`, `Claim`, `Node`, `World`, …) with the model.
-/
import Karp.Model.CandidateHistory
import Karp.Spec.Protected

namespace Karp.Spec.ProtectedHistory
open Karp.Candidate Karp.Spec.Protected

structure Log where
  now   : Int
  claim : Option Claim := none
  node  : Option Node := none
  marks : List Bool := []        -- mark (true) / unmark (false) records, oldest first
  noms  : List Int := []         -- instants of the nomination records
deriving Repr, DecidableEq

def Log.tracked (l : Log) : Bool := l.claim.isSome || l.node.isSome

/-- the node left the cluster: nothing is remembered about it -/
def Log.forget (l : Log) : Log := { now := l.now }

/-- a Node event counts once the node shows an instance type or is initialized (or is not Karpenter's) -/
def accepted (n : Node) : Bool := n.md.pool == .none || n.md.it != .none || n.init != .absent

def wholeSeconds (t : Int) : Int := t - t % 1000000000

/-- the NodeClaim after the nodeclaim.disruption controller looked at it at instant `now`: it only touches the
    Consolidatable condition, only when it has its say (`controllerActs`: live NodeClaim of an existing, readable
    dynamic pool, status write accepted), and then sets it exactly when the specification allows it — whatever else
    failed in that run (the drift check) -/
def afterController (faults : RFaults) (pool : Pool) (c : Claim) (now : Int) : Claim :=
  if !controllerActs faults pool c then c
  else { c with consolidatable := if mayBeConsolidatable pool c now then .true_ else .absent }

def specStep (pool : Pool) (l : Log) : Ev → Log
  | .tick d => { l with now := l.now + d }
  | .claim (some c) => { l with claim := some c }
  | .claim none =>
    if l.claim.isNone then l
    else if l.node.isNone then l.forget
    else { l with claim := none }
  | .node (some n) => if accepted n then { l with node := some n } else l
  | .node none =>
    if l.node.isNone then l
    else if l.claim.isNone then l.forget
    else { l with node := none }
  | .mark => if l.tracked then { l with marks := l.marks ++ [true] } else l
  | .unmark => if l.tracked then { l with marks := l.marks ++ [false] } else l
  | .nominate => if l.tracked then { l with noms := l.noms ++ [l.now] } else l
  | .podEvent => { l with claim := l.claim.map (fun c => { c with lastPodEvent := some (wholeSeconds l.now) }) }
  | .reconcile f => { l with claim := l.claim.map (fun c => afterController f pool c l.now) }

def specRun (pool : Pool) (l : Log) : List Ev → Log
  | [] => l
  | e :: es => specRun pool (specStep pool l e) es

/-- the last mark/unmark record is a mark -/
def Log.marked (l : Log) : Bool := l.marks.getLast? == some true

/-- some nomination is younger than `window` -/
def Log.recentlyNominated (l : Log) (window : Int) : Bool := l.noms.any (fun t => l.now < t + window)

def latest : List Int → Option Int
  | [] => none
  | t :: ts => match latest ts with
    | none => some t
    | some u => some (max t u)

/-- the world the log describes, in the environment `env` (pool, pods, PDBs, queue, buffer counts, batch window) -/
def Log.world (env : World) (l : Log) : World :=
  { env with now := l.now, claim := l.claim, node := l.node, marked := l.marked, nominatedAt := latest l.noms }

/-- the property after a history: method `m` may select the node -/
def allowedAfter (env : World) (l : Log) (m : Method) : Bool :=
  l.tracked && allowed (l.world env) m &&
  !l.recentlyNominated (window env)

/-- events that do not touch the NodeClaim of a tracked node -/
def quiet : Ev → Bool
  | .tick _ | .mark | .unmark | .nominate | .node _ => true
  | _ => false

/-! ## Commands and recorded scheduling results (c07.commands)

The log is extended by what the property text calls "recently nominated for pending pods" and "already deleting" at
the level where they are DECIDED, not where they are cached:

* a scheduling result that was recorded and places at least one real pending pod on the node IS a nomination of the
  node at that instant — whatever else the result contains (new NodeClaims or not);
* a disruption command that was accepted for the node makes it "already deleting" until the command is known to have
  failed; a command that was carried out has requested the deletion of the node's NodeClaim, so the node stays
  "already deleting" — whether or not the cluster state has seen the deletionTimestamp yet — until the NodeClaim
  object is replaced or gone.

`did` is what the implementation reports it did with the event (started / succeeded / failed …). -/

structure QLog where
  log : Log
  queued : Bool := false            -- a command naming the node is in the orchestration queue
  cmdOn : Bool := false             -- … and it was accepted for the node as the log knows it (not an earlier incarnation)
  deleteRequested : Bool := false   -- a command was carried out: the deletion of the NodeClaim the log holds was requested
deriving Repr, DecidableEq

def qspecStep (pool : Pool) (l : QLog) (e : QEv) (did : String) : QLog :=
  match e with
  | .base b =>
    let log' := specStep pool l.log b
    let l1 : QLog := { l with log := log' }
    let l2 : QLog := if l.log.tracked && !log'.tracked then { l1 with cmdOn := false, deleteRequested := false } else l1
    (match b with
     | .claim _ => { l2 with deleteRequested := false }
     | _ => l2)
  | .record real _ _ => if 0 < real then { l with log := specStep pool l.log .nominate } else l
  | .start _ =>
    if did == "started" then { l with log := specStep pool l.log .mark, queued := true, cmdOn := l.log.tracked } else l
  | .queue _ =>
    if did == "succeeded" then
      { l with queued := false, cmdOn := false, deleteRequested := l.deleteRequested || (l.cmdOn && l.log.claim.isSome) }
    else if did == "failed" then
      { l with queued := false, cmdOn := false, log := specStep pool l.log .unmark }
    else l
  | .sync =>
    if l.deleteRequested then { l with log := { l.log with claim := l.log.claim.map (fun c => { c with deleting := true }) } }
    else l

/-- the property after a history of commands: method `m` may select the node -/
def allowedAfterQ (env : World) (l : QLog) (m : Method) : Bool :=
  allowedAfter env l.log m && !l.queued && !l.deleteRequested

end Karp.Spec.ProtectedHistory
