/-
Independent specification for C02: inter-pod constraints on the END STATE of a scheduling pass.
Written from the Kubernetes documentation of pod (anti-)affinity and topology spread constraints and from the
property text ("for every domain the node could end up in"), not from Karpenter's topology code.
`none` = the end state respects the constraints, `some why` = violation.
-/
import Karp.Spec.Scenario
import Karp.Spec.Admissible

namespace Karp.Spec.InterPod
open Karp.Req Karp.Scn Karp.Spec.K8s Karp.Spec.Admissible

/-- where a pod ends up: on an existing node, or on the `i`-th new NodeClaim -/
inductive Place
  | node (n : Node)
  | claim (i : Nat) (c : Claim)

structure Placed where
  pod : Pod
  place : Place
  isNew : Bool        -- placed by this pass (as opposed to already running)

/-! ### Which pods a term / constraint selects

Kubernetes label-selector semantics (`metav1.LabelSelector`): every `matchLabels` pair and every `matchExpressions`
requirement must hold (In / NotIn / Exists / DoesNotExist on the pod's or namespace's labels; an empty selector selects
everything).  `matchLabelKeys`: for every listed key that the pod CARRYING the term / constraint has as a label, `key In
[that pod's value]` is ANDed into the selector (the kube-scheduler does this for spread constraints, the API server for
(anti-)affinity terms; either way the constraint is about the pods of the carrier's own revision).  Repeating an expression
does not change what a selector selects. -/

def selOK (ml : Labels) (es : List KExpr) (ls : Labels) : Bool :=
  ml.all (fun (k, v) => ls.lookup k == some v) && es.all (fun e => k8sMatch e.op e.vals (ls.lookup e.key))

/-- the expressions `matchLabelKeys` contribute for the pod `owner` that carries the term / constraint -/
def keyExprs (owner : Pod) (keys : List String) : List KExpr :=
  keys.filterMap (fun k => (owner.labels.lookup k).map (fun v => ({ key := k, op := .in_, vals := [v] } : KExpr)))

/-- the namespaces a pod (anti-)affinity term of pod `owner` applies to: the listed namespaces together with those the
    namespace selector matches (an EMPTY selector matches every namespace); the owner's own namespace exactly when neither
    is given -/
def termNamespaces (s : Scenario) (owner : Pod) (t : PodAff) : List String :=
  if t.namespaces.isEmpty && t.namespaceSelector.isNone then [owner.ns]
  else t.namespaces ++ (match t.namespaceSelector with
    | none => []
    | some sel => (s.allNamespaces.filter (fun (_, ls) => selOK sel.matchLabels sel.matchExprs ls)).map (·.1))

/-- does the term `t` carried by pod `owner` select pod `q`? -/
def termMatches (s : Scenario) (owner : Pod) (t : PodAff) (q : Pod) : Bool :=
  (termNamespaces s owner t).contains q.ns &&
  selOK t.matchLabels (t.matchExprs ++ keyExprs owner t.matchLabelKeys) q.labels

/-- does the spread constraint `c` carried by pod `owner` count pod `q`?  (only pods of the owner's namespace count) -/
def spreadMatches (owner : Pod) (c : Spread) (q : Pod) : Bool :=
  q.ns == owner.ns && selOK c.matchLabels (c.matchExprs ++ keyExprs owner c.matchLabelKeys) q.labels

/-! ### Cluster-level default topology spread constraints

The kube-scheduler's PodTopologySpread plugin (`defaultingType: List`) applies the configured default constraints to every pod
that has NO topology spread constraint of its own, with a label selector deduced for THAT pod (`helper.DefaultSelector`): the
equality selectors of all Services of the pod's namespace that select the pod (a Service without selector selects nothing)
merged, AND-ed with the selector of the pod's controller when that is a ReplicaSet (StatefulSet, ReplicationController) that
exists.  A pod for which nothing can be deduced gets no default constraint. -/

def defaultSelector (s : Scenario) (p : Pod) : Option (Labels × List KExpr) :=
  let selecting := s.services.filter (fun sv => sv.ns == p.ns &&
    match sv.selector with
    | none => false
    | some sel => sel.all (fun (k, v) => p.labels.lookup k == some v))
  -- every pair of a selecting Service is one of the pod's own labels, so merging cannot conflict
  let fromServices : Labels := (selecting.flatMap (fun sv => sv.selector.getD [])).foldl
    (fun acc (kv : String × String) => if acc.any (fun x => x.1 == kv.1) then acc else acc ++ [kv]) []
  let fromOwner : List KExpr :=
    if p.owner == "" || p.daemon then [] else
    match s.replicaSets.find? (fun rs => rs.ns == p.ns && rs.name == p.owner) with
    | none => []
    | some rs => rs.selector.matchLabels.map (fun (k, v) => ({ key := k, op := .in_, vals := [v] } : KExpr)) ++ rs.selector.matchExprs
  if fromServices.isEmpty && fromOwner.isEmpty then none else some (fromServices, fromOwner)

/-- the topology spread constraints that govern pod `p`: its own, or else the cluster defaults with the selector deduced for it -/
def effectiveSpreads (s : Scenario) (p : Pod) : List Spread :=
  if !p.spreads.isEmpty || s.defaultSpreads.isEmpty then p.spreads else
  match defaultSelector s p with
  | none => []
  | some (ml, es) => s.defaultSpreads.map (fun c => { c with matchLabels := ml, matchExprs := es, matchLabelKeys := [] })

def sortStrings (l : List String) : List String := (l.toArray.qsort (· < ·)).toList

/-- canonical form of a selector (as a set of requirements), to compare two selectors for "the same constraint" -/
def selKey (ml : Labels) (es : List KExpr) : List String :=
  let fromLabels : List String := ml.map (fun (kv : String × String) => s!"{kv.1}={kv.2}")
  let fromExprs : List String := es.map (fun (e : KExpr) => s!"{e.key} {repr e.op} {sortStrings e.vals}")
  sortStrings (fromLabels ++ fromExprs).eraseDups

def termKey (s : Scenario) (owner : Pod) (t : PodAff) : List String × List String :=
  (selKey t.matchLabels (t.matchExprs ++ keyExprs owner t.matchLabelKeys), sortStrings (termNamespaces s owner t).eraseDups)

def spreadKey (owner : Pod) (c : Spread) : List String × String :=
  (selKey c.matchLabels (c.matchExprs ++ keyExprs owner c.matchLabelKeys), owner.ns)

/-- every pod with a location after the pass: running pods on their nodes (unless rescheduled) and new placements -/
def placements (s : Scenario) (out : Outcome) : List Placed :=
  let newOnNodes : List Placed := out.existing.flatMap (fun (nn, pns) =>
    match s.node? nn with
    | none => []
    | some n => (pns.filterMap s.pod?).map (fun p => { pod := p, place := .node n, isNew := true }))
  let newOnClaims : List Placed := (out.claims.zipIdx).flatMap (fun (c, i) =>
    (c.pods.filterMap s.pod?).map (fun p => { pod := p, place := .claim i c, isNew := true }))
  let newNames := (newOnNodes ++ newOnClaims).map (·.pod.name)
  let running : List Placed := s.nodes.flatMap (fun n =>
    -- pods of a deleting node that this pass reschedules (or tried to: they are about to be evicted) no longer count where
    -- they are; the others are still running there
    (n.pods.filter (fun p => !newNames.contains p.name && !(n.deleting && (out.errors.lookup p.name).isSome))).map
      (fun p => { pod := p, place := .node n, isNew := false }))
  running ++ newOnNodes ++ newOnClaims

/-- the topology domains (values of label `k`) the pod's node could end up in -/
def domains (s : Scenario) (pl : Placed) (k : String) : List String :=
  match pl.place with
  | .node n => match (nodeLabels s n).lookup k with | some v => [v] | none => []
  | .claim i c =>
    if k == "kubernetes.io/hostname" then [s!"new-claim-{i}"] else
    let launches := (c.its.filterMap s.it?).flatMap (fun it =>
      (it.offerings.filter (fun o => o.available && offeringCompatible c.reqs o)).map (fun o => (it, o)))
    if k == "topology.kubernetes.io/zone" then (launches.map (·.2.zone)).eraseDups
    else if k == Karp.Gen.Labels.capacityTypeLabelKey then (launches.map (·.2.ct)).eraseDups
    else if k == "node.kubernetes.io/instance-type" then c.its
    else match s.pool? c.pool with
      | some p => match p.labels.lookup k with
        | some v => [v]
        | none => if k == Karp.Gen.Labels.nodePoolLabelKey then [p.name] else
          let r := c.reqs.get k
          if r.complement then [] else r.values
      | none => []

def samePlace (a b : Placed) : Bool :=
  match a.place, b.place with
  | .node n, .node m => n.name == m.name
  | .claim i _, .claim j _ => i == j
  | _, _ => false

def shareDomain (s : Scenario) (a b : Placed) (k : String) : Bool :=
  samePlace a b || (domains s a k).any (fun d => (domains s b k).contains d)

/-! ### Required pod anti-affinity (both directions, against running pods too) -/

def antiAffinityOK (s : Scenario) (all : List Placed) (carrier : Placed → Bool := fun _ => true) : Option String :=
  firstSome ((all.filter carrier).map (fun a =>
    firstSome ((a.pod.affinity.filter (fun t => t.anti && t.required)).map (fun t =>
      match all.find? (fun b => b.pod.name != a.pod.name && (a.isNew || b.isNew) &&
            termMatches s a.pod t b.pod && shareDomain s a b t.topologyKey) with
      | some b => some s!"anti-affinity: {a.pod.name} (term on {t.topologyKey}) may share a domain with {b.pod.name}"
      | none => none))))

/-! ### Required pod affinity -/

/-- labels of a node launched from pool `pl` as `(it, o)` (well-known labels and the pool's template labels) -/
def launchLabels' (pl : Pool) (it : IT) (o : Offering) : Labels :=
  pl.labels ++ [(Karp.Gen.Labels.nodePoolLabelKey, pl.name), ("node.kubernetes.io/instance-type", it.name),
    ("topology.kubernetes.io/zone", o.zone), (Karp.Gen.Labels.capacityTypeLabelKey, o.ct), ("kubernetes.io/arch", it.arch),
    ("kubernetes.io/os", it.os.head?.getD "linux")]

/-- could pod `p` run in domain `d` of key `k` at all: on some existing node there, or on a node some NodePool can
    launch there, that satisfies the pod's node selector, required node affinity and tolerations? -/
def canUseDomain (s : Scenario) (p : Pod) (k d : String) : Bool :=
  let okLabels (ls : Labels) : Bool := nodeSelectorOK ls p.nodeSelector && requiredOK ls p.required
  (s.nodes.any (fun n => !n.deleting && (nodeLabels s n).lookup k == some d && okLabels (nodeLabels s n) &&
      (untolerated p.tolerations (nodeTaints s n)).isNone)) ||
  (s.pools.any (fun pl => (untolerated p.tolerations pl.taints).isNone && s.its.any (fun it =>
      (it.offerings.filter (·.available)).any (fun o =>
        let ls := launchLabels' pl it o
        ls.lookup k == some d && okLabels ls &&
        pl.reqs.all (fun e => (ls.lookup (normalizeKey e.key)).isNone || k8sMatch e.op e.vals (ls.lookup (normalizeKey e.key)))))))

/-- could pod `p` use the domain of `q` at all (for hostname affinity: `q`'s own node) -/
def canUseDomainOf (s : Scenario) (p : Pod) (q : Placed) (k : String) : Bool :=
  match q.place with
  | .node n =>
    if k == "kubernetes.io/hostname" then
      nodeSelectorOK (nodeLabels s n) p.nodeSelector && requiredOK (nodeLabels s n) p.required &&
      (untolerated p.tolerations (nodeTaints s n)).isNone && !n.deleting
    else (domains s q k).any (fun d => canUseDomain s p k d)
  | .claim _ _ => true

/-- do the required node-affinity terms `terms` (OR-ed) admit the place the pod was put?  A node: its labels satisfy a term.
    A NodeClaim: some launch it still allows does (labels the launch does not determine - custom labels materialised from the
    claim's requirements - are read generously: any value the requirement admits).  Only used to CLASSIFY violations. -/
def placeAdmits (s : Scenario) (a : Placed) (terms : List (List KExpr)) : Bool :=
  match a.place with
  | .node n => requiredOK (nodeLabels s n) terms
  | .claim _ c =>
    match s.pool? c.pool with
    | none => false
    | some pl =>
      terms.isEmpty || (c.its.filterMap s.it?).any (fun it =>
        (it.offerings.filter (fun o => o.available && offeringCompatible c.reqs o)).any (fun o =>
          let ls := launchLabels' pl it o
          terms.any (fun t => t.all (fun e =>
            let key := normalizeKey e.key
            match ls.lookup key with
            | some v => k8sMatch e.op e.vals (some v)
            | none =>
              match c.reqs.lookup key with
              | none => k8sMatch e.op e.vals none
              | some r =>
                if r.complement then true
                else r.values.any (fun v => k8sMatch e.op e.vals (some v)) || (r.values.isEmpty && k8sMatch e.op e.vals none)))))

/-- like `canUseDomainOf`, but a pod on a NodeClaim whose domain is determined is judged by that domain (classification only) -/
def canUseDeterminedDomainOf (s : Scenario) (p : Pod) (q : Placed) (k : String) : Bool :=
  match q.place with
  | .node _ => canUseDomainOf s p q k
  | .claim _ _ =>
    if k == "kubernetes.io/hostname" then true else
    match domains s q k with
    | [d] => canUseDomain s p k d
    | _ => true

/-- every domain the pod's node could end up in certainly holds another pod the term selects
    (a pod on the same node / NodeClaim, or one whose domain is determined and equal) -/
def certainMatch (s : Scenario) (all : List Placed) (a : Placed) (t : PodAff) : Bool :=
  let k := t.topologyKey
  let others := all.filter (fun b => b.pod.name != a.pod.name && termMatches s a.pod t b.pod)
  let doms := domains s a k
  !doms.isEmpty && doms.all (fun d => others.any (fun b => samePlace a b || domains s b k == [d]))

/-- The end state of a pass respects required pod affinity if every new pod with such a term is, for certain, in a
    domain with a matching pod — or legitimately STARTED a domain: it matches its own term, no usable matching pod was
    already running, and it is the only pod of its self-affine set (same term) that is not with a match.  (Pods are
    placed one at a time; a matching pod WITHOUT the term may have been placed elsewhere later, which is fine.) -/
def affinityOK (s : Scenario) (all : List Placed) : Option String :=
  firstSome ((all.filter (·.isNew)).map (fun a =>
    firstSome ((a.pod.affinity.filter (fun t => !t.anti && t.required)).map (fun t =>
      let k := t.topologyKey
      if certainMatch s all a t then none else
      if (domains s a k).isEmpty then some s!"affinity: {a.pod.name} is on a node without label {k}" else
      if !termMatches s a.pod t a.pod then
        some s!"affinity: {a.pod.name} (term on {k}) is not for certain in a domain with a matching pod"
      else
      let others := all.filter (fun b => b.pod.name != a.pod.name && termMatches s a.pod t b.pod)
      match others.find? (fun b => !b.isNew && canUseDomainOf s a.pod b k) with
      | some b =>
        -- CLASSIFIES (never excuses): the pod has several OR-ed required node-affinity terms and under at least one of them
        -- alone it cannot use the domain `b` runs in.  Karpenter schedules the pod as if it had only the term it is currently
        -- trying, so while trying such a term it does not see `b` and lets the pod start a domain of its own.
        -- Narrow reading of that finding: SOME single term that admits the pod's own placement (the one Karpenter was trying
        -- when it placed the pod) leaves, read alone, no running matching pod in a domain the pod can use.  If under every
        -- term that admits the placement a running match stays usable, the violation is not that finding.
        let orTerms := a.pod.required.length ≥ 2 &&
          a.pod.required.any (fun term => placeAdmits s a [term] &&
            others.all (fun b' => b'.isNew || !canUseDomainOf s { a.pod with required := [term] } b' k))
        let tag := if orTerms then "affinity-or-terms" else "affinity"
        some s!"{tag}: {a.pod.name} (term on {k}) started a new domain although {b.pod.name} was running in a domain it can use"
      | none =>
        let sameTerm (b : Placed) : Bool := b.pod.affinity.any (fun t' => !t'.anti && t'.required && t'.topologyKey == k &&
          termKey s b.pod t' == termKey s a.pod t)
        match all.find? (fun b => b.isNew && b.pod.name != a.pod.name && sameTerm b && termMatches s a.pod t b.pod &&
            !certainMatch s all b t) with
        | some b =>
          -- CLASSIFIES (never excuses): the same finding between two pods of ONE pass.  One of the two has several OR-ed
          -- required node-affinity terms and, read with a single term that admits its own placement (the one Karpenter was
          -- trying), cannot use the domain the other one started - so Karpenter did not see that match and bootstrapped.
          let blind (x y : Placed) : Bool := x.pod.required.length ≥ 2 &&
            x.pod.required.any (fun term => placeAdmits s x [term] && !canUseDeterminedDomainOf s { x.pod with required := [term] } y k)
          let tag := if blind a b || blind b a then "affinity-or-terms" else "affinity"
          some s!"{tag}: {a.pod.name} and {b.pod.name} (same self-selecting term on {k}) each started their own domain: {domains s a k} / {domains s b k}"
        | none => none))))

/-! ### Topology spread (DoNotSchedule) -/

/-- labels of a node launched from pool `pl` as `(it, o)` (well-known labels and the pool's template labels) -/
def launchLabels (pl : Pool) (it : IT) (o : Offering) : Labels :=
  pl.labels ++ [(Karp.Gen.Labels.nodePoolLabelKey, pl.name), ("node.kubernetes.io/instance-type", it.name),
    ("topology.kubernetes.io/zone", o.zone), (Karp.Gen.Labels.capacityTypeLabelKey, o.ct), ("kubernetes.io/arch", it.arch),
    ("kubernetes.io/os", it.os.head?.getD "linux")]

/-- the taints on the Node OBJECT as the kube-scheduler sees them now (used for the node inclusion policy of spread
    constraints; both Karpenter's counting and the kube-scheduler read the object): a managed node that is not yet
    initialized still carries its NodePool's startup taints, one that is not yet registered the `unregistered` taint.
    (The scheduling view `nodeTaints` leaves those out because they are about to go away.) -/
def objectTaints (s : Scenario) (n : Node) : List Taint :=
  let pool := s.pool? n.pool
  let poolTaints := match pool with | some p => p.taints | none => []
  let startup := match pool with
    | some p => if n.stage == "node" || n.stage == "registered" then p.startupTaints else []
    | none => []
  let unreg : List Taint := if n.pool != "" && n.stage == "node" then
    [{ key := "karpenter.sh/unregistered", value := "", effect := "NoExecute" }] else []
  n.taints ++ poolTaints ++ startup ++ unreg

/-- the domains of key `k` that count for the skew of pod `p`, as the kube-scheduler will see them once the new nodes
    have joined: the domains of Node objects (and of the NodeClaims this pass creates) that satisfy the constraint's node
    inclusion policies.  Domains that merely COULD be created (a zone no node is in) do not count — Karpenter itself
    also balances over those, which is stricter than the property. -/
def eligibleDomains (s : Scenario) (all : List Placed) (p : Pod) (k : String) (honorAffinity : Bool) (honorTaints : Bool := false) : List String :=
  let okFor (ls : Labels) : Bool := !honorAffinity || (nodeSelectorOK ls p.nodeSelector && requiredOK ls p.required)
  -- only Node objects count (an in-flight NodeClaim without a Node is not a node yet)
  let fromNodes := (s.nodes.filter (fun n => !n.deleting && n.stage != "claim")).filterMap (fun n =>
    if okFor (nodeLabels s n) && (!honorTaints || (untolerated p.tolerations (objectTaints s n)).isNone) then (nodeLabels s n).lookup k else none)
  -- a NodeClaim of this pass counts if some launch it allows satisfies the inclusion policies
  let claimOK (c : Claim) : Bool :=
    match s.pool? c.pool with
    | none => false
    | some pl =>
      (c.its.filterMap s.it?).any (fun it => (it.offerings.filter (fun o => o.available && offeringCompatible c.reqs o)).any (fun o =>
        okFor (launchLabels' pl it o)))
  let fromClaims := all.filterMap (fun b => match b.place with
    | .claim _ c =>
      (match domains s b k with
       | [d] => if claimOK c && (!honorTaints || (untolerated p.tolerations c.taints).isNone) then some d else none
       | _ => none)
    | .node _ => none)
  (fromNodes ++ fromClaims).eraseDups

/-- "among the pods that carry it": a pod counts for a constraint if the constraint's selector matches it AND it carries
    the same DoNotSchedule constraint (same topology key and the same effective selector, i.e. after `matchLabelKeys`
    contributed each carrier's own values: pods of another revision carry ANOTHER constraint) itself -/
def carries (s : Scenario) (owner : Pod) (b : Placed) (c : Spread) : Bool :=
  spreadMatches owner c b.pod &&
  (effectiveSpreads s b.pod).any (fun c' => c'.doNotSchedule && c'.topologyKey == c.topologyKey && spreadKey b.pod c' == spreadKey owner c &&
    c'.maxSkew == c.maxSkew && c'.minDomains == c.minDomains && c'.nodeAffinityHonor == c.nodeAffinityHonor &&
    c'.nodeTaintsHonor == c.nodeTaintsHonor)

/-- The skew verdict for the new pod `a`, its DoNotSchedule constraint `c` (not on hostname) and its determined domain `d`.
    `countTerms` are the required node-affinity terms read for "which nodes (and the pods on them) count" and `minTerms`
    those read for "over which domains is the global minimum taken" (node inclusion policy Honor); the specification
    proper reads the pod's own terms for both.  `some (count, domains, min, skew)` = maxSkew exceeded. -/
def spreadExcess (s : Scenario) (all : List Placed) (a : Placed) (c : Spread) (d : String)
    (countTerms minTerms : List (List KExpr)) (strictClaims : Bool := false) : Option (Nat × List String × Nat × Nat) :=
  let k := c.topologyKey
  let honor := c.nodeAffinityHonor.getD true
  let honorT := c.nodeTaintsHonor.getD false
  let podC : Pod := { a.pod with required := countTerms }
  let podM : Pod := { a.pod with required := minTerms }
  let eligC := (eligibleDomains s all podC k honor honorT)
  let eligC := if eligC.contains d then eligC else d :: eligC
  let elig := (eligibleDomains s all podM k honor honorT)
  let elig := if elig.contains d then elig else d :: elig
  -- node inclusion policies: pods on nodes that do not match the pod's own node selector / required node affinity
  -- (policy Honor, the default) or whose taints it does not tolerate (policy Honor, not the default) do not count
  let nodeCounts (b : Placed) : Bool :=
    match b.place with
    | .node n =>
      (!honor || (nodeSelectorOK (nodeLabels s n) podC.nodeSelector && requiredOK (nodeLabels s n) podC.required)) &&
      (!honorT || (untolerated a.pod.tolerations (objectTaints s n)).isNone)
    | .claim _ cl =>
      -- (when re-judging for a classification, `strictClaims`: the NodeClaim itself must allow a launch that satisfies the terms)
      (!honor || ((domains s b k).all (fun d => eligC.contains d) && (!strictClaims || placeAdmits s b podC.required))) &&
      (!honorT || (untolerated a.pod.tolerations cl.taints).isNone)
  let count (dd : String) (onlyOld : Bool) : Nat :=
    (all.filter (fun b => (!onlyOld || !b.isNew) && spreadMatches a.pod c b.pod && domains s b k == [dd] && nodeCounts b)).length
  let minNow := match elig.map (fun dd => count dd false) with
    | [] => 0
    | x :: xs => xs.foldl min x
  -- minDomains: the number of eligible domains also includes the domains of in-flight NodeClaims (no Node object yet,
  -- but about to join exactly like the NodeClaims this pass creates)
  let inflight := (s.nodes.filter (fun n => !n.deleting && n.stage == "claim")).filterMap (fun n =>
    if (!honor || (nodeSelectorOK (nodeLabels s n) podM.nodeSelector && requiredOK (nodeLabels s n) podM.required)) &&
       (!honorT || (untolerated a.pod.tolerations (nodeTaints s n)).isNone) then (nodeLabels s n).lookup k else none)
  let numDomains := (elig ++ inflight).eraseDups.length
  let minNow := match c.minDomains with
    | some md => if numDomains < md then 0 else minNow
    | none => minNow
  let skewNow := count d false - minNow
  -- the skew that was already there before this pass is not the scheduler's doing
  let minOld := match elig.map (fun dd => count dd true) with
    | [] => 0
    | x :: xs => xs.foldl min x
  let skewOld := count d true - minOld
  -- Kubernetes counts every pod the selector matches, but only constrains the pods that carry the constraint: matching
  -- pods that this pass put into `d` WITHOUT the same constraint, or with another node selector / affinity (their own skew
  -- is computed over other eligible domains), may have arrived after `a` and are slack
  let sibling (b : Placed) : Bool := carries s a.pod b c && toString (repr b.pod.nodeSelector) == toString (repr a.pod.nodeSelector) &&
    toString (repr b.pod.required) == toString (repr a.pod.required) &&
    toString (repr b.pod.tolerations) == toString (repr a.pod.tolerations)
  let slack := (all.filter (fun b => b.isNew && spreadMatches a.pod c b.pod && !sibling b && domains s b k == [d])).length
  if skewNow > max c.maxSkew skewOld + slack then some (count d false, elig, minNow, skewNow) else none

/-- the non-empty suffixes of a list -/
def suffixes : List α → List (List α)
  | [] => []
  | x :: xs => (x :: xs) :: suffixes xs

def spreadOK (s : Scenario) (all : List Placed) : Option String :=
  firstSome ((all.filter (·.isNew)).map (fun a =>
    firstSome (((effectiveSpreads s a.pod).filter (·.doNotSchedule)).map (fun c =>
      let k := c.topologyKey
      if k == "kubernetes.io/hostname" then
        -- hostname: every new node is a fresh domain, the global minimum is 0
        let here := (all.filter (fun b => samePlace a b && spreadMatches a.pod c b.pod && (carries s a.pod b c || !b.isNew))).length
        let before := (all.filter (fun b => !b.isNew && samePlace a b && spreadMatches a.pod c b.pod)).length
        if here > max c.maxSkew (before + 1) && here > c.maxSkew then
          some s!"spread: {here} matching pods on the node of {a.pod.name} exceed maxSkew {c.maxSkew} on hostname"
        else none
      else
      match domains s a k with
      | [d] =>
        match spreadExcess s all a c d a.pod.required a.pod.required with
        | none => none
        | some (cnt, elig, minNow, skewNow) =>
          -- CLASSIFIES (never excuses): the pod has several OR-ed required node-affinity terms t1 … tn.  Karpenter schedules it
          -- as if it had only the term it is currently trying: with i terms relaxed away its node filter reads t(i+1) … tn
          -- (the nodes that count), and the global minimum is taken over the domains of t(i+1) alone, while every node matching
          -- ANY term counts for the kube-scheduler.  The violation is THAT finding only if it disappears under such a reading
          -- for a term that admits the pod's own placement; a violation that stays under every such reading (e.g. because
          -- Karpenter's node filter does not read the terms as a disjunction at all) is a plain spread violation.
          -- The end state does not say which pod of `d` arrived last: the pod Karpenter misjudged may be `a` or any pod this
          -- pass put into `d` that carries the same constraint, so each of them is re-judged.
          let honor := c.nodeAffinityHonor.getD true
          let excused (b : Placed) : Bool := b.pod.required.length ≥ 2 &&
            (suffixes b.pod.required).any (fun sfx =>
              match sfx with
              | [] => false
              | t :: _ => placeAdmits s b [t] && (spreadExcess s all b c d sfx [t] true).isNone)
          let orTerms := honor && (excused a ||
            all.any (fun b => b.isNew && b.pod.name != a.pod.name && carries s a.pod b c && domains s b k == [d] && excused b))
          let tag := if orTerms then "spread-or-terms" else "spread"
          some s!"{tag}: domain {d} of {a.pod.name} has {cnt} matching pods, minimum over {elig} is {minNow}: skew {skewNow} > maxSkew {c.maxSkew}"
      | [] => some s!"spread: {a.pod.name} is on a node without label {k}"
      | _ => some s!"spread: the domain of {a.pod.name} on {k} is still undetermined after the pass"))))

/-- required anti-affinity terms carried by pods that were already RUNNING (the inverse direction only) -/
def runningCarriersOK (s : Scenario) (out : Outcome) : Option String :=
  antiAffinityOK s (placements s out) (fun a => !a.isNew)

def outcomeOK (s : Scenario) (out : Outcome) : Option String :=
  let all := placements s out
  match antiAffinityOK s all with
  | some w => some w
  | none =>
    match affinityOK s all with
    | some w => some w
    | none => spreadOK s all

end Karp.Spec.InterPod
