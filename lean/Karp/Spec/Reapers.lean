/-
Independent specification for C16 — "forceful reapers act only on their documented trigger".

Written from the property text, not from the code.  It shares only the *vocabulary* (the input records
describing NodeClaims, Nodes, provider instances, clock and call outcomes) with the model.  Each predicate
answers: "given this world, is the reaper *permitted* to issue a Delete for this NodeClaim?"  The driver
evaluates it on what the real controller did; the theorems in `Props/C16.lean` prove it of the model.
-/
import Karp.Model.Reapers

namespace Karp.Spec.Reapers
open Karp.Reapers

/-! ### Expiration: "no earlier than its creation time plus expireAfter and never when expiry is disabled" -/

def expirationMayDelete (expireAfter : Option Int) (created now : Int) : Bool :=
  match expireAfter with
  | none => false
  | some d => created + d ≤ now

/-! ### Garbage collection: "deletes a registered NodeClaim only when the provider no longer lists its
    instance and its Node is absent or not Ready, and not when that cannot be established" -/

/-- the provider list was obtained and contains no live (non-terminating) instance with the claim's id -/
def providerLacks (i : GCIn) (c : Claim) : Bool :=
  !i.providerListFault && i.provider.all (fun p => p.pid != c.pid || p.deleting)

/-- it has been *established* that the claim's Node is absent or not Ready: the lookup succeeded (a claim
    without a provider id has no Node to look up) and no Node carrying the claim's provider id is Ready -/
def nodeAbsentOrNotReady (i : GCIn) (c : Claim) : Bool :=
  c.pid == "" || (!i.lookupFault.contains c.pid && i.nodes.all (fun n => n.pid != c.pid || !n.ready))

def gcMayDelete (i : GCIn) (c : Claim) : Bool :=
  c.registered == .true_ && !i.listClaimsFault && providerLacks i c && nodeAbsentOrNotReady i c

/-- every Delete the collector issued was for a NodeClaim it was permitted to delete -/
def gcDeletesOk (i : GCIn) (deleted : List String) : Bool :=
  deleted.all (fun d => i.claims.any (fun c => c.name == d && gcMayDelete i c))

/-! ### Liveness: "deletes only NodeClaims that failed to launch or register within their timeouts" -/

/-- the documented timeouts (karpenter docs / DESIGN): 5 minutes to launch, 15 minutes to register -/
def documentedLaunchTimeout : Int := 5 * 60 * 1000000000
def documentedRegistrationTimeout : Int := 15 * 60 * 1000000000

def livenessMayDelete (launchTO regTO : Int) (launched : Tri) (launchedAt : Int)
    (registered : Tri) (registeredAt now : Int) : Bool :=
  (launched != .true_ && launchTO ≤ now - launchedAt) ||
  (registered != .true_ && regTO ≤ now - registeredAt)

/-! ### Node repair: "only after its unhealthy condition has lasted the provider's toleration and only while
    at most 20% (rounded up) of the pool's nodes are unhealthy" -/

/-- the documented circuit breaker: 20% -/
def documentedUnhealthyPercent : Nat := 20

/-- some condition of the node matches a provider repair policy and has had that status for at least the
    policy's toleration -/
def tolerationLasted (ps : List Policy) (conds : List NCond) (now : Int) : Bool :=
  ps.any (fun p =>
    match conds.find? (fun c => c.type == p.type) with
    | some c => c.status == p.status && c.since + p.toleration ≤ now
    | none => false)

def nodeUnhealthy (ps : List Policy) (n : RNode) : Bool :=
  ps.any (fun p =>
    match n.conds.find? (fun c => c.type == p.type) with
    | some c => c.status == p.status
    | none => false)

/-- the nodes the breaker is about: the NodePool's (a standalone claim: the cluster's) -/
def breakerNodes (i : RepairIn) : List RNode :=
  (i.node :: i.others).filter (fun n => match i.claimPool with | some p => n.pool == p | none => true)

/-- `u ≤ ⌈pct·n/100⌉`, stated without division: `u = 0` or `100·(u−1) < pct·n` -/
def atMostPercentRoundedUp (pct u n : Nat) : Bool := u == 0 || 100 * (u - 1) < pct * n

def breakerClosed (pct : Nat) (i : RepairIn) : Bool :=
  i.nodeListFault == .none &&   -- the population could be listed
  atMostPercentRoundedUp pct ((breakerNodes i).filter (nodeUnhealthy i.policies)).length (breakerNodes i).length

def repairMayDelete (pct : Nat) (i : RepairIn) : Bool :=
  tolerationLasted i.policies i.node.conds i.now && breakerClosed pct i

/-! ### Node repair acts on the Node's *own* NodeClaim: "deletes a node only after **its** unhealthy condition
    has lasted …" — the NodeClaim that is deleted must be the reconciled Node's -/

/-- NodeClaim `c` is the NodeClaim of the Node with provider id `nodePid`: they name the same instance. A Node
    without a provider id is (yet) nobody's Node, and a NodeClaim that has no provider id yet (still launching)
    has no Node — and hence no condition, unhealthy or otherwise. -/
def claimIsOfNode (nodePid : String) (c : TClaim) : Bool := nodePid != "" && c.pid != "" && c.pid == nodePid

/-- may node repair, reconciling the Node of `i`, issue a Delete for the NodeClaim called `name`? -/
def repairTargetMayDelete (pct : Nat) (i : RepairTIn) (name : String) : Bool :=
  i.claims.any (fun c => c.name == name && claimIsOfNode i.nodePid c && repairMayDelete pct (i.view c))

def repairTargetDeletesOk (pct : Nat) (i : RepairTIn) (deleted : List String) : Bool :=
  deleted.all (repairTargetMayDelete pct i)

end Karp.Spec.Reapers
