/-
Scenario vocabulary shared by the whole-pass specifications (C01, C02, C04, C17 …): a cluster
(instance-type catalog, NodePools, existing nodes with bound pods, daemonsets), a batch of pending
pods, and the canonical outcome of one scheduling pass.  Mirrors `harness/internal/world/scenario.go`.
Quantities are integers: cpu in milli-cores, memory in Mi, price on a 1/1024 grid.
-/
import Karp.Model.Req

namespace Karp.Scn
open Karp.Req

abbrev Labels := List (String × String)

structure KExpr where
  key : String
  op : Op
  vals : List String
deriving Repr

structure Taint where
  key : String
  value : String
  effect : String
deriving Repr, DecidableEq

structure Toleration where
  key : String
  operator : String   -- "Exists" | "Equal" | ""
  value : String
  effect : String     -- "" = every effect
deriving Repr

structure HostPort where
  port : Nat
  proto : String
  ip : String         -- "" = wildcard
deriving Repr

structure Offering where
  zone : String
  ct : String
  price : Nat
  available : Bool
  resID : String
  resN : Nat
  /-- cpu `CapacityOverride` of this offering (milli-cores) -/
  cpuOverride : Option Int := none
deriving Repr

structure IT where
  name : String
  cpu : Int
  mem : Int
  pods : Int
  arch : String
  os : List String
  overhead : Int
  offerings : List Offering
deriving Repr

structure MinExpr where
  key : String
  op : Op
  vals : List String
  minValues : Option Int
deriving Repr

structure Pool where
  name : String
  weight : Int
  labels : Labels
  taints : List Taint
  startupTaints : List Taint
  reqs : List MinExpr
  limitCPU : Option Int
  limitMem : Option Int
deriving Repr

/-- a `metav1.LabelSelector`: `matchLabels` AND `matchExprs` (In | NotIn | Exists | DoesNotExist); a selector without any
    requirement selects everything -/
structure LabelSel where
  matchLabels : Labels := []
  matchExprs : List KExpr := []
deriving Repr

structure PodAff where
  topologyKey : String
  matchLabels : Labels
  anti : Bool
  required : Bool
  /-- matchExpressions of the term's label selector -/
  matchExprs : List KExpr := []
  /-- listed namespaces and namespace selector (`none` = unset, `some {}` = every namespace) -/
  namespaces : List String := []
  namespaceSelector : Option LabelSel := none
  /-- the pod's own values of these label keys are ANDed into the selector -/
  matchLabelKeys : List String := []
deriving Repr

structure Spread where
  topologyKey : String
  maxSkew : Nat
  minDomains : Option Nat
  doNotSchedule : Bool
  matchLabels : Labels
  nodeAffinityHonor : Option Bool
  nodeTaintsHonor : Option Bool
  /-- matchExpressions of the constraint's label selector -/
  matchExprs : List KExpr := []
  /-- the pod's own values of these label keys are ANDed into the selector -/
  matchLabelKeys : List String := []
deriving Repr

/-- a pod volume backed by the PersistentVolumeClaim `claim` of the pod's namespace -/
structure Volume where
  name : String
  claim : String
deriving Repr

structure Preferred where
  weight : Int
  exprs : List KExpr
deriving Repr

structure Pod where
  name : String
  labels : Labels
  cpu : Int
  mem : Int
  nodeSelector : Labels
  required : List (List KExpr)
  preferred : List Preferred
  tolerations : List Toleration
  hostPorts : List HostPort
  affinity : List PodAff
  spreads : List Spread
  daemon : Bool
  ns : String := "default"
  volumes : List Volume := []
  /-- the pod's controller: the ReplicaSet of this name in the pod's namespace ("" = none) -/
  owner : String := ""
deriving Repr

structure Node where
  name : String
  pool : String          -- "" = unmanaged
  it : String
  zone : String
  ct : String
  labels : Labels
  taints : List Taint
  stage : String         -- claim | node | registered | initialized
  deleting : Bool
  pods : List Pod
deriving Repr

structure DaemonSet where
  name : String
  cpu : Int
  mem : Int
  nodeSelector : Labels
  tolerations : List Toleration
  hostPorts : List HostPort
deriving Repr

structure Namespace where
  name : String
  labels : Labels
deriving Repr

/-- a PersistentVolume with its required node affinity (OR of AND-ed expressions; none = reachable from everywhere) -/
structure PV where
  name : String
  terms : List (List KExpr)
deriving Repr

/-- a StorageClass with its allowedTopologies (OR of AND-ed `key In values`; none = anywhere) and binding mode -/
structure StorageClass where
  name : String
  topologies : List (List KExpr)
  immediate : Bool
deriving Repr

/-- a PersistentVolumeClaim: bound to PV `volumeName` (non-empty), or unbound and provisioned through `storageClass` -/
structure PVC where
  name : String
  ns : String
  volumeName : String
  storageClass : String
deriving Repr

/-- a Service: `selector = none` selects nothing, `some []` every pod of its namespace -/
structure Service where
  name : String
  ns : String
  selector : Option Labels
deriving Repr

/-- a ReplicaSet (only its selector matters) -/
structure ReplicaSet where
  name : String
  ns : String
  selector : LabelSel
deriving Repr

structure Scenario where
  its : List IT
  pools : List Pool
  nodes : List Node
  daemonsets : List DaemonSet
  pods : List Pod
  ignorePreferences : Bool
  bestEffortMinValues : Bool
  parallelism : Nat
  reservedCapacity : Bool
  namespaces : List Namespace := []
  storageClasses : List StorageClass := []
  pvs : List PV := []
  pvcs : List PVC := []
  /-- API faults injected during the pass: the `n`-th List of a kind fails once -/
  listFaults : List (String × Nat) := []
  /-- cluster-level default topology spread constraints (`--scheduler-config`; their selector fields stay empty) -/
  defaultSpreads : List Spread := []
  services : List Service := []
  replicaSets : List ReplicaSet := []
deriving Repr

/-! ### Outcome of a pass -/

structure Claim where
  pool : String
  pods : List String
  reqs : Reqs
  its : List String
  reqCPU : Int
  reqMem : Int
  reqPods : Int
  taints : List Taint
deriving Repr

structure Outcome where
  existing : List (String × List String)
  claims : List Claim
  errors : List (String × String)
deriving Repr

/-! ### Lookups -/

def Scenario.it? (s : Scenario) (n : String) : Option IT := s.its.find? (·.name == n)
def Scenario.pool? (s : Scenario) (n : String) : Option Pool := s.pools.find? (·.name == n)
def Scenario.node? (s : Scenario) (n : String) : Option Node := s.nodes.find? (·.name == n)
/-- pending pods and the pods bound to nodes (pods of deleting nodes are rescheduled too) -/
def Scenario.pod? (s : Scenario) (n : String) : Option Pod :=
  (s.pods ++ s.nodes.flatMap (·.pods)).find? (·.name == n)

def Scenario.allPods (s : Scenario) : List Pod := s.pods ++ s.nodes.flatMap (·.pods)

/-- every namespace with its labels: the declared ones, `default`, and those that pods or claims use without declaring them;
    each carries `kubernetes.io/metadata.name` (set by the API server) -/
def Scenario.allNamespaces (s : Scenario) : List (String × Labels) :=
  let names := (s.namespaces.map (·.name) ++ ["default"] ++ s.allPods.map (·.ns) ++ s.pvcs.map (·.ns)).eraseDups
  names.map (fun n =>
    let declared := match s.namespaces.find? (·.name == n) with | some d => d.labels | none => []
    (n, declared ++ [("kubernetes.io/metadata.name", n)]))

def Scenario.pvc? (s : Scenario) (ns name : String) : Option PVC := s.pvcs.find? (fun c => c.ns == ns && c.name == name)
def Scenario.pv? (s : Scenario) (n : String) : Option PV := s.pvs.find? (·.name == n)
def Scenario.storageClass? (s : Scenario) (n : String) : Option StorageClass := s.storageClasses.find? (·.name == n)

def IT.allocCPU (it : IT) : Int := it.cpu - it.overhead
/-- allocatable cpu of a launch through offering `o` (`computeAllocatable` with the offering's capacity override) -/
def IT.allocCPUFor (it : IT) (o : Offering) : Int := o.cpuOverride.getD it.cpu - it.overhead

def Node.managed (n : Node) : Bool := n.pool != ""
def Node.initialized (n : Node) : Bool := !n.managed || n.stage == "initialized"

end Karp.Scn
