/-
Independent specification for C09 (ordered finalization, no leaked instance).

Written from the property text, the Kubernetes toleration rule and Karpenter's documented notion of a pod it can
drain — not from the controller code, and without importing the model.  Every predicate is judged on a *snapshot of
the ground truth* taken by the harness at the instant a patch removes a termination finalizer (or the node
termination controller asks the provider to terminate the instance).

Reading of the property text used here:
* "cordoned"  = the Node carries the taint `karpenter.sh/disrupted:NoSchedule`.
* "a pod Karpenter can drain" = a pod bound to the node that does not tolerate that taint and is not a static
  (mirror) pod.  Such a pod may remain only if it is "stuck terminating" (terminating for more than one minute past
  its deletion timestamp) — or if it has completed (phase Succeeded / Failed: nothing is running any more).
* "blocking volume attachment" = a VolumeAttachment of the node for a persistent volume that is not mounted (through
  an existing PVC) by a pod Karpenter cannot drain.  "Gone" = the VolumeAttachment object no longer exists: an
  attachment that the attach-detach controller has deleted but that the CSI external-attacher's finalizer still holds
  (deletionTimestamp set, detach in progress or failing) is NOT gone, and neither is one whose `status.attached` is
  false.  The snapshot therefore lists every VolumeAttachment object of the node that exists in the store, whatever
  its metadata or status say.
* "termination grace period has expired" = the instant is after the deadline recorded on the NodeClaim.
* "the provider confirms the instance no longer exists" = the instance is absent from the provider's instance set.
-/
namespace Karp.Spec.Finalize

/-- a toleration, as in `core/v1` -/
structure Toleration where
  key : String
  /-- operator `Exists` (otherwise `Equal`) -/
  opExists : Bool
  value : String
  /-- "" = every effect -/
  effect : String
deriving Repr, DecidableEq

structure Taint where
  key : String
  value : String
  effect : String
deriving Repr, DecidableEq

/-- Kubernetes: a toleration tolerates a taint iff the effects match (or the toleration names none), the keys match (or
    the toleration names none) and the operator is `Exists` or the values are equal. -/
def Toleration.tolerates (t : Toleration) (x : Taint) : Bool :=
  (t.effect == "" || t.effect == x.effect) && (t.key == "" || t.key == x.key) && (t.opExists || t.value == x.value)

/-- the taint Karpenter cordons a disrupted node with -/
def disruptedTaint : Taint := { key := "karpenter.sh/disrupted", value := "", effect := "NoSchedule" }

structure Pod where
  tolerations : List Toleration
  /-- static (mirror) pod: owned by the Node -/
  static : Bool
  phase : String
  /-- deletion timestamp (ns), if terminating -/
  deletedAt : Option Int
  /-- persistent volumes mounted through PVCs that exist -/
  pvs : List Nat
deriving Repr, DecidableEq

/-- one minute, in nanoseconds -/
def stuckAfterNs : Int := 60 * 1000000000

def Pod.canDrain (p : Pod) : Bool := !(p.tolerations.any (·.tolerates disruptedTaint)) && !p.static
def Pod.completed (p : Pod) : Bool := p.phase == "Succeeded" || p.phase == "Failed"
def Pod.stuckTerminating (now : Int) (p : Pod) : Bool :=
  match p.deletedAt with | none => false | some d => decide (now - d > stuckAfterNs)

/-- the pod still holds the drain: Karpenter can drain it, it is there, running, and not stuck terminating -/
def Pod.holdsDrain (now : Int) (p : Pod) : Bool := p.canDrain && !p.completed && !p.stuckTerminating now

/-- a volume attachment (`pv = none`: no persistent volume name) blocks unless its volume belongs to a pod Karpenter
    cannot drain (tolerating, static, or stuck terminating) -/
def blockingVA (now : Int) (pods : List Pod) (pv : Option Nat) : Bool :=
  match pv with
  | none => false
  | some k => !(pods.any (fun p => !(p.canDrain && !p.stuckTerminating now) && p.pvs.contains k))

structure NodeSnap where
  now : Int
  tainted : Bool
  /-- the Node's Ready condition is True -/
  ready : Bool
  /-- number of NodeClaims that carry the Node's provider id -/
  claims : Nat
  /-- the termination deadline recorded on the NodeClaim, if any -/
  deadline : Option Int
  pods : List Pod
  vas : List (Option Nat)
  instanceGone : Bool
deriving Repr

def NodeSnap.drained (s : NodeSnap) : Bool := s.pods.all (fun p => !p.holdsDrain s.now)
def NodeSnap.deadlinePassed (s : NodeSnap) : Bool :=
  match s.deadline with | none => false | some d => decide (d < s.now)
def NodeSnap.volumesOk (s : NodeSnap) : Bool := s.vas.all (fun v => !blockingVA s.now s.pods v) || s.deadlinePassed

/-- the ordered part: cordoned, drained, volumes detached (or deadline passed) -/
def NodeSnap.orderly (s : NodeSnap) : Bool := s.tainted && s.drained && s.volumesOk

/-- **the Node's finalizer may be removed** (first sentence of the property).  A Node without any NodeClaim is outside
    the property. -/
def nodeRemovalOk (s : NodeSnap) : Bool :=
  s.claims == 0 || ((!s.ready && s.instanceGone) || (s.orderly && s.instanceGone))

/-- "finalized in order": the node termination controller may ask the provider to terminate the instance only once the
    node is cordoned, drained and its volumes are detached (or the deadline passed) -/
def instanceDeleteOk (s : NodeSnap) : Bool := s.orderly

structure ClaimSnap where
  /-- Registered condition is True -/
  registered : Bool
  /-- Nodes that carry the claim's provider id -/
  nodes : Nat
  /-- the provider ever launched an instance for the claim (ground truth) -/
  launched : Bool
  instanceGone : Bool
deriving Repr

/-- **the NodeClaim's finalizer may be removed** (second sentence of the property) -/
def claimRemovalOk (s : ClaimSnap) : Bool := (!s.registered || s.nodes == 0) && (!s.launched || s.instanceGone)

/-- a completed deletion orphaned an instance: the NodeClaim is gone while an instance launched for it still exists -/
def orphaned (claimExists instanceExists : Bool) : Bool := !claimExists && instanceExists

end Karp.Spec.Finalize
