/-
Independent specification for C06 — "Consolidation keeps pods schedulable and strictly lowers cost".

Written from the property text over the scenario vocabulary (`Karp.Spec.Scenario`), not from the code:
a consolidation COMMAND (the nodes it removes, at most one replacement NodeClaim with its final requirements
and instance-type options, and the placements of the scheduling simulation it was built from) is judged
against the cluster it was computed for.

* feasible home     : every reschedulable pod of a removed node is placed — on a remaining node that is not
                      itself removed, not deleting and (if managed) initialized, or on the replacement — and the
                      placements are admissible by the Kubernetes rules of `Karp.Spec.Admissible` (C01's oracle)
                      for EVERY launch the replacement's final requirements permit.
* at most one       : at most one replacement NodeClaim.
* strictly cheaper  : every launch the replacement request permits — every AVAILABLE offering of every listed
                      instance type that the final requirements admit — costs strictly less than the removed
                      nodes together.  (This is the worst case over all permitted launches: no capacity-type
                      precedence is assumed.)
* spot-to-spot      : removing only spot nodes for a replacement that may itself be spot needs the feature
                      gate and, for a single node, at least `spotFloor` launchable, strictly cheaper options.
* on-demand fallback: when an on-demand node is removed, no permitted on-demand launch costs as much or more.
* empty             : a node is deleted as empty only if no reschedulable pod on it has a positive eviction cost.

Every predicate is executable: `none` = holds, `some (signature, why)` = violated.
-/
import Karp.Spec.Admissible

namespace Karp.Spec.Consolidation
open Karp.Req Karp.Scn Karp.Spec.Admissible

def zoneKey : String := "topology.kubernetes.io/zone"
def ctKey : String := "karpenter.sh/capacity-type"
def spotFloor : Nat := 15

/-- what decides a pod's eviction cost, and whether it still runs -/
structure PodInfo where
  pod : String
  delCost : Option Int
  prio : Option Int
  terminal : Bool
deriving Repr

structure Command where
  /-- single | multi | empty -/
  method : String
  /-- names of the removed nodes -/
  cands : List String
  /-- replacement NodeClaims with their FINAL requirements and options -/
  repl : List Claim
  /-- placements of the simulation the command carries (`existing`, `errors`; its claims are `repl`) -/
  existing : List (String × List String)
  errors : List (String × String)
  /-- number of new NodeClaims in the carried simulation -/
  newClaims : Nat
deriving Repr

/-! ### Prices -/

/-- the price of the offering a node runs on (whether or not it can still be bought) -/
def nodePrice (s : Scenario) (n : Node) : Option Nat :=
  (s.it? n.it).bind (fun it => (it.offerings.find? (fun o => o.zone == n.zone && o.ct == n.ct)).map (·.price))

/-- combined price of the removed nodes; a node whose price is unknown counts as free (the conservative reading) -/
def combinedPrice (s : Scenario) (cands : List String) : Nat :=
  ((cands.filterMap s.node?).map (fun n => (nodePrice s n).getD 0)).sum

/-- may a node launched from offering `o` satisfy the request's requirements `R`?  The offering fixes the zone
    and capacity-type labels and, for a reserved offering, the reservation-id label (absent otherwise). -/
def permits (ridKey : String) (R : Reqs) (o : Offering) : Bool :=
  (R.get zoneKey).has o.zone && (R.get ctKey).has o.ct &&
  (if o.ct == "reserved" then (R.get ridKey).has o.resID
   else match R.lookup ridKey with | none => true | some r => r.absentOk)

/-- the launches a request permits: available offerings its requirements admit -/
def launches (ridKey : String) (R : Reqs) (it : IT) : List Offering :=
  it.offerings.filter (fun o => o.available && permits ridKey R o)

def launchableTypes (s : Scenario) (ridKey : String) (c : Claim) : List IT :=
  (c.its.filterMap s.it?).filter (fun it => !(launches ridKey c.reqs it).isEmpty)

abbrev Verdict := Option (String × String)

def firstV (l : List Verdict) : Verdict := l.findSome? id

def atMostOne (cmd : Command) : Verdict :=
  if cmd.repl.length > 1 then some ("count", s!"{cmd.repl.length} replacement NodeClaims")
  else if cmd.newClaims != cmd.repl.length then
    some ("count", s!"the command carries {cmd.repl.length} replacements but its simulation opened {cmd.newClaims} NodeClaims")
  else none

def strictlyCheaper (s : Scenario) (ridKey : String) (cmd : Command) : Verdict :=
  let total := combinedPrice s cmd.cands
  firstV (cmd.repl.map (fun c =>
    firstV (c.its.map (fun itn =>
      match s.it? itn with
      | none => some ("price", s!"replacement names unknown instance type {itn}")
      | some it =>
        match (launches ridKey c.reqs it).find? (fun o => decide (total ≤ o.price)) with
        | some o => some ("price", s!"replacement option {itn} may launch in {o.zone}/{o.ct} at {o.price}/1024, not below the removed nodes' combined {total}/1024")
        | none => none))))

def allSpot (s : Scenario) (cands : List String) : Bool :=
  (cands.filterMap s.node?).all (fun n => n.ct == "spot")

def spotToSpot (s : Scenario) (ridKey : String) (gate : Bool) (cmd : Command) : Verdict :=
  firstV (cmd.repl.map (fun c =>
    if allSpot s cmd.cands && (c.reqs.get ctKey).has "spot" then
      if !gate then some ("spot-to-spot", "spot nodes are replaced by a request that may launch spot although SpotToSpotConsolidation is disabled")
      else if cmd.cands.length == 1 && (launchableTypes s ridKey c).length < spotFloor then
        some ("spot-to-spot", s!"single spot node replaced with only {(launchableTypes s ridKey c).length} launchable cheaper options (< {spotFloor})")
      else none
    else none))

def onDemandFallback (s : Scenario) (ridKey : String) (cmd : Command) : Verdict :=
  if !(cmd.cands.filterMap s.node?).any (fun n => n.ct == "on-demand") then none else
  let total := combinedPrice s cmd.cands
  firstV (cmd.repl.map (fun c =>
    firstV ((c.its.filterMap s.it?).map (fun it =>
      match (launches ridKey c.reqs it).find? (fun o => o.ct == "on-demand" && decide (total ≤ o.price)) with
      | some o => some ("od-fallback", s!"an on-demand node is replaced by a request that may fall back to on-demand {it.name} in {o.zone} at {o.price}/1024 ≥ {total}/1024")
      | none => none))))

/-! ### Eviction cost (Karpenter's documented formula: 1 + deletion-cost / 2^27 + priority / 2^25, clamped to
    [-10, 10]; the clamp never changes the sign) -/

def evictionCostPositive (p : PodInfo) : Bool :=
  decide ((2 : Int) ^ 27 + p.delCost.getD 0 + 4 * p.prio.getD 0 > 0)

def infoOf (infos : List PodInfo) (pod : String) : PodInfo :=
  (infos.find? (·.pod == pod)).getD { pod := pod, delCost := none, prio := none, terminal := false }

/-- the pods of a node that consolidation must re-home: running, not owned by a DaemonSet -/
def reschedulable (infos : List PodInfo) (n : Node) : List Pod :=
  n.pods.filter (fun p => !p.daemon && !(infoOf infos p.name).terminal)

def emptyRule (s : Scenario) (infos : List PodInfo) (cmd : Command) : Verdict :=
  if cmd.method != "empty" then none else
  firstV ((cmd.cands.filterMap s.node?).map (fun n =>
    match (reschedulable infos n).find? (fun p => evictionCostPositive (infoOf infos p.name)) with
    | some p => some ("empty", s!"node {n.name} is deleted as empty although pod {p.name} has a positive eviction cost")
    | none => none))

/-! ### Feasible home -/

/-- the cluster the pods must fit into: the removed nodes are gone, their reschedulable pods are pods to place;
    pods that have run to completion hold no resources -/
def remainingCluster (s : Scenario) (infos : List PodInfo) (cands : List String) : Scenario :=
  let live (n : Node) : Node := { n with pods := n.pods.filter (fun p => !(infoOf infos p.name).terminal) }
  let removed := s.nodes.filter (fun n => cands.contains n.name)
  { s with nodes := (s.nodes.filter (fun n => !cands.contains n.name)).map live,
           pods := s.pods ++ removed.flatMap (reschedulable infos) }

/-- the verdict on one complete assignment of the pods that need a home (`""` = the replacement) -/
def assignmentOK (s' : Scenario) (repl : Option Claim) (cands : List String) (assign : List (String × String)) : Bool :=
  let nodes := (assign.map (·.2)).eraseDups.filter (· != "")
  let existing := nodes.map (fun n => (n, (assign.filter (fun a => a.2 == n)).map (·.1)))
  let onRepl := (assign.filter (fun a => a.2 == "")).map (·.1)
  let claims := match repl with
    | some c => if onRepl.isEmpty then [] else [{ c with pods := onRepl }]
    | none => []
  (repl.isSome || onRepl.isEmpty) && (outcomeOK s' { existing := existing, claims := claims, errors := [] } cands).isNone

/-- depth-first search for an assignment of every pod to one of the homes it could use on its own -/
def searchHomes (s' : Scenario) (repl : Option Claim) (cands : List String) (homes : String → List String) :
    List String → List (String × String) → Bool
  | [], acc => assignmentOK s' repl cands acc
  | p :: ps, acc => (homes p).any (fun h => searchHomes s' repl cands homes ps ((p, h) :: acc))

/-- does SOME assignment of the pods `need` to the remaining initialized nodes and the replacement exist that is
    admissible for every launch the replacement permits?  (`none` = the search was too large to run) -/
def existsHome (s' : Scenario) (repl : Option Claim) (cands : List String) (need : List String) : Option Bool :=
  if need.length > 5 then none else
  let nodes := (s'.nodes.filter (fun n => n.initialized && !n.deleting)).map (·.name)
  let homes (p : String) : List String :=
    (nodes ++ [""]).filter (fun h => assignmentOK s' repl cands [(p, h)])
  some (searchHomes s' repl cands homes need [])

/-- `witnessOnly` = the command's own placements are the only evidence accepted (the cluster did not change after
    they were computed); otherwise, when they no longer work, any admissible assignment will do -/
def feasibleHome (s : Scenario) (ridKey : String) (infos : List PodInfo) (cmd : Command) (cands : List String)
    (witnessOnly : Bool := true) : Verdict :=
  let s' := remainingCluster s infos cmd.cands
  let removed := s.nodes.filter (fun n => cmd.cands.contains n.name)
  let need := removed.flatMap (fun n => (reschedulable infos n).map (·.name))
  let placed := cmd.existing.flatMap (·.2) ++ cmd.repl.flatMap (·.pods)
  -- an Emptiness command carries no simulation: its nodes are judged by the `empty` rule alone (the property's third
  -- sentence: reschedulable pods without a positive eviction cost do not keep a node from being deleted as empty)
  if cmd.method == "empty" then none else
  -- the replacement is judged over the launches its final request permits
  let repl' := cmd.repl.filterMap (fun c =>
    let its := (launchableTypes s ridKey c).map (·.name)
    if its.isEmpty then none else some { c with its := its })
  let witness : Verdict :=
    match need.find? (fun p => !placed.contains p || (cmd.errors.lookup p).isSome) with
    | some p => some ("feasible", s!"reschedulable pod {p} of a removed node has no placement in the command's simulation")
    | none =>
    match cmd.existing.find? (fun (nn, pods) => !pods.isEmpty && cmd.cands.contains nn) with
    | some (nn, _) => some ("feasible", s!"pods are placed on {nn}, which the command removes")
    | none =>
    -- (pending pods and pods of nodes that are already deleting may wait for a node that is still initialising)
    match cmd.existing.find? (fun (nn, pods) => pods.any need.contains && (match s.node? nn with | some n => !n.initialized | none => true)) with
    | some (nn, _) => some ("feasible", s!"pods of the removed nodes are placed on {nn}, which is not an initialized node")
    | none =>
      match outcomeOK s' { existing := cmd.existing, claims := repl', errors := cmd.errors } cands with
      | some why =>
        let sig := if why.startsWith "[" then ((why.splitOn "]").head!.drop 1).toString else "feasible"
        some (sig, why)
      | none => none
  match witness with
  | none => none
  | some (sig, why) =>
    if witnessOnly then some (sig, why) else
    -- a replacement that cannot be launched at all never becomes ready, so the nodes are never removed
    if !cmd.repl.isEmpty && repl'.isEmpty then none else
    match existsHome s' repl'.head? cands need with
    | some true => none
    | none => none
    | some false =>
      some ("feasible-at-release", s!"after the cluster changed no admissible home exists for the removed nodes' pods on the remaining initialized nodes plus the replacement as requested (the command's own placements fail: {why})")

/-- the whole property on one command -/
def commandOK (s : Scenario) (ridKey : String) (gate : Bool) (infos : List PodInfo) (cmd : Command) (cands : List String)
    (witnessOnly : Bool := true) : Verdict :=
  firstV [atMostOne cmd, strictlyCheaper s ridKey cmd, spotToSpot s ridKey gate cmd, onDemandFallback s ridKey cmd,
          emptyRule s infos cmd, feasibleHome s ridKey infos cmd cands witnessOnly]

/-! ### Price tables per NodePool

"Price tables including overlays": the price of an instance type / offering is a property of the NodePool that buys it —
a NodeOverlay (or the provider) may select on the NodePool, so two NodePools that share a NodeClass may price the same
offering differently.  `Tables` lists, per NodePool, the catalog as that NodePool is charged for it; a NodePool without an
entry is charged the scenario's catalog.  A removed node costs what ITS NodePool pays for its offering; a launch of the
replacement costs what the replacement's NodePool pays for it. -/

abbrev Tables := List (String × List IT)

/-- the scenario as NodePool `pool` sees (and is charged for) the catalog -/
def poolView (t : Tables) (s : Scenario) (pool : String) : Scenario :=
  match t.lookup pool with
  | some its => { s with its := its }
  | none => s

/-- combined price of the removed nodes, each at its own NodePool's price -/
def combinedPriceT (t : Tables) (s : Scenario) (cands : List String) : Nat :=
  ((cands.filterMap s.node?).map (fun n => (nodePrice (poolView t s n.pool) n).getD 0)).sum

def strictlyCheaperT (t : Tables) (s : Scenario) (ridKey : String) (cmd : Command) : Verdict :=
  let total := combinedPriceT t s cmd.cands
  firstV (cmd.repl.map (fun c =>
    firstV (c.its.map (fun itn =>
      match (poolView t s c.pool).it? itn with
      | none => some ("price", s!"replacement names unknown instance type {itn}")
      | some it =>
        match (launches ridKey c.reqs it).find? (fun o => decide (total ≤ o.price)) with
        | some o => some ("price", s!"replacement option {itn} may launch in {o.zone}/{o.ct} at {o.price}/1024, not below the removed nodes' combined {total}/1024")
        | none => none))))

def spotToSpotT (t : Tables) (s : Scenario) (ridKey : String) (gate : Bool) (cmd : Command) : Verdict :=
  firstV (cmd.repl.map (fun c =>
    if allSpot s cmd.cands && (c.reqs.get ctKey).has "spot" then
      if !gate then some ("spot-to-spot", "spot nodes are replaced by a request that may launch spot although SpotToSpotConsolidation is disabled")
      else if cmd.cands.length == 1 && (launchableTypes (poolView t s c.pool) ridKey c).length < spotFloor then
        some ("spot-to-spot", s!"single spot node replaced with only {(launchableTypes (poolView t s c.pool) ridKey c).length} launchable cheaper options (< {spotFloor})")
      else none
    else none))

def onDemandFallbackT (t : Tables) (s : Scenario) (ridKey : String) (cmd : Command) : Verdict :=
  if !(cmd.cands.filterMap s.node?).any (fun n => n.ct == "on-demand") then none else
  let total := combinedPriceT t s cmd.cands
  firstV (cmd.repl.map (fun c =>
    firstV ((c.its.filterMap (poolView t s c.pool).it?).map (fun it =>
      match (launches ridKey c.reqs it).find? (fun o => o.ct == "on-demand" && decide (total ≤ o.price)) with
      | some o => some ("od-fallback", s!"an on-demand node is replaced by a request that may fall back to on-demand {it.name} in {o.zone} at {o.price}/1024 ≥ {total}/1024")
      | none => none))))

/-- the whole property on one command, prices per NodePool.  (The feasible-home clause reads the catalog as the
    replacement's NodePool sees it: that is the NodePool the replacement is launched for.) -/
def commandOKT (t : Tables) (s : Scenario) (ridKey : String) (gate : Bool) (infos : List PodInfo) (cmd : Command) (cands : List String)
    (witnessOnly : Bool := true) : Verdict :=
  let sR := match cmd.repl with | c :: _ => poolView t s c.pool | [] => s
  firstV [atMostOne cmd, strictlyCheaperT t s ridKey cmd, spotToSpotT t s ridKey gate cmd, onDemandFallbackT t s ridKey cmd,
          emptyRule s infos cmd, feasibleHome sR ridKey infos cmd cands witnessOnly]

end Karp.Spec.Consolidation
