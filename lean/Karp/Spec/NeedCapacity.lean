/-
Independent specification for C04: "new capacity is opened only when existing capacity cannot admit the pod".

Written from the property text and the Kubernetes scheduling rules (node selector / required node affinity,
taints and tolerations, host ports, requests within allocatable incl. the daemonsets expected on the node) —
NOT from Karpenter's scheduler.  It judges the COMMIT TRACE of a real scheduling pass: whenever the pass put a
pod of the property's class on a NodeClaim it opened for that pod (or on another NodeClaim of the same pass),
no node known to the cluster — existing, or in flight at any point of its lifecycle — and no NodeClaim opened
earlier in the pass may have been able to admit the pod next to what was already assigned there at that moment.

Readings fixed here (each chosen so that the specification never demands more than the property text):
* an in-flight node counts with the allocatable of the instance type it was launched as, the labels of that launch and
  the lasting taints of its NodePool (startup taints and the well-known ephemeral taints pass);
* a taint the pod does not tolerate keeps the pod off a node also when its effect is `PreferNoSchedule`
  (the node "prefers" not to take the pod; honouring that is not over-provisioning);
* a NodeClaim of the pass reserves room for every daemonset that may land on the instance type under consideration;
* a node carries exactly the labels of its Node object: a well-known label (capacity type, zone, instance type, arch, os)
  that the object lacks (`Absent`) is NOT there for the kube-scheduler, so a daemonset whose node selector names it never
  runs on the node and nothing is reserved for it, and a pod that selects on it cannot go there;
* a pod that mounts PersistentVolumeClaims can use a node iff every claim resolves and SOME topology term of every volume
  (PersistentVolume node affinity terms / StorageClass allowedTopologies are OR-ed) holds on the node's labels;
* a node whose CSINode reports an attach limit can take a pod iff the UNIQUE volumes of the pods on it and the pod's own stay
  within the limit - a claim that is already attached there does not count again.
-/
import Karp.Spec.Scenario
import Karp.Spec.Admissible

namespace Karp.Spec.NeedCapacity
open Karp.Req Karp.Scn Karp.Spec.K8s Karp.Spec.Admissible

/-! ### The pods the property speaks about -/

def selects (sel : Labels) (p : Pod) : Bool := sel.all (fun (k, v) => p.labels.lookup k == some v)

/-- the pod carries inter-pod constraints or scheduling preferences of its own -/
def carries (p : Pod) : Bool := !p.affinity.isEmpty || !p.spreads.isEmpty || !p.preferred.isEmpty

/-- `q` targets `p`: one of `q`'s pod (anti-)affinity terms or topology spread constraints selects `p` -/
def targets (q p : Pod) : Bool :=
  q.name != p.name &&
  (q.affinity.any (fun t => selects t.matchLabels p) || q.spreads.any (fun c => selects c.matchLabels p))

/-- every pod the pass can see: pending ones and those bound to nodes -/
def everyPod (s : Scenario) : List Pod := s.pods ++ s.nodes.flatMap (·.pods)

/-- "neither carries nor is targeted by inter-pod constraints and has no scheduling preferences" -/
def plain (s : Scenario) (p : Pod) : Bool := !carries p && !(everyPod s).any (fun q => targets q p)

/-! ### Could a node admit the pod next to what is already assigned there? -/

/-- every taint must be tolerated, whatever its effect -/
def toleratesEvery (tols : List Toleration) (taints : List Taint) : Bool :=
  taints.all (fun t => tols.any (fun tol => tolerates tol t))

/-- required terms `j` with `lo ≤ j < hi` (0-based) — OR-ed; no terms at all = no constraint -/
def someTermIn (ls : Labels) (terms : List (List KExpr)) (lo hi : Nat) : Bool :=
  terms.isEmpty || ((terms.zipIdx.filter (fun (_, j) => lo ≤ j && j < hi)).any (fun (t, _) => t.all (exprOK ls)))

/-- `[node name, label key]` pairs: the Node object of that node does NOT carry the (well-known) label the scenario
    vocabulary would otherwise derive for it (nodes Karpenter does not manage need not have a capacity-type, zone,
    instance-type, arch or os label) -/
abbrev Absent := List (String × String)

/-- the labels the kube-scheduler sees on the node -/
def labelsOn (absent : Absent) (s : Scenario) (n : Node) : Labels :=
  (nodeLabels s n).filter (fun kv => !absent.contains (n.name, kv.1))

/-- every volume of `p` can be used from a place where `sat` tells which topology terms hold: the claim resolves (exists,
    bound to an existing PersistentVolume or provisioned by a WaitForFirstConsumer StorageClass) and SOME term of its
    topology holds there (terms are OR-ed; no terms = reachable from everywhere) -/
def volumesReach (s : Scenario) (p : Pod) (sat : List KExpr → Bool) : Bool :=
  p.volumes.all (fun v =>
    match volumeTopology s p v with
    | .error _ => false
    | .ok terms => terms.isEmpty || terms.any sat)

/-- node name ↦ the attach limit its CSINode reports for the CSI driver (all volumes of the scenario vocabulary belong to one
    driver); a node without entry has no limit -/
abbrev Limits := List (String × Nat)

/-- the persistent volumes a pod attaches: one per claim that resolves (NodeVolumeLimits counts UNIQUE volumes: a claim that
    several pods of the node mount is attached once) -/
def attaches (s : Scenario) (p : Pod) : List String :=
  p.volumes.filterMap (fun v => match volumeTopology s p v with | .ok _ => some (p.ns ++ "/" ++ v.claim) | .error _ => none)

/-- the node stays within its attach limit when `p` joins the pods `on` it -/
def withinAttachLimit (s : Scenario) (limits : Limits) (n : Node) (on : List Pod) (p : Pod) : Bool :=
  match limits.lookup n.name with
  | none => true
  | some l => ((on ++ [p]).flatMap (attaches s)).eraseDups.length ≤ l

/-- node `n`, holding its bound pods and `placed` (what the pass already put there), can also take `p`, looking only
    at required terms `lo ≤ j < hi` of the pod -/
def nodeAdmitsTerms (s : Scenario) (n : Node) (placed : List Pod) (p : Pod) (lo hi : Nat) (absent : Absent := [])
    (limits : Limits := []) : Bool :=
  match s.it? n.it with
  | none => false
  | some it =>
    let ls := labelsOn absent s n
    let taints := nodeTaints s n
    let all := n.pods ++ placed ++ [p]
    let expected := s.daemonsets.filter (fun d => dsOnNode d ls taints)
    let boundDaemons := n.pods.filter (·.daemon)
    let remDaemonCPU := max 0 ((expected.foldl (fun a d => a + d.cpu) 0) - sumCPU boundDaemons)
    let remDaemonMem := max 0 ((expected.foldl (fun a d => a + d.mem) 0) - sumMem boundDaemons)
    let remDaemonPods : Int := max 0 ((expected.length : Int) - (boundDaemons.length : Int))
    !n.deleting &&
    nodeSelectorOK ls p.nodeSelector && someTermIn ls p.required lo hi &&
    volumesReach s p (fun t => t.all (exprOK ls)) &&
    withinAttachLimit s limits n (n.pods ++ placed) p &&
    toleratesEvery p.tolerations taints &&
    p.hostPorts.all (fun hp => !((n.pods ++ placed).flatMap (·.hostPorts)).any (fun u => portConflict u hp)) &&
    decide (sumCPU all + remDaemonCPU ≤ it.allocCPU) &&
    decide (sumMem all + remDaemonMem ≤ it.mem) &&
    decide ((all.length : Int) + remDaemonPods ≤ it.pods)

/-- with every required term of the pod -/
def nodeAdmits (s : Scenario) (n : Node) (placed : List Pod) (p : Pod) (absent : Absent := []) (limits : Limits := []) : Bool :=
  nodeAdmitsTerms s n placed p 0 p.required.length absent limits

/-! ### Could a NodeClaim opened earlier in the pass admit the pod? -/

/-- the state of a NodeClaim of the pass at some moment (`Claim` of the scenario vocabulary) -/
abbrev ClaimState := Claim

/-- daemonset `d` may land on SOME launch of instance type `it` in pool `pl` -/
def dsMayLand (pl : Pool) (it : IT) (d : DaemonSet) : Bool :=
  (it.offerings.filter (·.available)).any (fun o => dsOnLaunch pl it o d)

/-- keys the pod constrains through its node selector and the given term -/
def podKeys (p : Pod) (term : List KExpr) : List String :=
  ((p.nodeSelector.map (fun kv => normalizeKey kv.1)) ++ term.map (fun (e : KExpr) => normalizeKey e.key)).eraseDups

/-- is there a value (or absence) of label `k` that a launch `(it, o)` of the claim may carry and that satisfies
    everything the pod asks of `k`? -/
def keyOK (dom : String → List (Option String)) (p : Pod) (term : List KExpr) (k : String) : Bool :=
  (dom k).any (fun x =>
    (p.nodeSelector.filter (fun (k', _) => normalizeKey k' == k)).all (fun (_, v) => x == some v) &&
    (term.filter (fun e => normalizeKey e.key == k)).all (fun e => k8sMatch e.op e.vals x))

def claimAdmitsTerms (s : Scenario) (c : ClaimState) (p : Pod) (cands : List String) (lo hi : Nat) : Bool :=
  match s.pool? c.pool with
  | none => false
  | some pl =>
    -- minValues floors are outside this specification: say nothing about such NodePools
    if pl.reqs.any (fun e => e.minValues.isSome) then false else
    let pods := c.pods.filterMap s.pod?
    if pods.length != c.pods.length then false else
    toleratesEvery p.tolerations pl.taints &&
    (c.its.filterMap s.it?).any (fun it =>
      let ds := s.daemonsets.filter (dsMayLand pl it)
      let dCPU := ds.foldl (fun a d => a + d.cpu) 0
      let dMem := ds.foldl (fun a d => a + d.mem) 0
      let all := pods ++ [p]
      decide (sumCPU all + dCPU ≤ it.allocCPU) && decide (sumMem all + dMem ≤ it.mem) &&
      decide (((all.length + ds.length : Nat) : Int) ≤ it.pods) &&
      p.hostPorts.all (fun hp => !((pods.flatMap (·.hostPorts)) ++ ds.flatMap (·.hostPorts)).any (fun u => portConflict u hp)) &&
      (it.offerings.filter (fun o => o.available && offeringCompatible c.reqs o)).any (fun o =>
        let dom := labelDomain pl c it o cands
        let terms : List (List KExpr) :=
          if p.required.isEmpty then [[]] else (p.required.zipIdx.filter (fun (_, j) => lo ≤ j && j < hi)).map (·.1)
        terms.any (fun t => (podKeys p t).all (keyOK dom p t)) &&
        -- some launch the NodeClaim still permits reaches every volume of the pod
        volumesReach s p (fun t => t.all (fun e => (dom (normalizeKey e.key)).any (fun x => k8sMatch e.op e.vals x)))))

def claimAdmits (s : Scenario) (c : ClaimState) (p : Pod) (cands : List String) : Bool :=
  claimAdmitsTerms s c p cands 0 p.required.length

/-! ### The commit trace of a pass -/

inductive Kind | existing | inflight | new
deriving Repr, DecidableEq

structure Event where
  kind : Kind
  pod : String
  target : String            -- existing: node name; otherwise the pass-local id of the NodeClaim
  termsLeft : Nat            -- required node-affinity terms the pod still had when it was committed
  claim : Option ClaimState  -- inflight / new: the target NodeClaim right after the add

/-- what the pass has assigned so far -/
structure Progress where
  onNode : List (String × List Pod)       -- node name ↦ pods placed by this pass, in order
  claims : List (String × ClaimState)     -- NodeClaims of the pass, latest state

def Progress.placedOn (g : Progress) (n : String) : List Pod := (g.onNode.lookup n).getD []

def Progress.record (g : Progress) (s : Scenario) (e : Event) : Progress :=
  match e.kind with
  | .existing =>
    match s.pod? e.pod with
    | none => g
    | some p =>
      if g.onNode.any (·.1 == e.target) then
        { g with onNode := g.onNode.map (fun (n, ps) => if n == e.target then (n, ps ++ [p]) else (n, ps)) }
      else { g with onNode := g.onNode ++ [(e.target, [p])] }
  | _ =>
    match e.claim with
    | none => g
    | some c =>
      if g.claims.any (·.1 == e.target) then
        { g with claims := g.claims.map (fun (i, c') => if i == e.target then (i, c) else (i, c')) }
      else { g with claims := g.claims ++ [(e.target, c)] }

/-- verdict on one commit; `none` = fine.  A leading "[tag] " classifies the violation. -/
def judgeEvent (s : Scenario) (cands : List String) (g : Progress) (e : Event) (absent : Absent := []) (limits : Limits := []) : Option String :=
  match s.pod? e.pod with
  | none => some s!"[trace] commit of unknown pod {e.pod}"
  | some p =>
    match e.kind with
    | .existing =>
      match s.node? e.target with
      | none => some s!"[trace] pod {e.pod} committed to unknown node {e.target}"
      | some n => if n.deleting then some s!"[deleting] node {n.name} is marked for deletion but was used as capacity for pod {p.name}" else none
    | _ =>
      if !plain s p then none else
      -- terms the scheduler has looked at so far: those already dropped by relaxation and the current first one
      let tried := p.required.length - e.termsLeft + 1
      let where_ := if e.kind == .new then "a NodeClaim opened for it" else s!"NodeClaim {e.target} of this pass"
      match s.nodes.find? (fun n => nodeAdmitsTerms s n (g.placedOn n.name) p 0 tried absent limits) with
      | some n => some s!"[existing] pod {p.name} was put on {where_} although node {n.name} (stage {n.stage}) could admit it next to what was already assigned there"
      | none =>
      let earlier := if e.kind == .new then g.claims else []
      match earlier.find? (fun (_, c) => claimAdmitsTerms s c p cands 0 tried) with
      | some (i, _) => some s!"[inflight] pod {p.name} was put on a NodeClaim opened for it although NodeClaim {i} of this pass could admit it next to what was already assigned there"
      | none =>
      -- only a LATER required term (one the scheduler had not looked at yet) is satisfied by existing capacity
      match s.nodes.find? (fun n => nodeAdmits s n (g.placedOn n.name) p absent limits) with
      | some n => some s!"[or-term] pod {p.name} was put on {where_} although node {n.name} satisfies a later required node-affinity term and could admit it"
      | none =>
      match earlier.find? (fun (_, c) => claimAdmits s c p cands) with
      | some (i, _) => some s!"[or-term] pod {p.name} was put on a NodeClaim opened for it although NodeClaim {i} of this pass satisfies a later required node-affinity term and could admit it"
      | none => none

/-- the whole trace, in order -/
def judgeTrace (s : Scenario) (cands : List String) (absent : Absent) (limits : Limits) : Progress → List Event → Option String
  | _, [] => none
  | g, e :: rest =>
    match judgeEvent s cands g e absent limits with
    | some w => some w
    | none => judgeTrace s cands absent limits (g.record s e) rest

def passOK (s : Scenario) (cands : List String) (trace : List Event) (absent : Absent := []) (limits : Limits := []) : Option String :=
  judgeTrace s cands absent limits { onNode := [], claims := [] } trace

/-! ### Re-running provisioning while the capacity of pass 1 is still starting -/

/-- pods of the property's class that pass 1 placed on capacity which now exists as a node (in flight or not) and that
    pass 2 nevertheless put on a NEW NodeClaim -/
def reopened (s : Scenario) (placedBefore : List String) (out2 : Outcome) : List String :=
  (out2.claims.flatMap (·.pods)).filter (fun pn =>
    placedBefore.contains pn && (match s.pod? pn with | some p => plain s p | none => false))

/-! ### The launch keeps what the NodeClaim promised

A NodeClaim is opened with requirements that every pod placed on it is compatible with; the node it is launched as counts
as that capacity on the next pass only if it carries, for every label key a pod asked about, a label the requirement admits
(a requirement that needs the label - `In`, `Exists`, `Gt`, `Lt` - is broken by its absence as by a value outside). -/

/-- keys among `keys` on which the labels `ls` of the launched node break the requirements `c.reqs` of its NodeClaim -/
def brokenPromises (c : Claim) (ls : Labels) (keys : List String) : List String :=
  keys.filter (fun k =>
    k != "kubernetes.io/hostname" &&
    (match c.reqs.lookup k with
     | none => false
     | some r => match ls.lookup k with
       | some v => !r.has v
       | none => !r.absentOk))

/-- every label key the pod constrains (node selector and every required term) -/
def podAllKeys (p : Pod) : List String :=
  ((p.nodeSelector.map (fun kv => normalizeKey kv.1)) ++ p.required.flatten.map (fun (e : KExpr) => normalizeKey e.key)).eraseDups

/-- pods of the property's class that pass 1 placed on NodeClaim `c`, that the re-run put on a NEW NodeClaim, and for which the
    node launched from `c` (labels `ls`) breaks what `c` promised on a key the pod asks about: (pod, key) -/
def reopenedForLostLabel (s : Scenario) (c : Claim) (ls : Labels) (podsOnClaim : List String) (out2 : Outcome) : Option (String × String) :=
  let again := out2.claims.flatMap (·.pods)
  (podsOnClaim.filterMap (fun pn =>
    match s.pod? pn with
    | none => none
    | some p =>
      if !again.contains pn || !plain s p then none else
      ((brokenPromises c ls (podAllKeys p)).head?).map (fun k => (pn, k)))).head?

/-! ### The gate: no pass while a created NodeClaim is unlaunched -/

/-- `launchedOf n k` : after `k` of the `n` created NodeClaims were launched, the cluster may report "synced"
    exactly when none is left unlaunched -/
def syncedExpected (created launched : Nat) : Bool := launched ≥ created

/-! ### The deletion mark: "nodes marked for deletion are not counted as capacity"

Judged on what the real cluster state shows before and after one event.  A call `MarkForDeletion(ids…)` marks EVERY node it
names that cluster state knows - wherever in the list it stands and whatever else the list contains; only
`UnmarkForDeletion` (or the node leaving cluster state) takes a mark away; what a pass counts as capacity (`Active`) and what
it reschedules (`Deleting`) is exactly the split of the known nodes by the mark. -/

structure MarkView where
  tracked : List String
  marked : List String
  active : List String
  deleting : List String

/-- `kind`: "mark" | "unmark" | anything else (an informer delivery / deletion); `ids`: the names the call lists -/
def markJudge (before after : MarkView) (kind : String) (ids : List String) : Option String :=
  match after.tracked.find? (fun n => after.active.contains n == after.marked.contains n || after.deleting.contains n != after.marked.contains n) with
  | some n => some s!"[mark-split] node {n} is tracked, marked = {after.marked.contains n}, in Active() = {after.active.contains n}, in Deleting() = {after.deleting.contains n}"
  | none =>
  if kind == "mark" then
    match ids.find? (fun n => after.tracked.contains n && !after.marked.contains n) with
    | some n => some s!"[mark-lost] MarkForDeletion{ids} left node {n}, which cluster state knows, unmarked: it is still counted as capacity"
    | none =>
      match after.tracked.find? (fun n => !ids.contains n && before.tracked.contains n && before.marked.contains n != after.marked.contains n) with
      | some n => some s!"[mark-stray] MarkForDeletion{ids} changed the mark of node {n}, which it does not name"
      | none => none
  else if kind == "unmark" then
    match ids.find? (fun n => after.tracked.contains n && after.marked.contains n) with
    | some n => some s!"[unmark-lost] UnmarkForDeletion{ids} left node {n} marked"
    | none =>
      match after.tracked.find? (fun n => !ids.contains n && before.tracked.contains n && before.marked.contains n != after.marked.contains n) with
      | some n => some s!"[mark-stray] UnmarkForDeletion{ids} changed the mark of node {n}, which it does not name"
      | none => none
  else
    match after.tracked.find? (fun n => before.tracked.contains n && before.marked.contains n && !after.marked.contains n) with
    | some n => some s!"[mark-lost] node {n} lost its deletion mark through a {kind} event although it never left cluster state"
    | none =>
      match after.tracked.find? (fun n => !before.tracked.contains n && after.marked.contains n) with
      | some n => some s!"[mark-stray] node {n} entered cluster state already marked for deletion"
      | none => none

end Karp.Spec.NeedCapacity
