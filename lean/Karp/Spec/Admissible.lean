/-
Independent specification for C01: admissibility of a placement under Kubernetes scheduling rules for the
pod's ORIGINAL required constraints.  Written from the Kubernetes documentation (node selector / required
node affinity, taints and tolerations, host ports, resource requests within allocatable), not from
Karpenter's scheduler.  Every predicate is executable; `none` = admissible, `some why` = violation.
-/
import Karp.Spec.Scenario
import Karp.Spec.K8sSelector

namespace Karp.Spec.Admissible
open Karp.Req Karp.Scn Karp.Spec.K8s

/-! ### Taints and tolerations (`Toleration.ToleratesTaint`) -/

def tolerates (tol : Toleration) (t : Taint) : Bool :=
  (tol.effect == "" || tol.effect == t.effect) &&
  (tol.key == "" || tol.key == t.key) &&
  (match tol.operator with
   | "Exists" => true
   | "" => tol.value == t.value
   | "Equal" => tol.value == t.value
   | _ => false)

/-- only `NoSchedule` / `NoExecute` keep a pod off a node; `PreferNoSchedule` is a preference -/
def hardTaint (t : Taint) : Bool := t.effect == "NoSchedule" || t.effect == "NoExecute"

def untolerated (tols : List Toleration) (taints : List Taint) : Option Taint :=
  taints.find? (fun t => hardTaint t && !tols.any (fun tol => tolerates tol t))

/-! ### Node selector and required node affinity -/

def exprOK (ls : Labels) (e : KExpr) : Bool := k8sMatch e.op e.vals (ls.lookup (normalizeKey e.key))

def nodeSelectorOK (ls : Labels) (sel : Labels) : Bool :=
  sel.all (fun (k, v) => ls.lookup (normalizeKey k) == some v)

/-- required terms are OR-ed, expressions inside a term AND-ed; no terms = no constraint -/
def requiredOK (ls : Labels) (terms : List (List KExpr)) : Bool :=
  terms.isEmpty || terms.any (fun t => t.all (exprOK ls))

/-! ### Host ports (NodePorts plugin): same port and protocol, and overlapping host IPs -/

def wildIP (ip : String) : Bool := ip == "" || ip == "0.0.0.0"

def portConflict (a b : HostPort) : Bool :=
  a.port == b.port && a.proto == b.proto && (wildIP a.ip || wildIP b.ip || a.ip == b.ip)

/-- first conflict inside a list of (owner, port) pairs between different owners, at least one of which is one
    of the newly placed pods `news` (conflicts among pods already bound, or among daemonsets, are not the
    scheduler's doing) -/
def firstPortConflict (news : List String) : List (String × HostPort) → Option (String × String)
  | [] => none
  | (o, p) :: rest =>
    match rest.find? (fun (o', p') => o' != o && portConflict p p' && (news.contains o || news.contains o')) with
    | some (o', _) => some (o, o')
    | none => firstPortConflict news rest

def podPorts (p : Pod) : List (String × HostPort) := p.hostPorts.map (fun hp => (p.name, hp))

/-! ### Existing nodes -/

def ephemeralTaint (t : Taint) : Bool :=
  (t.key == "node.kubernetes.io/not-ready" && (t.effect == "NoSchedule" || t.effect == "NoExecute")) ||
  (t.key == "node.kubernetes.io/unreachable" && t.effect == "NoSchedule") ||
  (t.key == "node.cloudprovider.kubernetes.io/uninitialized" && t.effect == "NoSchedule") ||   -- `MatchTaint`: key and effect only
  (t.key == "karpenter.sh/unregistered" && t.effect == "NoExecute") ||
  t.key.startsWith "readiness.k8s.io/"


/-- the labels the node carries (or will carry once it has joined): what the kube-scheduler will see -/
def nodeLabels (s : Scenario) (n : Node) : Labels :=
  let poolLabels : Labels := match s.pool? n.pool with
    | some p => (Karp.Gen.Labels.nodePoolLabelKey, p.name) :: p.labels
    | none => []
  -- a node whose scenario zone is "" (unmanaged nodes only) has no zone label
  n.labels ++ poolLabels ++
  [("node.kubernetes.io/instance-type", n.it)] ++ (if n.zone == "" then [] else [("topology.kubernetes.io/zone", n.zone)]) ++
  [(Karp.Gen.Labels.capacityTypeLabelKey, n.ct), ("kubernetes.io/arch", "amd64"), ("kubernetes.io/os", "linux"),
   ("kubernetes.io/hostname", n.name)]

/-- the taints that persist on the node: its own and the NodePool's; startup taints and the well-known
    ephemeral taints are expected to disappear while a managed node is still initialising -/
def nodeTaints (s : Scenario) (n : Node) : List Taint :=
  let poolTaints := match s.pool? n.pool with | some p => p.taints | none => []
  let own := if n.initialized then n.taints else n.taints.filter (fun t => !ephemeralTaint t)
  own ++ poolTaints

def sumCPU (ps : List Pod) : Int := ps.foldl (fun a p => a + p.cpu) 0
def sumMem (ps : List Pod) : Int := ps.foldl (fun a p => a + p.mem) 0

/-- is daemonset `d` expected on a node with these labels and taints? -/
def dsOnNode (d : DaemonSet) (ls : Labels) (taints : List Taint) : Bool :=
  (untolerated d.tolerations taints).isNone && nodeSelectorOK ls d.nodeSelector

/-- CLASSIFIES a violation (never excuses one): does the pod carry, in its node selector plus one of its
    required terms, expressions on some key `k` that no label VALUE satisfies together (e.g. `k In [a]` with
    `k In [b]`, `k In [a]` with `k NotIn [a]`, `k Exists` with `k DoesNotExist`), at least one of which needs
    the label to be present (a preferred term counts: Karpenter treats the heaviest one as required until it is
    relaxed, and an empty intersection never fails so it is never relaxed), while the node / NodeClaim leaves `k` unset?  Karpenter represents the empty
    intersection as "DoesNotExist" and therefore treats the absent label as acceptable (known finding). -/
def emptyReadAsAbsent (p : Pod) (cands : List String) (absent : String → Bool) : Bool :=
  let selExprs : List KExpr := p.nodeSelector.map (fun (k, v) => { key := k, op := .in_, vals := [v] })
  let terms := if p.required.isEmpty then [[]] else p.required
  -- Karpenter also folds the heaviest remaining preferred term into the requirements
  let prefs : List (List KExpr) := [] :: p.preferred.map (·.exprs)
  (terms.flatMap (fun t => prefs.map (fun pr => t ++ pr))).any (fun t =>
    let es := selExprs ++ t
    let keys := (es.map (fun e => normalizeKey e.key)).eraseDups
    keys.any (fun k =>
      let ek := es.filter (fun e => normalizeKey e.key == k)
      absent k && ek.any (fun e => !k8sMatch e.op e.vals none) &&
      !(cands.any (fun v => ek.all (fun e => k8sMatch e.op e.vals (some v))))))

/-- CLASSIFIES a violation (never excuses one): the pod's node selector plus one of its required terms carries on
    some key `k`, which the node / NodeClaim leaves unset, a `NotIn` with values together with `Exists` / `Gt` / `Lt`
    (and no `In`).  Karpenter's requirement representation keeps only "complement set of values (+ bounds)", reports
    the operator `NotIn`, and therefore accepts the absent label although `Exists`/`Gt`/`Lt` need it (known finding). -/
def presenceLostWithNotIn (p : Pod) (absent : String → Bool) (ctx : List KExpr := []) : Bool :=
  let selExprs : List KExpr := p.nodeSelector.map (fun (k, v) => { key := k, op := .in_, vals := [v] })
  let terms := if p.required.isEmpty then [[]] else p.required
  -- Karpenter also folds the heaviest remaining preferred term into the requirements (the `NotIn` or the `Exists` may
  -- come from there)
  let prefs : List (List KExpr) := [] :: p.preferred.map (·.exprs)
  terms.any (fun t => prefs.any (fun pr =>
    let es := selExprs ++ t ++ pr
    let keys := (es.map (fun e => normalizeKey e.key)).eraseDups
    keys.any (fun k =>
      let ek := es.filter (fun e => normalizeKey e.key == k)
      absent k &&
      -- the `NotIn` may also come from the NodePool's requirements or from another pod on the same NodeClaim (`ctx`)
      (ek ++ ctx.filter (fun e => normalizeKey e.key == k)).any (fun e => e.op == .notIn && !e.vals.isEmpty) &&
      -- the expression that needs the label present must be a hard one (node selector / required term)
      (selExprs ++ t).any (fun e => normalizeKey e.key == k && (e.op == .exists_ || e.op == .gt || e.op == .lt || e.op == .gte || e.op == .lte)) &&
      !ek.any (fun e => e.op == .in_ || e.op == .doesNotExist))))

def tagFor (p : Pod) (cands : List String) (absent : String → Bool) (ctx : List KExpr := []) : String :=
  if emptyReadAsAbsent p cands absent then "[empty-set-read-as-absent] "
  else if presenceLostWithNotIn p absent ctx then "[presence-lost-with-notin] "
  else ""

/-- one pod against one node: selector, affinity, taints -/
def podOnLabels (p : Pod) (ls : Labels) (taints : List Taint) (cands : List String) : Option String :=
  if !nodeSelectorOK ls p.nodeSelector then some s!"{tagFor p cands (fun k => (ls.lookup k).isNone)}pod {p.name}: node selector not satisfied by the node's labels"
  else if !requiredOK ls p.required then some s!"{tagFor p cands (fun k => (ls.lookup k).isNone)}pod {p.name}: no required node-affinity term is satisfied by the node's labels"
  else match untolerated p.tolerations taints with
    | some t => some s!"pod {p.name}: taint {t.key}={t.value}:{t.effect} is not tolerated"
    | none => none

def firstSome (l : List (Option String)) : Option String := l.findSome? id

/-! ### Volume topology (VolumeBinding / VolumeZone plugins)

A pod that mounts a PersistentVolumeClaim can only run on a node from which EVERY one of its volumes is reachable: a bound
claim's PersistentVolume must admit the node through its required node affinity (OR of AND-ed terms), an unbound claim is
provisioned for the node through its StorageClass (WaitForFirstConsumer), whose allowedTopologies (OR of AND-ed terms) must
admit the node.  A pod whose claim does not exist, is bound to a volume that does not exist, or is unbound without a usable
storage class (none, unknown, or binding mode Immediate) is unschedulable everywhere. -/

/-- the topology alternatives of one volume of pod `p` (`[]` = reachable from everywhere), or why the pod cannot be scheduled -/
def volumeTopology (s : Scenario) (p : Pod) (v : Volume) : Except String (List (List KExpr)) :=
  match s.pvc? p.ns v.claim with
  | none => .error "does not exist"
  | some c =>
    if c.volumeName != "" then
      match s.pv? c.volumeName with
      | none => .error s!"is bound to the PersistentVolume {c.volumeName}, which does not exist"
      | some pv => .ok pv.terms
    else if c.storageClass == "" then .error "is unbound and names no storage class"
    else match s.storageClass? c.storageClass with
      | none => .error s!"is unbound and its storage class {c.storageClass} does not exist"
      | some sc =>
        if sc.immediate then .error s!"is unbound although its storage class {c.storageClass} binds immediately" else .ok sc.topologies

/-- every volume of `p` is reachable from the node(s) described by `sat` (does a term hold there?); `wher` names the place -/
def podVolumesOK (s : Scenario) (p : Pod) (sat : List KExpr → Bool) (wher : String) : Option String :=
  firstSome (p.volumes.map (fun v =>
    match volumeTopology s p v with
    | .error w => some s!"pod {p.name}: its volume {v.name} (claim {p.ns}/{v.claim}) {w}, so the pod is unschedulable, but it was placed on {wher}"
    | .ok terms =>
      if terms.isEmpty || terms.any sat then none
      else some s!"pod {p.name}: its volume {v.name} (claim {p.ns}/{v.claim}) is not reachable from {wher}: no topology term of the volume holds there"))

/-- CLASSIFIES a violation (never excuses one): the pod's volumes cannot all be attached ANYWHERE — every choice of one
    topology term per volume is contradictory on some key `k` (no value satisfies all the chosen expressions on `k`) — and the
    node lacks the label `k`.  Karpenter merges the volumes' alternatives anyway (volumetopology.go keeps "the old merged
    result when every branch is incompatible"), the merged requirement on `k` is the empty set, which it represents as
    `In {}` = `DoesNotExist`, and an existing node WITHOUT the label passes `Compatible` (known finding; a node that carries
    the label and every new NodeClaim are rejected as they should be). -/
def contradictoryVolumesOnUnlabelledNode (s : Scenario) (p : Pod) (cands : List String) (absent : String → Bool) : Bool :=
  let tops : List (List (List KExpr)) := p.volumes.filterMap (fun v =>
    match volumeTopology s p v with
    | .ok terms => if terms.isEmpty then none else some terms
    | .error _ => none)
  -- one term per volume, expressions concatenated
  let combos : List (List KExpr) := tops.foldl (fun acc terms => acc.flatMap (fun c => terms.map (fun t => c ++ t))) [[]]
  tops.length ≥ 2 && combos.all (fun es =>
    let keys := (es.map (fun e => normalizeKey e.key)).eraseDups
    keys.any (fun k =>
      let ek := es.filter (fun e => normalizeKey e.key == k)
      absent k && !(cands.any (fun v => ek.all (fun e => k8sMatch e.op e.vals (some v))))))

/-- all pods newly placed on an existing node -/
def existingOK (s : Scenario) (n : Node) (newPods : List Pod) (cands : List String) : Option String :=
  match s.it? n.it with
  | none => some s!"node {n.name}: unknown instance type"
  | some it =>
    let ls := nodeLabels s n
    let taints := nodeTaints s n
    let perPod := firstSome (newPods.map (fun p => podOnLabels p ls taints cands))
    if perPod.isSome then perPod else
    -- every volume of every new pod is reachable from this node
    let vols := firstSome (newPods.map (fun p =>
      (podVolumesOK s p (fun t => t.all (exprOK ls)) s!"node {n.name} (zone {n.zone})").map (fun w =>
        (if contradictoryVolumesOnUnlabelledNode s p cands (fun k => (ls.lookup k).isNone) then "[contradictory-volumes-on-unlabelled-node] " else "") ++ w)))
    if vols.isSome then vols else
    if n.deleting then some s!"node {n.name} is marked for deletion but received pods" else
    -- host ports among everything on the node
    match firstPortConflict (newPods.map (·.name)) ((n.pods ++ newPods).flatMap podPorts) with
    | some (a, b) => some s!"node {n.name}: host port conflict between {a} and {b}"
    | none =>
      -- resources: bound + new + daemons still expected
      let all := n.pods ++ newPods
      let expected := s.daemonsets.filter (fun d => dsOnNode d ls taints)
      let boundDaemons := n.pods.filter (·.daemon)
      let over (ds : List DaemonSet) : Option String :=
        let remDaemonCPU := max 0 ((ds.foldl (fun a d => a + d.cpu) 0) - sumCPU boundDaemons)
        let remDaemonMem := max 0 ((ds.foldl (fun a d => a + d.mem) 0) - sumMem boundDaemons)
        if sumCPU all + remDaemonCPU > it.allocCPU then
          some s!"node {n.name}: cpu requests {sumCPU all}m + expected daemons {remDaemonCPU}m exceed allocatable {it.allocCPU}m"
        else if sumMem all + remDaemonMem > it.mem then
          some s!"node {n.name}: memory requests {sumMem all}Mi + expected daemons {remDaemonMem}Mi exceed allocatable {it.mem}Mi"
        else none
      match over expected with
      | some w =>
        -- CLASSIFIES (never excuses): the excess is exactly the requests of daemonsets that are expected on the node (they
        -- tolerate every NoSchedule / NoExecute taint) but do not tolerate one of its PreferNoSchedule taints.  Karpenter's
        -- reservation for an EXISTING node leaves such a daemon out (`isDaemonPodCompatibleWithNode` wants every taint
        -- tolerated) unless `isDaemonPodCompatible` happened to add the PreferNoSchedule toleration to the shared daemon pod
        -- before, which it only does when some NodePool still has an instance type option (known finding).
        let strict := expected.filter (fun d => taints.all (fun t => t.effect != "PreferNoSchedule" || d.tolerations.any (fun tol => tolerates tol t)))
        if (over strict).isNone then some ("[existing-node-daemon-prefernoschedule] " ++ w) else some w
      | none =>
        if (all.length : Int) > it.pods then
          some s!"node {n.name}: {all.length} pods exceed the pod capacity {it.pods}"
        else none

/-! ### New NodeClaims: every instance type it may be launched as -/

def offeringCompatible (R : Reqs) (o : Offering) : Bool :=
  (R.get "topology.kubernetes.io/zone").has o.zone &&
  (R.get Karp.Gen.Labels.capacityTypeLabelKey).has o.ct

/-- possible values of label `k` on a node launched from claim `c` of pool `p` as `(it, o)`:
    `some v` = label present with value `v`, `none` = label absent -/
def labelDomain (p : Pool) (c : Claim) (it : IT) (o : Offering) (cands : List String) (k : String) : List (Option String) :=
  let R := c.reqs
  let restrict (vs : List String) : List (Option String) := (vs.filter (fun v => (R.get k).has v)).map some
  if k == "topology.kubernetes.io/zone" then restrict [o.zone]
  else if k == Karp.Gen.Labels.capacityTypeLabelKey then restrict [o.ct]
  else if k == "node.kubernetes.io/instance-type" then restrict [it.name]
  else if k == "kubernetes.io/arch" then restrict [it.arch]
  else if k == "kubernetes.io/os" then restrict it.os
  else if k == Karp.Gen.Labels.nodePoolLabelKey then [some p.name]
  else if k == "kubernetes.io/hostname" then [some "hostname-placeholder"]
  else match p.labels.lookup k with
    | some v => [some v]
    | none =>
      match R.lookup k with
      | none => [none]                      -- a custom label nobody defines is never set
      | some r =>
        -- a custom label is materialised from the requirement (any admitted value) or left unset
        let vals := (cands.filter (fun v => r.has v)).map some
        if r.operator == .doesNotExist || vals.isEmpty then none :: vals else vals

def exprOnDomain (dom : String → List (Option String)) (e : KExpr) : Bool :=
  (dom (normalizeKey e.key)).all (fun x => k8sMatch e.op e.vals x)

def podOnDomain (dom : String → List (Option String)) (p : Pod) (cands : List String) (ctx : List KExpr := []) : Option String :=
  if !(p.nodeSelector.all (fun (k, v) => (dom (normalizeKey k)).all (fun x => x == some v))) then
    some s!"{tagFor p cands (fun k => (dom k).contains none) ctx}pod {p.name}: node selector is not guaranteed by the NodeClaim"
  else if !(p.required.isEmpty || p.required.any (fun t => t.all (exprOnDomain dom))) then
    some s!"{tagFor p cands (fun k => (dom k).contains none) ctx}pod {p.name}: no required node-affinity term is guaranteed by the NodeClaim"
  else none

/-- daemonsets expected on a node of pool `p` launched as `it` with offering `o` -/
def dsOnLaunch (p : Pool) (it : IT) (o : Offering) (d : DaemonSet) : Bool :=
  (untolerated d.tolerations p.taints).isNone &&
  d.nodeSelector.all (fun (k, v) =>
    let k := normalizeKey k
    if k == "node.kubernetes.io/instance-type" then v == it.name
    else if k == "kubernetes.io/arch" then v == it.arch
    else if k == "kubernetes.io/os" then it.os.contains v
    else if k == "topology.kubernetes.io/zone" then o.zone == v
    else if k == Karp.Gen.Labels.capacityTypeLabelKey then o.ct == v
    else if k == Karp.Gen.Labels.nodePoolLabelKey then v == p.name
    else p.labels.lookup k == some v)

/-- does the launch `(it, o)` hold the pods plus the daemons expected there?  `none` = yes -/
def launchFits (s : Scenario) (p : Pool) (pods : List Pod) (it : IT) (o : Offering) : Option String :=
  let ds := s.daemonsets.filter (dsOnLaunch p it o)
  let dCPU := ds.foldl (fun a d => a + d.cpu) 0
  let dMem := ds.foldl (fun a d => a + d.mem) 0
  if sumCPU pods + dCPU > it.allocCPUFor o then
    some s!"instance type {it.name}: cpu {sumCPU pods}m + daemons {dCPU}m exceed allocatable {it.allocCPUFor o}m of the {o.zone}/{o.ct} offering"
  else if sumMem pods + dMem > it.mem then
    some s!"instance type {it.name}: memory {sumMem pods}Mi + daemons {dMem}Mi exceed allocatable {it.mem}Mi"
  else if ((pods.length + ds.length : Nat) : Int) > it.pods then
    some s!"instance type {it.name}: {pods.length} pods + {ds.length} daemons exceed pod capacity {it.pods}"
  else
  match firstPortConflict (pods.map (·.name)) (pods.flatMap podPorts ++ ds.flatMap (fun d => d.hostPorts.map (fun hp => ("daemonset " ++ d.name, hp)))) with
  | some (a, b) => some s!"instance type {it.name}: host port conflict between {a} and {b}"
  | none => none

def claimOK (s : Scenario) (c : Claim) (cands : List String) : Option String :=
  match s.pool? c.pool with
  | none => some s!"claim for unknown pool {c.pool}"
  | some p =>
    let pods := c.pods.filterMap s.pod?
    if pods.length != c.pods.length then some "claim lists an unknown pod" else
    if c.its.isEmpty then some "claim has no instance type options" else
    -- taints of the NodePool (startup taints are expected to be removed)
    match firstSome (pods.map (fun pd => match untolerated pd.tolerations p.taints with
        | some t => some s!"pod {pd.name}: NodePool taint {t.key}:{t.effect} is not tolerated"
        | none => none)) with
    | some w => some w
    | none =>
    firstSome (c.its.map (fun itn =>
      match s.it? itn with
      | none => some s!"claim names unknown instance type {itn}"
      | some it =>
        let ofs := it.offerings.filter (fun o => o.available && offeringCompatible c.reqs o)
        if ofs.isEmpty then some s!"instance type {itn}: no available offering is compatible with the claim's requirements" else
        -- SOME compatible available offering must hold the pods plus the daemons expected on that launch
        let fitsErrs := ofs.map (fun o => launchFits s p pods it o)
        if fitsErrs.all (·.isSome) then fitsErrs.head!.map (fun w => w ++ " (for every compatible available offering)") else
          -- every labelling the launch may produce must satisfy every pod
          firstSome (ofs.map (fun o =>
            let dom := labelDomain p c it o cands
            firstSome (pods.map (fun pd =>
              -- classification context: the NodePool's requirements and the other pods of the NodeClaim
              let others := pods.filter (fun q => q.name != pd.name)
              let ctx : List KExpr := p.reqs.map (fun r => { key := r.key, op := r.op, vals := r.vals }) ++
                others.flatMap (fun q => q.required.flatten ++ q.preferred.flatMap (·.exprs))
              match (podOnDomain dom pd cands ctx).map (fun w => s!"{w} (launched as {itn} in {o.zone}/{o.ct})") with
              | some w => some w
              | none =>
                -- every zone the NodeClaim may still be launched in must reach every volume of the pod
                podVolumesOK s pd (fun t => t.all (exprOnDomain dom)) s!"a NodeClaim that may be launched as {itn} in {o.zone}/{o.ct}"))))))

/-- the whole outcome of a pass -/
def outcomeOK (s : Scenario) (out : Outcome) (cands : List String) : Option String :=
  let ex := firstSome (out.existing.map (fun (nn, pns) =>
    match s.node? nn with
    | none => some s!"placement on unknown node {nn}"
    | some n =>
      let pods := pns.filterMap s.pod?
      if pods.length != pns.length then some s!"node {nn}: placement of an unknown pod" else existingOK s n pods cands))
  if ex.isSome then ex else
  let cl := firstSome (out.claims.map (fun c => claimOK s c cands))
  if cl.isSome then cl else
  -- no pod is placed twice
  let placed := (out.existing.flatMap (·.2)) ++ (out.claims.flatMap (·.pods))
  if placed.eraseDups.length != placed.length then some "a pod was placed twice" else none

end Karp.Spec.Admissible
