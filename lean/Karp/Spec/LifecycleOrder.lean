/-
Independent specification for C14, written from the property text, not from the controller's code.

It judges a *recorded history*: for every step (an environment event or one `Reconcile` call) what the
harness observed — the copy handed to `Reconcile`, the API writes and provider calls it made (with, for
every provider `Create`, whether the API server's copy of the NodeClaim carried the termination
finalizer at that moment), and the API server's NodeClaim and Node objects after the step.

Shares only vocabulary (`Claim`, `Node`, `Taint`, `Call`, …) with the model.  The taints the property
calls "unregistered" and "ephemeral" are written down here from the Kubernetes / Karpenter documentation;
`Props/C14.lean` pins the tables regenerated from the source to them (`fact_*`).
-/
import Karp.Model.Lifecycle

namespace Karp.Spec.LifecycleOrder
open Karp.Lifecycle

/-- `karpenter.sh/unregistered:NoExecute` -/
def unregisteredTaint : Taint := { key := "karpenter.sh/unregistered", effect := "NoExecute" }

/-- taints kubelet / the cloud controller manager / Karpenter put on a node while it starts -/
def ephemeralTaints : List Taint := [
  { key := "node.kubernetes.io/not-ready", effect := "NoSchedule" },
  { key := "node.kubernetes.io/not-ready", effect := "NoExecute" },
  { key := "node.kubernetes.io/unreachable", effect := "NoSchedule" },
  { key := "node.cloudprovider.kubernetes.io/uninitialized", effect := "NoSchedule" },
  unregisteredTaint]

/-- Kubernetes identifies a taint by key and effect (a Node cannot carry two taints with the same key and effect);
    the value (`--register-with-taints=key=value:effect`) and the `timeAdded` stamp are payload.  "The taint `t` is
    on the node" therefore means: some taint of the node has `t`'s key and effect — whatever its value or stamp. -/
def sameTaint (a b : Taint) : Bool := a.key == b.key && a.effect == b.effect

def carries (ts : List Taint) (t : Taint) : Bool := ts.any (sameTaint t)

/-- Node Readiness Controller taints -/
def ephemeralPrefixes : List String := ["readiness.k8s.io/"]

/-- a taint matches by key and effect (the value is not compared) -/
def isEphemeral (t : Taint) : Bool :=
  ephemeralTaints.any (fun e => e.key == t.key && e.effect == t.effect) || ephemeralPrefixes.any (fun p => hasPrefix p t.key)

/-- one provider `Create` call as the harness saw it -/
structure CreateObs where
  /-- the provider created an instance -/
  ok : Bool
  /-- the API server's copy of the NodeClaim carried the termination finalizer at call time -/
  fin : Bool
  /-- the API server still had the NodeClaim at call time -/
  present : Bool
deriving Repr, DecidableEq

structure StepObs where
  isRec : Bool := false
  /-- `Reconcile` was handed the API server's current copy -/
  fresh : Bool := false
  view : Claim := {}
  calls : List Call := []
  result : Result := .ok
  /-- API server state after the step -/
  claim : Claim := {}
  nodes : List Node := []
  creates : List CreateObs := []
  /-- the controller's clock after the step, whole seconds since the NodeClaim was created -/
  now : Nat := 0
deriving Repr, DecidableEq

/-- what the judge remembers between steps -/
structure Acc where
  /-- the API server's copy before the step -/
  prev : Claim
  /-- instances created so far -/
  created : Nat := 0
  /-- the finalizer has been seen on the API server's copy -/
  finEver : Bool
deriving Repr, DecidableEq

def isTrue (c : Cond) : Bool := c.status == .true_

/-! ### Observable preconditions -/

/-- "node present and synced with the unregistered taint removed" -/
def registeredPre (sp : Spec) (nodes : List Node) : Bool :=
  match nodes with
  | [n] => n.regLabel && !carries n.taints unregisteredTaint
           && n.finalizer && n.ownerRef && n.userLabels && n.provLabels
           && (n.doNotSync || (sp.taints.all (fun t => carries n.taints t) && sp.startup.all (fun t => carries n.taints t)))
  | _ => false

/-- "node Ready": the Node's `Ready` condition is there and its status is `True` — `Unknown` (the kubelet stopped
    reporting) and a condition that was never posted are not Ready -/
def nodeIsReady (n : Node) : Bool :=
  match n.readyCond with
  | .true_ => true
  | .absent | .unknown | .false_ => false

/-- "node Ready with startup and ephemeral taints gone and requested extended resources reported" -/
def initializedPre (sp : Spec) (nodes : List Node) : Bool :=
  match nodes with
  | [n] => nodeIsReady n && sp.startup.all (fun s => !carries n.taints s) && n.taints.all (fun t => !isEphemeral t)
           && (!sp.wantsRes || n.resOK)
  | _ => false

/-! ### The clauses of the property, per step -/

def okCreates (o : StepObs) : Nat := (o.creates.filter (·.ok)).length

/-- at most one successful provider `Create` per NodeClaim -/
def createOnce (a : Acc) (o : StepObs) : Bool := a.created + okCreates o ≤ 1

/-- no `Create` (successful or not) before the finalizer is on the NodeClaim -/
def finalizerFirst (a : Acc) (o : StepObs) : Bool :=
  o.creates.all (fun c => c.fin || (!c.present && a.finEver))

/-- every persisted status: Initialized ⇒ Registered ⇒ Launched ⇒ an instance exists (and its id is recorded) -/
def ordered (a : Acc) (o : StepObs) : Bool :=
  !o.claim.present ||
  ((!isTrue o.claim.conds.i || isTrue o.claim.conds.r) &&
   (!isTrue o.claim.conds.r || isTrue o.claim.conds.l) &&
   (!isTrue o.claim.conds.l || (o.claim.providerID && a.created + okCreates o ≥ 1)))

/-- a condition that becomes true on the API server does so under its observable precondition.  A reconcile
    that was handed a stale copy in which the condition was already true may re-assert it (cache lag). -/
def becomesTrue (sp : Spec) (a : Acc) (o : StepObs) : Bool :=
  !o.claim.present ||
  ((a.prev.present && isTrue a.prev.conds.l || !isTrue o.claim.conds.l ||
      (o.isRec && (isTrue o.view.conds.l || a.created + okCreates o ≥ 1))) &&
   (a.prev.present && isTrue a.prev.conds.r || !isTrue o.claim.conds.r ||
      (o.isRec && (isTrue o.view.conds.r || registeredPre sp o.nodes))) &&
   (a.prev.present && isTrue a.prev.conds.i || !isTrue o.claim.conds.i ||
      (o.isRec && (isTrue o.view.conds.i || initializedPre sp o.nodes))))

/-- the lifecycle moves forward: with an up-to-date copy (or no reconcile at all) nothing that was true stops
    being true, a deletion is never undone -/
def forward (a : Acc) (o : StepObs) : Bool :=
  (a.prev.present || !o.claim.present) &&
  (!a.prev.present || !o.claim.present ||
    ((!a.prev.deleting || o.claim.deleting) &&
     ((o.isRec && !o.fresh) ||
       ((!isTrue a.prev.conds.l || isTrue o.claim.conds.l) &&
        (!isTrue a.prev.conds.r || isTrue o.claim.conds.r) &&
        (!isTrue a.prev.conds.i || isTrue o.claim.conds.i)))))

def isCapacity (c : Call) : Bool := c.site == .create && (c.out == .ice || c.out == .ncnr)

/-- every capacity error is directly followed by a delete of the NodeClaim -/
def capacityCalls : List Call → Bool
  | [] => true
  | c :: rest =>
    (if isCapacity c then (match rest with | d :: _ => d.site == .claimDelete | [] => false) else true)
    && capacityCalls rest

def deleteOutcomeAfterCapacity : List Call → Option Outcome
  | [] => none
  | c :: rest => if isCapacity c then (match rest with | d :: _ => some d.out | [] => none) else deleteOutcomeAfterCapacity rest

/-- capacity errors delete the NodeClaim instead of retrying: the delete is issued; when it succeeds the NodeClaim is
    gone or terminating; when it fails the reconcile reports an error (so that it runs again) unless the API server
    says the NodeClaim no longer exists; `Launched` is not set by that reconcile -/
def capacityDeletes (a : Acc) (o : StepObs) : Bool :=
  capacityCalls o.calls &&
  (match deleteOutcomeAfterCapacity o.calls with
   | none => !o.calls.any isCapacity
   | some .ok => (!o.claim.present || o.claim.deleting) && (!isTrue o.claim.conds.l || isTrue a.prev.conds.l)
   | some .notFound => !isTrue o.claim.conds.l || isTrue a.prev.conds.l
   | some _ =>
     -- the failed delete is reported (the reconcile runs again) unless an API write answered NotFound: the object is gone
     (o.result == .err || o.calls.any (fun c => c.out == .notFound)) && (!isTrue o.claim.conds.l || isTrue a.prev.conds.l))

/-- ... and a NodeClaim that is seen terminating is never launched -/
def noCreateWhenDeleting (o : StepObs) : Bool :=
  !(o.isRec && o.view.deleting) || o.creates.isEmpty

/-- environment events do not call the provider -/
def envQuiet (o : StepObs) : Bool := o.isRec || (o.creates.isEmpty && o.calls.isEmpty)

def clauses (sp : Spec) (a : Acc) (o : StepObs) : List (String × Bool) := [
  ("create-once: more than one successful provider Create for the NodeClaim", createOnce a o),
  ("finalizer-first: provider Create called while the API server's NodeClaim had no termination finalizer", finalizerFirst a o),
  ("order: persisted conditions violate Initialized => Registered => Launched => instance created", ordered a o),
  ("precondition: a condition became True without its observable precondition", becomesTrue sp a o),
  ("forward: a True condition or a deletion was undone", forward a o),
  ("capacity: a capacity error did not delete the NodeClaim", capacityDeletes a o),
  ("capacity: Create called for a terminating NodeClaim", noCreateWhenDeleting o),
  ("environment step made controller calls", envQuiet o)]

def stepOK (sp : Spec) (a : Acc) (o : StepObs) : Bool := (clauses sp a o).all (·.2)

def Acc.next (a : Acc) (o : StepObs) : Acc :=
  { prev := o.claim, created := a.created + okCreates o,
    finEver := a.finEver || o.claim.finalizer && o.claim.present || o.creates.any (·.fin) }

/-- the whole history -/
def historyOK (sp : Spec) : Acc → List StepObs → Bool
  | _, [] => true
  | a, o :: os => stepOK sp a o && historyOK sp (a.next o) os

/-! ### The lifecycle moves forward: deadlines

"Its lifecycle moves forward ... instead of retrying forever": a NodeClaim is given five minutes to launch and its
node fifteen minutes to register (Karpenter's documented liveness TTLs).  A reconcile that is shown a NodeClaim past
one of these deadlines deletes it.  The bookkeeping that goes with the delete (the NodePool's registration-health
record) must not stand in its way when the NodePool is simply gone — an orphaned NodeClaim has to go too; only a
NodePool read that *failed* (anything but NotFound) may put the delete off to the retry.

Judged on its own (`timeoutsOK`), next to `historyOK`: it needs the clock. -/

def launchDeadlineSecs : Nat := 5 * 60
def registrationDeadlineSecs : Nat := 15 * 60

/-- the reconcile was shown a live NodeClaim that already carries the finalizer (so nothing stops it early) and that
    is past a deadline: never launched — no instance was ever created for it — and `Launched` has not been true for
    the launch deadline; or launched, no Node carries the instance's provider id, and `Registered` has not been true
    for the registration deadline.  `now`: the clock when the reconcile started; `created`: instances created so far,
    this step included. -/
def overdue (now created : Nat) (o : StepObs) : Bool :=
  o.isRec && o.view.present && !o.view.deleting && o.view.finalizer && !isTrue o.view.conds.r &&
  ((!isTrue o.view.conds.l && created == 0 && decide (o.view.conds.l.ltt + launchDeadlineSecs ≤ now)) ||
   (isTrue o.view.conds.l && o.nodes.isEmpty && decide (o.view.conds.r.ltt + registrationDeadlineSecs ≤ now)))

/-- the NodePool read answered with an error other than NotFound -/
def poolReadFailed (o : StepObs) : Bool :=
  o.calls.any (fun c => c.site == .poolGet && c.out != .ok && c.out != .notFound)

/-- a write to the NodeClaim (finalizer / metadata / status patch) was answered with NotFound -/
def claimReportedGone (o : StepObs) : Bool :=
  o.calls.any (fun c => (c.site == .finPatch || c.site == .metaPatch || c.site == .statusPatch) && c.out == .notFound)

/-- past a deadline the NodeClaim is deleted (the delete is issued; if it succeeds the NodeClaim is terminating or
    gone), unless the NodePool read failed — then the reconcile must come back: an error or a requeue -/
def timeoutDeletes (now created : Nat) (o : StepObs) : Bool :=
  !overdue now created o ||
  -- the API server answered a write to the NodeClaim in this reconcile with NotFound: it told the controller that the
  -- NodeClaim no longer exists, so nothing is left to delete or to come back for (the harness injects that answer without
  -- removing the object, a state no API server produces; demanding the delete there was a false alarm, seed 46)
  claimReportedGone o ||
  (if o.calls.any (fun c => c.site == .claimDelete) then
     !o.calls.any (fun c => c.site == .claimDelete && c.out == .ok) || !o.claim.present || o.claim.deleting
   else poolReadFailed o && (o.result == .err || o.result == .requeue))

/-- the whole history; `now` / `created`: clock and instances before the first step -/
def timeoutsOK : Nat → Nat → List StepObs → Bool
  | _, _, [] => true
  | now, created, o :: os =>
    timeoutDeletes now (created + okCreates o) o && timeoutsOK o.now (created + okCreates o) os

def firstTimeoutViolation : Nat → Nat → List StepObs → Nat → Option String
  | _, _, [], _ => none
  | now, created, o :: os, i =>
    if timeoutDeletes now (created + okCreates o) o then firstTimeoutViolation o.now (created + okCreates o) os (i + 1)
    else
      let which := if isTrue o.view.conds.l then s!"launched, no Node for {now - o.view.conds.r.ltt}s (registration deadline {registrationDeadlineSecs}s)"
        else s!"not launched for {now - o.view.conds.l.ltt}s (launch deadline {launchDeadlineSecs}s)"
      let pool := match o.calls.find? (fun c => c.site == .poolGet) with
        | some c => if c.out == Outcome.notFound then "; the NodePool it names is gone (read answered NotFound)" else ""
        | none => ""
      some s!"step {i}: deadline: the NodeClaim is overdue ({which}) and the reconcile did not delete it{pool}"

/-! ### Diagnostics (not part of the judgement) -/

def showTaint (t : Taint) : String :=
  (if t.value == "" then s!"{t.key}:{t.effect}" else s!"{t.key}={t.value}:{t.effect}") ++
  (if t.stamp == "" then "" else s!"@{t.stamp}")

def showReady : NodeReady → String
  | .true_ => "True" | .false_ => "False" | .unknown => "Unknown" | .absent => "(no Ready condition)"

/-- which condition went true without its precondition, and what about the Node is wrong -/
def flipDetail (sp : Spec) (a : Acc) (o : StepObs) : String :=
  let flipped (pick : Conds → Cond) : Bool :=
    isTrue (pick o.claim.conds) && !(a.prev.present && isTrue (pick a.prev.conds)) && !(o.isRec && isTrue (pick o.view.conds))
  let who := if o.isRec then "" else " by a step that is not a reconcile"
  let l := if flipped (·.l) && !(o.isRec && a.created + okCreates o ≥ 1) then [s!"Launched=True{who} without an instance"] else []
  let r := if flipped (·.r) && !(o.isRec && registeredPre sp o.nodes) then
      [s!"Registered=True{who} but " ++ (match o.nodes with
        | [n] => (match n.taints.find? (sameTaint unregisteredTaint) with
            | some t => s!"the Node still carries the unregistered taint {showTaint t}"
            | none => if !n.regLabel then "the Node has no registered label" else "the Node is not synced (finalizer / owner / labels / taints)")
        | ns => s!"{ns.length} Nodes carry the provider id")] else []
  let i := if flipped (·.i) && !(o.isRec && initializedPre sp o.nodes) then
      [s!"Initialized=True{who} but " ++ (match o.nodes with
        | [n] =>
          if !nodeIsReady n then s!"the Node's Ready condition is {showReady n.readyCond}"
          else match n.taints.find? (fun t => sp.startup.any (fun s => sameTaint s t)) with
            | some t => s!"the startup taint {showTaint t} is still on the Node"
            | none => match n.taints.find? isEphemeral with
              | some t => s!"the ephemeral taint {showTaint t} is still on the Node"
              | none => "the requested extended resource is not reported"
        | ns => s!"{ns.length} Nodes carry the provider id")] else []
  "; ".intercalate (l ++ r ++ i)

/-- first violated clause, for diagnostics -/
def firstViolation (sp : Spec) : Acc → List StepObs → Nat → Option String
  | _, [], _ => none
  | a, o :: os, i =>
    match (clauses sp a o).find? (fun p => !p.2) with
    | some p => some (s!"step {i}: {p.1}" ++ (if p.1.startsWith "precondition" then s!" [{flipDetail sp a o}]" else ""))
    | none => firstViolation sp (a.next o) os (i + 1)

end Karp.Spec.LifecycleOrder
