/-
Independent specification for C10, written from the property text (not from the code):

  "While draining, Karpenter removes pods only through the eviction API (so PodDisruptionBudgets
   apply), does not evict pods with an active do-not-disrupt annotation, static pods or pods
   tolerating the disruption taint, and evicts non-critical non-daemon pods before daemon and
   critical pods.  Only when the NodeClaim has a termination grace period may it delete pods
   directly, and then no earlier than the node deadline minus the pod's own grace period, never with
   a zero grace period; a pod queued under one deadline is never later handled under a later one."

The specification judges what an observer sees of one step of a drain history: the removal requests
sent to the API server (eviction sub-resource creations, pod Delete calls with their grace period),
the queue's item map before and after the step, and the verdict of a drain pass.  It shares only
vocabulary with the model (`Pod`, `Call`, `Items`, `qget`); every rule below is restated from the text.
-/
import Karp.Model.Drain

namespace Karp.Spec.Drain
open Karp.Drain (Pod Dnd sec Items Call qget State Step livePods liveUids DeadlineSrc)

/-- deadlines ordered with "no deadline" as +∞: `dle a b` ⇔ a is no later than b -/
def dle (a b : Option Int) : Bool :=
  match a, b with
  | _, none => true
  | none, some _ => false
  | some x, some y => decide (x ≤ y)

/-- the earlier of two deadlines -/
def dmin (a b : Option Int) : Option Int := if dle a b then a else b

/-- "an active do-not-disrupt annotation": `"true"`, or a duration that has not yet elapsed since the pod
    started (unknown start = still protected) -/
def protectedNow (p : Pod) (now : Int) : Bool :=
  match p.dnd with
  | .forever => true
  | .dur d => (match p.start with | some s => decide (now < s + d) | none => true)
  | .absent => false
  | .invalid => false

/-- pods Karpenter never removes itself: static pods and pods tolerating the disruption taint -/
def untouchable (p : Pod) : Bool := p.static || p.tolerates

/-- the eviction API may be used on `p` now -/
def mayEvict (p : Pod) (now : Int) : Bool :=
  !p.terminal && p.del.isNone && !untouchable p && !protectedNow p now

/-- when the pod's own grace period ends if it is left alone: its deletionTimestamp if it is already
    terminating, else `now + grace` (were it deleted now); `none` if it has no grace period of its own -/
def ownGraceEnd (p : Pod) (now : Int) : Option Int :=
  match p.del with
  | some dt => some dt
  | none => p.grace.map (fun g => now + g * sec)

/-- "no earlier than the node deadline minus the pod's own grace period": the pod's own grace period
    would not end before the deadline -/
def pastThreshold (p : Pod) (d : Int) (now : Int) : Bool :=
  match ownGraceEnd p now with
  | some e => decide (d ≤ e)
  | none => false

/-- strictly past it -/
def strictlyPastThreshold (p : Pod) (d : Int) (now : Int) : Bool :=
  match ownGraceEnd p now with
  | some e => decide (d < e)
  | none => false

/-- a direct Delete of `p` with `g` seconds, for a pod queued under deadline `D`, is permitted -/
def mayDelete (p : Pod) (D : Option Int) (now : Int) (g : Int) : Bool :=
  match D with
  | none => false                                   -- only with a termination grace period
  | some d =>
    decide (1 ≤ g)                                   -- never a zero grace period
    && pastThreshold p d now                         -- no earlier than deadline − own grace
    && (decide (now + g * sec ≤ d) || g == 1)        -- handled under that deadline, not a later one

/-- one minute after its deletionTimestamp a terminating pod no longer holds up the drain -/
def lingering (p : Pod) (now : Int) : Bool :=
  match p.del with
  | some dt => decide (dt + 60 * sec < now)
  | none => false

/-- pods the drain still has to wait for -/
def mustWait (p : Pod) (now : Int) : Bool :=
  p.onNode && !p.terminal && !untouchable p && !lingering p now

/-- "daemon and critical pods" go after "non-critical non-daemon pods" -/
def late (p : Pod) : Bool := p.critical || p.daemon

def pastD (p : Pod) (D : Option Int) (now : Int) : Bool :=
  match D with | some d => pastThreshold p d now | none => false
def strictlyPastD (p : Pod) (D : Option Int) (now : Int) : Bool :=
  match D with | some d => strictlyPastThreshold p d now | none => false

/-- a pod a drain pass (deadline `D`) may hand to the queue: it is waited for, and it is past its
    threshold, or it is non-critical non-daemon, or no non-critical non-daemon pod is left that still
    has to go through the eviction API -/
def enqueueOK (pods : List Pod) (p : Pod) (D : Option Int) (now : Int) : Bool :=
  mustWait p now &&
    (pastD p D now || !late p ||
      pods.all (fun p' => !(mustWait p' now && !pastD p' D now) || late p'))

/-- a pod a drain pass must hand to the queue (under a deadline no later than the pass's): waited for, and
    non-critical non-daemon or strictly past its threshold -/
def enqueueDue (p : Pod) (D : Option Int) (now : Int) : Bool :=
  mustWait p now && (!late p || strictlyPastD p D now)

def keys (q : Items) : List Nat := q.map (·.1)

/-- nothing dropped from the queue, no stored deadline moved later or cleared -/
def keptAndMonotone (I I' : Items) : Bool :=
  (keys I).all (fun u => match qget I' u, qget I u with
    | some e', some e => dle e' e
    | _, _ => false)

/-- whatever is new or changed in the queue after a drain pass was allowed in, under `D` -/
def admittedOK (pods : List Pod) (D : Option Int) (now : Int) (I I' : Items) : Bool :=
  (keys I').all (fun u =>
    qget I' u == qget I u ||
    (pods.any (fun p => p.uid == u && enqueueOK pods p D now)
      && qget I' u == some (dmin ((qget I u).getD none) D)))

/-- what had to be queued is, under a deadline no later than `D` -/
def dueQueued (pods : List Pod) (D : Option Int) (now : Int) (I' : Items) : Bool :=
  pods.all (fun p => !enqueueDue p D now ||
    (match qget I' p.uid with | some e' => dle e' D | none => false))

/-- never "drained" while a pod is waited for -/
def verdictOK (pods : List Pod) (now : Int) (drained : Bool) : Bool :=
  !drained || pods.all (fun p => !mustWait p now)

/-- a drain pass with deadline `D` over the pods `pods` (those the API server lists) at `now`:
    `I`/`I'` queue items before/after, `calls` the removal requests it sent, `drained` its verdict -/
def drainOK (pods : List Pod) (D : Option Int) (now : Int) (I I' : Items) (calls : List Call) (drained : Bool) : Bool :=
  calls.isEmpty                                         -- the pass itself removes nothing
  && keptAndMonotone I I'
  && admittedOK pods D now I I'
  && dueQueued pods D now I'
  && verdictOK pods now drained

/-- only the reconciled pod's entry may disappear; nothing else changes -/
def onlyDrops (I I' : Items) (u : Nat) : Bool :=
  (keys I').all (fun k => qget I' k == qget I k)
  && (keys I).all (fun k => k == u || qget I' k == qget I k)

/-- a removal request made while reconciling pod `p` is permitted -/
def callOK (p : Pod) (now : Int) (I : Items) (strict : Bool) : Call → Bool
  | .evict u => u == p.uid && (qget I u).isSome && mayEvict p now
  | .delete u g =>
    u == p.uid &&
    (match qget I u with
     | some D => mayDelete p D now g
     | none => false) &&
    (!strict || !untouchable p)

/-- one eviction-queue reconcile of pod `p` (as the API server has it) at `now`.
    `strict`: the history contains no enqueueing other than by drain passes. -/
def reconcileOK (p : Pod) (now : Int) (I I' : Items) (calls : List Call) (strict : Bool) : Bool :=
  onlyDrops I I' p.uid
  && decide (calls.length ≤ 1)
  && calls.all (callOK p now I strict)

/-- steps that are not Karpenter's (clock, pod changes) or that only enqueue -/
def idleOK (I I' : Items) (calls : List Call) : Bool :=
  calls.isEmpty && keptAndMonotone I I' && (keys I').all (fun k => qget I' k == qget I k)

/-- a direct `Queue.Add(D, pods)`: nothing dropped, nothing loosened, new/changed entries are for the
    given pods under `D` -/
def addOK (uids : List Nat) (D : Option Int) (I I' : Items) (calls : List Call) : Bool :=
  calls.isEmpty && keptAndMonotone I I'
  && (keys I').all (fun u => qget I' u == qget I u ||
        (uids.contains u && qget I' u == some (dmin ((qget I u).getD none) D)))

/-- "Only when the NodeClaim has a termination grace period": the node deadline is the instant the NodeClaim's
    termination timestamp denotes.  A node without a (single) NodeClaim, a NodeClaim without the timestamp, and a
    timestamp that cannot be read give no deadline. -/
def knownDeadline : DeadlineSrc → Option Int
  | .annotation (some t) => some t
  | _ => none

/-- the NodeClaim says it has a deadline, but what it says cannot be read -/
def unreadable : DeadlineSrc → Bool
  | .annotation none => true
  | _ => false

/-- a drain pass of the termination controller.  With a known deadline, or knowingly none, it is an ordinary
    drain pass under it.  When the deadline cannot be read, no instant is "the node deadline": the pass may refuse
    (report an error and touch nothing) or drain as for a node without a deadline (evictions only) — it must not
    act under a deadline of its own making. -/
def nodePassOK (pods : List Pod) (src : DeadlineSrc) (now : Int) (I I' : Items) (calls : List Call) (r : String) : Bool :=
  if unreadable src then
    if r == "error" then idleOK I I' calls
    else drainOK pods none now I I' calls (r == "drained")
  else r != "error" && drainOK pods (knownDeadline src) now I I' calls (r == "drained")

/-- the property's verdict on one observed step: `s` the state before it (clock, API server content, queue
    items), `I'` the queue items after it, `calls` the removal requests sent during it, `r` its verdict string.
    `strict`: the history contains no enqueueing other than by drain passes. -/
def stepOK (strict : Bool) (s : State) (st : Step) (I' : Items) (calls : List Call) (r : String) : Bool :=
  match st with
  | .drain D => r != "error" && drainOK (livePods s) D s.now s.q I' calls (r == "drained")
  | .node src => nodePassOK (livePods s) src s.now s.q I' calls r
  | .recon i _ _ =>
    match s.pods[i]? with
    | none => idleOK s.q I' calls
    | some w => if w.gone then idleOK s.q I' calls else reconcileOK w.pod s.now s.q I' calls strict
  | .tick _ => idleOK s.q I' calls
  | .change _ _ => idleOK s.q I' calls
  | .add D ps => addOK (liveUids s ps) D s.q I' calls

end Karp.Spec.Drain
