/-
Independent specification for C05 (disruption budgets), written from the property text:

  "For each NodePool and disruption reason, the nodes Karpenter newly selects for voluntary disruption, plus the
   pool's nodes that are already not ready or being deleted, never exceed the most restrictive active budget.
   A budget is active during [hit, hit+duration) after each hit of its cron schedule (always, if it has none),
   percentages are taken of the pool's initialized nodes rounding up, a budget applies to a reason if it lists it
   or lists none, and a malformed budget allows zero."

Only the *vocabulary* (`Budget`, `Node`, `Pool`: the shape of the inputs) is shared with the model.
Everything is executable (`Bool`/`Option Nat`) so the driver can evaluate it on what the real code did.
The cron schedule is abstract here (`hit : Int → Bool`); its concrete reading is in `Spec/Cron.lean`.
-/
import Karp.Model.Budget

namespace Karp.Spec.BudgetWindow
open Karp.Budget (Budget Node Pool)

/-! ### Activity window -/

/-- cron fires on whole minutes -/
def minuteNs : Int := 60000000000

/-- the whole minutes `h` with `lo < h ≤ hi` -/
def minuteMultiples (lo hi : Int) : List Int :=
  let k0 := lo / 60000000000 + 1
  let k1 := hi / 60000000000
  (List.range (k1 - k0 + 1).toNat).map (fun (i : Nat) => (k0 + (i : Int)) * 60000000000)

/-- "active during [h, h+d) after each hit h": some hit `h` with `h ≤ now < h + d`, i.e. `now - d < h ≤ now` -/
def windowActive (hit : Int → Bool) (d now : Int) : Bool := (minuteMultiples (now - d) now).any hit

/-- the spec's reading of a schedule string: `none` = not a cron schedule; `some hit` = its activation instants -/
abbrev HitOf := String → Option (Int → Bool)

/-! ### The `nodes` field: a count or a percentage -/

inductive NodesSpec
  | count (n : Nat)
  | percent (p : Nat)
  | malformed
deriving Repr, DecidableEq

def isDigitChar (c : Char) : Bool := '0' ≤ c && c ≤ '9'

/-- decimal value, most significant digit first -/
def decimal (cs : List Char) : Nat := cs.foldl (fun acc c => acc * 10 + (c.toNat - 48)) 0

/-- `"<digits>"` is a count, `"<digits>%"` a percentage, anything else is malformed -/
def nodesSpec (cs : List Char) : NodesSpec :=
  if !cs.isEmpty && cs.all isDigitChar then .count (decimal cs)
  else match cs.getLast? with
    | some '%' =>
      let ds := cs.dropLast
      if !ds.isEmpty && ds.all isDigitChar then .percent (decimal ds) else .malformed
    | _ => .malformed

/-- `⌈p · n / 100⌉` -/
def ceilPercent (p n : Nat) : Nat := (p * n + 99) / 100

/-! ### One budget -/

/-- a budget applies to a reason if it lists it or lists none -/
def applies (b : Budget) (reason : String) : Bool :=
  match b.reasons with
  | none => true
  | some rs => rs.isEmpty || rs.contains reason

/-- malformed: the `nodes` value or the schedule cannot be read -/
def malformed (hitOf : HitOf) (b : Budget) : Bool :=
  (nodesSpec b.nodes == .malformed) ||
  (match b.schedule with
   | none => false
   | some s => (hitOf s).isNone)

/-- active: always without a schedule; otherwise inside a window (a missing duration is a window of length 0) -/
def active (hitOf : HitOf) (b : Budget) (now : Int) : Bool :=
  match b.schedule with
  | none => true
  | some s =>
    match hitOf s with
    | none => false
    | some hit => windowActive hit (b.duration.getD 0) now

/-- what a (well-formed) budget allows of a pool with `n` initialized nodes -/
def limit (b : Budget) (n : Nat) : Nat :=
  match nodesSpec b.nodes with
  | .count k => k
  | .percent p => ceilPercent p n
  | .malformed => 0

/-! ### All budgets of a pool: the most restrictive active one -/

/-- minimum of a list of limits; `none` = no limit at all -/
def minLimit : List Nat → Option Nat
  | [] => none
  | x :: xs => match minLimit xs with
    | none => some x
    | some y => some (min x y)

/-- `none` = unbounded -/
def specAllowed (hitOf : HitOf) (bs : List Budget) (now : Int) (n : Nat) (reason : String) : Option Nat :=
  if bs.any (malformed hitOf) then some 0
  else minLimit ((bs.filter (fun b => applies b reason && active hitOf b now)).map (fun b => limit b n))

/-- `x ≤ s` where `none` is +∞ -/
def leAllowed (x : Int) : Option Nat → Bool
  | none => true
  | some v => decide (x ≤ (v : Int))

/-! ### The pool: initialized nodes, and those already not ready or being deleted -/

/-- the pool's initialized nodes (owned by karpenter, instance not already terminated at the provider) -/
def isPoolNode (pool : String) (n : Node) : Bool :=
  n.pool == pool && n.managed && n.initialized && !n.terminating

def poolSize (nodes : List Node) (pool : String) : Nat := (nodes.filter (isPoolNode pool)).length

/-- of those, the ones already not ready or being deleted -/
def alreadyDisrupting (nodes : List Node) (pool : String) : Nat :=
  (nodes.filter (fun n => isPoolNode pool n && (!n.ready || n.marked))).length

/-! ### The property, for one pool and one batch of newly selected nodes -/

/-- `k` nodes of the pool newly selected: `k + alreadyDisrupting ≤ allowed` (nothing to show for `k = 0`) -/
def poolBoundOK (hitOf : HitOf) (p : Pool) (nodes : List Node) (now : Int) (reason : String) (k : Nat) : Bool :=
  k == 0 ||
  leAllowed ((k : Int) + (alreadyDisrupting nodes p.name : Int)) (specAllowed hitOf p.budgets now (poolSize nodes p.name) reason)

/-- the newly selected node names, per pool -/
def selectedIn (nodes : List Node) (pool : String) (selected : List String) : Nat :=
  (selected.filter (fun s => nodes.any (fun n => n.name == s && n.pool == pool))).length

/-- the property for a whole selection (every pool) -/
def boundOK (hitOf : HitOf) (pools : List Pool) (nodes : List Node) (now : Int) (reason : String) (selected : List String) : Bool :=
  pools.all (fun p => poolBoundOK hitOf p nodes now reason (selectedIn nodes p.name selected))

/-- the property for a remaining-allowance table (what `BuildDisruptionBudgetMapping` publishes):
    selecting up to `remaining p` nodes of pool `p` must respect the bound -/
def mappingOK (hitOf : HitOf) (pools : List Pool) (nodes : List Node) (now : Int) (reason : String) (remaining : String → Nat) : Bool :=
  pools.all (fun p => poolBoundOK hitOf p nodes now reason (remaining p.name))

end Karp.Spec.BudgetWindow
