/-
Independent specification for C17 (capacity reservations), written from the property text, not from the code.

Part 1 — the reservation ledger.  A reservation `id` has a capacity (when several offerings name it: the least
capacity any of them reports).  The state is just *who holds what*; nothing is counted incrementally:
  free id = capacity id − |holders id|.
Every observation of the manager and every state change is checked against that reading, and in every state
`|holders id| ≤ capacity id` ("never over-committed").

Part 2 — the end state of a scheduling pass (`passOK`): see below.
Core Lean only.
-/
import Karp.Spec.Scenario
import Karp.Spec.Admissible
import Karp.Gen.Labels

namespace Karp.Spec.Reserved

abbrev Id := String
abbrev Host := String

/-- capacity of a reservation: the least `ReservationCapacity` among the reserved offerings naming it;
    `none` = no offering names it -/
def capOf : List (Id × Int) → Id → Option Int
  | [], _ => none
  | (k, c) :: os, id =>
    if k == id then some (match capOf os id with | none => c | some m => min c m) else capOf os id

/-- an observed state of the manager: remaining slots and holders per reservation id -/
structure Snap where
  remaining : List (Id × Int)
  holders : List (Id × List Host)
deriving Repr

def Snap.rem (s : Snap) (id : Id) : Int := (s.remaining.lookup id).getD 0
def Snap.hol (s : Snap) (id : Id) : List Host := (s.holders.lookup id).getD []
def Snap.holds (s : Snap) (h : Host) (id : Id) : Bool := (s.hol id).contains h

/-- the ledger equation in one state, for the ids in `ids`:
    remaining ≥ 0, holders are distinct, remaining + |holders| = capacity (hence |holders| ≤ capacity) -/
def ledgerOK (offerings : List (Id × Int)) (ids : List Id) (s : Snap) : Option String :=
  ids.findSome? (fun id =>
    let cap := (capOf offerings id).getD 0
    let hs := s.hol id
    if s.rem id < 0 then some s!"reservation {id}: remaining capacity {s.rem id} is negative"
    else if hs.eraseDups.length != hs.length then some s!"reservation {id}: duplicate holder"
    else if (hs.length : Int) > cap then some s!"reservation {id}: {hs.length} holders exceed its capacity {cap}"
    else if s.rem id + hs.length != cap then
      some s!"reservation {id}: remaining {s.rem id} + {hs.length} holders ≠ capacity {cap}"
    else none)

inductive OpS
  | can (h : Host) (id : Id)
  | reserve (h : Host) (ids : List Id)
  | guarded (h : Host) (ids : List Id)
  | release (h : Host) (ids : List Id)
  | has (h : Host) (id : Id)
  | remaining (id : Id)
deriving Repr

def setEq (a b : List String) : Bool := a.all b.contains && b.all a.contains

/-- what `CanReserve` must answer in state `s`: `none` = the id is unknown to the manager (a programming error) -/
def canGrant (offerings : List (Id × Int)) (s : Snap) (h : Host) (id : Id) : Option Bool :=
  if s.holds h id then some true
  else match capOf offerings id with
    | none => none
    | some _ => some (decide (0 < s.rem id))

/-- the state after `h` was granted the distinct ids `need` (none of which it held) -/
def grantOK (ids : List Id) (prev post : Snap) (h : Host) (need : List Id) : Option String :=
  ids.findSome? (fun id =>
    if need.contains id then
      if !setEq (post.hol id) (h :: prev.hol id) then some s!"reservation {id}: holders after the grant are not the old holders plus {h}"
      else if post.rem id != prev.rem id - 1 then some s!"reservation {id}: remaining {post.rem id} after a grant, was {prev.rem id}"
      else none
    else if !setEq (post.hol id) (prev.hol id) || post.rem id != prev.rem id then
      some s!"reservation {id}: changed although it was not granted"
    else none)

/-- judge one observed step: `obs` is what the caller saw, `post` the state afterwards (`none` after a panic).
    Result `none` = as specified. -/
def stepOK (offerings : List (Id × Int)) (ids : List Id) (prev : Snap) (op : OpS) (obs : String) (post : Option Snap) :
    Option String :=
  let unchanged : Option String :=
    match post with
    | none => some "no state recorded after a read-only operation"
    | some p => ids.findSome? (fun id =>
        if !setEq (p.hol id) (prev.hol id) || p.rem id != prev.rem id then some s!"reservation {id}: changed by a read-only operation" else none)
  match op with
  | .can h id =>
    match canGrant offerings prev h id with
    | none => if obs == "panic:nonExistent" then none else some s!"CanReserve on unknown reservation {id} answered {obs}"
    | some b => if obs != toString b then some s!"CanReserve({h},{id}) answered {obs}, the ledger says {b}" else unchanged
  | .has h id => if obs != toString (prev.holds h id) then some s!"HasReservation({h},{id}) answered {obs}" else unchanged
  | .remaining id =>
    let want := (capOf offerings id).getD 0 - ((prev.hol id).length : Int)
    if obs != s!"n:{want}" then some s!"RemainingCapacity({id}) answered {obs}, capacity − holders = {want}" else unchanged
  | .reserve h rids =>
    let need := rids.eraseDups.filter (fun id => !prev.holds h id)
    if need.any (fun id => prev.rem id < 1) then
      -- granting would over-commit: the manager must refuse (it panics) rather than hand the slot out
      if obs == "panic:overReserve" then none else some s!"Reserve({h}) of an exhausted reservation answered {obs}"
    else if obs != "ok" then some s!"Reserve({h}) answered {obs}"
    else match post with
      | none => some "no state after Reserve"
      | some p => grantOK ids prev p h need
  | .guarded h rids =>
    if rids.any (fun id => (canGrant offerings prev h id).isNone) then
      if obs == "panic:nonExistent" then none else some s!"guarded reserve naming an unknown reservation answered {obs}"
    else
      let granted := rids.filter (fun id => (canGrant offerings prev h id) == some true)
      if obs != "granted:" ++ ",".intercalate granted then some s!"guarded reserve granted {obs}, the ledger allows {granted}"
      else match post with
        | none => some "no state after a guarded reserve"
        | some p => grantOK ids prev p h (granted.eraseDups.filter (fun id => !prev.holds h id))
  | .release h rids =>
    if obs != "ok" then some s!"Release({h}) answered {obs}" else
    match post with
    | none => some "no state after Release"
    | some p =>
      let freed := rids.eraseDups.filter (fun id => prev.holds h id)
      ids.findSome? (fun id =>
        if freed.contains id then
          if !setEq (h :: p.hol id) (prev.hol id) || p.holds h id then some s!"reservation {id}: holders after the release are not the old holders minus {h}"
          else if p.rem id != prev.rem id + 1 then some s!"reservation {id}: remaining {p.rem id} after a release, was {prev.rem id}"
          else none
        else if !setEq (p.hol id) (prev.hol id) || p.rem id != prev.rem id then
          some s!"reservation {id}: changed although nothing was released"
        else none)

/-- the initial state: nobody holds anything, every slot is free -/
def initSnap (offerings : List (Id × Int)) (ids : List Id) : Snap :=
  { remaining := ids.map (fun id => (id, (capOf offerings id).getD 0)), holders := ids.map (fun id => (id, [])) }

/-- judge a whole observed history -/
def historyOK (offerings : List (Id × Int)) (ids : List Id) : Snap → List OpS → List String → List Snap → Option String
  | _, [], _, _ => none
  | _, _ :: _, [], _ => some "fewer observations than operations"
  | prev, op :: ops, obs :: os, snaps =>
    if obs.startsWith "panic:" then stepOK offerings ids prev op obs none
    else match snaps with
      | [] => some "fewer states than operations"
      | post :: rest =>
        match stepOK offerings ids prev op obs (some post) with
        | some w => some w
        | none =>
          match ledgerOK offerings ids post with
          | some w => some w
          | none => historyOK offerings ids post ops os rest

/-! ### Part 1b — the reservation protocol of in-flight NodeClaims, judged on what the real code was seen to do

A step = one pod offered to one claim.  Given (as observed facts) whether the pod fits the claim at all (`base`) and which
reservations its compatible available reserved offerings belong to (`compat`), the property prescribes:
  * a reservation is *grantable* to the claim iff the claim already holds it or it has a free slot;
  * strict mode: compatible reserved offerings exist but none is grantable ⇒ the pod is deferred (reserved-offering
    error), never silently added; likewise when the claim would lose all the reservations it holds;
  * an added pod leaves the claim holding exactly the grantable compatible reservations — nothing else changes hands;
  * the ledger equation holds after every step. -/

structure StepObs where
  claim : Int                       -- number of the claim addressed; -1 = none (a refused new claim)
  isNew : Bool
  base : String                     -- ok | fail | void
  compat : List Id
  result : String                   -- ok | reserved | fail | void
  ofs : List Id
  held : List (String × List Id)    -- claim number ↦ reservations the manager records for it
  remaining : List (Id × Int)
deriving Repr

def heldOf (held : List (String × List Id)) (k : Int) : List Id := (held.lookup (toString k)).getD []

/-- holders per reservation id, from the per-claim view -/
def toSnap (ids : List Id) (held : List (String × List Id)) (remaining : List (Id × Int)) : Snap :=
  { remaining := remaining, holders := ids.map (fun id => (id, (held.filter (fun kv => kv.2.contains id)).map (·.1))) }

def sameHoldings (a b : List (String × List Id)) (except_ : String) : Bool :=
  (a.all (fun kv => kv.1 == except_ || setEq kv.2 ((b.lookup kv.1).getD []))) &&
  (b.all (fun kv => kv.1 == except_ || setEq kv.2 ((a.lookup kv.1).getD [])))

def stepObsOK (offerings : List (Id × Int)) (ids : List Id) (gate strict : Bool)
    (prevHeld : List (String × List Id)) (prevRem : List (Id × Int)) (s : StepObs) : Option String :=
  let rem (id : Id) : Int := (prevRem.lookup id).getD 0
  let rem' (id : Id) : Int := (s.remaining.lookup id).getD 0
  let k := toString s.claim
  let mine := if s.isNew then [] else heldOf prevHeld s.claim
  let grantable := s.compat.filter (fun id => mine.contains id || decide (0 < rem id))
  let unchanged : Option String :=
    if !sameHoldings prevHeld s.held "" then some "a refused step changed who holds what"
    else ids.findSome? (fun id => if rem' id != rem id then some s!"a refused step changed the remaining capacity of {id}" else none)
  let ledger := ledgerOK offerings ids (toSnap ids s.held s.remaining)
  if s.base == "void" then unchanged else
  if s.base != "ok" && s.base != "fail" then some s!"with the feature gate off CanAdd returned offerings to reserve ({s.base})" else
  if s.base == "fail" then
    if s.result != "fail" then some s!"the pod does not fit the claim, yet CanAdd answered {s.result}" else unchanged
  else if !gate then
    if s.result != "ok" then some s!"feature gate off: CanAdd answered {s.result}"
    else if !s.ofs.isEmpty then some "feature gate off: offerings were reserved"
    else if s.held.any (fun kv => !kv.2.isEmpty) then some "feature gate off: a claim holds a reservation" else ledger
  else
    let mustDefer := strict && ((!s.compat.isEmpty && grantable.isEmpty) || (!mine.isEmpty && grantable.isEmpty))
    if mustDefer then
      if s.result != "reserved" then
        some s!"strict mode: compatible reserved capacity {s.compat} exists but none can be granted, yet CanAdd answered {s.result} (silent fallback)"
      else unchanged
    else if s.result != "ok" then some s!"CanAdd answered {s.result} although {grantable} can be granted (strict={strict})"
    else if !setEq s.ofs grantable then some s!"offerings to reserve {s.ofs} ≠ the grantable compatible reservations {grantable}"
    else if !setEq (heldOf s.held s.claim) s.ofs then
      some s!"claim {k} holds {heldOf s.held s.claim} after reserving {s.ofs}: it must hold exactly those"
    else if !sameHoldings prevHeld s.held k then some "another claim's reservations changed"
    else match ids.findSome? (fun id =>
        let want := rem id - (if s.ofs.contains id && !mine.contains id then 1 else 0) + (if mine.contains id && !s.ofs.contains id then 1 else 0)
        if rem' id != want then some s!"reservation {id}: remaining {rem' id}, expected {want}" else none) with
      | some w => some w
      | none => ledger

def stepsOK (offerings : List (Id × Int)) (ids : List Id) (gate strict : Bool) :
    List (String × List Id) → List (Id × Int) → List StepObs → Nat → Option String
  | _, _, [], _ => none
  | held, rem, s :: rest, i =>
    match stepObsOK offerings ids gate strict held rem s with
    | some w => some s!"step {i}: {w}"
    | none => stepsOK offerings ids gate strict s.held s.remaining rest (i + 1)

/-- a requirement as observed (canonical snapshot); `none` = the key is undefined -/
structure ReqObs where
  complement : Bool
  values : List String
  bounded : Bool
deriving Repr

def reqObsEq (a b : Option ReqObs) : Bool :=
  match a, b with
  | none, none => true
  | some x, some y => x.complement == y.complement && setEq x.values y.values && x.bounded == y.bounded
  | _, _ => false

/-- `FinalizeScheduling`: a claim that holds reservations is pinned to capacity type `reserved` and to exactly the
    reservation ids it holds; a claim that holds none is left alone; the placeholder hostname is gone -/
def finalOK (held : List Id) (preCT preRID postCT postRID : Option ReqObs) (hostnameLeft : Bool) : Option String :=
  if hostnameLeft then some "the placeholder hostname requirement survived finalization" else
  if held.isEmpty then
    if !reqObsEq preCT postCT || !reqObsEq preRID postRID then some "a claim holding no reservation had its capacity-type / reservation-id requirement changed"
    else none
  else
    match postCT, postRID with
    | some ct, some rid =>
      if ct.complement || ct.bounded || !setEq ct.values [Karp.Gen.Labels.capacityTypeReserved] then
        some s!"a claim holding {held} is not pinned to capacity type reserved (values {ct.values}, complement {ct.complement})"
      else if rid.complement || rid.bounded || !setEq rid.values held then
        some s!"a claim holding {held} is pinned to reservation ids {rid.values} (complement {rid.complement}): must be exactly the held ones"
      else none
    | _, _ => some s!"a claim holding {held} has no capacity-type / reservation-id requirement after finalization"

/-! ### Part 2 — the end state of one whole scheduling pass (strict mode, what `Provisioner.Schedule` uses)

Observed: the NodeClaims of the result (requirements, instance types, pods), the pod errors, and — through a read-only
hook — the reservation manager's final state and each claim's `reservedOfferings`.
  (S1) never over-committed: per reservation, the NodeClaims that *can be launched into it* (some instance type of the
       claim has an available reserved offering of that reservation which the claim's requirements admit) number at
       most its capacity;
  (S2) a claim that holds reservations is pinned: capacity type exactly {reserved}, reservation ids exactly the held
       ones; what the manager records for the claim is what the claim itself lists;
  (S3a) no silent fallback: a claim that holds nothing cannot be launched into any reservation;
  (S3b) no fall-through: a pod that opened a claim on its own in pool P had no compatible reserved offering in a
       NodePool of strictly greater weight (there it would have been placed or deferred);
  (S3c) a deferred pod (reserved-offering error) has compatible reserved capacity in some NodePool, and in one of them
       every compatible reservation is exhausted;
  (L)  the manager's ledger: remaining + holders = capacity, remaining ≥ 0.
  (S3d) a reserved-offering error is never relaxed away: a pod with a preferred term (or several OR-ed required terms)
       whose preference (first term) is compatible with reserved capacity of some NodePool and that opened a claim on
       its own kept the preference (first term);
(S3b)–(S3d) are evaluated on "plain" scenarios only (no daemonsets, limits, taints, inter-pod constraints, host ports,
minValues; (S3b), (S3c) for pods with nothing to relax), where "the pod alone fits a fresh claim of the
pool" can be decided from labels alone.  Pods may mount PersistentVolumeClaims: reserved capacity is compatible with such a
pod only where EVERY one of its volumes is reachable (zone of the bound PersistentVolume / allowedTopologies of the
StorageClass); (S3b)–(S3d) judge the pods whose volumes have at most one topology term each. -/

open Karp.Req Karp.Scn in
structure ClaimRes where
  host : String
  reserved : List Id      -- ids of the claim's `reservedOfferings`
  held : List Id          -- ids the manager records for the claim's hostname
deriving Repr

open Karp.Req Karp.Scn

def zoneKey : String := "topology.kubernetes.io/zone"
def ctKey : String := Karp.Gen.Labels.capacityTypeLabelKey
def reservedCT : String := Karp.Gen.Labels.capacityTypeReserved

def catalogReserved (its : List IT) : List (Id × Int) :=
  its.flatMap (fun it => (it.offerings.filter (fun o => o.ct == reservedCT)).map (fun o => (o.resID, (o.resN : Int))))

/-- the claim's requirements admit the reserved offering `o` -/
def admitsOffering (ridKey : String) (R : Reqs) (o : Offering) : Bool :=
  (R.get zoneKey).has o.zone && (R.get ctKey).has o.ct && (R.get ridKey).has o.resID

/-- the claim can be launched into reservation `r` -/
def canLaunch (s : Scenario) (ridKey : String) (c : Claim) (r : Id) : Bool :=
  c.its.any (fun itn => match s.it? itn with
    | none => false
    | some it => it.offerings.any (fun o => o.available && o.ct == reservedCT && o.resID == r && admitsOffering ridKey c.reqs o))

def isIn (r : Req) (vals : List String) : Bool :=
  !r.complement && r.gte.isNone && r.lte.isNone && setEq r.values vals

/-- labels of a node of pool `q` launched as `(it, o)` -/
def launchLabels (ridKey : String) (q : Pool) (it : IT) (o : Offering) : Labels :=
  [(zoneKey, o.zone), (ctKey, o.ct), ("node.kubernetes.io/instance-type", it.name), ("kubernetes.io/arch", it.arch),
   (Karp.Gen.Labels.nodePoolLabelKey, q.name)] ++
  (match it.os with | os :: _ => [("kubernetes.io/os", os)] | [] => []) ++
  (if o.ct == reservedCT then [(ridKey, o.resID)] else []) ++ q.labels

def plainKeys : List String := [zoneKey, ctKey, "node.kubernetes.io/instance-type", "kubernetes.io/arch"]

/-- scenarios on which "pod alone on a fresh claim of pool q" is decidable from labels -/
def plain (s : Scenario) : Bool :=
  s.daemonsets.isEmpty && s.nodes.isEmpty &&
  s.pools.all (fun q => q.limitCPU.isNone && q.limitMem.isNone && q.taints.isEmpty && q.startupTaints.isEmpty &&
    q.reqs.all (fun e => e.minValues.isNone && plainKeys.contains e.key && (e.op == .in_ || e.op == .notIn))) &&
  s.pods.all (fun p => p.affinity.isEmpty && p.spreads.isEmpty && p.hostPorts.isEmpty &&
    p.tolerations.isEmpty && p.preferred.length ≤ 1 && (p.required.length ≤ 1 || p.preferred.isEmpty) &&
    p.required.all (fun t => t.all (fun e => e.op == .in_ || e.op == .notIn)) &&
    p.preferred.all (fun t => t.exprs.all (fun e => e.op == .in_ || e.op == .notIn)))

/-- a pod with nothing to relax: its requirements are the same at every attempt -/
def plainPod (p : Pod) : Bool := p.preferred.isEmpty && decide (p.required.length ≤ 1)

/-- a pod with something to relax, as it is FIRST tried: one preferred node-affinity term and no required term (the
    preference is treated as a requirement), or several OR-ed required terms and no preference (only the first term
    counts until it is relaxed away) -/
def prefPod (p : Pod) : Option Pod :=
  match p.preferred, p.required with
  | [t], [] => some { p with required := [t.exprs], preferred := [] }
  | [], t1 :: _ :: _ => some { p with required := [t1] }
  | _, _ => none

/-- every node the claim can become satisfies expression `e` -/
def claimImplies (R : Reqs) (e : KExpr) : Bool :=
  let r := R.get (normalizeKey e.key)
  match e.op with
  | .in_ => !r.complement && !r.values.isEmpty && r.values.all e.vals.contains
  | .notIn => e.vals.all (fun v => !r.has v)
  | _ => true

/-- every volume the pod mounts is reachable from a node with labels `ls` (Kubernetes volume topology: the node affinity of
    a bound PersistentVolume, the allowedTopologies of the StorageClass of an unbound claim); a pod whose volumes cannot be
    resolved runs nowhere -/
def volumesReach (s : Scenario) (p : Pod) (ls : Labels) : Bool :=
  (Karp.Spec.Admissible.podVolumesOK s p (fun t => t.all (Karp.Spec.Admissible.exprOK ls)) "").isNone

/-- the pod's volumes leave no choice between topology alternatives: every volume resolves and has at most one topology
    term (the deferral rules (S3b)-(S3d) are evaluated for these pods only; a volume with several OR-ed terms makes
    "compatible reserved capacity" depend on which alternative is looked at) -/
def volPlain (s : Scenario) (p : Pod) : Bool :=
  p.volumes.all (fun v => match Karp.Spec.Admissible.volumeTopology s p v with
    | .ok terms => decide (terms.length ≤ 1)
    | .error _ => false)

/-- every volume of the pod resolves to a topology (possibly several OR-ed terms) -/
def volResolved (s : Scenario) (p : Pod) : Bool :=
  p.volumes.all (fun v => match Karp.Spec.Admissible.volumeTopology s p v with | .ok _ => true | .error _ => false)

/-- the reserved offerings pod `p` could use on a fresh claim of pool `q`: (instance type, offering) -/
def reservedOptions (s : Scenario) (ridKey : String) (q : Pool) (p : Pod) : List (IT × Offering) :=
  s.its.flatMap (fun it => (it.offerings.filter (fun o =>
    o.available && o.ct == reservedCT &&
    (let ls := launchLabels ridKey q it o
     q.reqs.all (fun e => Karp.Spec.K8s.k8sMatch e.op e.vals (ls.lookup e.key)) &&
     Karp.Spec.Admissible.nodeSelectorOK ls p.nodeSelector && Karp.Spec.Admissible.requiredOK ls p.required &&
     volumesReach s p ls) &&
    decide (p.cpu ≤ it.allocCPU) && decide (p.mem ≤ it.mem) && decide (1 ≤ it.pods))).map (fun o => (it, o)))

def passOK (s : Scenario) (ridKey : String) (out : Outcome) (res : List ClaimRes) (capacity : List (Id × Int))
    (orphans : List (String × List Id)) : Option String :=
  let reserved := catalogReserved s.its
  let ids := (reserved.map (·.1)).eraseDups
  let cr := out.claims.zip res
  -- the manager is only reachable through a NodeClaim of the result: with no claim nobody holds anything
  let capacity := if res.isEmpty then ids.map (fun id => (id, (capOf reserved id).getD 0)) else capacity
  if !s.reservedCapacity then
    -- feature gate off: nothing is reserved, pinned or deferred
    if cr.any (fun (_, r) => !r.reserved.isEmpty || !r.held.isEmpty) then some "[gate-off] a NodeClaim holds a reservation although the feature gate is off"
    else if out.errors.any (fun (_, e) => e == "reserved-offering") then some "[gate-off] a pod was deferred for reserved capacity although the feature gate is off"
    else none
  else
  -- (S2) / (S3a)
  let perClaim := cr.findSome? (fun (c, r) =>
    let who := s!"NodeClaim of {c.pool} with pods {c.pods}"
    if !setEq r.held r.reserved then some s!"[held] {who}: the manager records {r.held} for it, the claim lists {r.reserved}"
    else if !r.held.isEmpty then
      if !isIn (c.reqs.get ctKey) [reservedCT] then some s!"[pin-ct] {who} holds {r.held} but its capacity-type requirement is not exactly reserved"
      else if !(c.reqs.hasKey ridKey) || !isIn (c.reqs.get ridKey) r.held then
        some s!"[pin-id] {who} holds {r.held} but its reservation-id requirement is {(c.reqs.get ridKey).values} (complement {(c.reqs.get ridKey).complement})"
      else none
    else match ids.find? (fun id => canLaunch s ridKey c id) with
      | some id => some s!"[fallback] {who} holds no reservation, yet it can be launched into reservation {id} (silent fallback / unaccounted use)"
      | none => none)
  if perClaim.isSome then perClaim else
  -- (S1)
  let over := ids.findSome? (fun id =>
    let n := (out.claims.filter (fun c => canLaunch s ridKey c id)).length
    let cap := (capOf reserved id).getD 0
    if (n : Int) > cap then some s!"[overcommit] reservation {id}: {n} NodeClaims can be launched into it, capacity {cap}" else none)
  if over.isSome then over else
  -- (L)
  let holders := (cr.map (fun (_, r) => (r.host, r.held))) ++ orphans
  let ledger := ledgerOK reserved ids { remaining := capacity, holders := ids.map (fun id => (id, (holders.filter (fun kv => kv.2.contains id)).map (·.1))) }
  if ledger.isSome then ledger.map (fun w => "[ledger] " ++ w) else
  if !plain s then none else
  -- (S3b)
  let fall := cr.findSome? (fun (c, _) =>
    match c.pods, s.pool? c.pool with
    | [pn], some P =>
      match s.pod? pn with
      | none => none
      | some p => if !plainPod p || !volResolved s p then none else (s.pools.find? (fun Q => decide (Q.weight > P.weight) && !(reservedOptions s ridKey Q p).isEmpty)).map (fun Q =>
          s!"[fallthrough{if volPlain s p then "" else "-volume-alternatives"}] pod {pn} opened a NodeClaim in {P.name} (weight {P.weight}) although NodePool {Q.name} (weight {Q.weight}) has compatible reserved capacity for it: it must be placed there or deferred")
    | _, _ => none)
  if fall.isSome then fall else
  -- (S3d) a reserved-offering error is not relaxed away: a pod whose preference is compatible with reserved capacity of
  -- some NodePool and that opened a claim on its own kept the preference (else it had to be deferred)
  let relaxed := if s.ignorePreferences then none else cr.findSome? (fun (c, _) =>
    match c.pods with
    | [pn] =>
      match s.pod? pn with
      | none => none
      | some p =>
        match (if volPlain s p then prefPod p else none) with
        | none => none
        | some pp =>
          if s.pools.all (fun Q => (reservedOptions s ridKey Q pp).isEmpty) then none
          else match pp.required.flatten.find? (fun e => !claimImplies c.reqs e) with
            | some e => some s!"[relaxed] pod {pn} opened a NodeClaim that does not honour its preference / first affinity term on {e.key} although some NodePool has reserved capacity compatible with it: the pod must be placed with it or deferred, not relaxed"
            | none => none
    | _ => none)
  if relaxed.isSome then relaxed else
  -- (S3c)
  out.errors.findSome? (fun (pn, e) =>
    if e != "reserved-offering" then none else
    match s.pod? pn with
    | none => none
    | some p =>
      if !plainPod p || !volPlain s p then none else
      let opts := s.pools.map (fun Q => reservedOptions s ridKey Q p)
      if opts.all (·.isEmpty) then some s!"[deferred] pod {pn} was deferred for reserved capacity, but no NodePool has a compatible available reserved offering for it"
      else if !opts.any (fun l => !l.isEmpty && l.all (fun (_, o) => (capacity.lookup o.resID).getD 0 == 0)) then
        some s!"[deferred] pod {pn} was deferred for reserved capacity, but every NodePool with compatible reserved offerings still has a free slot in one of them"
      else none)

end Karp.Spec.Reserved
