/-
Independent specification for C04, second half of "could admit it ALONGSIDE WHAT IS ALREADY ASSIGNED THERE":
which pods are assigned to a node.

Written from the Kubernetes pod lifecycle, not from Karpenter's cluster state:
* a pod occupies the node it is bound to (`spec.nodeName`) from the binding on;
* it stops occupying it when it reaches a terminal phase (`Succeeded` / `Failed` — the containers are gone, the
  kube-scheduler and the kubelet no longer count its requests, host ports or volumes) or when its object is removed;
* a `deletionTimestamp` alone releases nothing: the containers of a terminating pod still run.

Two uses:
1. `assigned` judges histories of API changes and informer deliveries (`c04.account`): once everything that happened
   to a pod has been delivered, the node must be charged for exactly the assigned pods — whatever the order of Pod
   and Node events was.
2. `scenarioAfter` turns a scenario plus a list of such changes into the scenario the scheduling pass must be judged
   against (`c04.churn`): finished and removed pods free their room, terminating pods keep it, newly bound pods take it.
-/
import Karp.Spec.Scenario

namespace Karp.Spec.Assigned
open Karp.Scn

/-- what the API holds about a pod, as far as node occupancy is concerned -/
structure PodRec (ν : Type) where
  node : Option ν          -- spec.nodeName
  terminal : Bool          -- status.phase ∈ {Succeeded, Failed}
  terminating : Bool       -- metadata.deletionTimestamp set
deriving Repr, DecidableEq

/-- pod `k` is assigned to node `n` in the API contents `api` -/
def assigned {κ ν : Type} [DecidableEq ν] (api : κ → Option (PodRec ν)) (n : ν) (k : κ) : Bool :=
  match api k with
  | none => false
  | some r => decide (r.node = some n) && !r.terminal

/-! ### Changes to the pods of a scenario before the pass runs -/

/-- one change (kinds: `finish` / `fail` = terminal phase, `terminate` = deletionTimestamp, `delete` = object removed,
    `bind` = a pending pod of the batch is bound to `node`; `see-pod` / `see-node` are informer deliveries and change
    nothing in the API) -/
structure Change where
  kind : String
  pod : String
  node : String := ""
deriving Repr

def Change.releases (c : Change) : Bool := c.kind == "finish" || c.kind == "fail" || c.kind == "delete"

/-- a node to which pods can be bound: its Node object exists -/
def bindable (n : Node) : Bool := !n.managed || n.stage != "claim"

/-- the scenario after one change -/
def applyChange (s : Scenario) (c : Change) : Scenario :=
  if c.releases then
    -- only bound pods change in these histories
    { s with nodes := s.nodes.map (fun n => { n with pods := n.pods.filter (·.name != c.pod) }) }
  else if c.kind == "bind" then
    match s.pods.find? (·.name == c.pod), s.nodes.find? (fun n => n.name == c.node && bindable n) with
    | some p, some _ =>
      { s with pods := s.pods.filter (·.name != c.pod),
               nodes := s.nodes.map (fun n => if n.name == c.node then { n with pods := n.pods ++ [p] } else n) }
    | _, _ => s
  else s

/-- the scenario the pass is judged against: the API truth after all changes -/
def scenarioAfter (s : Scenario) (cs : List Change) : Scenario := cs.foldl applyChange s

/-- pods touched by a lifecycle change -/
def touched (cs : List Change) : List String :=
  (cs.filter (fun c => c.releases || c.kind == "terminate" || c.kind == "bind")).map (·.pod)

end Karp.Spec.Assigned
