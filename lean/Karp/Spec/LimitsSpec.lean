/-
Independent specification for the limits part of C03, written from the property text:

  "The total capacity of a NodePool's nodes that are not being deleted never exceeds the NodePool's
   resource limits, whichever permitted instance type and offering the cloud provider picks for each
   NodeClaim and however many scheduling rounds it takes."

A node uses its capacity and one `nodes` unit of its pool.  A NodeClaim that is not launched yet may
become any of its permitted instance types, so it is counted with the largest usage among them.
Knows nothing about `remainingResources`, `subtractMax` or the filter.  Core Lean only.
-/
namespace Karp.Spec.Limits

variable {κ : Type} [DecidableEq κ]

abbrev Cap (κ : Type) := List (κ × Int)

/-- one node in milli-units -/
def oneNode : Int := 1000

/-- what a node of capacity `cap` uses of resource `k` of its pool -/
def usage (nodes : κ) (cap : Cap κ) (k : κ) : Int := if k = nodes then oneNode else (cap.lookup k).getD 0

/-- the largest usage among the launch options of a NodeClaim -/
def worstUsage (nodes : κ) (opts : List (Cap κ)) (k : κ) : Int :=
  opts.foldl (fun m o => if usage nodes o k > m then usage nodes o k else m) 0

def sumInt : List Int → Int
  | [] => 0
  | x :: xs => x + sumInt xs

/-- usage of the pool: the existing nodes (not being deleted) plus, at worst, every NodeClaim not yet launched -/
def total (nodes : κ) (existing : List (Cap κ)) (claims : List (List (Cap κ))) (k : κ) : Int :=
  sumInt (existing.map (fun c => usage nodes c k)) + sumInt (claims.map (fun o => worstUsage nodes o k))

/-- the limited resources on which the pool would exceed its limit -/
def exceeded (nodes : κ) (limits : Cap κ) (existing : List (Cap κ)) (claims : List (List (Cap κ))) : List κ :=
  (limits.filter (fun (k, l) => total nodes existing claims k > l)).map (·.1)

/-- a provisioning round is acceptable when its pass created no NodeClaim for the pool, or the pool stays within
    every limit whatever the provider launches for the NodeClaims not launched yet (`pending`: created earlier,
    `new`: created by this pass) -/
def roundOk (nodes : κ) (limits : Cap κ) (existing : List (Cap κ)) (pending new : List (List (Cap κ))) : Bool :=
  new.isEmpty || (exceeded nodes limits existing (pending ++ new)).isEmpty

end Karp.Spec.Limits
