/-
Independent specification for C20: the registration-health window.
Written from the property text, not from the code: the state is simply the log of outcomes
recorded since the last reset; the window is its last `n` entries.
-/
namespace Karp.Spec.Window

/-- the last `n` entries of a log (oldest first) -/
def lastN (n : Nat) (l : List α) : List α := l.drop (l.length - n)

def failures (l : List Bool) : Nat := (l.filter (fun v => !v)).length

inductive Health | unknown | healthy | unhealthy
deriving Repr, DecidableEq

/-- `size` = window size (4), failures fill "at least half" ⇔ `size ≤ 2 * failures`
    (stated with the generic threshold `num/den`: `num * size ≤ failures * den`). -/
def health (size num den : Nat) (log : List Bool) : Health :=
  let w := lastN size log
  if w = [] then .unknown
  else if num * size ≤ failures w * den then .unhealthy else .healthy

end Karp.Spec.Window
