/-
Independent specification for C07 — "Disruption never targets protected or ineligible nodes".

Written from the property text and the Kubernetes / Karpenter documentation, NOT from the code: one named
predicate per blocker of the property's list, over the plain data vocabulary of `Karp.Model.Candidate`
(`World`, `Pod`, `Pdb`, … — data only; none of the model's functions is used here except the regenerated
constants of the nomination window and of the eviction-cost scale, which the property text leaves open).

`allowed w m` is the property: "if method `m` selects the node of world `w`, then …".  The driver evaluates it
on what the real code selected.
-/
import Karp.Model.Candidate

namespace Karp.Spec.Protected
open Karp.Candidate Karp.Gen

/-! ## What the words of the property mean -/

/-- lifecycle invariant of a managed node assumed by the specification: the initialized label is only ever put on a
    node that already carries the registered label (registration precedes initialization).  Outside of it the
    property text does not say whether the Node's or the NodeClaim's annotations count. -/
def wellFormed (w : World) : Bool :=
  match w.node with
  | some n => !(n.init == .true_) || n.reg == .true_
  | none => true

/-- **unmanaged**: no NodeClaim, or the node cannot be attributed to an existing NodePool that this Karpenter manages
    (no `karpenter.sh/nodepool` label, the pool is gone, or its node class belongs to somebody else) -/
def unmanaged (w : World) : Bool :=
  w.claim.isNone ||
  (match w.node with
   | some n => n.md.pool != .this || !w.pool.present || !w.pool.managed
   | none => true)

/-- **uninitialized**: there is no Node yet, or it does not carry `karpenter.sh/initialized=true` -/
def uninitialized (w : World) : Bool :=
  match w.node with
  | some n => n.init != .true_
  | none => true

/-- **already deleting**: marked for deletion in memory, the NodeClaim (the owner of the node's lifecycle) has a
    deletion timestamp or reports InstanceTerminating, or a disruption command for the node is already queued -/
def deleting (w : World) : Bool :=
  w.marked || w.inQueue ||
  (match w.claim with
   | some c => c.deleting || c.terminating == .true_
   | none => false)

/-- the protection window after a nomination: at least ten seconds and at least two batch windows -/
def window (w : World) : Int :=
  max ((CandidateFacts.nominationBatchFactor : Int) * w.batchMax) (CandidateFacts.nominationFloorNs : Int)

/-- **recently nominated** for pending pods -/
def recentlyNominated (w : World) : Bool :=
  match w.nominatedAt with
  | some t => w.now < t + window w
  | none => false

/-- **annotated do-not-disrupt** (node level: only the literal "true" is defined) -/
def nodeDoNotDisrupt (w : World) : Bool :=
  match w.node with
  | some n => n.md.dnd == .true_
  | none => false

/-- the pods the node hosts -/
def hosted (w : World) : List Pod := w.pods.filter (·.onNode)

/-- a running pod: not Succeeded/Failed and not being deleted -/
def running (p : Pod) : Bool := !(p.terminal || p.terminating)

/-- an **active do-not-disrupt annotation**: "true", or a positive duration that has not yet elapsed since the pod
    started (unknown start: protected) -/
def annotationActive (now : Int) (p : Pod) : Bool :=
  match p.dnd with
  | .true_ => true
  | .dur d => d > 0 && (match p.start with | some s => now < s + d | none => true)
  | _ => false

/-- **hosting a pod with an active do-not-disrupt annotation** -/
def podDoNotDisrupt (w : World) : Bool :=
  (hosted w).any (fun p => running p && annotationActive w.now p)

/-- Karpenter's drain would call the eviction API for the pod: it is running, not a static (mirror) pod, does not
    tolerate the `karpenter.sh/disrupted` taint (such pods are left alone), and is not itself do-not-disrupt -/
def wouldEvict (now : Int) (p : Pod) : Bool :=
  running p && !p.mirror && !p.tol.tolerates && !annotationActive now p

def selects (b : Pdb) (p : Pod) : Bool :=
  b.ns == p.ns &&
  (match b.sel with
   | .everything => true
   | .app k => p.app == some k
   | .nothing => false)

/-- the eviction API refuses: more than one PDB selects the pod, or the one PDB allows no disruption now (unless it
    always allows evicting unhealthy pods and the pod is not Ready) -/
def evictionRefused (pdbs : List Pdb) (p : Pod) : Bool :=
  let ms := pdbs.filter (fun b => selects b p)
  ms.length ≥ 2 ||
  ms.any (fun b => b.allowed == 0 && !(b.alwaysAllow && p.notReady))

/-- **hosting a pod with a PDB that currently blocks its eviction** -/
def pdbBlocks (w : World) : Bool :=
  (hosted w).any (fun p => wouldEvict w.now p && evictionRefused w.pdbs p)

def podLevelBlocker (w : World) : Bool := podDoNotDisrupt w || pdbBlocks w

def nodeLevelBlocker (w : World) : Bool :=
  unmanaged w || uninitialized w || deleting w || recentlyNominated w || nodeDoNotDisrupt w

def hasTGP (w : World) : Bool :=
  match w.claim with
  | some c => c.tgp
  | none => false

def isDrift : Method → Bool
  | .drift | .staticDrift => true
  | _ => false

def isConsolidation : Method → Bool
  | .emptiness | .multi | .single => true
  | _ => false

/-- **only drift may override the pod-level blockers, and only when the NodeClaim has a terminationGracePeriod** -/
def mayOverride (w : World) (m : Method) : Bool := isDrift m && hasTGP w

/-! ## Consolidation -/

/-- a pod that would have to move: running (or a terminating StatefulSet pod, which must be re-created), not a
    DaemonSet pod and not a static pod -/
def mustMove (p : Pod) : Bool :=
  (running p || (p.sts && p.terminating)) && !p.daemon && !p.mirror

/-- the disruption cost the pod contributes is positive (designs/balanced-consolidation.md: a node whose pods all
    declared themselves free to disrupt counts as empty): 1 + deletionCost/2^27 + priority/2^25 > 0 -/
def contributes (p : Pod) : Bool :=
  let e := max CandidateFacts.evictionDelExp CandidateFacts.evictionPrioExp
  0 < CandidateFacts.evictionBase * (2 : Int) ^ e
        + p.delCost.getD 0 * (2 : Int) ^ (e - CandidateFacts.evictionDelExp)
        + p.prio.getD 0 * (2 : Int) ^ (e - CandidateFacts.evictionPrioExp)

/-- **empty**: no hosted pod that must move contributes disruption cost, and the node holds no capacity-buffer
    placement ("nodes holding capacity-buffer placements are not treated as empty") -/
def empty (w : World) : Bool :=
  w.buffer == 0 && (hosted w).all (fun p => !(mustMove p && contributes p))

def consolidatable (w : World) : Bool :=
  match w.claim with
  | some c => c.consolidatable == .true_
  | none => false

/-- what consolidation additionally requires -/
def consolidationOk (w : World) (m : Method) : Bool :=
  consolidatable w &&
  !w.pool.static &&
  w.pool.consolidateAfter.isSome &&
  (empty w || w.pool.policy != .whenEmpty) &&
  (m != .emptiness || empty w)            -- the emptiness method only ever takes empty nodes

/-! ## The property -/

/-- method `m` may select the node of world `w` -/
def allowed (w : World) (m : Method) : Bool :=
  !nodeLevelBlocker w &&
  (!podLevelBlocker w || mayOverride w m) &&
  (!isConsolidation m || consolidationOk w m)

/-- `NewCandidate` may succeed for a disruption class: graceful never overrides, eventual only with a TGP -/
def candidateAllowed (w : World) (eventual : Bool) : Bool :=
  !nodeLevelBlocker w && (!podLevelBlocker w || (eventual && hasTGP w))

/-! ## The Consolidatable condition -/

/-- "Consolidatable (consolidateAfter elapsed since the last pod event)": the condition may be put on a NodeClaim at
    instant `now` only if consolidation is enabled for a dynamic pool, the NodeClaim is initialized and
    `consolidateAfter` has elapsed since the last pod event (since initialization when there was none).  A zero
    `consolidateAfter` has elapsed by definition. -/
def elapsedSince (ca t now : Int) : Bool := ca == 0 || t + ca ≤ now

def mayBeConsolidatable (pool : Pool) (c : Claim) (now : Int) : Bool :=
  !pool.static &&
  (match pool.consolidateAfter with
   | none => false
   | some ca =>
     c.initialized == .true_ &&
     (match c.lastPodEvent with
      | some t => elapsedSince ca t now
      | none => elapsedSince ca c.initAt now))

/-- the nodeclaim.disruption controller has its say over the condition in a given run: the NodeClaim is live and
    names an existing dynamic NodePool that can be read, and the API server accepts the status write.  Nothing else
    is an excuse: in particular a failure of an UNRELATED step of the same run (the cloud provider's drift check
    erroring, `faults.drift`) does not release the controller from withdrawing a condition that no longer holds. -/
def controllerActs (faults : RFaults) (pool : Pool) (c : Claim) : Bool :=
  !c.deleting && c.md.pool == .this && pool.present && !pool.static && !faults.poolGet && !faults.patch

/-- the persisted Consolidatable status `after` a run of the controller at instant `now` on NodeClaim `c` is
    acceptable: when the controller has its say, True requires the window to have elapsed; when it has not, True
    may only be left over from before -/
def conditionAcceptable (faults : RFaults) (pool : Pool) (c : Claim) (now : Int) (after : Cond) : Bool :=
  after != .true_ ||
  (if controllerActs faults pool c then mayBeConsolidatable pool c now else c.consolidatable == .true_)

end Karp.Spec.Protected
