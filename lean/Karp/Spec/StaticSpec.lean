/-
Independent specification for whole reconciles of the static-pool controllers, from the property text:

  "For a static (replica-based) NodePool the number of NodeClaims never exceeds its node limit and settles at
   the replica count, also while drifted nodes are being replaced and while provision, deprovision and delete
   events interleave, and the bookkeeping never crashes the controller."

An observer that sees only the API (how many NodeClaims of the pool exist, how many carry a deletionTimestamp),
what `GetNodeCount` reports, the steps of the environment, and the slots other reconciles hold.  Core Lean only.
-/
namespace Karp.Spec.Static

inductive Step
  | prov                       -- static provisioning Reconcile
  | deprov                     -- static deprovisioning Reconcile
  | launch | reap | sync       -- provider launches / deleted NodeClaims disappear / informer resync
  | scale (n : Int)            -- the user sets spec.replicas
  | limit (l : Option Int)     -- the user sets / removes limits.nodes
  | reserve (k : Int)          -- another reconcile (static drift) takes k slots
  | release (k : Int)          -- … and gives k back
  | pend (i : Nat)             -- the disruption queue marks a NodeClaim pending disruption
  | restart                    -- the controller process restarts (in-memory state and reservations are gone)
deriving Repr, DecidableEq

/-- what is observed after a step -/
structure Obs where
  total : Nat        -- NodeClaims of the pool in the API
  deleting : Nat     -- … of which with a deletionTimestamp
  a : Nat            -- GetNodeCount
  d : Nat
  p : Nat
  err : String       -- "" | "error" | "panic"
  grant : Int        -- answer of a `reserve` step
  faults : Bool      -- a Create call of this step was made to fail
  gateOpen : Bool    -- the cluster state was synced when the step started (no unlaunched NodeClaim, or synced before)
deriving Repr

structure Tracker where
  replicas : Int
  limit : Option Int
  outstanding : Int := 0
  /-- the in-memory state has been (re)built from the API since the last restart -/
  hydrated : Bool := true
  prev : Obs := { total := 0, deleting := 0, a := 0, d := 0, p := 0, err := "", grant := 0, faults := false, gateOpen := true }

def live (o : Obs) : Int := (o.total : Int) - o.deleting

def withinLimit (limit : Option Int) (n : Int) : Bool :=
  match limit with
  | none => true
  | some l => decide (n ≤ l)

/-- `GetNodeCount` and the API agree phase by phase -/
def consistent (o : Obs) : Bool := (o.a + o.p == o.total - o.deleting) && (o.d == o.deleting) && (o.total ≥ o.deleting)

/-- the verdict on one step: `none` = acceptable, `some reason` otherwise -/
def check (t : Tracker) (s : Step) (o : Obs) : Option String :=
  let before := t.prev
  if o.err == "panic" then some "a reconcile / bookkeeping call panicked"
  else if (t.hydrated || s == .sync) && s != .restart && o.a + o.d + o.p != o.total then
    some "GetNodeCount does not report the NodeClaims that exist"
  else match s with
  | .prov =>
    let created : Int := (o.total : Int) - before.total
    if created < 0 then some "provisioning removed NodeClaims"
    else if created > 0 && !withinLimit t.limit ((o.total : Int) + t.outstanding) then
      some "provisioning created NodeClaims beyond limits.nodes (NodeClaims + slots held by other reconciles)"
    else if created > 0 && before.p == 0 && consistent before && live o > t.replicas then
      some "provisioning created NodeClaims beyond the replica count"
    else if o.gateOpen && !o.faults && t.outstanding == 0 && before.deleting == 0 && before.p == 0 && consistent before &&
        withinLimit t.limit t.replicas && live before < t.replicas && live o != t.replicas then
      some "quiescent pool below its replica count did not settle at the replica count"
    else none
  | .deprov =>
    if o.total != before.total then some "deprovisioning changed the number of NodeClaims in the API"
    else if consistent before && live o < min (live before) t.replicas then
      some "deprovisioning deleted more than the excess over the replica count"
    else if consistent before && before.p == 0 && before.deleting == 0 && live before > t.replicas && live o != t.replicas then
      some "pool above its replica count did not settle at the replica count"
    else none
  | .reserve k =>
    if o.grant < 0 || o.grant > max k 0 then some "grant outside 0..wanted"
    else if o.grant > 0 && !withinLimit t.limit ((o.total : Int) + t.outstanding + o.grant) then
      some "a slot was granted beyond limits.nodes"
    else none
  | _ => none

def advance (t : Tracker) (s : Step) (o : Obs) : Tracker :=
  let t := { t with prev := o }
  match s with
  | .scale n => { t with replicas := n }
  | .limit l => { t with limit := l }
  | .reserve _ => { t with outstanding := t.outstanding + o.grant }
  | .release k => { t with outstanding := if t.outstanding - k < 0 then 0 else t.outstanding - k }
  | .restart => { t with outstanding := 0, hydrated := false }
  | .sync => { t with hydrated := true }
  | _ => t

/-- first unacceptable step of a history -/
def firstBad (t : Tracker) (i : Nat) : List Step → List Obs → Option (Nat × String)
  | s :: ss, o :: os =>
    match check t s o with
    | some why => some (i, why)
    | none => firstBad (advance t s o) (i + 1) ss os
  | _, _ => none

/-! ### A static-drift pass over several NodePools, seen from outside

"… never exceeds its node limit and settles at the replica count, also while drifted nodes are being replaced …, and the
bookkeeping never crashes the controller."  One pass of the disruption controller's static-drift method replaces
drifted nodes of all static pools at once; the observer sees, per pool, the NodeClaims before and after, what
`GetNodeCount` reports afterwards, how many replace commands were computed, and what is still reserved against the
pool's node limit once the pass is over. -/

structure PassPool where
  /-- replica-based pool -/
  static : Bool
  limit : Option Int
  /-- NodeClaims of the pool before the pass -/
  nodes : Nat
  /-- … of which drifted and not already on their way out -/
  drifted : Nat
  /-- … of which already on their way out -/
  marked : Nat
  /-- slots other reconciles hold against the pool's node limit during the pass -/
  held : Int
deriving Repr

structure PassObs where
  commands : Nat
  a : Nat
  d : Nat
  p : Nat
  total : Nat
  /-- what the pass still holds reserved against the node limit after it is over -/
  reserved : Int
deriving Repr

def checkPass (pool : PassPool) (o : PassObs) : Option String :=
  let created : Int := (o.total : Int) - pool.nodes
  if o.reserved != 0 then
    some s!"after the pass {o.reserved} slot(s) reserved against limits.nodes were never given back"
  else if o.a + o.d + o.p != o.total then some "GetNodeCount does not report the NodeClaims that exist"
  else if created < 0 then some "the pass removed NodeClaims"
  else if !pool.static && (created != 0 || o.commands != 0 || o.p != 0 || o.d != pool.marked) then
    some "static drift acted on a NodePool that is not static"
  else if o.commands > pool.drifted then some "more replace commands than the pool has drifted nodes"
  else if created > pool.drifted then some "more replacement NodeClaims than the pool has drifted nodes"
  else if created > 0 && !withinLimit pool.limit ((o.total : Int) + pool.held) then
    some "replacement NodeClaims were created beyond limits.nodes (NodeClaims + slots held by other reconciles)"
  else if created > (o.d : Int) - pool.marked then
    some "a replacement NodeClaim was created without a drifted node on its way out (the pool cannot settle at its replica count)"
  else none

/-- first pool whose outcome is unacceptable -/
def firstBadPool (i : Nat) : List PassPool → List PassObs → Option (Nat × String)
  | pool :: ps, o :: os =>
    match checkPass pool o with
    | some why => some (i, why)
    | none => firstBadPool (i + 1) ps os
  | _, _ => none

/-! ### A replica-based NodePool next to the pod-driven provisioner, and the routing of its events

"For a static (replica-based) NodePool the number of NodeClaims … settles at the replica count."  A NodePool is
replica-based exactly when `spec.replicas` is set — `replicas: 0` is a static pool that is scaled to zero (or was
created empty), not a dynamic one.  Its size is decided by `spec.replicas` alone: pending pods never make it grow, and
its events (and those of its NodeClaims) belong to the static controllers. -/

def replicaBased (replicas : Option Int) : Bool := replicas.isSome

/-- the verdict on one pass of the pod-driven provisioner, seen from a replica-based pool: what was observed before
    and after the pass; `others` = NodeClaims that belong to no NodePool of the cluster -/
def checkPodPass (before o : Obs) (others : Nat) : Option String :=
  if o.err == "panic" then some "the provisioning pass panicked"
  else if o.total > before.total then
    some "a pod-driven provisioning pass created NodeClaims in a replica-based NodePool (its size is decided by spec.replicas only, also when that is 0)"
  else if o.total < before.total || o.deleting != before.deleting then
    some "a pod-driven provisioning pass removed NodeClaims of a replica-based NodePool"
  else if o.a + o.d + o.p != o.total then some "GetNodeCount does not report the NodeClaims that exist"
  else if others != 0 then some "a NodeClaim was created for no NodePool of the cluster"
  else none

/-- what the static controllers' watches let through for a NodePool / NodeClaim event -/
structure RouteObs where
  /-- the pool counts as static -/
  isStatic : Bool
  /-- NodePool Create / Update / Delete / Generic events pass the static predicate -/
  create : Bool
  update : Bool
  delete : Bool
  generic : Bool
  /-- reconcile requests a NodeClaim event produces for the static controllers -/
  claimStatic : Nat
deriving Repr

/-- `replicas`: of the pool as it is now (the new object of an Update event); `claimOfPool`: the NodeClaim of the
    NodeClaim event carries the label of this (existing) pool -/
def checkRoute (replicas : Option Int) (claimOfPool : Bool) (o : RouteObs) : Option String :=
  let rb := replicaBased replicas
  if o.isStatic != rb then
    some (if rb then "a NodePool with spec.replicas set is not treated as static" else "a NodePool without spec.replicas is treated as static")
  else if o.create != rb || o.update != rb || o.delete != rb || o.generic != rb then
    some "the NodePool's events are not routed by 'spec.replicas is set'"
  else if o.claimStatic != (if rb && claimOfPool then 1 else 0) then
    some "the NodeClaim's event does not reach the static controllers exactly when it belongs to a replica-based NodePool"
  else none

end Karp.Spec.Static
