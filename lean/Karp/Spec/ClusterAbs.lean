/-
Independent specification for C11: what the cluster cache must show once every object's latest version has
been observed — computed FROM SCRATCH from the API objects, written from the property text and the field
comments of `StateNode` / `Cluster`, not from the update paths of the code.

Shares only the vocabulary with the model (`Res`, the API object records, `Api`, `Event`, `Map`).

In-memory marks (`MarkForDeletion`, nominations) are not API state; the specification carries them as a ghost:
a mark lives on a provider id for as long as some OBSERVED object (the version last seen by that object's
reconcile) carries that provider id.
-/
import Karp.Model.ClusterState

namespace Karp.Spec.ClusterAbs
open Karp.ClusterState

/-! ## Which objects the cache tracks, and under which key -/

/-- The key of a Node: its provider id; a node without one is keyed by its name unless it carries the NodePool
    label (then Karpenter owns it and waits for the id). An owned node without instance-type label that is not
    initialized yet is not tracked either. -/
def nodeKey (n : NodeObj) : Option String :=
  let owned := n.pool ≠ ""
  if n.pid = "" && owned then none
  else if owned && !n.it && !n.init then none
  else some (if n.pid = "" then n.name else n.pid)

/-- the Node as the cache stores it (a missing provider id is replaced by the name) -/
def nodeStored (n : NodeObj) : NodeObj := if n.pid = "" then { n with pid := n.name } else n

/-- a NodeClaim is tracked as a state node once it is launched (has a provider id) -/
def claimKey (c : ClaimObj) : Option String := if c.managed && c.pid ≠ "" then some c.pid else none

/-! ## The from-scratch state node -/

inductive Shape
  | nodeOnly (n : NodeObj)
  | claimOnly (c : ClaimObj)
  | both (n : NodeObj) (c : ClaimObj)
deriving Repr

structure AbsNode where
  pid : String
  shape : Shape
  /-- ghost: in-memory deletion mark / nomination -/
  marked : Bool
  nominated : Bool
  /-- the non-terminal pods bound to the Node (none for a claim without Node) -/
  pods : List PodObj
deriving Repr

namespace AbsNode

def node? (a : AbsNode) : Option NodeObj := match a.shape with | .nodeOnly n | .both n _ => some n | .claimOnly _ => none
def claim? (a : AbsNode) : Option ClaimObj := match a.shape with | .claimOnly c | .both _ c => some c | .nodeOnly _ => none

/-- nodes not managed by Karpenter are always considered registered / initialized -/
def registered (a : AbsNode) : Bool :=
  match a.shape with | .nodeOnly _ => true | .claimOnly _ => false | .both n _ => n.reg
def initialized (a : AbsNode) : Bool :=
  match a.shape with | .nodeOnly _ => true | .claimOnly _ => false | .both n _ => n.init

/-- labels come from the NodeClaim until the Node is registered -/
def pool (a : AbsNode) : String :=
  match a.shape with | .nodeOnly n => n.pool | .claimOnly c => c.pool | .both n c => if n.reg then n.pool else c.pool
def name (a : AbsNode) : String :=
  match a.shape with | .nodeOnly n => n.name | .claimOnly c => c.name | .both n c => if n.reg then n.name else c.name

def fill (x y : Int) : Int := if x = 0 then y else x

/-- capacity: the Node's once initialized (or unmanaged); before that the NodeClaim's, which also fills in
    whatever the Node does not report yet; a state node always counts as one node -/
def capacity (a : AbsNode) : Res :=
  match a.shape with
  | .nodeOnly n => { n.cap with nodes := 1 }
  | .claimOnly c => { c.cap with nodes := 1 }
  | .both n c =>
    if n.init then { n.cap with nodes := 1 }
    else { cpu := fill n.cap.cpu c.cap.cpu, mem := fill n.cap.mem c.cap.mem, pods := fill n.cap.pods c.cap.pods,
           ext := fill n.cap.ext c.cap.ext, nodes := 1 }

/-- deleting per the API: the NodeClaim is deleting or its instance is terminating; without NodeClaim, the Node is deleting -/
def deleted (a : AbsNode) : Bool :=
  match a.shape with | .nodeOnly n => n.del | .claimOnly c => c.del || c.term | .both _ c => c.del || c.term

def markedForDeletion (a : AbsNode) : Bool := a.marked || a.deleted

def sumRes (l : List Res) : Res := l.foldr Res.add Res.zero

def requests (a : AbsNode) : Res := sumRes (a.pods.map (·.req))
def limits (a : AbsNode) : Res := sumRes (a.pods.map (·.lim))
def dsRequests (a : AbsNode) : Res := sumRes ((a.pods.filter (·.ds)).map (·.req))
def dsLimits (a : AbsNode) : Res := sumRes ((a.pods.filter (·.ds)).map (·.lim))

/-- disruption cost = 1 + Σ positive eviction costs of the non-daemon pods (2^-27 units) -/
def cost (a : AbsNode) : Int :=
  costUnit + ((a.pods.filter (fun p => !p.ds && decide (p.cost > 0))).map (·.cost)).foldr (· + ·) 0

def ports (a : AbsNode) : Map (List HostPort) := a.pods.map (fun p => (p.name, p.ports))
def volumes (a : AbsNode) : List Vol := (a.pods.map (·.vols)).foldl volUnion []
def volLimits (a : AbsNode) : Map Nat :=
  match a.node? with
  | some n => n.limits.foldl (fun m (d, c) => match c with | some c => m.put d c | none => m) []
  | none => []

end AbsNode

/-! ## Ghost: observed snapshot, marks -/

structure Ghost where
  /-- node name → key of the version last observed by the node reconcile -/
  obsNodes : Map String := []
  /-- claim name → provider id of the version last observed by the claim reconcile ("" = not launched) -/
  obsClaims : Map String := []
  marked : List String := []
  nominated : List String := []
  /-- keys changed in the API since their last reconcile: ("n"|"c"|"p", name) -/
  dirty : List (String × String) := []
deriving Repr

namespace Ghost

def tracked (g : Ghost) (pid : String) : Bool :=
  pid ≠ "" && (g.obsNodes.any (fun e => e.2 = pid) || g.obsClaims.any (fun e => e.2 = pid))

def prune (g : Ghost) : Ghost :=
  { g with marked := g.marked.filter g.tracked, nominated := g.nominated.filter g.tracked }

def clean (g : Ghost) (kind name : String) : Ghost := { g with dirty := g.dirty.filter (· ≠ (kind, name)) }
def soil (g : Ghost) (kind name : String) : Ghost :=
  if g.dirty.contains (kind, name) then g else { g with dirty := (kind, name) :: g.dirty }

/-- `api` is the API state after the event -/
def step (g : Ghost) (api : Api) : Event → Ghost
  | .setNode n => g.soil "n" n.name
  | .delNode k => g.soil "n" k
  | .setClaim c => g.soil "c" c.name
  | .delClaim k => g.soil "c" k
  | .setPod p => g.soil "p" p.name
  | .delPod k => g.soil "p" k
  | .recNode name =>
    let g := g.clean "n" name
    let g := match api.nodes.get name with
      | none => { g with obsNodes := g.obsNodes.erase name }
      | some n => match nodeKey n with
        | some k => { g with obsNodes := g.obsNodes.put name k }
        | none => { g with obsNodes := g.obsNodes.erase name }
    g.prune
  | .recClaim name =>
    let g := g.clean "c" name
    let g := match api.claims.get name with
      | none => { g with obsClaims := g.obsClaims.erase name }
      | some c => if c.managed then { g with obsClaims := g.obsClaims.put name c.pid } else g
    g.prune
  | .recPod name => g.clean "p" name
  | .mark pid => if g.tracked pid then { g with marked := sInsert pid g.marked } else g
  | .unmark pid => { g with marked := sErase pid g.marked }
  | .nominate pid => if g.tracked pid then { g with nominated := sInsert pid g.nominated } else g

def quiescent (g : Ghost) : Bool := g.dirty.isEmpty

end Ghost

/-! ## The from-scratch computation -/

def dedup (l : List String) : List String := l.foldl (fun acc x => if acc.contains x then acc else acc ++ [x]) []

/-- provider ids that have a state node -/
def absPids (api : Api) : List String :=
  dedup (api.nodes.vals.filterMap nodeKey ++ api.claims.vals.filterMap claimKey)

def absNodeAt (api : Api) (g : Ghost) (pid : String) : Option AbsNode :=
  let node := (api.nodes.vals.find? (fun n => nodeKey n = some pid)).map nodeStored
  let claim := api.claims.vals.find? (fun c => claimKey c = some pid)
  let podsOn (n : NodeObj) := api.pods.vals.filter (fun p => p.node = n.name && !p.terminal)
  let mk (sh : Shape) (pods : List PodObj) : AbsNode :=
    { pid := pid, shape := sh, marked := g.marked.contains pid, nominated := g.nominated.contains pid, pods := pods }
  match node, claim with
  | some n, some c => some (mk (.both n c) (podsOn n))
  | some n, none => some (mk (.nodeOnly n) (podsOn n))
  | none, some c => some (mk (.claimOnly c) [])
  | none, none => none

def absNodes (api : Api) (g : Ghost) : List AbsNode := (absPids api).filterMap (absNodeAt api g)

/-- per-NodePool resources: Σ capacity (one node each) over the state nodes of the pool that are not marked for deletion -/
def absPoolRes (api : Api) (g : Ghost) (pool : String) : Res :=
  if pool = "" then Res.zero
  else AbsNode.sumRes (((absNodes api g).filter (fun a => a.pool = pool && !a.markedForDeletion)).map (·.capacity))

/-- per-NodePool node counts (active, deleting): every managed NodeClaim of the pool counts once; it counts as
    deleting when its state node is marked for deletion -/
def absCounts (api : Api) (g : Ghost) (pool : String) : Nat × Nat :=
  if pool = "" then (0, 0)
  else
    let claims := api.claims.vals.filter (fun c => c.managed && c.pool = pool)
    let isDeleting (c : ClaimObj) : Bool :=
      match absNodeAt api g c.pid with
      | some a => c.pid ≠ "" && a.markedForDeletion
      | none => false
    ((claims.filter (fun c => !isDeleting c)).length, (claims.filter isDeleting).length)

def absClaimExists (api : Api) (name : String) : Bool :=
  match api.claims.get name with | some c => c.managed | none => false
def absClaimUnlaunched (api : Api) (name : String) : Bool :=
  match api.claims.get name with | some c => c.managed && c.pid = "" | none => false

/-! ## Well-formed histories (preconditions of the property, all decidable on the event list) -/

def nodeSets (h : List Event) : List NodeObj := h.filterMap (fun e => match e with | .setNode n => some n | _ => none)
def claimSets (h : List Event) : List ClaimObj := h.filterMap (fun e => match e with | .setClaim c => some c | _ => none)
def podSets (h : List Event) : List PodObj := h.filterMap (fun e => match e with | .setPod p => some p | _ => none)

def epid (n : NodeObj) : String := if n.pid = "" then n.name else n.pid

/-- provider ids are unique: over the whole history a provider id belongs to one node name and to one claim name -/
def wPids (h : List Event) : Bool :=
  (nodeSets h).all (fun a => (nodeSets h).all (fun b => epid a ≠ epid b || a.name = b.name)) &&
  (claimSets h).all (fun a => (claimSets h).all (fun b => a.pid = "" || a.pid ≠ b.pid || a.name = b.name))

/-- NodeClaims carry their NodePool label, which like their node class never changes; the terminating
    condition is only set on a deleting claim -/
def wClaims (h : List Event) : Bool :=
  (claimSets h).all (fun a => a.pool ≠ "" && (!a.term || a.del) &&
    (claimSets h).all (fun b => a.name ≠ b.name || (a.pool = b.pool && a.managed = b.managed)))

/-- a pod name is either always a DaemonSet pod or never -/
def wPods (h : List Event) : Bool :=
  (podSets h).all (fun a => (podSets h).all (fun b => a.name ≠ b.name || a.ds = b.ds))

/-- objects have names -/
def wNames (h : List Event) : Bool := (nodeSets h).all (fun a => a.name ≠ "")

def wStatic (h : List Event) : Bool := wPids h && wClaims h && wPods h && wNames h

/-- a Node version the cache ignores (no provider id yet / no instance type yet) is never observed while an earlier,
    tracked version of the same name is still in the cache -/
def wFilterStep (g : Ghost) (api : Api) : Event → Bool
  | .recNode name =>
    match api.nodes.get name with
    | some n => (nodeKey n).isSome || !(g.obsNodes.has name)
    | none => true
  | _ => true

/-- NodeClaim names are generated, never reused: a claim that was observed with a provider id is never observed
    without one afterwards (that would be another claim under the same name whose predecessor's deletion was not delivered) -/
def wClaimStep (g : Ghost) (api : Api) : Event → Bool
  | .recClaim name =>
    match api.claims.get name with
    | some c => !(c.managed && c.pid = "") || (match g.obsClaims.get name with | some p => p = "" | none => true)
    | none => true
  | _ => true

/-- the step-wise preconditions -/
def wStep (g : Ghost) (api : Api) (e : Event) : Bool := wFilterStep g api e && wClaimStep g api e

/-! ## Component level: what the per-node usage trackers account for after a sequence of per-pod operations

`VolumeUsage` / `HostPortUsage` are told, per pod key, "this pod now uses these volumes / ports" (`Add`) and "this pod is gone"
(`DeletePod`); a deep copy changes nothing. From scratch: a key counts with what its LAST `Add` gave unless a `DeletePod` of the
key came after it; the node-wide volume set is the union over those keys and nothing else. -/

inductive UsageOp
  | add (p : PodObj)
  | del (k : String)
  | copy
deriving Repr

/-- what the key `k` is accounted with after `ops` (`none` = not tracked) -/
def usageOf (k : String) (ops : List UsageOp) : Option PodObj :=
  ops.foldl (fun acc o =>
    match o with
    | .add p => if p.name = k then some p else acc
    | .del k' => if k' = k then none else acc
    | .copy => acc) none

/-- the tracked pods, one per key -/
def usageTable (ops : List UsageOp) : List PodObj :=
  (dedup (ops.filterMap fun o => match o with | .add p => some p.name | _ => none)).filterMap (fun k => usageOf k ops)

def usageVolumes (ops : List UsageOp) : List Vol := ((usageTable ops).map (·.vols)).foldl volUnion []
def usagePorts (ops : List UsageOp) : Map (List HostPort) := (usageTable ops).map (fun p => (p.name, p.ports))

/-- the model's reading of one operation: `StateNode.updateForPod` / `cleanupForPod` (which call `VolumeUsage.Add/DeletePod` and
    `HostPortUsage.Add/DeletePod`); used by the driver of `c11.usage` and by `C11_usage_tracks_table` -/
def usageStep (fx : Fixes) (s : SNode) : UsageOp → SNode
  | .add p => s.updateForPod fx p
  | .del k => s.cleanupForPod k
  | .copy => s

end Karp.Spec.ClusterAbs
