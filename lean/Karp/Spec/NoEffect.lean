/-
C18 — independent specification: "a scheduling simulation changes nothing observable; a provisioning pass changes only
node nominations and pod bookkeeping (until it creates NodeClaims)".

Written from the property text, not from the code.  The harness hands over, for the real code, a *snapshot* of the
observable world before and after every run: one entry per component (every API object, every field and exported
accessor of the cluster state and of each of its nodes, every field of every instance type / offering of the provider and
the order of the provider's slices, the shared inputs of a simulation) with a digest of its value; plus the nominations,
deletion marks and pod bookkeeping as plain values.  Everything here is executable and evaluated on what the
implementation did.  Core Lean only.
-/

namespace Karp.Spec.NoEffect

/-- one observed component: section (`api` | `cluster` | `node` | `accessor` | `provider` | `input`), the object it
    belongs to, the field / accessor, the digest of its value -/
structure Entry where
  sec : String
  obj : String
  fld : String
  dig : String
  deriving DecidableEq, Repr, Inhabited

abbrev Snap := List Entry

def Entry.sameKey (a b : Entry) : Bool := a.sec == b.sec && a.obj == b.obj && a.fld == b.fld

def Entry.show (e : Entry) : String := s!"{e.sec}/{e.obj}/{e.fld}"

def find? (s : Snap) (e : Entry) : Option Entry := s.find? (fun x => x.sameKey e)

/-- the components whose value differs between two snapshots, or that exist in one of them only -/
def changedSlow (a b : Snap) : List Entry :=
  a.filter (fun e => match find? b e with | some x => x.dig != e.dig | none => true) ++
  b.filter (fun e => (find? a e).isNone)

/-- same result, linear when both snapshots list the same components in the same order (the usual case) -/
def changed (a b : Snap) : List Entry :=
  if a.length == b.length && (a.zip b).all (fun p => p.1.sameKey p.2) then
    (a.zip b).filterMap (fun p => if p.1.dig != p.2.dig then some p.1 else none)
  else changedSlow a b

/-! ## What may change -/

/-- the pod bookkeeping of `state.Cluster`: when a pod was first seen, first decided, first found schedulable (in
    general / on a NodePool with healthy registrations) and which NodeClaim it is meant for -/
def bookkeepingFields : List String :=
  ["podAcks", "podsSchedulingAttempted", "podsSchedulableTimes", "podHealthyNodePoolScheduledTime", "podToNodeClaim"]

def isBookkeeping (e : Entry) : Bool := e.sec == "cluster" && bookkeepingFields.contains e.fld

/-- a node's nomination, however it is observed -/
def isNomination (e : Entry) : Bool :=
  (e.sec == "node" && e.fld == "nominatedUntil") ||
  (e.sec == "accessor" && (e.fld == "Nominated" || e.fld == "IsNodeNominated"))

/-- "A provisioning pass changes only node nominations and pod bookkeeping until it creates NodeClaims." -/
def provisioningMayChange (e : Entry) : Bool := isNomination e || isBookkeeping e

/-- "A scheduling simulation … changes nothing observable."  The one thing admitted: the simulation lists the pending
    pods through the provisioner's own `GetPendingPods`, which records the pods it refuses to consider as failed
    decisions; that bookkeeping may move — only when such pods exist (and only for them, see `simulationValuesOk`). -/
def simulationMayChange (ignoredExist : Bool) (e : Entry) : Bool := ignoredExist && isBookkeeping e

/-! ## Plain values -/

structure NodeVal where
  providerID : String
  name : String
  nodeClaim : String        -- "" = unmanaged
  nominatedUntil : Int      -- unix ns, 0 = never
  marked : Bool
  deriving DecidableEq, Repr, Inhabited

structure PodVal where
  key : String
  ack : Int
  attempted : Int
  schedulable : Int
  healthy : Int
  nodeClaim : String
  deriving DecidableEq, Repr, Inhabited

structure PlacedPod where
  name : String
  /-- already bound to a node (a pod of a deleting node) -/
  bound : Bool
  deriving DecidableEq, Repr, Inhabited

structure ExistingPlacement where
  providerID : String
  nodeClaim : String
  pool : String
  pods : List PlacedPod
  deriving DecidableEq, Repr, Inhabited

structure ClaimPlacement where
  pool : String
  pods : List PlacedPod
  deriving DecidableEq, Repr, Inhabited

/-- what one scheduling pass decided -/
structure Outcome where
  existing : List ExistingPlacement
  claims : List ClaimPlacement
  errors : List String
  deriving DecidableEq, Repr, Inhabited

/-- nominations / marks / bookkeeping of the live cluster state -/
structure Live where
  nodes : List NodeVal
  pods : List PodVal
  deriving DecidableEq, Repr, Inhabited

def Outcome.mentions (o : Outcome) (pod : String) : Bool :=
  o.errors.contains pod || o.claims.any (fun c => c.pods.any (·.name == pod)) ||
  o.existing.any (fun e => e.pods.any (·.name == pod))

def Outcome.placedOn (o : Outcome) (providerID : String) : Bool :=
  o.existing.any (fun e => e.providerID == providerID && !e.pods.isEmpty)

/-- the record of a pod the provisioner refuses to consider: the first decision time is kept (or set now), the pod is not
    considered schedulable and is meant for no NodeClaim; the time it was first seen is untouched -/
def refused (now : Int) (p q : PodVal) : Bool :=
  q.key == p.key && q.ack == p.ack && q.attempted == (if p.attempted == 0 then now else p.attempted) &&
  q.schedulable == 0 && q.healthy == 0 && q.nodeClaim == ""

/-- values across a simulation: nominations and deletion marks as before; bookkeeping as before, except for pods the
    provisioner refuses to consider -/
def simulationValuesOk (now : Int) (ignored : List String) (a b : Live) : Bool :=
  a.nodes == b.nodes &&
  a.pods.length == b.pods.length &&
  (a.pods.zip b.pods).all (fun pq =>
    pq.1 == pq.2 || (ignored.contains pq.1.key && refused now pq.1 pq.2))

/-- values across a provisioning pass: deletion marks never change; a nomination changes only on a node the pass placed a
    pod on, and then the node is nominated into the future; the time a pod was first seen never changes, the first
    decision time is write-once, and the bookkeeping of a pod the pass neither placed nor refused is as before -/
def provisioningValuesOk (now : Int) (ignored : List String) (o : Outcome) (a b : Live) : Bool :=
  a.nodes.length == b.nodes.length &&
  (a.nodes.zip b.nodes).all (fun nm =>
    nm.1.providerID == nm.2.providerID && nm.1.marked == nm.2.marked && nm.1.nodeClaim == nm.2.nodeClaim &&
    (nm.1.nominatedUntil == nm.2.nominatedUntil || (o.placedOn nm.1.providerID && nm.2.nominatedUntil > now))) &&
  a.pods.length == b.pods.length &&
  (a.pods.zip b.pods).all (fun pq =>
    pq.1.key == pq.2.key && pq.1.ack == pq.2.ack &&
    (pq.1.attempted == 0 || pq.2.attempted == pq.1.attempted) &&
    (pq.1 == pq.2 || o.mentions pq.1.key || ignored.contains pq.1.key))

/-! ## One run as the harness reports it -/

structure Run where
  before : Snap
  after : Snap
  valsBefore : Live
  valsAfter : Live
  /-- write calls made on the API client during the run -/
  writes : Nat
  deriving Repr, Inhabited

/-- verdict on one simulation -/
def simulationOk (now : Int) (ignored : List String) (r : Run) : Bool :=
  r.writes == 0 &&
  (changed r.before r.after).all (simulationMayChange (!ignored.isEmpty)) &&
  simulationValuesOk now ignored r.valsBefore r.valsAfter

/-- verdict on one provisioning pass (before NodeClaims are created) -/
def provisioningOk (now : Int) (ignored : List String) (o : Outcome) (r : Run) : Bool :=
  r.writes == 0 &&
  (changed r.before r.after).all provisioningMayChange &&
  provisioningValuesOk now ignored o r.valsBefore r.valsAfter

/-- first offending component of a simulation, for the report -/
def simulationOffender (ignored : List String) (r : Run) : Option Entry :=
  (changed r.before r.after).find? (fun e => !simulationMayChange (!ignored.isEmpty) e)

def provisioningOffender (r : Run) : Option Entry :=
  (changed r.before r.after).find? (fun e => !provisioningMayChange e)

end Karp.Spec.NoEffect
