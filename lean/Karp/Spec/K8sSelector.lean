/-
Independent specification for C12/C13/C01: Kubernetes node-selector semantics.
Written from the Kubernetes documentation of `NodeSelectorRequirement` (and the scheduler's
`labels.Requirement.Matches`), not from Karpenter:

  In            the label is present and its value is one of `values`
  NotIn         the label is absent or its value is none of `values`
  Exists        the label is present
  DoesNotExist  the label is absent
  Gt / Lt       the label is present, `values` is a single integer literal, the label value parses
                as a base-10 int64 and is greater / less than it
  Gte / Lte     Karpenter's inclusive variants of Gt / Lt (pkg/apis/v1/nodeclaim.go)

Shares only the operator vocabulary and the integer parser with the model.
-/
import Karp.Model.Req

namespace Karp.Spec.K8s
open Karp.Req

def cmpMatch (cmp : Int → Int → Bool) (vals : List Val) (x : Option Val) : Bool :=
  match vals, x with
  | [n], some v =>
    match atoi n, atoi v with
    | some j, some i => cmp i j
    | _, _ => false
  | _, _ => false

/-- does a node whose label `key` is `x` (`none` = label absent) satisfy `key op vals`? -/
def k8sMatch (op : Op) (vals : List Val) (x : Option Val) : Bool :=
  match op with
  | .in_ => match x with | some v => vals.contains v | none => false
  | .notIn => match x with | some v => !vals.contains v | none => true
  | .exists_ => x.isSome
  | .doesNotExist => x.isNone
  | .gt => cmpMatch (fun i j => decide (i > j)) vals x
  | .lt => cmpMatch (fun i j => decide (i < j)) vals x
  | .gte => cmpMatch (fun i j => decide (i ≥ j)) vals x
  | .lte => cmpMatch (fun i j => decide (i ≤ j)) vals x
  | .other => false

/-- operands accepted by validation: the four comparison operators take exactly one integer literal -/
def validOperands (op : Op) (vals : List Val) : Bool :=
  match op with
  | .gt | .lt | .gte | .lte =>
    match vals with
    | [n] => (atoi n).isSome
    | _ => false
  | .other => false
  | _ => true

/-- a selector expression: `key op vals` -/
structure Expr where
  key : String
  op : Op
  vals : List Val
deriving Repr, DecidableEq

/-- a labelling satisfies a conjunction of expressions (one `NodeSelectorTerm`) -/
def satisfiesAll (labels : String → Option Val) (es : List Expr) : Bool :=
  es.all (fun e => k8sMatch e.op e.vals (labels e.key))

end Karp.Spec.K8s

namespace Karp.Req

/-! ### The reading of `Compatible` (C12): key-by-key satisfiability with possibly absent labels -/

/-- a (possibly absent) label value is accepted by a requirement -/
def Req.admits (b : Req) (x : Option Val) : Bool :=
  match x with
  | some v => b.has v
  | none => b.absentOk

/-- what the node side `A` may end up with for label `k`.  Defined key: any admitted value, or absence if
    the requirement tolerates it.  Undefined key: anything when the key is in the allow-undefined set
    (well-known labels are filled in later), otherwise the label stays absent. -/
def nodeAllows (A : Reqs) (U : List String) (k : String) (x : Option Val) : Bool :=
  match A.lookup k with
  | some a => a.admits x
  | none => U.contains k || x.isNone

end Karp.Req
