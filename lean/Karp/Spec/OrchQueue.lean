/-
Independent specification for C08 — "Replacements are ready before removal; failed actions roll back".

Written from the property text over what an outside observer can see of a run (the Delete calls on candidate
NodeClaims with the state of the replacements at that instant, node taints, NodeClaim conditions, the cluster
deletion marks, which command the queue files a node under), NOT from the code: no call counters, no retry
loops, no latches.  The driver evaluates it on what the REAL code did; `Karp/Props/C08.lean` proves that the
model of the code satisfies it (up to the recorded findings).  Core Lean only.
-/
namespace Karp.Spec.OrchQueue

/-- what happened in a step, as far as the property is concerned -/
inductive Kind
  | start (k : Nat)           -- the controller tries to start action `k`
  | reconcile (ci : Nat)      -- the queue processes the item of candidate `ci`
  | advance (ns : Int)        -- time passes
  | restart                   -- the controller process restarts
  | cleanup                   -- a pass of the disruption controller's stale-mark cleanup
  | other                     -- replacements launch / initialize / vanish, informers catch up
deriving DecidableEq, Repr

inductive Verdict
  | startOk | startRejected
  | requeue | succeeded | failed | nocmd
  | cleanupOk | cleanupNotRun
  | none
deriving DecidableEq, Repr

/-- a Delete call on the NodeClaim of candidate `cand`; `ready[i]` = replacement `i` of the acting command existed
    and reported Initialized at that instant -/
structure ObsDelete where
  cand : Nat
  ready : List Bool
deriving DecidableEq, Repr

structure ObsCand where
  taint : Bool := false       -- the node carries the disruption taint
  cond : Bool := false        -- the NodeClaim carries the DisruptionReason condition
  deleting : Bool := false    -- the NodeClaim is being deleted
  mark : Bool := false        -- the node does not count as schedulable capacity (marked for deletion or deleting)
  owner : Option Nat := none  -- the action the node is the subject of
  gone : Bool := false        -- the node and its NodeClaim no longer exist (somebody else removed them / termination finished)
deriving DecidableEq, Repr

structure Obs where
  kind : Kind
  verdict : Verdict
  faults : Nat                -- API faults injected during the step
  deletes : List ObsDelete
  cands : List ObsCand        -- after the step
deriving Repr

/-- the actions of a run: candidates and number of replacements each needs -/
structure Scenario where
  ncands : Nat
  cmds : List (List Nat × Nat)
deriving Repr

def Scenario.candsOf (sc : Scenario) (k : Nat) : List Nat := ((sc.cmds[k]?).map (·.1)).getD []
def Scenario.replsOf (sc : Scenario) (k : Nat) : Nat := ((sc.cmds[k]?).map (·.2)).getD 0

/-- bookkeeping of the observer -/
structure Track where
  prev : List ObsCand               -- the snapshot before the step
  now : Int := 0
  startedAt : List (Nat × Int) := []   -- action ↦ time of its accepted start
  deleted : List Nat := []          -- actions on whose behalf a Delete has been issued
deriving Repr

def candOf (l : List ObsCand) (i : Nat) : ObsCand := (l[i]?).getD {}

def Track.init (sc : Scenario) : Track := { prev := List.replicate sc.ncands {} }

def idxs (n : Nat) : List Nat := List.range n

/-- the action a reconcile step acts for -/
def actingFor (t : Track) : Kind → Option Nat
  | .reconcile ci => (candOf t.prev ci).owner
  | _ => none

/-! ### the clauses -/

/-- **ready before removal**: a Delete on a candidate NodeClaim is only issued by the queue pass of the action that
    owns the candidate, and at that instant every replacement of that action has been created and reports Initialized -/
def deleteOk (sc : Scenario) (t : Track) (o : Obs) (d : ObsDelete) : Bool :=
  match actingFor t o.kind with
  | none => false
  | some K =>
    (candOf t.prev d.cand).owner == some K
      && d.ready.length == sc.replsOf K && d.ready.all id

def deletedAfter (t : Track) (o : Obs) : List Nat :=
  match actingFor t o.kind, o.deletes with
  | some K, _ :: _ => K :: t.deleted
  | _, _ => t.deleted

/-- **a failed action deletes nothing**: when the queue gives an action up (replacement gone, timeout), no Delete
    has been issued on its behalf, now or earlier -/
def failedDeletesNothing (t : Track) (o : Obs) : Bool :=
  match o.verdict, actingFor t o.kind with
  | .failed, some K => !(deletedAfter t o).contains K
  | _, _ => true

/-- **rollback, in-memory part**: when an action is given up, EACH of its candidates leaves the queue at once and
    counts as schedulable capacity again (unless its NodeClaim is going away anyway or the node no longer exists) —
    whatever has happened to the other candidates of the action meanwhile -/
def failedReleases (t : Track) (o : Obs) : Bool :=
  match o.verdict, actingFor t o.kind with
  | .failed, some K =>
    (idxs o.cands.length).all (fun c =>
      (candOf t.prev c).owner != some K ||
        ((candOf o.cands c).owner == none &&
          (!(candOf o.cands c).mark || (candOf o.cands c).deleting || (candOf o.cands c).gone)))
  | _, _ => true

/-- **a rejected start leaves nothing behind in memory**: candidates are not queued and not marked by it -/
def rejectedStartClean (sc : Scenario) (t : Track) (o : Obs) : Bool :=
  match o.kind, o.verdict with
  | .start k, .startRejected =>
    (sc.candsOf k).all (fun c =>
      (candOf o.cands c).owner == (candOf t.prev c).owner
        && (!(candOf o.cands c).mark || (candOf t.prev c).mark || (candOf o.cands c).deleting || (candOf o.cands c).gone))
  | _, _ => true

/-- **return to service**: after a cleanup pass that ran undisturbed, every node that is not the subject of an action
    in flight and is not going away carries neither the disruption taint nor the DisruptionReason condition and is
    not marked for deletion -/
def returnedToService (o : Obs) : Bool :=
  match o.kind, o.verdict with
  | .cleanup, .cleanupOk =>
    o.faults != 0 ||
      o.cands.all (fun c => c.owner.isSome || c.mark || c.deleting || c.gone || (!c.taint && !c.cond))
  | _, _ => true

/-- **one action per node**: a node that is the subject of an action stays with it until that action's queue pass
    completes it (or the process restarts); a node becomes the subject of action `k` only through an accepted start of
    `k` that lists it -/
def ownershipOk (sc : Scenario) (t : Track) (o : Obs) : Bool :=
  (idxs o.cands.length).all (fun c =>
    let before := (candOf t.prev c).owner
    let after := (candOf o.cands c).owner
    before == after ||
      (match before with
        | some K =>
          -- released: by the completing pass of K, or by a restart; never handed to another action directly
          after == none &&
            (o.kind == .restart ||
              (actingFor t o.kind == some K && (o.verdict == .succeeded || o.verdict == .failed)))
        | none =>
          match after, o.kind with
          | some k, .start k' =>
            -- … and only a node that exists can become the subject of an action
            k == k' && o.verdict == .startOk && (sc.candsOf k).contains c && !(candOf t.prev c).gone
          | _, _ => false))

/-- a restart forgets every action and every in-memory mark -/
def restartClean (o : Obs) : Bool :=
  match o.kind with
  | .restart => o.cands.all (fun c => c.owner == none && (!c.mark || c.deleting || c.gone))
  | _ => true

/-- first violated clause of a step, if any -/
def checkStep (sc : Scenario) (t : Track) (o : Obs) : Option String :=
  if !(o.deletes.all (deleteOk sc t o)) then some "delete-before-ready"
  else if !failedDeletesNothing t o then some "failed-after-delete"
  else if !failedReleases t o then some "failed-action-not-released"
  else if !rejectedStartClean sc t o then some "rejected-start-side-effect"
  else if !returnedToService o then some "not-returned-to-service"
  else if !ownershipOk sc t o then some "two-actions-one-node"
  else if !restartClean o then some "restart-keeps-state"
  else none

def advance (t : Track) (o : Obs) : Track :=
  { prev := o.cands
    now := (match o.kind with | .advance ns => if ns > 0 then t.now + ns else t.now | _ => t.now)
    startedAt := (match o.kind, o.verdict with | .start k, .startOk => (k, t.now) :: t.startedAt | _, _ => t.startedAt)
    deleted := deletedAfter t o }

/-- index and class of the first violation of a run -/
def checkFrom (sc : Scenario) : Track → Nat → List Obs → Option (Nat × String × Track)
  | _, _, [] => none
  | t, i, o :: os =>
    match checkStep sc t o with
    | some cls => some (i, cls, t)
    | none => checkFrom sc (advance t o) (i + 1) os

def check (sc : Scenario) (os : List Obs) : Option (Nat × String × Track) := checkFrom sc (Track.init sc) 0 os

def holds (sc : Scenario) (os : List Obs) : Bool := (check sc os).isNone

def startedAtOf (t : Track) (k : Nat) : Option Int := (t.startedAt.find? (fun p => p.1 == k)).map (·.2)

end Karp.Spec.OrchQueue
