/-
Spec side of C17 for whole manager histories: the state is only WHO HOLDS WHAT (a set of (hostname, reservation) pairs);
no counter is stored — the free slots of a reservation are always recomputed as `capacity − |holders|`, and a slot is
granted only while that number is positive.  Shares only the vocabulary (`Op`, `Obs`, `Panic`) with the model.
-/
import Karp.Model.Reservation
import Karp.Spec.Reserved

namespace Karp.Spec.ReservedLedger
open Karp.Reservation (Op Obs Panic Host Id)
open Karp.Spec.Reserved (capOf)

abbrev Book := List (Host × Id)

def holders (b : Book) (id : Id) : Nat := (b.filter (fun p => p.2 == id)).length

/-- free slots, recomputed -/
def free (offerings : List (Id × Int)) (b : Book) (id : Id) : Int := (capOf offerings id).getD 0 - (holders b id : Int)

/-- may `h` be granted `id`?  An unknown reservation is a programming error. -/
def can (offerings : List (Id × Int)) (b : Book) (h : Host) (id : Id) : Except Panic Bool :=
  if b.contains (h, id) then pure true
  else match capOf offerings id with
    | none => throw .nonExistent
    | some _ => pure (decide (0 < free offerings b id))

/-- grant one reservation; refusing (the panic) is the only alternative to a free slot -/
def grant1 (offerings : List (Id × Int)) (b : Book) (h : Host) (id : Id) : Except Panic Book :=
  if b.contains (h, id) then pure b
  else if free offerings b id < 1 then throw .overReserve
  else pure ((h, id) :: b)

def grant (offerings : List (Id × Int)) (b : Book) (h : Host) : List Id → Except Panic Book
  | [] => pure b
  | id :: ids =>
    match grant1 offerings b h id with
    | .error p => .error p
    | .ok b' => grant offerings b' h ids

def drop (b : Book) (h : Host) : List Id → Book
  | [] => b
  | id :: ids => drop (b.filter (fun p => p != (h, id))) h ids

def askAll (offerings : List (Id × Int)) (b : Book) (h : Host) : List Id → Except Panic (List Id)
  | [] => pure []
  | id :: ids =>
    match can offerings b h id with
    | .error p => .error p
    | .ok ok =>
      match askAll offerings b h ids with
      | .error p => .error p
      | .ok rest => pure (if ok then id :: rest else rest)

def specStep (offerings : List (Id × Int)) (b : Book) : Op → Except Panic (Book × Obs)
  | .canReserve h id => (can offerings b h id).map (fun x => (b, .bool x))
  | .reserve h ids => (grant offerings b h ids).map (fun b' => (b', .unit))
  | .guarded h ids =>
    match askAll offerings b h ids with
    | .error p => .error p
    | .ok rs => (grant offerings b h rs).map (fun b' => (b', .granted rs))
  | .release h ids => pure (drop b h ids, .unit)
  | .has h id => pure (b, .bool (b.contains (h, id)))
  | .remaining id => pure (b, .int (free offerings b id))

/-- what an observer must see along a history, according to the ledger alone -/
def specObs (offerings : List (Id × Int)) (b : Book) : List Op → List Obs
  | [] => []
  | op :: ops =>
    match specStep offerings b op with
    | .error p => [.panic p]
    | .ok (b', o) => o :: specObs offerings b' ops

end Karp.Spec.ReservedLedger
