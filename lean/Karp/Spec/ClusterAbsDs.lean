/-
Independent specification for the DaemonSet clause of C11: what `GetDaemonSetPod` must return once the latest version of
every DaemonSet and Pod has been observed (a DaemonSet reconcile after the last change) — computed FROM SCRATCH from the
API objects, written from the property text and the comment of `daemonSetPods` ("the newest pod of the DaemonSet"), not
from `UpdateDaemonSet`.

Shares only the vocabulary (`DsObj`, `DPod`, `DsApi`) with the model.
-/
import Karp.Model.ClusterStateExt

namespace Karp.Spec.ClusterAbsDs
open Karp.ClusterState

/-- the pods the DaemonSet controls now -/
def ownedPods (api : DsApi) (d : DsObj) : List DPod :=
  api.pods.vals.filter (fun p => decide (p.own = d.uid) && decide (p.own ≠ ""))

/-- From scratch: a DaemonSet that does not exist has no entry; one that controls no pod has no entry; otherwise the entry is
    one of its pods, IN ITS CURRENT VERSION (the whole object as stored in the API), and no pod of the DaemonSet was created
    later. -/
def dsFreshOk (api : DsApi) (name : String) (entry : Option DPod) : Bool :=
  match api.dss.get name with
  | none => entry.isNone
  | some d =>
    match entry with
    | none => (ownedPods api d).isEmpty
    | some e => (ownedPods api d).contains e && (ownedPods api d).all (fun q => decide (q.ct ≤ e.ct))

end Karp.Spec.ClusterAbsDs
