/-
Independent specification for the static-pool part of C03, written from the property text:

  "For a static NodePool the number of NodeClaims never exceeds its node limit and settles at the
   replica count … while provision, deprovision and delete events interleave, and the bookkeeping
   never crashes the controller."

The specification keeps a *ledger* that knows nothing about Active/Deleting/Pending sets or about
garbage collection: which NodeClaims exist and to which pool they belong (from create / delete
events), and how many node slots were granted to callers and not yet given back.  A granted slot is
a licence to create one NodeClaim, so `claims + outstanding` bounds the number of NodeClaims of the
pool.  What an observer may see after each event:

* no event panics;
* `GetNodeCount` reports, in total, exactly the NodeClaims that exist in the pool;
* `ReserveNodeCount(limit, wanted)` grants `g` with `claims + outstanding + g ≤ limit` (never exceeds)
  and `g` is as large as that allows, up to `wanted` (needed to settle at the replica count).

Shares only the vocabulary (`Op`, `Out`) with the model.
-/
import Karp.Model.PoolState

namespace Karp.Spec.PoolLedger
open Karp.PoolState

structure Ledger where
  /-- claim ↦ pool it belongs to (`none`: no such NodeClaim) -/
  owner : Name → Option Name
  /-- the NodeClaims that exist (those with an owner), without duplicates -/
  known : List Name
  /-- node slots granted by `ReserveNodeCount` and not yet released, per pool -/
  outstanding : Name → Int

def Ledger.init : Ledger := { owner := fun _ => none, known := [], outstanding := fun _ => 0 }

/-- the NodeClaims of pool `np` -/
def Ledger.claimsOf (L : Ledger) (np : Name) : List Name := L.known.filter (fun nc => L.owner nc == some np)
def Ledger.count (L : Ledger) (np : Name) : Nat := (L.claimsOf np).length

def Ledger.create (L : Ledger) (np nc : Name) : Ledger :=
  match L.owner nc with
  | some _ => L
  | none => { L with owner := upd L.owner nc (some np), known := nc :: L.known }

def Ledger.delete (L : Ledger) (nc : Name) : Ledger :=
  { L with owner := upd L.owner nc none, known := L.known.filter (fun x => x != nc) }

/-- which events the specification speaks about (the call protocol of the controllers):
    a NodeClaim belongs to one pool from its creation to its deletion; phase marks concern existing
    NodeClaims; a caller asks for at least one slot; only granted slots are given back.
    `setMapping` (an internal helper of `UpdateNodeClaim`) and `reset` (unit tests) are not events. -/
def wf (L : Ledger) : Op → Bool
  | .setMapping _ _ => false
  | .markActive np nc => np != 0 && nc != 0 && L.owner nc == some np
  | .markDeleting np nc => np != 0 && nc != 0 && L.owner nc == some np
  | .markPending np nc => np != 0 && nc != 0 && L.owner nc == some np
  | .cleanup nc => nc != 0
  | .count _ => true
  | .reserve np _ wanted => np != 0 && decide (1 ≤ wanted)
  | .release np k => np != 0 && decide (0 ≤ k) && decide (k ≤ L.outstanding np)
  | .update np nc _ => np != 0 && nc != 0 && (L.owner nc == none || L.owner nc == some np)
  | .reset => false

/-- the largest grant that keeps `claims + outstanding + g ≤ limit`, at most `wanted`, never negative -/
def expectedGrant (L : Ledger) (np : Name) (limit wanted : Int) : Int :=
  let room := limit - (L.count np : Int) - L.outstanding np
  if room < 0 then 0 else if wanted > room then room else wanted

/-- safety half: the grant is not negative and does not take the pool over its node limit -/
def grantSafe (L : Ledger) (np : Name) (limit : Int) (g : Int) : Bool :=
  decide (0 ≤ g) && (g == 0 || decide ((L.count np : Int) + L.outstanding np + g ≤ limit))

/-- the ledger after the event, given the grant the observed system reported -/
def advance (L : Ledger) (op : Op) (out : Out) : Ledger :=
  match op, out with
  | .update np nc _, _ => L.create np nc
  | .cleanup nc, _ => L.delete nc
  | .reserve np _ _, .grant g => { L with outstanding := upd L.outstanding np (L.outstanding np + g) }
  | .release np k, _ => { L with outstanding := upd L.outstanding np (L.outstanding np - k) }
  | _, _ => L

inductive Verdict | ok | panicked | countWrong | overGrant | underGrant | shape
deriving Repr, DecidableEq

/-- what the specification says about one observed output -/
def judge (L : Ledger) (op : Op) (out : Out) : Verdict :=
  match out with
  | .panic => .panicked
  | _ =>
    match op, out with
    | .count np, .counts a d p => if a + d + p = L.count np then .ok else .countWrong
    | .count _, _ => .shape
    | .reserve np limit wanted, .grant g =>
      if !grantSafe L np limit g then .overGrant
      else if g = expectedGrant L np limit wanted then .ok
      else if g < expectedGrant L np limit wanted then .underGrant else .overGrant
    | .reserve _ _ _, _ => .shape
    | _, .unit => .ok
    | _, _ => .shape

def okStep (L : Ledger) (op : Op) (out : Out) : Bool := judge L op out == .ok

/-- the whole observed history is well-formed and acceptable -/
def accepts (L : Ledger) : List Op → List Out → Bool
  | [], [] => true
  | op :: ops, out :: outs => okStep L op out && accepts (advance L op out) ops outs
  | _, _ => false

/-- the events respect the call protocol, when the system answers `outs` -/
def wfTrace (L : Ledger) : List Op → List Out → Bool
  | [], _ => true
  | op :: ops, out :: outs => wf L op && wfTrace (advance L op out) ops outs
  | _ :: _, [] => false

/-- the ledger after the whole history -/
def advanceAll (L : Ledger) : List Op → List Out → Ledger
  | op :: ops, out :: outs => advanceAll (advance L op out) ops outs
  | _, _ => L

/-- index and verdict of the first unacceptable observation -/
def firstBad (L : Ledger) (i : Nat) : List Op → List Out → Option (Nat × Verdict)
  | [], [] => none
  | op :: ops, out :: outs =>
    if judge L op out == .ok then firstBad (advance L op out) (i + 1) ops outs else some (i, judge L op out)
  | _, _ => some (i, .shape)

end Karp.Spec.PoolLedger
