/-
The concrete reading of a budget's `schedule` for the C05 specification: a standard five-field cron
expression (minute hour day-of-month month day-of-week, UTC) or one of the descriptors the CRD admits
(`@yearly @annually @monthly @weekly @daily @midnight @hourly`), written from the cron documentation
(crontab(5) / the robfig/cron package documentation), not from the library's code:

  * a field is a comma-separated list of `*`, `?`, `N`, `N-M`, each optionally followed by `/STEP`
    (`N/STEP` means `N-max/STEP`); month and day-of-week also accept three-letter names;
  * the schedule fires at second 0 of every minute whose minute, hour and month match and whose day matches:
    if day-of-month or day-of-week is unrestricted (`*`), both must match, otherwise either may match.

`hit sched t` decides whether the instant `t` (nanoseconds since the Unix epoch, UTC) is an activation.
Used only by the driver (sampled agreement with the real library); the theorems treat the schedule abstractly.
-/
namespace Karp.Spec.Cron

structure Field where
  vals : List Nat
  star : Bool
deriving Repr

structure Sched where
  minute : Field
  hour   : Field
  dom    : Field
  month  : Field
  dow    : Field
deriving Repr

def isSpace (c : Char) : Bool := c == ' ' || c == '\t' || c == '\n' || c == '\r' || c.toNat == 11 || c.toNat == 12

/-- split on runs of white space (like `strings.Fields`) -/
def fields (cs : List Char) : List (List Char) :=
  let rec go (cur : List Char) (acc : List (List Char)) : List Char → List (List Char)
    | [] => (if cur.isEmpty then acc else cur.reverse :: acc).reverse
    | c :: r => if isSpace c then go [] (if cur.isEmpty then acc else cur.reverse :: acc) r else go (c :: cur) acc r
  go [] [] cs

def splitOn (sep : Char) (cs : List Char) : List (List Char) :=
  let rec go (cur : List Char) (acc : List (List Char)) : List Char → List (List Char)
    | [] => (cur.reverse :: acc).reverse
    | c :: r => if c == sep then go [] (cur.reverse :: acc) r else go (c :: cur) acc r
  go [] [] cs

def isDigit (c : Char) : Bool := '0' ≤ c && c ≤ '9'

def natOf (cs : List Char) : Option Nat :=
  if cs.isEmpty || !cs.all isDigit || cs.length > 9 then none
  else some (cs.foldl (fun a c => a * 10 + (c.toNat - 48)) 0)

def monthNames : List (String × Nat) :=
  [("jan", 1), ("feb", 2), ("mar", 3), ("apr", 4), ("may", 5), ("jun", 6), ("jul", 7), ("aug", 8), ("sep", 9), ("oct", 10), ("nov", 11), ("dec", 12)]
def dowNames : List (String × Nat) :=
  [("sun", 0), ("mon", 1), ("tue", 2), ("wed", 3), ("thu", 4), ("fri", 5), ("sat", 6)]

def numOrName (names : List (String × Nat)) (cs : List Char) : Option Nat :=
  match names.lookup (String.ofList (cs.map Char.toLower)) with
  | some v => some v
  | none => natOf cs

/-- one comma-separated item; `(values, star)` -/
def parseItem (lo hi : Nat) (names : List (String × Nat)) (cs : List Char) : Option (List Nat × Bool) := do
  let (rangePart, stepPart) ← match splitOn '/' cs with
    | [r] => pure (r, (none : Option (List Char)))
    | [r, s] => pure (r, some s)
    | _ => none
  let step ← match stepPart with
    | none => pure 1
    | some s => natOf s
  if step == 0 then none
  let isStar := rangePart == ['*'] || rangePart == ['?']
  let (a, b) ←
    if isStar then pure (lo, hi)
    else match splitOn '-' rangePart with
      | [x] => do
        let v ← numOrName names x
        pure (v, if stepPart.isSome then hi else v)
      | [x, y] => do
        let v ← numOrName names x
        let w ← numOrName names y
        pure (v, w)
      | _ => none
  if a < lo || hi < b || b < a then none
  let vals := (List.range (b - a + 1)).filterMap (fun i => if i % step == 0 then some (a + i) else none)
  pure (vals, isStar && step ≤ 1)

def parseField (lo hi : Nat) (names : List (String × Nat)) (cs : List Char) : Option Field := do
  let items := (splitOn ',' cs).filter (fun i => !i.isEmpty)
  let parsed ← items.mapM (parseItem lo hi names)
  pure { vals := (parsed.map (·.1)).flatten, star := parsed.any (·.2) }

def descriptor (s : String) : Option (List Char) :=
  match s with
  | "@yearly" | "@annually" => some "0 0 1 1 *".toList
  | "@monthly" => some "0 0 1 * *".toList
  | "@weekly" => some "0 0 * * 0".toList
  | "@daily" | "@midnight" => some "0 0 * * *".toList
  | "@hourly" => some "0 * * * *".toList
  | _ => none

def trim (cs : List Char) : List Char := ((cs.dropWhile isSpace).reverse.dropWhile isSpace).reverse

partial def parseChars (cs : List Char) (allowDescriptor : Bool) : Option Sched :=
  let t := trim cs
  match t with
  | '@' :: _ => if allowDescriptor then (descriptor (String.ofList t)).bind (fun e => parseChars e false) else none
  | _ =>
    match fields t with
    | [mi, ho, dm, mo, dw] => do
      let minute ← parseField 0 59 [] mi
      let hour ← parseField 0 23 [] ho
      let dom ← parseField 1 31 [] dm
      let month ← parseField 1 12 monthNames mo
      let dow ← parseField 0 6 dowNames dw
      pure { minute, hour, dom, month, dow }
    | _ => none

def parse (s : String) : Option Sched := parseChars s.toList true

/-! ### Calendar (proleptic Gregorian, UTC) -/

/-- `(month, day)` of the day number `days` since 1970-01-01 -/
def monthDay (days : Int) : Nat × Nat :=
  let z := days + 719468
  let era := z / 146097
  let doe := (z - era * 146097).toNat
  let yoe := (doe - doe / 1460 + doe / 36524 - doe / 146096) / 365
  let doy := doe - (365 * yoe + yoe / 4 - yoe / 100)
  let mp := (5 * doy + 2) / 153
  let d := doy - (153 * mp + 2) / 5 + 1
  let m := if mp < 10 then mp + 3 else mp - 9
  (m, d)

/-- 0 = Sunday; 1970-01-01 was a Thursday -/
def weekday (days : Int) : Nat := ((days + 4) % 7).toNat

/-- does the schedule fire in minute number `m` (minutes since the epoch)? -/
def hitMinute (sc : Sched) (m : Int) : Bool :=
  let days := m / 1440
  let mod := (m % 1440).toNat
  let (mon, day) := monthDay days
  let domOk := sc.dom.vals.contains day
  let dowOk := sc.dow.vals.contains (weekday days)
  sc.minute.vals.contains (mod % 60) && sc.hour.vals.contains (mod / 60) && sc.month.vals.contains mon &&
    (if sc.dom.star || sc.dow.star then domOk && dowOk else domOk || dowOk)

/-- is the instant `t` (ns since the epoch) an activation? -/
def hit (sc : Sched) (t : Int) : Bool := t % 60000000000 == 0 && hitMinute sc (t / 60000000000)

/-- the spec's reading of schedule strings -/
def hitOf (s : String) : Option (Int → Bool) := (parse s).map hit

end Karp.Spec.Cron
