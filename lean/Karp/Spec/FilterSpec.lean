/-
Independent specification for the `c01.filter` op: is an instance type that the NodeClaim keeps after a pod was added
FEASIBLE in the sense of property C01?  Written from the property text and the Kubernetes rules over the raw input
(selector EXPRESSIONS, resource lists, offerings with their overrides, daemon groups) — it does not use the requirement
algebra (`Karp.Model.Req`'s `Req`/`Reqs`) nor any function of `Karp.Model.Sched`:

  an instance type may stay among the launch options of the NodeClaim only if
  (a) it is one of the options the NodeClaim had, and for every label key that both the instance type and the claim's
      requirements constrain, SOME label value (or the label's absence) satisfies every expression of both sides under
      Kubernetes operator semantics;
  (b) it belongs to a daemon group none of whose host ports (held by other pods) conflicts with a host port of the pod
      (same port, same protocol, overlapping host IP);
  (c) it has an AVAILABLE offering such that, for every label key both the offering and the claim constrain, some
      value satisfies both, and such that a launch through THAT offering — capacity and overhead with that offering's
      overrides — holds, resource by resource, the summed requests plus the daemon requests of the group of (b).
-/
import Karp.Spec.Scenario
import Karp.Spec.K8sSelector
import Karp.Spec.Admissible

namespace Karp.Spec.Filter
open Karp.Req Karp.Scn Karp.Spec.K8s

abbrev Res := List (String × Int)

def entry? (r : Res) (k : String) : Option Int := (r.find? (fun p => p.1 == k)).map (·.2)
def qty (r : Res) (k : String) : Int := (entry? r k).getD 0

structure OfferingS where
  exprs : List KExpr
  available : Bool
  capOverride : Res
  ovhOverride : Option Res

structure ITS where
  name : String
  exprs : List KExpr
  capacity : Res
  overhead : Res
  offerings : List OfferingS

structure DaemonGroupS where
  its : List String
  overhead : Res
  usage : List (String × List HostPort)

structure Input where
  its : List ITS
  eligible : List String
  reqs : List KExpr
  podKey : String
  podPorts : List HostPort
  groups : List DaemonGroupS
  total : Res

/-! ### Resources: what a launch through one offering can hold -/

/-- allocatable of resource `k` for a launch of `it` through `o`: the capacity (the offering's override replaces the
    instance type's figure) minus the overhead (ditto); a resource the node does not have at all holds nothing -/
def allocOf (it : ITS) (o : OfferingS) (k : String) : Int :=
  let cap? := match entry? o.capOverride k with | some q => some q | none => entry? it.capacity k
  let ovh := match o.ovhOverride.bind (fun t => entry? t k) with | some q => q | none => qty it.overhead k
  match cap? with
  | some cap => cap - ovh
  | none => 0

/-- first resource whose summed request (pods placed so far + this pod, plus the daemons of the group) exceeds what the
    launch holds -/
def firstShort (it : ITS) (o : OfferingS) (total dOverhead : Res) : Option (String × Int × Int) :=
  let names := (total.map (·.1) ++ dOverhead.map (·.1)).eraseDups
  (names.map (fun k => (k, qty total k + qty dOverhead k, allocOf it o k))).find? (fun t => decide (t.2.1 > t.2.2))

/-! ### Labels: Kubernetes selector semantics on raw expressions -/

def onKey (es : List KExpr) (k : String) : List KExpr := es.filter (fun e => normalizeKey e.key == k)
def keysOf (es : List KExpr) : List String := (es.map (fun e => normalizeKey e.key)).eraseDups
def allMatch (es : List KExpr) (x : Option Val) : Bool := es.all (fun e => k8sMatch e.op e.vals x)

/-- some label value (or the label's absence) satisfies both expression lists on key `k` -/
def jointly (cands : List Val) (a b : List KExpr) (k : String) : Bool :=
  (none :: cands.map some).any (fun x => allMatch (onKey a k) x && allMatch (onKey b k) x)

/-- CLASSIFIES a failed key (never excuses one): the other side (instance type / offering) accepts the label's absence,
    the claim's expressions on the key do not, and they are of one of the two shapes Karpenter's requirement
    representation is known to read as "absent is fine" (recorded findings of C01). -/
def knownTag (cands : List Val) (claim other : List KExpr) (k : String) : Option String :=
  let ck := onKey claim k
  if !allMatch (onKey other k) none || allMatch ck none then none
  else if !(cands.any (fun v => allMatch ck (some v))) then some "empty-set-read-as-absent"
  else if ck.any (fun e => e.op == .notIn && !e.vals.isEmpty) &&
          ck.any (fun e => e.op == .exists_ || e.op == .gt || e.op == .lt || e.op == .gte || e.op == .lte) &&
          !ck.any (fun e => e.op == .in_ || e.op == .doesNotExist) then some "presence-lost-with-notin"
  else none

/-- keys both sides constrain on which no value satisfies both, each with its classification -/
def badKeys (cands : List Val) (claim other : List KExpr) : List (String × Option String) :=
  ((keysOf other).filter (fun k => (keysOf claim).contains k && !jointly cands other claim k)).map
    (fun k => (k, knownTag cands claim other k))

/-! ### Host ports -/

def realPorts (ps : List HostPort) : List HostPort := ps.filter (fun p => p.port != 0)

def groupPortClash (g : DaemonGroupS) (podKey : String) (podPorts : List HostPort) : Bool :=
  g.usage.any (fun (owner, ps) => owner != podKey &&
    (realPorts ps).any (fun a => (realPorts podPorts).any (fun b => Karp.Spec.Admissible.portConflict a b)))

/-! ### The verdict on one surviving instance type -/

structure Verdict where
  ok : Bool
  why : String := ""
  /-- classification of a violation for known-finding matching -/
  signature : String := "filter"

/-- `none` = no (group, offering) pair is feasible even when label failures of a known class are overlooked;
    `some tag?` = such a pair exists (tag = the known class that had to be overlooked, if any) -/
def launchable (inp : Input) (cands : List Val) (it : ITS) (strict : Bool) : Option (Option String) :=
  let gs := inp.groups.filter (fun g => g.its.contains it.name && !groupPortClash g inp.podKey inp.podPorts)
  gs.findSome? (fun g =>
    it.offerings.findSome? (fun o =>
      if !o.available then none
      else if (firstShort it o inp.total g.overhead).isSome then none
      else
        let bad := badKeys cands inp.reqs o.exprs
        if bad.isEmpty then some none
        else if strict then none
        else if bad.all (·.2.isSome) then some (bad.head?.bind (·.2))
        else none))

def explain (inp : Input) (cands : List Val) (it : ITS) : String :=
  let member := inp.groups.filter (fun g => g.its.contains it.name)
  if member.isEmpty then "it belongs to no daemon group" else
  let free := member.filter (fun g => !groupPortClash g inp.podKey inp.podPorts)
  if free.isEmpty then "every daemon group it belongs to uses a host port that conflicts with the pod's" else
  let av := it.offerings.filter (·.available)
  if av.isEmpty then "it has no available offering" else
  let compat := av.filter (fun o => (badKeys cands inp.reqs o.exprs).isEmpty)
  if compat.isEmpty then "no available offering satisfies the claim's requirements" else
  match free.head?, compat.head? with
  | some g, some o =>
    match firstShort it o inp.total g.overhead with
    | some (k, need, have_) => s!"no available offering that satisfies the claim's requirements holds the requests plus the daemon overhead (e.g. {k}: {need} requested, {have_} allocatable)"
    | none => "no single (daemon group, offering) pair is feasible"
  | _, _ => "no single (daemon group, offering) pair is feasible"

def survivorOK (inp : Input) (cands : List Val) (name : String) : Verdict :=
  if !inp.eligible.contains name then { ok := false, why := s!"{name} was not among the NodeClaim's options" } else
  match inp.its.find? (fun it => it.name == name) with
  | none => { ok := false, why := s!"{name} is not a known instance type" }
  | some it =>
    let bad := badKeys cands inp.reqs it.exprs
    match bad.find? (·.2.isNone) with
    | some (k, _) => { ok := false, why := s!"{name} kept although no value of label {k} satisfies both the instance type and the claim's requirements" }
    | none =>
    match launchable inp cands it true with
    | some _ =>
      match bad.head? with
      | some (k, some tag) => { ok := false, signature := tag, why := s!"[{tag}] {name} kept although no value of label {k} satisfies both the instance type and the claim's requirements" }
      | _ => { ok := true }
    | none =>
      match launchable inp cands it false, bad.head? with
      | some (some tag), _ => { ok := false, signature := tag, why := s!"[{tag}] {name} kept: {explain inp cands it}" }
      | some none, some (k, some tag) => { ok := false, signature := tag, why := s!"[{tag}] {name} kept although no value of label {k} satisfies both the instance type and the claim's requirements" }
      | _, _ => { ok := false, why := s!"{name} kept: {explain inp cands it}" }

def allSurvivorsOK (inp : Input) (cands : List Val) (names : List String) : Verdict :=
  match (names.map (survivorOK inp cands)).find? (fun v => !v.ok) with
  | some v => v
  | none => { ok := true }

end Karp.Spec.Filter
