/-
Independent specification for C19 (NodePool weight and price ordering are honoured), written from the
property text and the Kubernetes label rules, not from the code.  It shares only the vocabulary
(`Pool`, `IType`, `Offering`, `Req`, `Outcome`) with the model; every predicate is executable so the
driver can evaluate it on what the real code did.
-/
import Karp.Model.WeightOrder
import Karp.Model.PriceOrder
import Karp.Model.FirstSuccess

namespace Karp.Spec.WeightPrice
open Karp.WeightOrder Karp.PriceOrder Karp.FirstSuccess

/-! ## Weight order -/

/-- `a` may stand directly in front of `b`: larger weight first; equal weight: the name later in the
    alphabet first (bytewise), equal names in any order -/
def mayPrecede (a b : Pool) : Bool :=
  decide (b.weight < a.weight) || (decide (a.weight = b.weight) && !lexLt a.name b.name)

def adjacentOk : List Pool → Bool
  | [] => true
  | [_] => true
  | a :: b :: rest => mayPrecede a b && adjacentOk (b :: rest)

/-- the same pools, each as often as in the input -/
def sameMultiset (a b : List Pool) : Bool :=
  a.all (fun p => a.count p == b.count p) && b.all (fun p => a.count p == b.count p)

/-- what the ordering of the NodePools must look like -/
def weightOrderSpec (input output : List Pool) : Bool :=
  sameMultiset input output && adjacentOk output

/-! ## First feasible template -/

/-- "a lower-weight pool is used only if every higher-weight pool is infeasible":
    with the templates in weight order and one outcome per template, the pod opens its node from template `i`
    only if `i` is feasible and every earlier template plainly failed; it opens none only if no template
    qualifies that way (all fail, or the first that does not fail asks to wait for reserved capacity) -/
def qualifies (outs : List Outcome) (i : Nat) : Bool :=
  outs.getD i .fail == .ok && (outs.take i).all (· == .fail)

def chosenOk (outs : List Outcome) (chosen : Option Nat) : Bool :=
  match chosen with
  | some i => qualifies outs i
  | none => (List.range outs.length).all (fun i => !qualifies outs i)

/-! ## Price order -/

/-- Kubernetes label semantics of one node-selector term entry -/
def admits (r : Req) (v : String) : Bool :=
  match r.op with
  | .isIn => r.vals.any (· == v)
  | .notIn => r.vals.all (· != v)
  | .exists_ => true
  | .doesNotExist => false

/-- the labels an offering fixes on the node that would be launched from it -/
def offeringLabels (o : Offering) : List (String × String) := [(zoneKey, o.zone), (ctKey, o.ct)]

/-- an offering can be used for a node that has to satisfy `reqs` -/
def usable (reqs : List Req) (o : Offering) : Bool :=
  o.available && reqs.all (fun r =>
    match (offeringLabels o).lookup r.key with
    | some v => admits r v
    | none => true)

/-- `d` is strictly cheaper than `k`: some usable offering of `d` undercuts every usable offering of `k`
    (a type without a usable offering is dearer than any type that has one) -/
def strictlyCheaper (reqs : List Req) (d k : IType) : Bool :=
  (d.offerings.filter (usable reqs)).any (fun od =>
    (k.offerings.filter (usable reqs)).all (fun ok => decide (od.price < ok.price)))

/-- the instance types `kept` (by name) out of `options` when at most `n` may be sent:
    real options, no duplicates, as many as allowed, and no dropped option strictly cheaper than a kept one -/
def noDuplicates : List String → Bool
  | [] => true
  | x :: xs => !xs.contains x && noDuplicates xs

def cheapestKeptSpec (reqs : List Req) (n : Int) (options : List IType) (kept : List String) : Bool :=
  kept.all (fun nm => options.any (·.name == nm)) &&
  noDuplicates kept &&
  kept.length == min n.toNat options.length &&
  (options.filter (fun k => kept.contains k.name)).all (fun k =>
    (options.filter (fun d => !kept.contains d.name)).all (fun d => !strictlyCheaper reqs d k))

/-- a full ranking (no truncation): a rearrangement of the options in which no later one is strictly cheaper -/
def rankedSpec (reqs : List Req) (options : List IType) (ranked : List String) : Bool :=
  ranked.length == options.length &&
  (List.range (ranked.length + 1)).all (fun n => cheapestKeptSpec reqs n options (ranked.take n))

end Karp.Spec.WeightPrice
