/-
Independent specification for the DRA half of C17 (exclusive devices), written from the property text:
the state is the SET of holdings `(device, nodeclaim, instance type)`; nothing else is stored.

  * a template (potential) device belongs to one (nodeclaim, instance type): it is taken iff that very triple is held;
  * an in-cluster device is taken for (nodeclaim n, instance type i) iff it is allocated on the API server already, or
    some OTHER nodeclaim holds it (for any instance type), or n itself holds it for i.  (n holding it for a different
    instance type does not take it: the NodeClaim collapses to one instance type.)
  * committing adds holdings, releasing instance types of a nodeclaim removes exactly those holdings;
  * exclusivity: an in-cluster device is never held by two nodeclaims, no holding is recorded twice.
Core Lean only.
-/
namespace Karp.Spec.DraExclusive

structure Dev where
  name : String
  template : Bool
deriving Repr, DecidableEq, BEq

abbrev Holding := Dev × String × String      -- device, nodeclaim, instance type

def taken (prealloc : List String) (held : List Holding) (d : Dev) (nc it : String) : Bool :=
  if d.template then held.contains (d, nc, it)
  else prealloc.contains d.name ||
    held.any (fun h => h.1 == d && (h.2.1 != nc || h.2.2 == it))

/-- no in-cluster device is held by two nodeclaims; no holding twice -/
def exclusive (held : List Holding) : Option String :=
  match held.find? (fun h => !h.1.template && held.any (fun g => g.1 == h.1 && g.2.1 != h.2.1)) with
  | some h => some s!"device {h.1.name} is held by two NodeClaims"
  | none => if held.eraseDups.length != held.length then some "a holding is recorded twice" else none

inductive OpS
  | commit (nc : String) (pairs : List (String × Dev))
  | guarded (nc : String) (pairs : List (String × Dev))
  | release (nc : String) (its : List String)
deriving Repr

def showPair (p : String × Dev) : String := p.1 ++ "/" ++ p.2.name ++ (if p.2.template then "*" else "")

/-- the pairs a disciplined caller commits: first occurrence of each pair that is not taken -/
def free (prealloc : List String) (held : List Holding) (nc : String) (pairs : List (String × Dev)) : List (String × Dev) :=
  (pairs.filter (fun p => !taken prealloc held p.2 nc p.1)).eraseDups

/-- sequential unguarded commit: `none` = the tracker must refuse (a pair is already held by another nodeclaim, or by
    this nodeclaim for this instance type) -/
def commitAll (held : List Holding) (nc : String) : List (String × Dev) → Option (List Holding)
  | [] => some held
  | (it, d) :: rest =>
    if taken [] held d nc it then none else commitAll ((d, nc, it) :: held) nc rest

/-- expected observation and next state; `none` state = the sequence ends (refusal) -/
def step (prealloc : List String) (held : List Holding) : OpS → String × Option (List Holding)
  | .commit nc pairs =>
    match commitAll held nc pairs with
    | none => ("panic", none)
    | some h => ("ok", some h)
  | .guarded nc pairs =>
    let g := free prealloc held nc pairs
    ("granted:" ++ ",".intercalate (g.map showPair), some (g.map (fun p => (p.2, nc, p.1)) ++ held))
  | .release nc its => ("ok", some (held.filter (fun h => !(h.2.1 == nc && its.contains h.2.2))))

/-! ### The published claim allocations (`Results.DRAClaimAllocationMetadata`)

One entry per (ResourceClaim, instance type, device): the claim was allocated for NodeClaim `nc`; should the NodeClaim
collapse to instance type `it`, the claim gets `dev` (consuming `consumed` of its capacity when the device is
multi-allocatable).  The property, on these entries:
  * an exclusive in-cluster device appears for one NodeClaim only, at most once per instance type of it, and never if
    it is already allocated in the cluster;
  * a template device appears at most once per (NodeClaim, instance type);
  * a multi-allocatable device is not over-consumed: Σ over NodeClaims of the worst case over its instance types of the
    capacity consumed there ≤ the device's capacity;
  * a shared counter is not over-consumed: the units taken by the partitions that are in use in the cluster already,
    plus the same worst case of the units the counter-consuming devices allocated in this pass take, ≤ the counter
    (likewise the capacity of a multi-allocatable device that is partly consumed in the cluster already);
  * every claim got the number of devices it asked for, of the class it asked for, for every instance type it is
    allocated for, and a capacity request is accounted in full.

What an allocation consumes of a multi-allocatable device is NOT taken from what the implementation reports: it follows
from the device's capacity dimensions, their request policies and the claim's capacity requests by the rules of
resource.k8s.io/v1 (`CapacityRequestPolicy`, `CapacityRequestPolicyRange`): EVERY dimension of the device is consumed —
a dimension the request has no entry for at `requestPolicy.default`, without a default in full; a requested amount is
rounded up to the next valid value / to `min` / to the next `min + n·step`; an amount beyond all valid values or beyond
`max` cannot be allocated from this device at all; nor can a request that names a dimension the device does not have. -/

structure Entry where
  claim : String
  nc : String
  it : String
  dev : String
  pool : String
  cls : String          -- gpu | tmpl | shared | part, from the driver of the device
  template : Bool
  consumed : List (String × Int)   -- capacity dimension ↦ what the implementation reports as consumed (absent = 0)
deriving Repr

structure ClaimSpec where
  name : String
  cls : String
  count : Nat
  reqs : List (String × Int)       -- capacity dimension ↦ requested amount (class shared; no entry = not requested)
deriving Repr

def sumInt (l : List Int) : Int := l.foldl (· + ·) 0
def maxInt0 (l : List Int) : Int := l.foldl max 0

/-- one capacity dimension of a multi-allocatable device: its capacity, what allocations in the cluster consume already
    and its request policy (`default`; `validValues`; `validRange` = (min, max?, step?)) -/
structure SDim where
  dim : String
  cap : Int
  pre : Int
  default : Option Int := none
  values : List Int := []
  range : Option (Int × Option Int × Option Int) := none
deriving Repr

structure SDev where
  name : String
  dims : List SDim
deriving Repr

/-- the least of the values that are at least `r` -/
def leastAbove (r : Int) (vs : List Int) : Option Int :=
  match vs.filter (fun v => r ≤ v) with
  | [] => none
  | v :: rest => some (rest.foldl min v)

/-- what a request consumes of one dimension (`req` = the amount it asks for, `none` = no entry for the dimension);
    `none` = the device cannot be allocated for this request (resource.k8s.io/v1 CapacityRequestPolicy) -/
def SDim.consumption (d : SDim) : Option Int → Option Int
  | none => some (d.default.getD d.cap)
  | some r =>
    if !d.values.isEmpty then leastAbove r d.values
    else match d.range with
      | none => some r
      | some (mn, mx, st) =>
        -- below min: min; with a step: what the amount is over the grid min + n·step is filled up to a whole step
        let c := if r < mn then mn else
          match st with
          | none => r
          | some s => if (r - mn) % s == 0 then r else r + (s - (r - mn) % s)
        match mx with
        | none => some c
        | some m => if c > m then none else some c

/-- what claim `c` consumes of dimension `d` of a device it is allocated; `none` = not allocatable -/
def claimConsumes (c : ClaimSpec) (d : SDim) : Option Int := d.consumption (c.reqs.lookup d.dim)

/-- what the entry consumes of the dimension by the rules; where the rules say the device cannot be allocated at all (or
    the claim is unknown) what the implementation reports is taken (that entry is a violation of its own) -/
def entryConsumes (claims : List ClaimSpec) (d : SDim) (e : Entry) : Int :=
  match (claims.find? (·.name == e.claim)).bind (fun c => claimConsumes c d) with
  | some v => v
  | none => (e.consumed.lookup d.dim).getD 0

/-- worst-case consumption of dimension `d` of shared device `dev`: Σ over NodeClaims of the max over instance types -/
def worstCase (claims : List ClaimSpec) (entries : List Entry) (dev : String) (d : SDim) : Int :=
  let es := entries.filter (fun e => e.cls == "shared" && e.dev == dev)
  let ncs := (es.map (·.nc)).eraseDups
  sumInt (ncs.map (fun nc =>
    let its := ((es.filter (·.nc == nc)).map (·.it)).eraseDups
    maxInt0 (its.map (fun it => sumInt ((es.filter (fun e => e.nc == nc && e.it == it)).map (entryConsumes claims d))))))

/-- no dimension of a multi-allocatable device is over-consumed (a device from which the pass hands out nothing is not
    judged) -/
def capacityOK (shared : List SDev) (claims : List ClaimSpec) (entries : List Entry) : Option String :=
  shared.findSome? (fun sd => sd.dims.findSome? (fun d =>
    let w := worstCase claims entries sd.name d
    if w > 0 && d.pre + w > d.cap then
      some s!"multi-allocatable device {sd.name}: {d.pre} of {d.dim} consumed in the cluster already + worst-case consumption {w} of this pass exceeds its capacity {d.cap}"
    else none))

/-- a claim's share of a multi-allocatable device is what the rules say: it may be allocated at all, and every dimension
    of the device is accounted with exactly the amount the rules give -/
def shareOK (shared : List SDev) (c : ClaimSpec) (e : Entry) : Option String :=
  match shared.find? (·.name == e.dev) with
  | none => some s!"claim {c.name} got multi-allocatable device {e.dev}, which no published slice offers"
  | some sd =>
    match c.reqs.find? (fun r => !sd.dims.any (·.dim == r.1)) with
    | some r => some s!"claim {c.name} requests capacity {r.1}, which device {e.dev} does not have, yet it got that device"
    | none =>
      sd.dims.findSome? (fun d =>
        let got := (e.consumed.lookup d.dim).getD 0
        match claimConsumes c d with
        | none => some s!"claim {c.name} cannot be satisfied by {e.dev}: its request for {d.dim} violates the device's request policy, yet it got that device"
        | some want =>
          if got != want then
            some s!"claim {c.name} consumes {want} of {d.dim} of {e.dev} (request {c.reqs.lookup d.dim}, default {d.default}, capacity {d.cap}) but {got} is accounted"
          else none)

/-- a pool of counter-consuming devices (partitions of a partitionable device): the shared counter it declares and, per
    device, the units it consumes and whether it is already allocated in the cluster.  How the pool's slices are
    published (cluster-wide, node-local, by node selector, split over several slices) is deliberately NOT part of the
    specification: the counter is one budget whoever can reach the devices. -/
structure CPool where
  name : String
  slots : Int
  parts : List (String × Int × Bool)
deriving Repr

def CPool.has (p : CPool) (d : String) : Bool := p.parts.any (·.1 == d)
def CPool.weight (p : CPool) (d : String) : Int := ((p.parts.find? (·.1 == d)).map (·.2.1)).getD 0

/-- the units consumed by the partitions that are already allocated in the cluster -/
def CPool.preConsumed (p : CPool) : Int := sumInt ((p.parts.filter (·.2.2)).map (·.2.1))

/-- worst-case consumption of the pool's shared counter by the published allocations: Σ over NodeClaims of the max over
    instance types of the units the devices allocated there take -/
def worstCounter (p : CPool) (entries : List Entry) : Int :=
  let es := entries.filter (fun e => e.cls == "part" && e.pool == p.name)
  let ncs := (es.map (·.nc)).eraseDups
  sumInt (ncs.map (fun nc =>
    let its := ((es.filter (·.nc == nc)).map (·.it)).eraseDups
    maxInt0 (its.map (fun it => sumInt ((es.filter (fun e => e.nc == nc && e.it == it)).map (fun e => p.weight e.dev))))))

/-- no shared counter is over-consumed: what is in use in the cluster plus the worst case of what this pass hands out
    stays within the counter (a pool from which the pass hands out nothing is not judged: whatever the cluster did before
    is not this pass's doing) -/
def countersOK (pools : List CPool) (entries : List Entry) : Option String :=
  match entries.find? (fun e => e.cls == "part" && !pools.any (fun p => p.name == e.pool && p.has e.dev)) with
  | some e => some s!"claim {e.claim} got {e.pool}/{e.dev}, which no published slice offers"
  | none =>
    pools.findSome? (fun p =>
      let w := worstCounter p entries
      if w > 0 && p.preConsumed + w > p.slots then
        some s!"shared counter of pool {p.name} over-consumed: partitions already allocated in the cluster consume {p.preConsumed}, the partitions allocated in this pass up to {w}, the counter is {p.slots}"
      else none)

/-- the partitionable device an instance type is expected to come with (template partitions): its counter and the units
    each partition consumes; every (NodeClaim, instance type) has its own copy of the budget -/
structure TPool where
  it : String
  slots : Int
  parts : List (String × Int)
deriving Repr

/-- no template counter is over-consumed: for every NodeClaim and each of its instance types, the template partitions
    allocated there fit the counter that instance type comes with -/
def templateCountersOK (tpools : List TPool) (entries : List Entry) : Option String :=
  let es := entries.filter (fun e => e.cls == "tpart")
  es.findSome? (fun e =>
    match tpools.find? (·.it == e.it) with
    | none => some s!"claim {e.claim} got template partition {e.dev} for instance type {e.it}, which comes with no partitionable device"
    | some tp =>
      if !tp.parts.any (·.1 == e.dev) then some s!"claim {e.claim} got template partition {e.dev}, which instance type {e.it} does not have" else
      let used := sumInt ((es.filter (fun g => g.nc == e.nc && g.it == e.it)).map (fun g => ((tp.parts.find? (·.1 == g.dev)).map (·.2)).getD 0))
      if used > tp.slots then
        some s!"template counter of instance type {e.it} over-consumed for NodeClaim {e.nc}: the template partitions allocated there consume {used}, the counter is {tp.slots}"
      else none)

/-- `shared`: the multi-allocatable devices (capacity dimensions, what is consumed in the cluster already, policies) -/
def metaOK (prealloc : List String) (shared : List SDev) (pools : List CPool) (tpools : List TPool)
    (claims : List ClaimSpec) (entries : List Entry) : Option String :=
  let excl := entries.filter (fun e => e.cls == "gpu" || e.cls == "part")
  let tmpl := entries.filter (fun e => e.cls == "tmpl" || e.cls == "tpart")
  match excl.find? (fun e => excl.any (fun g => g.dev == e.dev && g.nc != e.nc)) with
  | some e => some s!"exclusive device {e.dev} is assigned to claims of two NodeClaims"
  | none =>
  let exTriples := excl.map (fun e => (e.dev, e.nc, e.it))
  if exTriples.eraseDups.length != exTriples.length then some "an exclusive device is assigned twice for one (NodeClaim, instance type)" else
  match excl.find? (fun e => prealloc.contains e.dev || pools.any (fun p => p.name == e.pool && p.parts.any (fun d => d.1 == e.dev && d.2.2))) with
  | some e => some s!"device {e.dev} is already allocated in the cluster, yet it is assigned to claim {e.claim}"
  | none =>
  let tTriples := tmpl.map (fun e => (e.dev, e.nc, e.it))
  if tTriples.eraseDups.length != tTriples.length then some "a template device is assigned twice for one (NodeClaim, instance type)" else
  if entries.any (fun e => (e.cls == "tmpl" || e.cls == "tpart") != e.template) then some "a template flag does not match the device's origin" else
  match capacityOK shared claims entries with
  | some w => some w
  | none =>
  match countersOK pools entries with
  | some w => some w
  | none =>
  match templateCountersOK tpools entries with
  | some w => some w
  | none =>
  entries.findSome? (fun e =>
    match claims.find? (·.name == e.claim) with
    | none => some s!"allocation for unknown claim {e.claim}"
    | some c =>
      let mine := entries.filter (fun g => g.claim == e.claim && g.it == e.it)
      if e.cls != c.cls then some s!"claim {c.name} asked for class {c.cls} and got device {e.dev} of class {e.cls}"
      else if mine.length != c.count then some s!"claim {c.name} asked for {c.count} device(s) and got {mine.length} for instance type {e.it}"
      -- (a multi-allocatable device may serve several slots of one request: each is a share of its own, all are summed)
      else if c.cls != "shared" && ((mine.map (·.dev)).eraseDups.length != mine.length) then some s!"claim {c.name} got the same device twice for instance type {e.it}"
      else if mine.any (fun g => g.nc != e.nc) then some s!"claim {c.name} is allocated for two NodeClaims"
      else if c.cls == "shared" then shareOK shared c e
      else none)

/-! ### Completeness in a whole pass: a placed pod's claims are allocated for every launch option of its NodeClaim -/

structure PassClaim where
  host : String
  pods : List String
  its : List String
deriving Repr

/-- `podClaims`: pod ↦ names of the ResourceClaims it references -/
def passComplete (claims : List ClaimSpec) (podClaims : List (String × List String)) (ncs : List PassClaim) (entries : List Entry) :
    Option String :=
  ncs.findSome? (fun c => c.pods.findSome? (fun p => ((podClaims.lookup p).getD []).findSome? (fun cn =>
    let es := entries.filter (·.claim == cn)
    match claims.find? (·.name == cn) with
    | none => none
    | some spec =>
      if es.isEmpty then some s!"pod {p} is placed on a NodeClaim but its claim {cn} has no allocation"
      else if es.all (·.nc == c.host) then
        c.its.findSome? (fun it =>
          if (es.filter (·.it == it)).length != spec.count then
            some s!"pod {p} is placed on a NodeClaim that may launch as {it}, for which its claim {cn} has {(es.filter (·.it == it)).length} device(s) instead of {spec.count}"
          else none)
      else if es.any (·.template) then some s!"pod {p} uses claim {cn}, which is bound to template (node-local) devices of another NodeClaim"
      else none)))

end Karp.Spec.DraExclusive
