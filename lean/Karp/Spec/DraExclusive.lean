/-
Independent specification for the DRA half of C17 (exclusive devices), written from the property text:
the state is the SET of holdings `(device, nodeclaim, instance type)`; nothing else is stored.

  * a template (potential) device belongs to one (nodeclaim, instance type): it is taken iff that very triple is held;
  * an in-cluster device is taken for (nodeclaim n, instance type i) iff it is allocated on the API server already, or
    some OTHER nodeclaim holds it (for any instance type), or n itself holds it for i.  (n holding it for a different
    instance type does not take it: the NodeClaim collapses to one instance type.)
  * committing adds holdings, releasing instance types of a nodeclaim removes exactly those holdings;
  * exclusivity: an in-cluster device is never held by two nodeclaims, no holding is recorded twice.
Core Lean only.
-/
namespace Karp.Spec.DraExclusive

structure Dev where
  name : String
  template : Bool
deriving Repr, DecidableEq, BEq

abbrev Holding := Dev × String × String      -- device, nodeclaim, instance type

def taken (prealloc : List String) (held : List Holding) (d : Dev) (nc it : String) : Bool :=
  if d.template then held.contains (d, nc, it)
  else prealloc.contains d.name ||
    held.any (fun h => h.1 == d && (h.2.1 != nc || h.2.2 == it))

/-- no in-cluster device is held by two nodeclaims; no holding twice -/
def exclusive (held : List Holding) : Option String :=
  match held.find? (fun h => !h.1.template && held.any (fun g => g.1 == h.1 && g.2.1 != h.2.1)) with
  | some h => some s!"device {h.1.name} is held by two NodeClaims"
  | none => if held.eraseDups.length != held.length then some "a holding is recorded twice" else none

inductive OpS
  | commit (nc : String) (pairs : List (String × Dev))
  | guarded (nc : String) (pairs : List (String × Dev))
  | release (nc : String) (its : List String)
deriving Repr

def showPair (p : String × Dev) : String := p.1 ++ "/" ++ p.2.name ++ (if p.2.template then "*" else "")

/-- the pairs a disciplined caller commits: first occurrence of each pair that is not taken -/
def free (prealloc : List String) (held : List Holding) (nc : String) (pairs : List (String × Dev)) : List (String × Dev) :=
  (pairs.filter (fun p => !taken prealloc held p.2 nc p.1)).eraseDups

/-- sequential unguarded commit: `none` = the tracker must refuse (a pair is already held by another nodeclaim, or by
    this nodeclaim for this instance type) -/
def commitAll (held : List Holding) (nc : String) : List (String × Dev) → Option (List Holding)
  | [] => some held
  | (it, d) :: rest =>
    if taken [] held d nc it then none else commitAll ((d, nc, it) :: held) nc rest

/-- expected observation and next state; `none` state = the sequence ends (refusal) -/
def step (prealloc : List String) (held : List Holding) : OpS → String × Option (List Holding)
  | .commit nc pairs =>
    match commitAll held nc pairs with
    | none => ("panic", none)
    | some h => ("ok", some h)
  | .guarded nc pairs =>
    let g := free prealloc held nc pairs
    ("granted:" ++ ",".intercalate (g.map showPair), some (g.map (fun p => (p.2, nc, p.1)) ++ held))
  | .release nc its => ("ok", some (held.filter (fun h => !(h.2.1 == nc && its.contains h.2.2))))

/-! ### The published claim allocations (`Results.DRAClaimAllocationMetadata`)

One entry per (ResourceClaim, instance type, device): the claim was allocated for NodeClaim `nc`; should the NodeClaim
collapse to instance type `it`, the claim gets `dev` (consuming `consumed` of its capacity when the device is
multi-allocatable).  The property, on these entries:
  * an exclusive in-cluster device appears for one NodeClaim only, at most once per instance type of it, and never if
    it is already allocated in the cluster;
  * a template device appears at most once per (NodeClaim, instance type);
  * a multi-allocatable device is not over-consumed: Σ over NodeClaims of the worst case over its instance types of the
    capacity consumed there ≤ the device's capacity;
  * a shared counter is not over-consumed: the same worst case of the units the allocated counter-consuming devices
    take ≤ the counter;
  * every claim got the number of devices it asked for, of the class it asked for, for every instance type it is
    allocated for, and a capacity request is accounted in full. -/

structure Entry where
  claim : String
  nc : String
  it : String
  dev : String
  cls : String          -- gpu | tmpl | shared, from the driver of the device
  template : Bool
  consumed : Int
deriving Repr

structure ClaimSpec where
  name : String
  cls : String
  count : Nat
  cap : Int
deriving Repr

def sumInt (l : List Int) : Int := l.foldl (· + ·) 0
def maxInt0 (l : List Int) : Int := l.foldl max 0

/-- worst-case consumption of shared device `d`: Σ over NodeClaims of the max over instance types -/
def worstCase (entries : List Entry) (d : String) : Int :=
  let es := entries.filter (fun e => e.cls == "shared" && e.dev == d)
  let ncs := (es.map (·.nc)).eraseDups
  sumInt (ncs.map (fun nc =>
    let its := ((es.filter (·.nc == nc)).map (·.it)).eraseDups
    maxInt0 (its.map (fun it => sumInt ((es.filter (fun e => e.nc == nc && e.it == it)).map (·.consumed))))))

/-- worst-case consumption of the shared counter by the counter-consuming devices (`weights`: device ↦ units):
    Σ over NodeClaims of the max over instance types -/
def worstCounter (weights : List (String × Int)) (entries : List Entry) : Int :=
  let es := entries.filter (fun e => e.cls == "part")
  let ncs := (es.map (·.nc)).eraseDups
  sumInt (ncs.map (fun nc =>
    let its := ((es.filter (·.nc == nc)).map (·.it)).eraseDups
    maxInt0 (its.map (fun it => sumInt ((es.filter (fun e => e.nc == nc && e.it == it)).map (fun e => (weights.lookup e.dev).getD 0))))))

def metaOK (prealloc : List String) (sharedCap : List (String × Int)) (weights : List (String × Int)) (slots : Int)
    (claims : List ClaimSpec) (entries : List Entry) : Option String :=
  let excl := entries.filter (fun e => e.cls == "gpu" || e.cls == "part")
  let tmpl := entries.filter (fun e => e.cls == "tmpl")
  match excl.find? (fun e => excl.any (fun g => g.dev == e.dev && g.nc != e.nc)) with
  | some e => some s!"exclusive device {e.dev} is assigned to claims of two NodeClaims"
  | none =>
  let exTriples := excl.map (fun e => (e.dev, e.nc, e.it))
  if exTriples.eraseDups.length != exTriples.length then some "an exclusive device is assigned twice for one (NodeClaim, instance type)" else
  match excl.find? (fun e => prealloc.contains e.dev) with
  | some e => some s!"device {e.dev} is already allocated in the cluster, yet it is assigned to claim {e.claim}"
  | none =>
  let tTriples := tmpl.map (fun e => (e.dev, e.nc, e.it))
  if tTriples.eraseDups.length != tTriples.length then some "a template device is assigned twice for one (NodeClaim, instance type)" else
  if entries.any (fun e => (e.cls == "tmpl") != e.template) then some "a template flag does not match the device's origin" else
  match sharedCap.find? (fun (d, c) => worstCase entries d > c) with
  | some (d, c) => some s!"multi-allocatable device {d}: worst-case consumption {worstCase entries d} exceeds its capacity {c}"
  | none =>
  if worstCounter weights entries > slots then
    some s!"shared counter: worst-case consumption {worstCounter weights entries} by the allocated partitions exceeds the counter {slots}" else
  entries.findSome? (fun e =>
    match claims.find? (·.name == e.claim) with
    | none => some s!"allocation for unknown claim {e.claim}"
    | some c =>
      let mine := entries.filter (fun g => g.claim == e.claim && g.it == e.it)
      if e.cls != c.cls then some s!"claim {c.name} asked for class {c.cls} and got device {e.dev} of class {e.cls}"
      else if mine.length != c.count then some s!"claim {c.name} asked for {c.count} device(s) and got {mine.length} for instance type {e.it}"
      else if ((mine.map (·.dev)).eraseDups.length != mine.length) then some s!"claim {c.name} got the same device twice for instance type {e.it}"
      else if mine.any (fun g => g.nc != e.nc) then some s!"claim {c.name} is allocated for two NodeClaims"
      else if c.cls == "shared" && e.consumed < c.cap then some s!"claim {c.name} asked for capacity {c.cap} of {e.dev} but only {e.consumed} is accounted"
      else none)

/-! ### Completeness in a whole pass: a placed pod's claims are allocated for every launch option of its NodeClaim -/

structure PassClaim where
  host : String
  pods : List String
  its : List String
deriving Repr

/-- `podClaims`: pod ↦ names of the ResourceClaims it references -/
def passComplete (claims : List ClaimSpec) (podClaims : List (String × List String)) (ncs : List PassClaim) (entries : List Entry) :
    Option String :=
  ncs.findSome? (fun c => c.pods.findSome? (fun p => ((podClaims.lookup p).getD []).findSome? (fun cn =>
    let es := entries.filter (·.claim == cn)
    match claims.find? (·.name == cn) with
    | none => none
    | some spec =>
      if es.isEmpty then some s!"pod {p} is placed on a NodeClaim but its claim {cn} has no allocation"
      else if es.all (·.nc == c.host) then
        c.its.findSome? (fun it =>
          if (es.filter (·.it == it)).length != spec.count then
            some s!"pod {p} is placed on a NodeClaim that may launch as {it}, for which its claim {cn} has {(es.filter (·.it == it)).length} device(s) instead of {spec.count}"
          else none)
      else if es.any (·.template) then some s!"pod {p} uses claim {cn}, which is bound to template (node-local) devices of another NodeClaim"
      else none)))

end Karp.Spec.DraExclusive
