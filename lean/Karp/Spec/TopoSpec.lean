/-
Executable statement of what the property demands of one `TopologyGroup.Get` answer, evaluated on a snapshot of
the *implementation's* counters (`c02.group` "spec" verdict).  These are the boolean forms of the conclusions of
the `C02_*` theorems; `Karp/Props/C02.lean` proves that every answer of the model satisfies them.
Core Lean only.
-/
import Karp.Model.Topo

namespace Karp.Spec.Topo
open Karp.Req Karp.Topo

/-- required anti-affinity: every offered domain holds no matching pod -/
def antiOK (snap : DMap) (out : List Val) : Bool := out.all (fun d => snap.cnt d == 0)

/-- required affinity: every offered domain is allowed by the pod and holds a match, or the pod matches its own
    term, no registered domain it can use holds a match, and exactly one domain is offered -/
def affinityOK (snap : DMap) (self : Bool) (podHas : Val → Bool) (out : List Val) : Bool :=
  out.all (fun d => podHas d &&
    (decide (0 < snap.cnt d) ||
      (self && out.eraseDups.length == 1 && snap.all (fun p => !podHas p.1 || p.2 == 0))))

/-- the kube-scheduler global minimum over the registered domains that count (zero for hostname, zero while
    fewer than `minDomains` domains are eligible) -/
def globalMin (snap : DMap) (isHost : Bool) (minDomains : Option Int) (counts : Val → Bool) : Int :=
  if isHost then 0 else
  let elig := snap.filter (fun p => counts p.1)
  let few := match minDomains with
    | some md => decide ((elig.length : Int) < md)
    | none => false
  if few then 0 else elig.foldl (fun m p => min m (p.2 : Int)) maxI32

/-- DoNotSchedule spread: at most one domain is offered, and with the pod counted in it stays within maxSkew of
    the global minimum -/
def spreadOK (snap : DMap) (isHost : Bool) (maxSkew : Int) (minDomains : Option Int) (self : Bool)
    (counts : Val → Bool) (out : List Val) : Bool :=
  decide (out.eraseDups.length ≤ 1) &&
  out.all (fun d => decide ((snap.cnt d : Int) + selfInc self - globalMin snap isHost minDomains counts ≤ maxSkew))

/-- the side index: `emptyDomains` is exactly the registered domains with count zero -/
def indexOK (snap : DMap) (empty : List Val) : Bool :=
  empty.all (fun d => snap.cnt? d == some 0) && snap.all (fun p => p.2 != 0 || empty.contains p.1) &&
  empty.eraseDups.length == empty.length

end Karp.Spec.Topo
