import Karp.Driver.All
open Lean Karp.Driver

/-- Dispatch one request line. Any failure is reported as `{"err": ...}`; the driver never
    invents a default answer. -/
def handleLine (line : String) : Json :=
  match Json.parse line with
  | .error e => Json.mkObj [("err", Json.str s!"parse: {e}")]
  | .ok j =>
    match (do
      let op ← strF j "op"
      let inp ← fld j "in"
      let impl := (fldOpt j "impl").getD Json.null
      let h ← Karp.Driver.dispatch op
      h op inp impl : Except String Resp) with
    | .ok r => r.toJson
    | .error e => Json.mkObj [("err", Json.str e)]

partial def loop (hin hout : IO.FS.Stream) : IO Unit := do
  let line ← hin.getLine
  if line.isEmpty then return ()
  let t := line.trimAscii.toString
  if t.isEmpty then
    loop hin hout
  else
    hout.putStrLn (handleLine t).compress
    hout.flush
    loop hin hout

def main : IO Unit := do
  let hin ← IO.getStdin
  let hout ← IO.getStdout
  loop hin hout
  hout.flush
