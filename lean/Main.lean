import Karp.Driver.All
import Karp.Driver.Loop

/-- the all-in-one driver (every property); `check` uses the per-property drivers `Mains/Cxx.lean` so that a change which
    breaks one property's model does not take the other properties' sweeps down with it -/
def main : IO Unit := Karp.Driver.runDriver Karp.Driver.dispatch
