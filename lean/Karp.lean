-- Root of the `Karp` library: every property file and the driver.
import Karp.Driver.All
import Karp.Props.C20
