#!/usr/bin/env python3
import json,sys
r=json.load(open(sys.argv[1]))
print('WHY:',r.get('why')); s=r['in']; out=r['impl']
def brief(p):
    d={'name':p['name'],'labels':p.get('labels')}
    if p.get('namespace'): d['namespace']=p['namespace']
    if p.get('owner'): d['owner']=p['owner']
    for k in ('nodeSelector','required','tolerations','affinity','spreads'):
        if p.get(k): d[k]=p[k]
    return d
# (anti-)affinity terms print with their namespaces / namespaceSelector ({} = all namespaces) / matchLabelKeys / matchExprs
if s.get('namespaces'): print('NAMESPACES',json.dumps(s['namespaces']))
# API faults of the pass (the Nth List of a kind fails once) and those that fired; cluster-default spread constraints with the
# Services / ReplicaSets the per-pod selector is deduced from (pods print their controller as "owner")
if s.get('listFaults'): print('LIST FAULTS',json.dumps(s['listFaults']),'fired',out.get('faults'))
if out.get('err'): print('PASS ERROR',out.get('err'))
if s.get('defaultSpreads'):
    print('DEFAULT SPREADS',json.dumps([{k:v for k,v in d.items() if v is not None} for d in s['defaultSpreads']]))
    print('  SERVICES',json.dumps(s.get('services'))); print('  REPLICASETS',json.dumps(s.get('replicaSets')))
print('PENDING'); 
for p in s['pods']: print('  ',json.dumps(brief(p)))
print('NODES')
for n in s['nodes']:
    print('  ',n['name'],n['pool'],n['it'],n['zone'],n['capacityType'],n['stage'],'DELETING' if n.get('deleting') else '',n.get('labels'),n.get('taints'))
    for p in n.get('pods') or []: print('       bound',json.dumps(brief(p)))
print('OUT existing',out.get('existing'))
for i,c in enumerate(out.get('claims') or []):
    print('  claim',i,c['pool'],c['pods'],c['instanceTypes'], {k:(('NOT' if v['complement'] else '')+str(v['values'])) for k,v in c['reqs'].items() if 'zone' in k or 'capacity' in k})
print('errors',out.get('errors'))
for p in s['pools']: print('POOL',json.dumps({k:v for k,v in p.items() if v}))
print('ITS',[ (i['name'],[(o['zone'],o['capacityType'],o['available']) for o in i['offerings']]) for i in s['its']])
