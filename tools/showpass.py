#!/usr/bin/env python3
"""tools/showpass.py <replay.json> — pretty-print the failing pod / node / claim of a whole-pass replay"""
import json,sys,re
r=json.load(open(sys.argv[1]))
print('WHY:',r.get('why')); s=r['in']; out=r['impl']
m=re.search(r'pod (\S+):',r.get('why') or ''); pn=m.group(1) if m else None
allpods=s['pods']+[p for n in s['nodes'] for p in (n.get('pods') or [])]
for p in allpods:
    if p['name']==pn: print('POD',json.dumps({k:v for k,v in p.items() if v}))
for e in out.get('existing') or []:
    if pn in e['pods']:
        print('ON EXISTING',e)
        for n in s['nodes']:
            if n['name']==e['node']: print('NODE',json.dumps({k:(v if k!='pods' else [q['name'] for q in v]) for k,v in n.items() if v}))
for c in out.get('claims') or []:
    if pn in c['pods'] or not pn:
        print('CLAIM pool',c['pool'],'pods',c['pods'],'its',c['instanceTypes'],'req',c['reqCPU'],c['reqMem'])
        for k,v in c['reqs'].items():
            if k.startswith('karpenter.sh/init') or k.startswith('karpenter.sh/reg') or 'testnodeclass' in k: continue
            print('   ',k,'complement' if v['complement'] else 'in',v['values'],v['gte'],v['lte'],v['minValues'])
# storage of the failing pod: claim -> bound PV terms / storage class topologies
pvcs={(c.get('namespace') or 'default',c['name']):c for c in s.get('pvcs') or []}
pvs={v['name']:v for v in s.get('pvs') or []}; scs={c['name']:c for c in s.get('storageClasses') or []}
for p in allpods:
    if p['name']==pn or (not pn and p.get('volumes')):
        for v in p.get('volumes') or []:
            c=pvcs.get((p.get('namespace') or 'default',v['claim']))
            if not c: print('   VOLUME',p['name'],v['name'],'claim',v['claim'],'DOES NOT EXIST'); continue
            if c.get('volumeName'): print('   VOLUME',p['name'],v['name'],'claim',v['claim'],'bound to',c['volumeName'],'terms',json.dumps((pvs.get(c['volumeName']) or {'terms':'PV DOES NOT EXIST'}).get('terms')))
            else: print('   VOLUME',p['name'],v['name'],'claim',v['claim'],'unbound, class',c.get('storageClass'),json.dumps(scs.get(c.get('storageClass'))))
if s.get('namespaces'): print('NAMESPACES',json.dumps(s['namespaces']))
if s.get('listFaults'): print('LIST FAULTS',json.dumps(s['listFaults']),'fired',out.get('faults'))
if out.get('err'): print('PASS ERROR',out.get('err'))
if s.get('defaultSpreads'): print('DEFAULT SPREADS',json.dumps(s['defaultSpreads']),'SERVICES',json.dumps(s.get('services')),'REPLICASETS',json.dumps(s.get('replicaSets')))
for p in s['pools']: print('POOL',json.dumps({k:v for k,v in p.items() if v}))
print('ITS',[ (i['name'],i['cpu'],i['overheadCPU'],i['pods'],[(o['zone'],o['capacityType'],o['available']) for o in i['offerings']]) for i in s['its']])
print('DS',json.dumps(s['daemonsets']))
print('opts',{k:s[k] for k in ('ignorePreferences','bestEffortMinValues','parallelism','reservedCapacity')})
