#!/bin/sh
# tools/mkworkspace.sh <name>  — scratch copy of /verif + its own worktree of /repo under /tmp/w/<name>
set -e
N=$1
W=/tmp/w/$N
mkdir -p /tmp/w
rm -rf $W
mkdir -p $W
git -C /repo worktree prune
git -C /repo worktree add -q --detach $W/repo HEAD
rsync -a --exclude .git --exclude replays /verif/ $W/verif/
echo $W/repo > $W/verif/.repo_path
git -C /verif rev-parse --short HEAD > $W/verif/.base_commit
sed -i "s#=> /repo#=> $W/repo#" $W/verif/harness/go.mod
mkdir -p $W/verif/replays
echo "workspace $W ready (repo worktree: $W/repo, verif copy: $W/verif)"
