#!/usr/bin/env python3
"""tools/mkasbuilt.py — regenerate the generated tables at the end of DESIGN.md §8 (between the AS-BUILT markers) from
manifest/*.json, known_findings.json, evidence/*.json, seeded/*/meta.json and seeded/RESULTS.json."""
import json, os, re, glob

V = '/verif'
props = [json.loads(l) for l in open(f'{V}/properties.jsonl')]
kf = json.load(open(f'{V}/known_findings.json'))
man = json.load(open(f'{V}/MANIFEST.json'))
claimed = {c['property_id']: c for c in man['checks']}
na = {x['property_id']: x for x in man.get('not_applicable', [])}
res = {}
if os.path.exists(f'{V}/seeded/RESULTS.json'):
    res = json.load(open(f'{V}/seeded/RESULTS.json'))


def esc(s):
    return s.replace('|', '\\|').replace('\n', ' ')


out = []
out.append('### 8.6 Status per property (generated)\n')
out.append('| id | status | theorems | correspondence ops (quick-tier evaluations) | Lean files |')
out.append('|---|---|---|---|---|')
for p in props:
    i = p['id']
    if i in claimed:
        ev = {}
        if os.path.exists(f'{V}/evidence/{i}.json'):
            ev = json.load(open(f'{V}/evidence/{i}.json')).get('coverage', {})
        th = len(ev.get('theorems', []))
        ops = ', '.join(f"{o['op']} ({o['evaluations']})" for o in ev.get('correspondence_ops', []))
        src = open(f'{V}/lean/Karp/Props/{i}.lean').read()
        imps = sorted(set(re.findall(r'^import (Karp\.[\w.]+)', src, re.M)))
        out.append(f"| {i} | claimed, level proof | {th} | {esc(ops)} | {esc(', '.join(imps))} |")
    else:
        out.append(f"| {i} | not claimed | – | – | {esc(na.get(i, {}).get('reason', ''))[:300]} |")
out.append('')
out.append('What each claimed check covers and what it leaves modelled-not-verified is the `text` / `note` of its entry in MANIFEST.json (source: `manifest/Cxx.json`).\n')

out.append('### 8.7 Defects of karpenter found by the checks (generated from known_findings.json)\n')
out.append('Repaired (`fix:` commits in /repo):\n')
out.append('| property | commit | what failed |')
out.append('|---|---|---|')
for f in kf['fixed']:
    w = re.sub(r'^fixed: property=\w+ ([0-9a-f]{9} )?', '', f['what'])
    out.append(f"| {f['property']} | {f['commit']} | {esc(w)[:420]} |")
out.append('')
out.append('Recorded as known findings (repair not small, or behaviour deliberate upstream; each is printed as `KNOWN-FINDING:` when it reproduces and suppresses only its own op pattern + signature):\n')
out.append('| id | op pattern | signature | what fails |')
out.append('|---|---|---|---|')
for f in kf['findings']:
    out.append(f"| {f['id']} | {f['op']} | {f.get('signature', '')} | {esc(f['what'])[:520]} |")
out.append('')

out.append('### 8.8 Seeded breaking changes and which check catches them (generated from seeded/)\n')
out.append('Four waves of four per property: `Cxx-1..4`, `Cxx-5..8`, `Cxx-9..12`, `Cxx-13..16` (every later wave was told which functions and mechanisms the earlier ones had used and asked for different ones: helper functions, rarely-set fields, error paths, aliasing, caching). Each change was produced by a fresh sub-agent that saw only the property text and a scratch worktree of /repo (nothing from /verif), then confirmed by the coordinator (`tools/verifyseeded.py`: compiles, the offline baseline tests pass, the demo passes without and fails with the patch). `tools/seededmatrix.py` applies each patch to a worktree of /repo, runs the quick check of the property (plus the properties listed for that change in `seeded/EXTRA.json`, where the change breaks a neighbouring property more directly), restores the tree, and records the outcome in `seeded/RESULTS.json`. Misses of a wave were handed to strengthening rounds (generators, new ops, new facts; never a loosened oracle) until caught; what is still missed is listed as MISSED below.\n')
n=len(res); c=sum(1 for r in res.values() if r.get('result')=='caught'); ci=sum(1 for r in res.values() if r.get('result')=='caught' and r.get('kind','').startswith('spec'))
out.append(f'Totals: {n} confirmed changes run, {c} caught ({ci} with a concrete failing input, {c-ci} as a broken obligation/correspondence), {n-c} missed.\n')
if os.path.exists(f'{V}/seeded/RESULTS_seed2.json'):
    r2 = json.load(open(f'{V}/seeded/RESULTS_seed2.json'))
    c2 = sum(1 for r in r2.values() if r.get('result') == 'caught')
    miss2 = sorted(k for k, r in r2.items() if r.get('result') != 'caught')
    out.append(f'Robustness: the same matrix run again with `VERIF_SEED=2` (other generated inputs; corpus witnesses and enumerations are the same): {c2} of {len(r2)} caught' + (f"; not caught at that seed: {', '.join(miss2)} (then strengthened, see the notes in the table)" if miss2 else '') + '. Detections that depended on the seed during the rounds (C01-4, C13-8, C13-10, C13-14, C18-16) were made robust by generator changes or corpus witnesses.\n')
out.append('| seeded change | files | what it breaks | result |')
out.append('|---|---|---|---|')
for d in sorted(glob.glob(f'{V}/seeded/C*-*')):
    n = os.path.basename(d)
    m = json.load(open(f'{d}/meta.json')) if os.path.exists(f'{d}/meta.json') else {}
    files = ', '.join(os.path.basename(x) for x in m.get('files', []))[:80]
    r = res.get(n, {})
    rs = r.get('result', 'not run')
    if r.get('by'):
        rs += f" by ./check {r['by']}"
    if r.get('kind'):
        rs += f" ({r['kind']})"
    if r.get('note'):
        rs += f" — {r['note']}"
    out.append(f"| {n} | {esc(files)} | {esc(m.get('summary', ''))[:260]} | {esc(rs)} |")
out.append('')

block = '\n'.join(out)
p = f'{V}/DESIGN.md'
s = open(p).read()
B, E = '<!-- AS-BUILT:BEGIN (generated by tools/mkasbuilt.py) -->', '<!-- AS-BUILT:END -->'
if B in s:
    s = s[:s.index(B)] + B + '\n\n' + block + '\n' + E + s[s.index(E) + len(E):]
else:
    s = s.rstrip('\n') + '\n\n' + B + '\n\n' + block + '\n' + E + '\n'
open(p, 'w').write(s)
print('DESIGN.md §8.6-8.8 regenerated')
