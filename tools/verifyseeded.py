#!/usr/bin/env python3
"""tools/verifyseeded.py <Cxx> <mutant-root (/tmp/m/Cxx)> — confirm each seeded change independently in its scratch worktree
(clean: demo passes; patched: compiles, demo fails, offline baseline tests of touched packages pass), then store it under
/verif/seeded/<Cxx>-<k>/ with what was run."""
import subprocess,sys,os,json,shutil
prop,root=sys.argv[1],sys.argv[2]
wt=os.path.join(root,'repo'); out=os.path.join(root,'out')
ENV=dict(os.environ,PATH='/opt/veriftools/go1.26.8/bin:'+os.environ['PATH'],GOFLAGS='-mod=mod',GOPROXY='off',GOSUMDB='off',GOTOOLCHAIN='local')
def sh(cmd,cwd=None,timeout=1800):
    r=subprocess.run(cmd,shell=True,cwd=cwd,env=ENV,capture_output=True,text=True,timeout=timeout)
    return r.returncode,(r.stdout+r.stderr)[-1500:]
BASE="go test -count=1 ./pkg/scheduling/ ./pkg/utils/resources/ ./pkg/utils/pod/ ./pkg/utils/ringbuffer/ ./pkg/state/nodepoolhealth/ ./pkg/utils/pretty/ ./pkg/utils/atomic/ ./pkg/events/ ./pkg/metrics/ ./pkg/operator/options/ ./pkg/state/prediction/ ./pkg/state/virtualpods/ ./pkg/utils/controller/ ./pkg/utils/daemonset/ && go test -count=1 -run 'TestCloudProvider$' ./pkg/cloudprovider/ && go test -count=1 -run 'TestCommand_String|TestConsolidationCandidateEvent|TestGetCommandEstimatedSavings|TestGetValidationFailureReason|TestLogValues_PodCount' ./pkg/controllers/disruption/"
for k in sorted(os.listdir(out)):
    d=os.path.join(out,k); pf=os.path.join(d,'patch.diff'); run=os.path.join(d,'demo','run.sh')
    if not (os.path.exists(pf) and os.path.exists(run)): continue
    sh('git checkout -- . && git clean -fdq',wt)
    log={}
    rc,o=sh(f'bash {run} {wt}',wt); log['clean_demo_exit']=rc
    rc2,o2=sh(f'git apply {pf}',wt); log['patch_applies']=(rc2==0)
    rc3,o3=sh('go build ./...',wt); log['patched_build_ok']=(rc3==0)
    rc4,o4=sh(f'bash {run} {wt}',wt); log['patched_demo_exit']=rc4
    rc5,o5=sh(BASE,wt,3600); log['patched_offline_tests_ok']=(rc5==0)
    sh('git checkout -- . && git clean -fdq',wt)
    ok = log['clean_demo_exit']==0 and log['patch_applies'] and log['patched_build_ok'] and log['patched_demo_exit']!=0 and log['patched_offline_tests_ok']
    print(prop,k,'CONFIRMED' if ok else 'REJECTED',log, '' if ok else (o5 if not log['patched_offline_tests_ok'] else o4)[-300:])
    if ok:
        dst=f'/verif/seeded/{prop}-{k}'
        shutil.rmtree(dst,ignore_errors=True); os.makedirs(dst)
        shutil.copy(pf,dst); shutil.copytree(os.path.join(d,'demo'),os.path.join(dst,'demo'))
        meta=json.load(open(os.path.join(d,'meta.json'))) if os.path.exists(os.path.join(d,'meta.json')) else {}
        meta['property']=prop
        meta['confirmed_by_coordinator']={'ran':'tools/verifyseeded.py: clean worktree run.sh -> exit 0; git apply patch.diff; go build ./... ok; run.sh -> exit %d; offline baseline tests of the listed packages pass with the patch'%log['patched_demo_exit'],**log}
        json.dump(meta,open(os.path.join(dst,'meta.json'),'w'),indent=1)
