#!/usr/bin/env python3
"""tools/mergews.py <Cxx> [--apply] — list (and copy) the files a builder agent changed in /tmp/w/Cxx/verif relative to the
base snapshot /tmp/w/base; shared files are reported, never copied."""
import os,sys,filecmp,shutil
prop=sys.argv[1]; apply='--apply' in sys.argv
ws=f'/tmp/w/{prop}/verif'; base='/tmp/w/base'
import subprocess
bc=os.path.join(ws,'.base_commit')
if os.path.exists(bc):
    c=open(bc).read().strip(); base=f'/tmp/w/base-{c}'
    if not os.path.exists(base): subprocess.run(['git','-C','/verif','worktree','add','-q','--detach',base,c],check=True)
SKIP_DIRS={'.git','.lake','bin','replays','evidence','__pycache__'}
SHARED={'check','setup.sh','MANIFEST.json','DESIGN.md','properties.jsonl','harness/go.mod','harness/go.sum','lean/Main.lean','lean/Karp.lean','lean/lakefile.toml',
        'lean/Karp/Driver/All.lean','lean/Karp/Driver/Proto.lean','harness/cmd/kdiff/main.go','harness/cmd/kdiff/imports.go','harness/cmd/kfacts/main.go','harness/cmd/kfacts/facts.go',
        'harness/internal/core/core.go','harness/internal/registry/registry.go','docs/CONVENTIONS.md','tools/mkmanifest.py','tools/mkworkspace.sh','.gitignore','.repo_path','.base_commit','.check.lock','known_findings.json'}
changed=[]
for root,dirs,files in os.walk(ws):
    dirs[:]=[d for d in dirs if d not in SKIP_DIRS]
    for f in files:
        p=os.path.join(root,f); rel=os.path.relpath(p,ws)
        if rel.startswith('lean/Karp/Gen/') or rel.startswith('tools/') or rel.startswith('manifest/') and not rel.endswith(prop+'.json'): continue
        b=os.path.join(base,rel)
        if not os.path.exists(b) or not filecmp.cmp(p,b,shallow=False):
            changed.append(rel)
for rel in sorted(changed):
    tag='SHARED' if rel in SHARED else ''
    cur=os.path.join('/verif',rel)
    if not tag and os.path.exists(cur) and os.path.exists(os.path.join(base,rel)) and not filecmp.cmp(cur,os.path.join(base,rel),shallow=False):
        tag='CONFLICT(/verif changed it too)'
    print(f'{rel:70s} {tag}')
    if apply and not tag:
        os.makedirs(os.path.dirname(cur),exist_ok=True); shutil.copy2(os.path.join(ws,rel),cur)
