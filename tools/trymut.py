#!/usr/bin/env python3
"""tools/trymut.py <Cxx[,Cyy]> <file> <old> <new>  — apply a one-off textual mutation to /repo, run the checks, restore."""
# EVIDENCE-SAVE: a check run against a mutated /repo must not leave its evidence file behind
import shutil,subprocess,sys

def run_check(pr):
    import os
    ev='/verif/evidence/%s.json'%pr; bak='/tmp/.evidence-%s-%d.json'%(pr,os.getpid())
    had=os.path.exists(ev)
    if had: shutil.copy(ev,bak)
    try:
        return subprocess.run(['/verif/check',pr],capture_output=True,text=True)
    finally:
        if had: shutil.move(bak,ev)
        elif os.path.exists(ev): os.remove(ev)
props,path,old,new=sys.argv[1],sys.argv[2],sys.argv[3],sys.argv[4]
p='/repo/'+path
s=open(p).read()
if s.count(old)<1: print('OLD NOT FOUND'); sys.exit(2)
open(p,'w').write(s.replace(old,new,1))
try:
    b=subprocess.run('cd /repo && PATH=/opt/veriftools/go1.26.8/bin:$PATH GOFLAGS=-mod=mod GOPROXY=off GOSUMDB=off GOTOOLCHAIN=local go build ./pkg/...',shell=True,capture_output=True,text=True)
    if b.returncode!=0: print('DOES NOT COMPILE',b.stderr[-500:])
    else:
        for pr in props.split(','):
            r=run_check(pr)
            lines=[l for l in r.stdout.splitlines() if l.startswith('VIOLATION') or l.startswith('check ')]
            print(pr,'CAUGHT' if r.returncode==1 else 'MISSED','|',' ; '.join(l[:160] for l in lines[-3:]))
finally:
    subprocess.run(['git','-C','/repo','checkout','--','.'])


