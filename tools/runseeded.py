#!/usr/bin/env python3
"""tools/runseeded.py <Cxx> <dir>  — for every <dir>/<k>/patch.diff: apply to /repo, run ./check Cxx, restore; print caught/missed."""
# EVIDENCE-SAVE: a check run against a mutated /repo must not leave its evidence file behind
import shutil,subprocess,sys,os,json,glob

def run_check(pr):
    import os
    ev='/verif/evidence/%s.json'%pr; bak='/tmp/.evidence-%s-%d.json'%(pr,os.getpid())
    had=os.path.exists(ev)
    if had: shutil.copy(ev,bak)
    try:
        return subprocess.run(['/verif/check',pr],capture_output=True,text=True)
    finally:
        if had: shutil.move(bak,ev)
        elif os.path.exists(ev): os.remove(ev)
prop,d=sys.argv[1],sys.argv[2]
extra=sys.argv[3:]  # other props to also run
for k in sorted(os.listdir(d)):
    pf=os.path.join(d,k,'patch.diff')
    if not os.path.exists(pf): continue
    r=subprocess.run(['git','-C','/repo','apply','--check',pf],capture_output=True,text=True)
    if r.returncode!=0:
        print(k,'PATCH DOES NOT APPLY',r.stderr[:200]); continue
    subprocess.run(['git','-C','/repo','apply',pf])
    try:
        res=[]
        for pr in [prop]+extra:
            c=run_check(pr)
            v=[l for l in c.stdout.splitlines() if l.startswith('VIOLATION')]
            res.append('%s:%s%s'%(pr,'CAUGHT' if c.returncode==1 else 'missed',' (no-failing-input)' if v and all('no-failing-input-found' in x for x in v) else ''))
        meta=json.load(open(os.path.join(d,k,'meta.json'))) if os.path.exists(os.path.join(d,k,'meta.json')) else {}
        print(k,' '.join(res),'|',meta.get('summary','')[:140])
    finally:
        subprocess.run(['git','-C','/repo','checkout','--','.'])
        subprocess.run(['git','-C','/repo','clean','-fdq'])


