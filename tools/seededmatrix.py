#!/usr/bin/env python3
"""tools/seededmatrix.py [names...] — for every /verif/seeded/<Cxx-k> (or the named ones): apply patch.diff to /repo, run the
quick check of its property (and of the extra properties listed in seeded/EXTRA.json for that change), restore /repo; record
caught/missed + failure kind in seeded/RESULTS.json.  Evidence files are saved and restored around every run."""
import json, os, shutil, subprocess, sys, glob

# `--lane DIR`: run in a scratch workspace made by tools/mkworkspace.sh (DIR/verif + DIR/repo) so that several lanes can run
# in parallel; results go to DIR/results.json (merge them into seeded/RESULTS.json with `--merge DIR...`)
V, REPO = '/verif', '/repo'
args = sys.argv[1:]
if args and args[0] == '--merge':
    rp = f'{V}/seeded/RESULTS.json'
    res = json.load(open(rp)) if os.path.exists(rp) else {}
    for d in args[1:]:
        res.update(json.load(open(f'{d}/results.json')))
    json.dump(res, open(rp, 'w'), indent=1, sort_keys=True)
    print(len(res), 'results')
    sys.exit(0)
lane = None
if args and args[0] == '--lane':
    lane = args[1]
    args = args[2:]
    V, REPO = f'{lane}/verif', f'{lane}/repo'
names = args or sorted(os.path.basename(d) for d in glob.glob(f'{V}/seeded/C*-*'))
rp = f'{lane}/results.json' if lane else f'{V}/seeded/RESULTS.json'
res = json.load(open(rp)) if os.path.exists(rp) else {}
extra = json.load(open(f'{V}/seeded/EXTRA.json')) if os.path.exists(f'{V}/seeded/EXTRA.json') else {}


def run_check(pr):
    ev = f'{V}/evidence/{pr}.json'
    bak = f'/tmp/.evidence-{pr}-{os.getpid()}.json'
    had = os.path.exists(ev)
    if had:
        shutil.copy(ev, bak)
    try:
        return subprocess.run([f'{V}/check', pr], capture_output=True, text=True)
    finally:
        if had:
            shutil.move(bak, ev)
        elif os.path.exists(ev):
            os.remove(ev)


dirty = subprocess.run(['git', '-C', REPO, 'status', '--porcelain'], capture_output=True, text=True).stdout.strip()
if dirty:
    print(REPO + ' is not clean; refusing to run'); sys.exit(2)
for n in names:
    d = f'{V}/seeded/{n}'
    pf = f'{d}/patch.diff'
    prop = n.split('-')[0]
    if subprocess.run(['git', '-C', REPO, 'apply', '--check', pf], capture_output=True).returncode == 0:
        subprocess.run(['git', '-C', REPO, 'apply', pf], check=True)
    elif subprocess.run(['git', '-C', REPO, 'apply', '--3way', pf], capture_output=True).returncode != 0:
        # (the change was written against an earlier /repo: later fix: commits touched the same lines)
        subprocess.run(['git', '-C', REPO, 'reset', '-q', '--hard'])
        res[n] = {'result': 'patch does not apply to the current /repo'}
        print(n, res[n]); continue
    try:
        r = {'result': 'MISSED'}
        for pr in [prop] + extra.get(n, []):
            c = run_check(pr)
            if c.returncode == 1:
                kinds = set()
                for l in c.stdout.splitlines():
                    if l.startswith('VIOLATION'):
                        f = l.split('replay=')[1].split()[0]
                        try:
                            kinds.add(json.load(open(f)).get('kind', '?'))
                        except Exception:
                            kinds.add('?')
                kind = 'spec: concrete failing input' if 'spec' in kinds else ('obligation/correspondence broken, ' + '/'.join(sorted(kinds)))
                r = {'result': 'caught', 'by': pr, 'kind': kind}
                break
        res[n] = r
        print(n, r, flush=True)
    finally:
        subprocess.run(['git', '-C', REPO, 'reset', '-q', '--hard'])
        subprocess.run(['git', '-C', REPO, 'clean', '-fdq'])
    json.dump(res, open(rp, 'w'), indent=1, sort_keys=True)
