#!/usr/bin/env python3
"""Regenerates /verif/MANIFEST.json from the table below (keeps it valid at all times)."""
import json, os
ROOT = os.path.dirname(os.path.dirname(os.path.abspath(__file__)))

COMMON_NOTE = ("Trusted: Lean 4.33.0 kernel; axioms propext/Classical.choice/Quot.sound only (audited each run, no sorry/native_decide); "
               "the kfacts translator and the kdiff correspondence harness (generator reach bounds what the tie can see). ")

def load_checks():
    out = {}
    d = os.path.join(ROOT, "manifest")
    for f in sorted(os.listdir(d)):
        if f.endswith(".json"):
            x = json.load(open(os.path.join(d, f)))
            out[x["property_id"]] = (x["text"], COMMON_NOTE + x["note"], x["technique"], x.get("design_ref", "DESIGN.md §4 " + x["property_id"]))
    return out

CHECKS = load_checks()

REASON_PENDING = "not claimed yet: model/theorems for this property are still being built (see DESIGN.md §6 staging); nothing is asserted about it"

def main():
    props = [json.loads(l) for l in open(os.path.join(ROOT, "properties.jsonl"))]
    checks, na = [], []
    for p in props:
        pid = p["id"]
        if pid in CHECKS:
            text, note, tech, ref = CHECKS[pid]
            checks.append({
                "property_id": pid,
                "quick_cmd": "./check %s --tier quick" % pid,
                "thorough_cmd": "./check %s --tier thorough" % pid,
                "evidence_file": "/verif/evidence/%s.json" % pid,
                "replay_cmd_template": "./check %s --replay {path}" % pid,
                "engine": "lean4-proof+kdiff",
                "level_claimed": {"category": "proof", "text": text, "design_ref": ref},
                "level_note": note,
                "technique": tech,
            })
        else:
            na.append({"property_id": pid, "reason": NA.get(pid, REASON_PENDING)})
    m = {
        "version": 1,
        "setup_cmd": "./setup.sh",
        "hooks": {
            "guard": "verif",
            "enable": "go build -tags verif (the harness module /verif/harness replaces sigs.k8s.io/karpenter with /repo and is always built with -tags verif)",
            "baseline_off_cmd": "cd /repo && GOFLAGS=-mod=mod go test -json -vet=off -count=1 -timeout 25m ./...",
            "source_commits": HOOK_COMMITS,
            "add_only": True,
        },
        "engines": [
            {"name": "lean4-proof+kdiff", "path": "/verif/check", "serves_properties": sorted(CHECKS.keys()),
             "kind_free_text": "Lean 4 theorems over an executable model (lean/Karp), facts regenerated from the Go source (harness/cmd/kfacts), differential correspondence and spec-oracle sweep against the real code (harness/cmd/kdiff)"},
        ],
        "checks": checks,
        "not_applicable": na,
        "notes": "See DESIGN.md. known_findings.json lists recorded findings and fix: commits. Evidence is written by ./check on every run.",
    }
    with open(os.path.join(ROOT, "MANIFEST.json"), "w") as f:
        json.dump(m, f, indent=1)
    print("MANIFEST.json: %d checks, %d not_applicable" % (len(checks), len(na)))

NA = {}
HOOK_COMMITS = ['889f9bdbd', '117e8280a', '80ba5f28c', 'd6f180a1b', 'bcef85952', 'de70a3a5c', '075d5ffc6', '545cb281a']

if __name__ == "__main__":
    main()
