#!/usr/bin/env python3
"""Regenerates /verif/MANIFEST.json from the table below (keeps it valid at all times)."""
import json, os
ROOT = os.path.dirname(os.path.dirname(os.path.abspath(__file__)))

COMMON_NOTE = ("Trusted: Lean 4.33.0 kernel; axioms propext/Classical.choice/Quot.sound only (audited each run, no sorry/native_decide); "
               "the kfacts translator and the kdiff correspondence harness (generator reach bounds what the tie can see). ")

# id -> (claimed?, level text, level note (assumptions), technique, design ref)
CHECKS = {
 "C20": ("Lean 4 theorems (refinement of the ring buffer/tracker to a sliding-window log over ALL histories: C20_ring_window, C20_status, "
         "C20_observations, C20_dryrun_agrees, C20_condition_*) about a hand-written model whose constants are regenerated from the Go source "
         "on every run; the model is tied to the real nodepoolhealth.State / ringbuffer by differential op-sequence correspondence, and the "
         "spec is evaluated directly on the implementation's observations.",
         COMMON_NOTE + "Modelled not verified: the condition update in registration.go/liveness.go is modelled (recordSuccess/recordFailure) with the status "
         "patch assumed to succeed or to leave everything unchanged; mutex-protected methods are atomic; restart = a fresh State.",
         "Lean 4 proof (refinement by induction over histories) + differential correspondence + regenerated facts", "DESIGN.md §4 C20"),
}

REASON_PENDING = "not claimed yet: model/theorems for this property are still being built (see DESIGN.md §6 staging); nothing is asserted about it"

def main():
    props = [json.loads(l) for l in open(os.path.join(ROOT, "properties.jsonl"))]
    checks, na = [], []
    for p in props:
        pid = p["id"]
        if pid in CHECKS:
            text, note, tech, ref = CHECKS[pid]
            checks.append({
                "property_id": pid,
                "quick_cmd": "./check %s --tier quick" % pid,
                "thorough_cmd": "./check %s --tier thorough" % pid,
                "evidence_file": "/verif/evidence/%s.json" % pid,
                "replay_cmd_template": "./check %s --replay {path}" % pid,
                "engine": "lean4-proof+kdiff",
                "level_claimed": {"category": "proof", "text": text, "design_ref": ref},
                "level_note": note,
                "technique": tech,
            })
        else:
            na.append({"property_id": pid, "reason": NA.get(pid, REASON_PENDING)})
    m = {
        "version": 1,
        "setup_cmd": "./setup.sh",
        "hooks": {
            "guard": "verif",
            "enable": "go build -tags verif (the harness module /verif/harness replaces sigs.k8s.io/karpenter with /repo and is always built with -tags verif)",
            "baseline_off_cmd": "cd /repo && GOFLAGS=-mod=mod go test -json -vet=off -count=1 -timeout 25m ./...",
            "source_commits": HOOK_COMMITS,
            "add_only": True,
        },
        "engines": [
            {"name": "lean4-proof+kdiff", "path": "/verif/check", "serves_properties": sorted(CHECKS.keys()),
             "kind_free_text": "Lean 4 theorems over an executable model (lean/Karp), facts regenerated from the Go source (harness/cmd/kfacts), differential correspondence and spec-oracle sweep against the real code (harness/cmd/kdiff)"},
        ],
        "checks": checks,
        "not_applicable": na,
        "notes": "See DESIGN.md. known_findings.json lists recorded findings and fix: commits. Evidence is written by ./check on every run.",
    }
    with open(os.path.join(ROOT, "MANIFEST.json"), "w") as f:
        json.dump(m, f, indent=1)
    print("MANIFEST.json: %d checks, %d not_applicable" % (len(checks), len(na)))

NA = {}
HOOK_COMMITS = []

if __name__ == "__main__":
    main()
