#!/bin/sh
# Builds the whole framework offline from files on disk (run once after a fresh restore).
set -e
cd "$(dirname "$0")"
export PATH=/opt/veriftools/go1.26.8/bin:$PATH GOFLAGS=-mod=mod GOPROXY=off GOSUMDB=off GOTOOLCHAIN=local
mkdir -p bin evidence replays corpus
cp /repo/go.sum harness/go.sum 2>/dev/null || true
(cd harness && go build -o ../bin/kfacts ./cmd/kfacts && go build -tags verif -o ../bin/kdiff ./cmd/kdiff)
./bin/kfacts -repo /repo -out lean/Karp/Gen || true
(cd lean && lake build)
echo "setup done"
