module verifharness

go 1.26.6

require (
	golang.org/x/tools v0.47.0
	k8s.io/apimachinery v0.36.1
	sigs.k8s.io/karpenter v0.0.0
)

require (
	golang.org/x/mod v0.37.0 // indirect
	golang.org/x/sync v0.21.0 // indirect
)

replace sigs.k8s.io/karpenter => /repo
