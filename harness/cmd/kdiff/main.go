// kdiff: correspondence between the Lean model (driver) and the real karpenter code.
package main

import (
	"encoding/json"
	"flag"
	"fmt"
	"os"
	"strings"

	"verifharness/internal/core"
	"verifharness/internal/registry"
)

func main() {
	prop := flag.String("prop", "", "property id, e.g. C20")
	tier := flag.String("tier", "quick", "quick|thorough")
	seed := flag.Uint64("seed", 1, "PRNG seed (VERIF_SEED)")
	driver := flag.String("driver", "", "path to kdriver")
	corpus := flag.String("corpus", "", "corpus directory")
	out := flag.String("out", "", "report file (default stdout)")
	replay := flag.String("replay", "", "replay file {op,in}")
	only := flag.String("ops", "", "comma separated op-name filter")
	scale := flag.Float64("scale", 1.0, "scale factor for random case counts")
	list := flag.Bool("list", false, "list ops")
	flag.Parse()

	if *list {
		for _, p := range registry.Props() {
			for _, op := range registry.Ops(p) {
				fmt.Printf("%s\t%s\t%s\n", p, op.Name, op.Doc)
			}
		}
		return
	}
	cfg := &core.Config{Seed: *seed, Driver: *driver, CorpusDir: *corpus, Scale: *scale, MaxFail: 20}
	if *tier == "thorough" {
		cfg.Tier = core.Thorough
	}
	if *replay != "" {
		os.Exit(doReplay(cfg, *replay))
	}
	ops := registry.Ops(*prop)
	if len(ops) == 0 {
		fmt.Fprintf(os.Stderr, "no ops for property %q\n", *prop)
		os.Exit(2)
	}
	rep := &core.Report{Prop: *prop, Tier: cfg.Tier.String(), Seed: *seed}
	for _, op := range ops {
		if *only != "" && !contains(strings.Split(*only, ","), op.Name) {
			continue
		}
		r, err := core.RunOp(cfg, op)
		if err != nil {
			fmt.Fprintf(os.Stderr, "op %s: %v\n", op.Name, err)
			os.Exit(2)
		}
		rep.Ops = append(rep.Ops, r)
	}
	b, _ := json.MarshalIndent(rep, "", " ")
	if *out == "" {
		os.Stdout.Write(b)
		fmt.Println()
	} else if err := os.WriteFile(*out, b, 0o644); err != nil {
		fmt.Fprintln(os.Stderr, err)
		os.Exit(2)
	}
}

func contains(xs []string, s string) bool {
	for _, x := range xs {
		if x == s {
			return true
		}
	}
	return false
}

// doReplay re-runs one recorded case on the real code and the model; exit 1 if it still fails.
func doReplay(cfg *core.Config, path string) int {
	b, err := os.ReadFile(path)
	if err != nil {
		fmt.Fprintln(os.Stderr, err)
		return 2
	}
	var rf struct {
		Op string          `json:"op"`
		In json.RawMessage `json:"in"`
	}
	if err := json.Unmarshal(b, &rf); err != nil || rf.Op == "" {
		fmt.Fprintf(os.Stderr, "replay file %s has no op/in (obligation-only replay): %v\n", path, err)
		return 2
	}
	op := registry.Find(rf.Op)
	if op == nil {
		fmt.Fprintf(os.Stderr, "unknown op %s\n", rf.Op)
		return 2
	}
	d, err := core.StartDriver(cfg.Driver)
	if err != nil {
		fmt.Fprintln(os.Stderr, err)
		return 2
	}
	defer d.Close()
	f, c, r, err := core.EvalOne(op, d, rf.In, "replay")
	if err != nil {
		fmt.Fprintln(os.Stderr, err)
		return 2
	}
	_ = c
	res := map[string]any{"op": rf.Op, "driver": r, "failure": f}
	o, _ := json.MarshalIndent(res, "", " ")
	fmt.Println(string(o))
	if f != nil {
		return 1
	}
	return 0
}
