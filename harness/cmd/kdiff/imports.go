package main

// one import per property package; each registers its ops in init()
import (
	_ "verifharness/internal/c20"
)
