//go:build !single

package main

// one import per property package; each registers its ops in init()
import (
	_ "verifharness/internal/c01"
	_ "verifharness/internal/c02"
	_ "verifharness/internal/c03"
	_ "verifharness/internal/c04"
	_ "verifharness/internal/c05"
	_ "verifharness/internal/c06"
	_ "verifharness/internal/c07"
	_ "verifharness/internal/c08"
	_ "verifharness/internal/c09"
	_ "verifharness/internal/c10"
	_ "verifharness/internal/c11"
	_ "verifharness/internal/c12"
	_ "verifharness/internal/c13"
	_ "verifharness/internal/c14"
	_ "verifharness/internal/c15"
	_ "verifharness/internal/c16"
	_ "verifharness/internal/c17"
	_ "verifharness/internal/c18"
	_ "verifharness/internal/c19"
	_ "verifharness/internal/c20"
)
