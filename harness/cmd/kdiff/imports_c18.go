//go:build single && c18

package main

// the harness of property C18 only (`check` builds one kdiff per property so that a change which breaks the harness of
// one property does not take the others down)
import _ "verifharness/internal/c18"
