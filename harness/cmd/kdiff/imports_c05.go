//go:build single && c05

package main

// the harness of property C05 only (`check` builds one kdiff per property so that a change which breaks the harness of
// one property does not take the others down)
import _ "verifharness/internal/c05"
