//go:build single && c09

package main

// the harness of property C09 only (`check` builds one kdiff per property so that a change which breaks the harness of
// one property does not take the others down)
import _ "verifharness/internal/c09"
