package main

import (
	"fmt"
	"go/ast"
	"go/types"
	"strings"
)

// C11: which StateNode fields each constructor / copy / per-pod update path touches.

func init() {
	register([]string{"pkg/controllers/state", "pkg/scheduling"}, func(g *gen) {
		const grp = "ClusterStateFacts"
		const pk = "pkg/controllers/state"
		g.c11StructFieldNames(grp, pk, "StateNode", "stateNodeFields")
		g.c11CompositeLit(grp, pk, "Cluster.newStateFromNode", "StateNode", "oldNode", "newStateFromNodeLit", "newStateFromNodeFields")
		g.c11CompositeLit(grp, pk, "Cluster.newStateFromNodeClaim", "StateNode", "oldNode", "newStateFromNodeClaimLit", "newStateFromNodeClaimFields")
		g.c11CompositeLit(grp, pk, "StateNode.ShallowCopy", "StateNode", "in", "shallowCopyLit", "shallowCopyFields")
		g.c11ReceiverFieldOps(grp, pk, "StateNode.cleanupForPod", "cleanupForPodFields", true)
		g.c11ReceiverFieldOps(grp, pk, "StateNode.updateForPod", "updateForPodFields", false)
		g.c11StructFieldNames(grp, "pkg/scheduling", "VolumeUsage", "volumeUsageFields")
		g.c11StructFieldNames(grp, "pkg/scheduling", "HostPortUsage", "hostPortUsageFields")
		g.callSeq(grp, pk, "Cluster.newStateFromNode", "newStateFromNodeCalls", []string{"populateResourceRequests", "populateVolumeLimits", "cleanupNode", "updateNodePoolResources"})
		g.callSeq(grp, pk, "Cluster.newStateFromNodeClaim", "newStateFromNodeClaimCalls", []string{"cleanupNodeClaim", "updateNodePoolResources"})
		g.callSeq(grp, pk, "Cluster.populateResourceRequests", "populateCalls", []string{"IsTerminal", "updateForPod", "cleanupOldBindings"})
		g.callSeq(grp, pk, "Cluster.updateNodeUsageFromPod", "podUsageCalls", []string{"updateNodeUsageFromPodCompletion", "updateForPod", "cleanupOldBindings"})
		g.callSeq(grp, pk, "Cluster.cleanupNode", "cleanupNodeCalls", []string{"NewNode", "ShallowCopy", "updateNodePoolResources", "MarkUnconsolidated"})
		g.callSeq(grp, pk, "Cluster.cleanupNodeClaim", "cleanupNodeClaimCalls", []string{"ShallowCopy", "updateNodePoolResources", "MarkUnconsolidated", "Cleanup"})
		// which pod predicates (pkg/utils/pod) decide, at the two sites that account a pod to its node, whether it still counts
		g.c11PkgCalls(grp, pk, "Cluster.UpdatePod", "podutils", "updatePodPredicates")
		g.c11PkgCalls(grp, pk, "Cluster.populateResourceRequests", "podutils", "populatePodPredicates")
		g.callSeq(grp, pk, "Cluster.UpdatePod", "updatePodCalls", []string{"updateNodeUsageFromPodCompletion", "updateNodeUsageFromPod"})
		g.callSeq(grp, "pkg/scheduling", "VolumeUsage.Add", "volumeUsageAddCalls", []string{"DeletePod", "Union", "Insert"})
		g.callSeq(grp, "pkg/scheduling", "VolumeUsage.DeletePod", "volumeUsageDeleteCalls", []string{"Union", "Insert"})
		// the fallible volume lookup of updateForPod and the calls that compute / write the pod's usage, in source order
		g.callSeq(grp, pk, "StateNode.updateForPod", "updateForPodCalls", []string{"GetHostPorts", "GetVolumes", "RequestsForPods", "LimitsForPods", "IsOwnedByDaemonSet", "EvictionCost", "Add"})
		// MarkForDeletion / UnmarkForDeletion range over all their provider ids: no statement leaves the loop early
		g.c11LoopExits(grp, pk, "Cluster.MarkForDeletion", "markForDeletionLoopExits")
		g.c11LoopExits(grp, pk, "Cluster.UnmarkForDeletion", "unmarkForDeletionLoopExits")
		// the DaemonSet pod cache: what UpdateDaemonSet does with daemonSetPods
		g.callSeq(grp, pk, "Cluster.UpdateDaemonSet", "updateDaemonSetCalls", []string{"List", "IsControlledBy", "After", "Load", "Store", "Delete", "DeepCopy"})
	})
}

func (g *gen) c11StructFieldNames(group, pkgPath, typ, lean string) {
	p := g.pkg(pkgPath)
	if p == nil {
		return
	}
	obj := p.Types.Scope().Lookup(typ)
	if obj == nil {
		g.errf("%s.%s: type not found", pkgPath, typ)
		return
	}
	st, ok := obj.Type().Underlying().(*types.Struct)
	if !ok {
		g.errf("%s.%s: not a struct", pkgPath, typ)
		return
	}
	b := g.out(group)
	fmt.Fprintf(b, "/-- field names of `%s.%s` (%s), declaration order -/\ndef %s : List String := [", pkgPath, typ, g.pos(obj.Pos()), lean)
	for i := 0; i < st.NumFields(); i++ {
		if i > 0 {
			b.WriteString(", ")
		}
		b.WriteString(leanStr(st.Field(i).Name()))
	}
	b.WriteString("]\n\n")
}

// c11CompositeLit finds the first `&T{...}` / `T{...}` literal of struct type `typ` in the function and emits, for every
// keyed element, (field, kind) with kind = "old" (copied from `<oldVar>.<sameField>`), "oldother" (read from another field of
// oldVar), "arg" (a plain identifier: a parameter) or "fresh" (anything else: a new empty value);
// and the list of the fields of kind "old".
func (g *gen) c11CompositeLit(group, pkgPath, fn, typ, oldVar, leanLit, leanOld string) {
	_, fd := g.findFunc(pkgPath, fn)
	if fd == nil {
		return
	}
	var lit *ast.CompositeLit
	ast.Inspect(fd.Body, func(n ast.Node) bool {
		if lit != nil {
			return false
		}
		if cl, ok := n.(*ast.CompositeLit); ok {
			if id, ok := cl.Type.(*ast.Ident); ok && id.Name == typ {
				lit = cl
				return false
			}
		}
		return true
	})
	if lit == nil {
		g.errf("%s.%s: no %s literal", pkgPath, fn, typ)
		return
	}
	var pairs [][2]string
	var olds []string
	for _, el := range lit.Elts {
		kv, ok := el.(*ast.KeyValueExpr)
		if !ok {
			g.errf("%s.%s: unkeyed %s literal", pkgPath, fn, typ)
			return
		}
		key := exprString(kv.Key)
		kind := "fresh"
		switch v := kv.Value.(type) {
		case *ast.SelectorExpr:
			if id, ok := v.X.(*ast.Ident); ok && id.Name == oldVar {
				if v.Sel.Name == key {
					kind = "old"
					olds = append(olds, key)
				} else {
					kind = "oldother"
				}
			}
		case *ast.Ident:
			kind = "arg"
		}
		pairs = append(pairs, [2]string{key, kind})
	}
	b := g.out(group)
	fmt.Fprintf(b, "/-- the `%s{...}` literal built by `%s.%s` (%s): (field, how it is filled) -/\ndef %s : List (String × String) := [", typ, pkgPath, fn, g.pos(lit.Pos()), leanLit)
	for i, kv := range pairs {
		if i > 0 {
			b.WriteString(", ")
		}
		fmt.Fprintf(b, "(%s, %s)", leanStr(kv[0]), leanStr(kv[1]))
	}
	b.WriteString("]\n\n")
	fmt.Fprintf(b, "/-- fields `%s.%s` copies from `%s` -/\ndef %s : List String := [", pkgPath, fn, oldVar, leanOld)
	for i, s := range olds {
		if i > 0 {
			b.WriteString(", ")
		}
		b.WriteString(leanStr(s))
	}
	b.WriteString("]\n\n")
}

// c11ReceiverFieldOps lists the receiver fields a method touches per pod key, in source order without duplicates:
// deletes=true:  `delete(in.X, k)` and `in.X.DeletePod(k)`;
// deletes=false: `in.X[k] = ...` and `in.X.Add(...)`.
func (g *gen) c11ReceiverFieldOps(group, pkgPath, fn, lean string, deletes bool) {
	_, fd := g.findFunc(pkgPath, fn)
	if fd == nil {
		return
	}
	recv := ""
	if fd.Recv != nil && len(fd.Recv.List) > 0 && len(fd.Recv.List[0].Names) > 0 {
		recv = fd.Recv.List[0].Names[0].Name
	}
	var fields []string
	add := func(s string) {
		for _, f := range fields {
			if f == s {
				return
			}
		}
		fields = append(fields, s)
	}
	fieldOf := func(e ast.Expr) (string, bool) {
		se, ok := e.(*ast.SelectorExpr)
		if !ok {
			return "", false
		}
		id, ok := se.X.(*ast.Ident)
		if !ok || id.Name != recv {
			return "", false
		}
		return se.Sel.Name, true
	}
	ast.Inspect(fd.Body, func(n ast.Node) bool {
		switch v := n.(type) {
		case *ast.CallExpr:
			name := exprString(v.Fun)
			if deletes {
				if name == "delete" && len(v.Args) == 2 {
					if f, ok := fieldOf(v.Args[0]); ok {
						add(f)
					}
				}
				if strings.HasSuffix(name, ".DeletePod") {
					if se, ok := v.Fun.(*ast.SelectorExpr); ok {
						if f, ok := fieldOf(se.X); ok {
							add(f)
						}
					}
				}
			} else if strings.HasSuffix(name, ".Add") {
				if se, ok := v.Fun.(*ast.SelectorExpr); ok {
					if f, ok := fieldOf(se.X); ok {
						add(f)
					}
				}
			}
		case *ast.AssignStmt:
			if !deletes {
				for _, l := range v.Lhs {
					if ix, ok := l.(*ast.IndexExpr); ok {
						if f, ok := fieldOf(ix.X); ok {
							add(f)
						}
					}
				}
			}
		}
		return true
	})
	b := g.out(group)
	what := "writes per pod key"
	if deletes {
		what = "deletes per pod key"
	}
	fmt.Fprintf(b, "/-- receiver fields `%s.%s` %s (%s) -/\ndef %s : List String := [", pkgPath, fn, what, g.pos(fd.Pos()), lean)
	for i, s := range fields {
		if i > 0 {
			b.WriteString(", ")
		}
		b.WriteString(leanStr(s))
	}
	b.WriteString("]\n\n")
}

// c11PkgCalls lists, in source order, the functions of the package imported as `pkgIdent` that the function calls.
func (g *gen) c11PkgCalls(group, pkgPath, fn, pkgIdent, lean string) {
	_, fd := g.findFunc(pkgPath, fn)
	if fd == nil {
		return
	}
	var seq []string
	ast.Inspect(fd.Body, func(n ast.Node) bool {
		ce, ok := n.(*ast.CallExpr)
		if !ok {
			return true
		}
		if se, ok := ce.Fun.(*ast.SelectorExpr); ok {
			if id, ok := se.X.(*ast.Ident); ok && id.Name == pkgIdent {
				seq = append(seq, se.Sel.Name)
			}
		}
		return true
	})
	b := g.out(group)
	fmt.Fprintf(b, "/-- the `%s.*` functions called inside `%s.%s`, in source order (%s) -/\ndef %s : List String := [", pkgIdent, pkgPath, fn, g.pos(fd.Pos()), lean)
	for i, s := range seq {
		if i > 0 {
			b.WriteString(", ")
		}
		b.WriteString(leanStr(s))
	}
	b.WriteString("]\n\n")
}

// c11LoopExits lists the statements inside the function's range/for loops that leave the loop (or the function) early:
// "return", "break", "goto" (a `continue` only skips one element).
func (g *gen) c11LoopExits(group, pkgPath, fn, lean string) {
	_, fd := g.findFunc(pkgPath, fn)
	if fd == nil {
		return
	}
	var exits []string
	var inLoop func(n ast.Node) bool
	inLoop = func(n ast.Node) bool {
		switch v := n.(type) {
		case *ast.FuncLit:
			return false
		case *ast.ReturnStmt:
			exits = append(exits, "return")
		case *ast.BranchStmt:
			if v.Tok.String() != "continue" {
				exits = append(exits, v.Tok.String())
			}
		}
		return true
	}
	ast.Inspect(fd.Body, func(n ast.Node) bool {
		switch v := n.(type) {
		case *ast.RangeStmt:
			ast.Inspect(v.Body, inLoop)
			return false
		case *ast.ForStmt:
			ast.Inspect(v.Body, inLoop)
			return false
		}
		return true
	})
	b := g.out(group)
	fmt.Fprintf(b, "/-- statements inside the loops of `%s.%s` that leave the loop early (%s) -/\ndef %s : List String := [", pkgPath, fn, g.pos(fd.Pos()), lean)
	for i, s := range exits {
		if i > 0 {
			b.WriteString(", ")
		}
		b.WriteString(leanStr(s))
	}
	b.WriteString("]\n\n")
}
