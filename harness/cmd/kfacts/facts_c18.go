package main

// C18 — write-effect facts of the scheduling simulation.
//
// From the SSA form of the karpenter module (golang.org/x/tools/go/ssa) this file computes, for each entry point
// (disruption.SimulateScheduling, Provisioner.Schedule, Provisioner.CreateNodeClaims), the functions reachable through
// static calls, class-hierarchy resolution of interface calls over the module's types, function values whose address is
// taken, and closures; and in those functions every instruction that writes memory other than a local variable:
// field stores, map updates/deletes, slice element stores, stores through pointers, appends, in-place sorts, calls of a
// hand-listed set of mutating library methods, and the write methods of the controller-runtime client. Every write is
// attributed to the *static type that owns the written location* (pkg.Type.field when the location is, or was loaded
// from, a struct field). Writes through a parameter that is itself a map / slice / pointer are lifted to the call sites
// (transitively) until the argument is a field, a call result or a global; writes whose base object is allocated in the
// same function are dropped (they are fresh by construction). The table is emitted as Lean data; `Karp/Props/C18.lean`
// decides it against a hand-written allowlist.
//
// Also emitted: the fields of StateNode / HostPortUsage / VolumeUsage with the way the generated DeepCopyInto treats each
// of them, the fields of state.Cluster, and the mechanism facts named in the property's anchors.

import (
	"flag"
	"fmt"
	"go/ast"
	"go/token"
	"go/types"
	"os"
	"path/filepath"
	"regexp"
	"sort"
	"strings"

	"golang.org/x/tools/go/packages"
	"golang.org/x/tools/go/ssa"
	"golang.org/x/tools/go/ssa/ssautil"
)

const karpMod = "sigs.k8s.io/karpenter/"

func init() {
	register([]string{
		"pkg/controllers/disruption",
		"pkg/controllers/provisioning",
		"pkg/controllers/provisioning/scheduling",
		"pkg/controllers/state",
		"pkg/cloudprovider",
		"pkg/scheduling",
		"pkg/scheduling/dynamicresources",
	}, func(g *gen) {
		g.c18Effects()
		g.c18DeepCopyFacts()
		g.c18Mechanisms()
	})
}

// ---------- naming ----------

func c18PkgShort(path string) string {
	if strings.HasPrefix(path, karpMod) {
		p := strings.TrimPrefix(path, karpMod)
		p = strings.TrimPrefix(p, "pkg/")
		p = strings.TrimPrefix(p, "controllers/")
		return p
	}
	return path
}

func c18Qual(p *types.Package) string { return c18PkgShort(p.Path()) }

func c18TypeName(t types.Type) string {
	return types.TypeString(t, c18Qual)
}

func c18FuncName(fn *ssa.Function) string {
	if fn == nil {
		return "?"
	}
	if fn.Parent() != nil {
		// anonymous function: name of the enclosing function + "$n"
		return c18FuncName(fn.Parent()) + strings.TrimPrefix(fn.Name(), fn.Parent().Name())
	}
	name := fn.Name()
	if recv := fn.Signature.Recv(); recv != nil {
		t := recv.Type()
		if p, ok := t.(*types.Pointer); ok {
			t = p.Elem()
		}
		tn := c18TypeName(t)
		if i := strings.Index(tn, "["); i >= 0 { // instantiated generic receiver
			tn = tn[:i]
		}
		return tn + "." + name
	}
	if i := strings.Index(name, "["); i >= 0 {
		name = name[:i]
	}
	if fn.Pkg != nil {
		return c18PkgShort(fn.Pkg.Pkg.Path()) + "." + name
	}
	if o := fn.Object(); o != nil && o.Pkg() != nil {
		return c18PkgShort(o.Pkg().Path()) + "." + name
	}
	if org := fn.Origin(); org != nil && org != fn {
		return c18FuncName(org)
	}
	return name
}

// ---------- analysis ----------

// c18Row2 is one emitted row (strings; turned into symbol ids when printed)
type c18Out struct {
	rootCode                                        int
	rootKind, root, rootFn                          string
	path                                            []string
	kind, lib, tgtPkg, tgtType, tgtField, tgt, via  string
	shallow                                         bool
	head, cluster, provider                         string
	stateNode, viaExistingNode, viaDaemonGroup, pod bool
}

var c18PodTypes = map[string]bool{"Pod": true, "PodSpec": true, "Affinity": true, "NodeAffinity": true, "NodeSelector": true, "NodeSelectorTerm": true,
	"PodAffinity": true, "PodAntiAffinity": true, "Container": true, "TopologySpreadConstraint": true, "PreferredSchedulingTerm": true, "Toleration": true, "Volume": true}

func c18MakeOut(r c18Row) c18Out {
	split3 := func(f string) (string, string, string) {
		i := strings.LastIndex(f, ".")
		if i < 0 {
			return "", "", f
		}
		field, rest := f[i+1:], f[:i]
		j := strings.LastIndex(rest, ".")
		if j < 0 {
			return "", rest, field
		}
		return rest[:j], rest[j+1:], field
	}
	o := c18Out{rootKind: r.rootKind, root: r.rootDesc, path: r.path, kind: r.kind, via: r.via}
	code, ok := map[string]int{"alloc": 0, "call": 1, "entry-param": 2, "callback-param": 3, "global": 4}[r.rootKind]
	if !ok {
		code = 5
	}
	o.rootCode = code
	if k := strings.Index(o.root, "\x00"); k >= 0 {
		o.root, o.rootFn = o.root[:k], o.root[k+1:]
	}
	switch r.kind {
	case "field":
		o.tgt = r.inner
	case "lib", "sort":
		o.lib = r.inner
	}
	if r.kind != "field" {
		for k := len(r.path) - 1; k >= 0; k-- {
			if r.path[k] == c18Shallow {
				if k == len(r.path)-1 {
					o.shallow = true
				}
				continue
			}
			if r.path[k] == "…" {
				continue
			}
			if o.tgt == "" {
				o.tgt = r.path[k]
			}
			break
		}
	}
	if o.tgt != "" {
		o.tgtPkg, o.tgtType, o.tgtField = split3(o.tgt)
	}
	all := append(append([]string{}, r.path...), o.tgt)
	first := func(prefixes ...string) string {
		for _, f := range all {
			for _, p := range prefixes {
				if strings.HasPrefix(f, p) {
					return f
				}
			}
		}
		return ""
	}
	has := func(x string) bool {
		for _, f := range r.path {
			if f == x {
				return true
			}
		}
		return false
	}
	if len(r.path) > 0 {
		o.head = r.path[0]
	}
	o.cluster = first("state.Cluster.")
	o.provider = first("cloudprovider.InstanceType.", "cloudprovider.Offering.", "cloudprovider.AllocatableOfferings.")
	o.stateNode = first("state.StateNode.", "scheduling.HostPortUsage.", "scheduling.VolumeUsage.") != ""
	o.viaExistingNode = has("provisioning/scheduling.ExistingNode.StateNode")
	o.viaDaemonGroup = has("provisioning/scheduling.DaemonOverheadGroup.HostPortUsage")
	o.pod = has("k8s.io/api/core/v1.Pod.Spec") || (o.tgtPkg == "k8s.io/api/core/v1" && c18PodTypes[o.tgtType])
	return o
}

func (g *gen) c18Effects() {
	a := &c18An{g: g}
	if !a.build() {
		return
	}
	entries := []struct{ lean, pkg, recv, name string }{
		{"sim", "pkg/controllers/disruption", "", "SimulateScheduling"},
		{"sched", "pkg/controllers/provisioning", "Provisioner", "Schedule"},
		{"create", "pkg/controllers/provisioning", "Provisioner", "CreateNodeClaims"},
	}
	type result struct {
		lean    string
		fn      *ssa.Function
		rows    []c18Out
		clients [][2]string
		nf, nl  int
	}
	var results []result
	symSet := map[string]bool{}
	for _, e := range entries {
		fn := a.findFunc(e.pkg, e.recv, e.name)
		if fn == nil {
			g.errf("c18: entry %s.%s.%s not found", e.pkg, e.recv, e.name)
			continue
		}
		rows, clients, nf, nl := a.effects(fn)
		res := result{lean: e.lean, fn: fn, clients: clients, nf: nf, nl: nl}
		for _, r := range rows {
			o := c18MakeOut(r)
			res.rows = append(res.rows, o)
			for _, x := range append([]string{o.root, o.rootFn, o.tgt, o.tgtPkg, o.via, o.head, o.cluster, o.provider, o.lib}, o.path...) {
				if x != "" {
					symSet[x] = true
				}
			}
		}
		results = append(results, res)
	}
	syms := make([]string, 0, len(symSet))
	for x := range symSet {
		syms = append(syms, x)
	}
	sort.Strings(syms)
	id := map[string]int{"": 0}
	for i, x := range syms {
		id[x] = i + 1
	}
	b := g.out("C18Effects")
	fmt.Fprintf(b, `/-- Symbols: every function, type, struct field and library method that occurs in the write-effect tables below, by
    number (1-based position in this sorted list; 0 = none).  The tables refer to symbols by number so that deciding the
    allowlist compares numbers, not long strings. -/
def names : List String := [`)
	for i, x := range syms {
		if i > 0 {
			b.WriteString(",")
		}
		fmt.Fprintf(b, "\n  %s", leanStr(x))
	}
	b.WriteString("]\n\n/-- the symbol with the given number (\"\" for 0 / out of range) -/\ndef name (i : Nat) : String := if i = 0 then \"\" else names.getD (i - 1) \"\"\n\n")
	// the symbols the hand-written allowlist names (every S.«…» in lean/Karp/Model/EffectFacts.lean and lean/Karp/Props/C18.lean)
	policySyms := map[string]bool{}
	if f := flag.Lookup("out"); f != nil {
		for _, file := range []string{filepath.Join("Model", "EffectFacts.lean"), filepath.Join("Props", "C18.lean")} {
			src, err := os.ReadFile(filepath.Join(f.Value.String(), "..", file))
			if err != nil {
				continue
			}
			for _, m := range regexp.MustCompile(`S\.«([^»]*)»`).FindAllStringSubmatch(string(src), -1) {
				policySyms[m[1]] = true
			}
		}
	}
	var ps []string
	for x := range policySyms {
		ps = append(ps, x)
	}
	sort.Strings(ps)
	b.WriteString("/- the numbers of the symbols the allowlist (`Karp/Model/EffectFacts.lean`) names; 0 = the symbol does not occur in the\n   tables (the rule naming it can never apply) -/\nnamespace S\n")
	for _, x := range ps {
		fmt.Fprintf(b, "def «%s» : Nat := %d\n", x, id[x])
	}
	b.WriteString("end S\n\n")
	fmt.Fprintf(b, `/-- One class of write sites reachable from an entry point (symbols by number, see names).
  * root: where the written object hangs. rootCode 0 = memory allocated on the way (root = its type, rootFn = the
    allocating function), 1 = result of a library / untraced call (root = callee), 2 = a parameter of the entry point
    (root = its name), 3 = parameter of a function only library code calls (root = its type), 4 = a global (root = the
    variable), 5 = other.
  * path: the struct fields traversed from the root to the written object ("[shallow-copy]" = a library call that builds
    a new container holding the same elements).
  * kind: field | map | elem | deref | append | sort | lib | global; lib = the mutating library method (sort / lib).
  * tgt: the struct field that owns the written location (the written field itself for kind "field", otherwise the
    field holding the written container; 0 = the root container itself); tgtPkg = the package of its type.
  * via: the function performing the write.
  * shallow: a container-level write into a container freshly built by a shallow-copying library call.
  * syntactic digests of path + target (so that the policy need not traverse the path):
    head = first field of the path; cluster = first field of state.Cluster on the way (or written); provider = first
    field of cloudprovider.InstanceType / Offering / AllocatableOfferings on the way (or written); stateNode = a field of
    state.StateNode / scheduling.HostPortUsage / scheduling.VolumeUsage is on the way (or written); viaExistingNode = the
    path goes through provisioning/scheduling.ExistingNode.StateNode; viaDaemonGroup = … through
    provisioning/scheduling.DaemonOverheadGroup.HostPortUsage; pod = the path goes through k8s.io/api/core/v1.Pod.Spec or
    the target is a field of a pod-shaped API type (Pod, PodSpec, Affinity, NodeAffinity, NodeSelector, NodeSelectorTerm,
    PodAffinity, PodAntiAffinity, Container, TopologySpreadConstraint, PreferredSchedulingTerm, Toleration, Volume). -/
structure Write where
  rootCode : Nat
  root : Nat
  rootFn : Nat
  path : List Nat
  kind : String
  lib : Nat
  tgtPkg : Nat
  tgt : Nat
  via : Nat
  shallow : Bool
  head : Nat
  cluster : Nat
  provider : Nat
  stateNode : Bool
  viaExistingNode : Bool
  viaDaemonGroup : Bool
  pod : Bool
  deriving DecidableEq, Repr

`)
	for _, res := range results {
		fn := res.fn
		fmt.Fprintf(b, "/-- number of module functions reachable from `%s` (%s) -/\ndef %sReachable : Nat := %d\n", c18FuncName(fn), g.pos(fn.Pos()), res.lean, res.nf)
		fmt.Fprintf(b, "/-- writes dropped because the written memory is allocated on the way (fresh by construction) -/\ndef %sLocalWrites : Nat := %d\n\n", res.lean, res.nl)
		fmt.Fprintf(b, "/-- write effects reachable from `%s` -/\ndef %sWrites : List Write := [", c18FuncName(fn), res.lean)
		for i, o := range res.rows {
			if i > 0 {
				b.WriteString(",")
			}
			pids := make([]string, len(o.path))
			for k, x := range o.path {
				pids[k] = fmt.Sprint(id[x])
			}
			root := o.root
			if o.rootFn != "" {
				root += " in " + o.rootFn
			}
			fmt.Fprintf(b, "\n  -- %s %s %s: %s %s %s via %s\n  ⟨%d, %d, %d, [%s], %s, %d, %d, %d, %d, %v, %d, %d, %d, %v, %v, %v, %v⟩",
				o.rootKind, root, "/"+strings.Join(o.path, "/"), o.kind, o.tgt, o.lib, o.via,
				o.rootCode, id[o.root], id[o.rootFn], strings.Join(pids, ", "), leanStr(o.kind), id[o.lib], id[o.tgtPkg], id[o.tgt], id[o.via], o.shallow,
				id[o.head], id[o.cluster], id[o.provider], o.stateNode, o.viaExistingNode, o.viaDaemonGroup, o.pod)
		}
		b.WriteString("]\n\n")
		fmt.Fprintf(b, "/-- call sites of write methods of the controller-runtime client reachable from `%s`: (function, interface.method) -/\ndef %sClientWrites : List (String × String) := [", c18FuncName(fn), res.lean)
		for i, c := range res.clients {
			if i > 0 {
				b.WriteString(", ")
			}
			fmt.Fprintf(b, "(%s, %s)", leanStr(c[0]), leanStr(c[1]))
		}
		b.WriteString("]\n\n")
	}
}

// ---------- deep copy facts ----------

func isRefType(t types.Type) bool {
	switch u := t.Underlying().(type) {
	case *types.Pointer, *types.Map, *types.Slice, *types.Chan, *types.Interface, *types.Signature:
		return true
	case *types.Struct:
		for i := 0; i < u.NumFields(); i++ {
			if isRefType(u.Field(i).Type()) {
				return true
			}
		}
	case *types.Array:
		return isRefType(u.Elem())
	}
	return false
}

// c18DeepCopyOf emits, for struct `typ`, its fields (name, type, holds-a-reference) and how DeepCopyInto treats each
// field: "fresh" (a new map/slice/object is allocated and filled), "deepcopy" (delegated to the field's own
// DeepCopyInto/DeepCopy), or absent (only the shallow `*out = *in`).
func (g *gen) c18DeepCopyOf(group, pkgPath, typ, lean string) {
	p := g.pkg(pkgPath)
	if p == nil {
		return
	}
	obj := p.Types.Scope().Lookup(typ)
	if obj == nil {
		g.errf("%s.%s: type not found", pkgPath, typ)
		return
	}
	st, ok := obj.Type().Underlying().(*types.Struct)
	if !ok {
		g.errf("%s.%s: not a struct", pkgPath, typ)
		return
	}
	b := g.out(group)
	fmt.Fprintf(b, "/-- fields of `%s.%s` (%s): (name, type, holds a reference) -/\ndef %sFields : List (String × String × Bool) := [", pkgPath, typ, g.pos(obj.Pos()), lean)
	for i := 0; i < st.NumFields(); i++ {
		f := st.Field(i)
		if i > 0 {
			b.WriteString(",")
		}
		fmt.Fprintf(b, "\n  (%s, %s, %v)", leanStr(f.Name()), leanStr(c18TypeName(f.Type())), isRefType(f.Type()))
	}
	b.WriteString("]\n\n")
	_, fd := g.findFunc(pkgPath, typ+".DeepCopyInto")
	if fd == nil {
		return
	}
	shallow := false
	treated := map[string]string{}
	var order []string
	for _, stmt := range fd.Body.List {
		switch s := stmt.(type) {
		case *ast.AssignStmt:
			if len(s.Lhs) == 1 && g.render(s.Lhs[0]) == "*out" && g.render(s.Rhs[0]) == "*in" {
				shallow = true
			}
		case *ast.IfStmt:
			// if in.F != nil { in, out := &in.F, &out.F ; *out = make(...) | new(...) ; ... }
			cond := g.render(s.Cond)
			if !strings.HasPrefix(cond, "in.") || !strings.HasSuffix(cond, " != nil") {
				continue
			}
			f := strings.TrimSuffix(strings.TrimPrefix(cond, "in."), " != nil")
			how := ""
			rebound := false
			for _, bs := range s.Body.List {
				txt := g.render(bs)
				if txt == fmt.Sprintf("in, out := &in.%s, &out.%s", f, f) {
					rebound = true
				}
				if rebound && (strings.HasPrefix(txt, "*out = make(") || strings.HasPrefix(txt, "*out = new(")) {
					how = "fresh"
				}
				if rebound && strings.Contains(txt, "DeepCopy") && how == "" {
					how = "deepcopy"
				}
			}
			if how != "" {
				treated[f] = how
				order = append(order, f)
			}
		case *ast.ExprStmt:
			// in.F.DeepCopyInto(&out.F)
			txt := g.render(s.X)
			if strings.HasPrefix(txt, "in.") && strings.Contains(txt, ".DeepCopyInto(&out.") {
				f := strings.TrimPrefix(txt[:strings.Index(txt, ".DeepCopyInto(")], "in.")
				if strings.HasSuffix(txt, "(&out."+f+")") {
					treated[f] = "deepcopy"
					order = append(order, f)
				}
			}
		}
	}
	fmt.Fprintf(b, "/-- `%s.DeepCopyInto` (%s) starts with the shallow `*out = *in` -/\ndef %sShallowFirst : Bool := %v\n", typ, g.pos(fd.Pos()), lean, shallow)
	fmt.Fprintf(b, "/-- fields `%s.DeepCopyInto` re-allocates (\"fresh\") or delegates to the field's own deep copy (\"deepcopy\") -/\ndef %sDeepCopied : List (String × String) := [", typ, lean)
	for i, f := range order {
		if i > 0 {
			b.WriteString(", ")
		}
		fmt.Fprintf(b, "(%s, %s)", leanStr(f), leanStr(treated[f]))
	}
	b.WriteString("]\n\n")
}

func (g *gen) c18DeepCopyFacts() {
	g.c18DeepCopyOf("C18Copy", "pkg/controllers/state", "StateNode", "stateNode")
	g.c18DeepCopyOf("C18Copy", "pkg/scheduling", "HostPortUsage", "hostPortUsage")
	g.c18DeepCopyOf("C18Copy", "pkg/scheduling", "VolumeUsage", "volumeUsage")
	// fields of state.Cluster (the dynamic digest enumerates them by reflection; the policy in Lean names them)
	p := g.pkg("pkg/controllers/state")
	if p == nil {
		return
	}
	obj := p.Types.Scope().Lookup("Cluster")
	if obj == nil {
		g.errf("state.Cluster not found")
		return
	}
	st, ok := obj.Type().Underlying().(*types.Struct)
	if !ok {
		g.errf("state.Cluster is not a struct")
		return
	}
	b := g.out("C18Copy")
	fmt.Fprintf(b, "/-- fields of `state.Cluster` (%s): (name, type) -/\ndef clusterFields : List (String × String) := [", g.pos(obj.Pos()))
	for i := 0; i < st.NumFields(); i++ {
		if i > 0 {
			b.WriteString(",")
		}
		fmt.Fprintf(b, "\n  (%s, %s)", leanStr(st.Field(i).Name()), leanStr(c18TypeName(st.Field(i).Type())))
	}
	b.WriteString("]\n\n")
	// the provider's catalogue types (the policy protects every field of them)
	for _, tn := range []struct{ typ, lean string }{{"InstanceType", "instanceTypeFields"}, {"Offering", "offeringFields"}} {
		cp := g.pkg("pkg/cloudprovider")
		if cp == nil {
			break
		}
		o := cp.Types.Scope().Lookup(tn.typ)
		if o == nil {
			g.errf("cloudprovider.%s not found", tn.typ)
			continue
		}
		cst, ok := o.Type().Underlying().(*types.Struct)
		if !ok {
			g.errf("cloudprovider.%s is not a struct", tn.typ)
			continue
		}
		fmt.Fprintf(b, "/-- fields of `cloudprovider.%s` (%s), as they appear in write paths -/\ndef %s : List String := [", tn.typ, g.pos(o.Pos()), tn.lean)
		for i := 0; i < cst.NumFields(); i++ {
			if i > 0 {
				b.WriteString(", ")
			}
			b.WriteString(leanStr("cloudprovider." + tn.typ + "." + cst.Field(i).Name()))
		}
		b.WriteString("]\n\n")
	}
	// DeepCopyNodes maps DeepCopy over the nodes under the read lock
	_, fd := g.findFunc("pkg/controllers/state", "Cluster.DeepCopyNodes")
	if fd != nil {
		var calls []string
		ast.Inspect(fd.Body, func(n ast.Node) bool {
			if ce, ok := n.(*ast.CallExpr); ok {
				calls = append(calls, exprString(ce.Fun))
			}
			return true
		})
		fmt.Fprintf(b, "/-- calls inside `Cluster.DeepCopyNodes` (%s) -/\ndef deepCopyNodesCalls : List String := [", g.pos(fd.Pos()))
		for i, c := range calls {
			if i > 0 {
				b.WriteString(", ")
			}
			b.WriteString(leanStr(c))
		}
		b.WriteString("]\n\n")
	}
}

// ---------- mechanism facts ----------

func (g *gen) c18Mechanisms() {
	b := g.out("C18Copy")
	// (1) SimulateScheduling / Schedule obtain their nodes from cluster.DeepCopyNodes()
	for _, e := range []struct{ pkg, fn, lean string }{
		{"pkg/controllers/disruption", "SimulateScheduling", "simNodesSource"},
		{"pkg/controllers/provisioning", "Provisioner.Schedule", "schedNodesSource"},
	} {
		_, fd := g.findFunc(e.pkg, e.fn)
		if fd == nil {
			continue
		}
		src := ""
		ast.Inspect(fd.Body, func(n ast.Node) bool {
			as, ok := n.(*ast.AssignStmt)
			if !ok || len(as.Lhs) != 1 || len(as.Rhs) != 1 {
				return true
			}
			if id, ok := as.Lhs[0].(*ast.Ident); ok && id.Name == "nodes" && src == "" {
				src = g.render(as.Rhs[0])
			}
			return true
		})
		fmt.Fprintf(b, "/-- right-hand side of `nodes := …` in `%s` (%s) -/\ndef %s : String := %s\n\n", e.fn, g.pos(fd.Pos()), e.lean, leanStr(src))
		// every stateNodes argument handed to NewScheduler
		var args []string
		ast.Inspect(fd.Body, func(n ast.Node) bool {
			ce, ok := n.(*ast.CallExpr)
			if !ok {
				return true
			}
			if strings.HasSuffix(exprString(ce.Fun), ".NewScheduler") && len(ce.Args) >= 3 {
				args = append(args, g.render(ce.Args[2]))
			}
			return true
		})
		fmt.Fprintf(b, "/-- the `stateNodes` argument of `NewScheduler` in `%s` -/\ndef %sArg : List String := [", e.fn, e.lean)
		for i, s := range args {
			if i > 0 {
				b.WriteString(", ")
			}
			b.WriteString(leanStr(s))
		}
		b.WriteString("]\n\n")
	}
	// how `stateNodes` is derived from `nodes` in SimulateScheduling
	if _, fd := g.findFunc("pkg/controllers/disruption", "SimulateScheduling"); fd != nil {
		src := ""
		ast.Inspect(fd.Body, func(n ast.Node) bool {
			as, ok := n.(*ast.AssignStmt)
			if !ok || len(as.Lhs) != 1 || len(as.Rhs) != 1 {
				return true
			}
			if id, ok := as.Lhs[0].(*ast.Ident); ok && id.Name == "stateNodes" && src == "" {
				if ce, ok := as.Rhs[0].(*ast.CallExpr); ok && len(ce.Args) > 0 {
					src = exprString(ce.Fun) + "(" + g.render(ce.Args[0]) + ", …)"
				}
			}
			return true
		})
		fmt.Fprintf(b, "/-- `stateNodes := …` in `SimulateScheduling` -/\ndef simStateNodesSource : String := %s\n\n", leanStr(src))
	}
	// (2) Solve hands a deep copy of the pod to trySchedule (relaxation mutates the pod)
	if _, fd := g.findFunc("pkg/controllers/provisioning/scheduling", "Scheduler.Solve"); fd != nil {
		var args []string
		ast.Inspect(fd.Body, func(n ast.Node) bool {
			ce, ok := n.(*ast.CallExpr)
			if ok && exprString(ce.Fun) == "s.trySchedule" && len(ce.Args) == 2 {
				args = append(args, g.render(ce.Args[1]))
			}
			return true
		})
		fmt.Fprintf(b, "/-- the pod argument of every `s.trySchedule(ctx, …)` call in `Scheduler.Solve` (%s) -/\ndef solveTryScheduleArgs : List String := [", g.pos(fd.Pos()))
		for i, s := range args {
			if i > 0 {
				b.WriteString(", ")
			}
			b.WriteString(leanStr(s))
		}
		b.WriteString("]\n\n")
	}
	// Relax is only called from trySchedule
	{
		p := g.pkg("pkg/controllers/provisioning/scheduling")
		var callers []string
		if p != nil {
			for _, f := range p.Syntax {
				if strings.HasSuffix(g.fset.Position(f.Pos()).Filename, "_test.go") {
					continue
				}
				for _, d := range f.Decls {
					fd, ok := d.(*ast.FuncDecl)
					if !ok || fd.Body == nil {
						continue
					}
					ast.Inspect(fd.Body, func(n ast.Node) bool {
						if ce, ok := n.(*ast.CallExpr); ok && strings.HasSuffix(exprString(ce.Fun), ".Relax") {
							callers = append(callers, fd.Name.Name)
						}
						return true
					})
				}
			}
		}
		sort.Strings(callers)
		fmt.Fprintf(b, "/-- functions of provisioning/scheduling that call `Preferences.Relax` -/\ndef relaxCallers : List String := [")
		for i, s := range callers {
			if i > 0 {
				b.WriteString(", ")
			}
			b.WriteString(leanStr(s))
		}
		b.WriteString("]\n\n")
	}
	// (3) filterInstanceTypesByRequirements collects into a slice it allocates itself and returns that slice
	if _, fd := g.findFunc("pkg/controllers/provisioning/scheduling", "filterInstanceTypesByRequirements"); fd != nil {
		initExpr := ""
		var rets []string
		ast.Inspect(fd.Body, func(n ast.Node) bool {
			switch s := n.(type) {
			case *ast.AssignStmt:
				if len(s.Lhs) == 1 && len(s.Rhs) == 1 && s.Tok == token.DEFINE {
					if id, ok := s.Lhs[0].(*ast.Ident); ok && id.Name == "remaining" {
						initExpr = g.render(s.Rhs[0])
					}
				}
			case *ast.ReturnStmt:
				if len(s.Results) > 0 {
					rets = append(rets, g.render(s.Results[0]))
				}
			case *ast.FuncLit:
				return false
			}
			return true
		})
		fmt.Fprintf(b, "/-- `remaining := …` in `filterInstanceTypesByRequirements` (%s) -/\ndef filterRemainingInit : String := %s\n", g.pos(fd.Pos()), leanStr(initExpr))
		fmt.Fprintf(b, "/-- first result of every `return` in `filterInstanceTypesByRequirements` -/\ndef filterReturns : List String := [")
		for i, s := range rets {
			if i > 0 {
				b.WriteString(", ")
			}
			b.WriteString(leanStr(s))
		}
		b.WriteString("]\n\n")
	}
	// (4) the DRA allocator's per-(NodeClaim, instance type) counter budget, which AllocationTracker.commitTemplateCounters
	// lowers in place, is built by computeTemplateTotals from the provider's ResourceSliceTemplate.SharedCounters: every
	// value it stores into the maps it returns must be a map it made itself or a Counter literal whose fields are
	// DeepCopy() results (never a map / quantity taken from the template)
	if _, fd := g.findFunc("pkg/scheduling/dynamicresources", "computeTemplateTotals"); fd != nil {
		// how every local identifier gets its value: make(...) | lookup:<ident> | nil-var | other
		kinds := map[string][]string{}
		note := func(name, k string) { kinds[name] = append(kinds[name], k) }
		classify := func(e ast.Expr) string {
			switch x := e.(type) {
			case *ast.CallExpr:
				if id, ok := x.Fun.(*ast.Ident); ok && id.Name == "make" {
					return "make"
				}
			case *ast.IndexExpr:
				if id, ok := x.X.(*ast.Ident); ok {
					return "lookup:" + id.Name
				}
			}
			return "other"
		}
		ast.Inspect(fd.Body, func(n ast.Node) bool {
			switch s := n.(type) {
			case *ast.AssignStmt:
				if len(s.Rhs) == 1 {
					if id, ok := s.Lhs[0].(*ast.Ident); ok && id.Name != "_" {
						note(id.Name, classify(s.Rhs[0]))
					}
				} else {
					for i, l := range s.Lhs {
						if id, ok := l.(*ast.Ident); ok && i < len(s.Rhs) {
							note(id.Name, classify(s.Rhs[i]))
						}
					}
				}
			case *ast.RangeStmt:
				for _, e := range []ast.Expr{s.Key, s.Value} {
					if id, ok := e.(*ast.Ident); ok && id.Name != "_" {
						note(id.Name, "other")
					}
				}
			case *ast.ValueSpec:
				for i, id := range s.Names {
					if i < len(s.Values) {
						note(id.Name, classify(s.Values[i]))
					} else {
						note(id.Name, "nil-var")
					}
				}
			}
			return true
		})
		fresh := map[string]bool{}
		for name, ks := range kinds {
			for _, k := range ks {
				if k == "make" {
					fresh[name] = true
				}
			}
		}
		for changed := true; changed; {
			changed = false
			for name := range fresh {
				for _, k := range kinds[name] {
					ok := k == "make" || k == "nil-var" || (strings.HasPrefix(k, "lookup:") && fresh[strings.TrimPrefix(k, "lookup:")])
					if !ok {
						delete(fresh, name)
						changed = true
						break
					}
				}
			}
		}
		copyLiteral := func(e ast.Expr) bool {
			cl, ok := e.(*ast.CompositeLit)
			if !ok || len(cl.Elts) == 0 {
				return false
			}
			for _, el := range cl.Elts {
				kv, ok := el.(*ast.KeyValueExpr)
				if !ok {
					return false
				}
				ce, ok := kv.Value.(*ast.CallExpr)
				if !ok || !strings.HasSuffix(exprString(ce.Fun), ".DeepCopy") {
					return false
				}
			}
			return true
		}
		var stores [][2]string
		ast.Inspect(fd.Body, func(n ast.Node) bool {
			as, ok := n.(*ast.AssignStmt)
			if !ok {
				return true
			}
			for i, l := range as.Lhs {
				ix, ok := l.(*ast.IndexExpr)
				if !ok || i >= len(as.Rhs) {
					continue
				}
				kind := "other"
				if id, ok := as.Rhs[i].(*ast.Ident); ok && fresh[id.Name] {
					kind = "fresh-map"
				} else if copyLiteral(as.Rhs[i]) {
					kind = "deepcopy-literal"
				}
				base := g.render(ix.X)
				if id, ok := ix.X.(*ast.Ident); !ok || !fresh[id.Name] {
					kind = "other" // the map written to is not one the function made
				}
				stores = append(stores, [2]string{base + "[…] = " + g.render(as.Rhs[i]), kind})
			}
			return true
		})
		var rets []string
		ast.Inspect(fd.Body, func(n ast.Node) bool {
			if r, ok := n.(*ast.ReturnStmt); ok && len(r.Results) > 0 {
				k := "other"
				if id, ok := r.Results[0].(*ast.Ident); ok && fresh[id.Name] {
					k = "fresh-map"
				}
				rets = append(rets, k)
			}
			return true
		})
		fmt.Fprintf(b, "/-- every map store in `dynamicresources.computeTemplateTotals` (%s): the statement and what is stored\n    (`fresh-map` = a map the function made itself, `deepcopy-literal` = a literal whose fields are `DeepCopy()` results) -/\ndef templateTotalsStores : List (String × String) := [", g.pos(fd.Pos()))
		for i, s := range stores {
			if i > 0 {
				b.WriteString(", ")
			}
			fmt.Fprintf(b, "(%s, %s)", leanStr(s[0]), leanStr(s[1]))
		}
		b.WriteString("]\n")
		fmt.Fprintf(b, "/-- what `computeTemplateTotals` returns -/\ndef templateTotalsReturns : List String := [")
		for i, s := range rets {
			if i > 0 {
				b.WriteString(", ")
			}
			b.WriteString(leanStr(s))
		}
		b.WriteString("]\n\n")
	} else {
		g.errf("c18: dynamicresources.computeTemplateTotals not found")
	}
	// nomination window: max(2*BatchMaxDuration, 10s)
	if _, fd := g.findFunc("pkg/controllers/state", "nominationWindow"); fd != nil {
		expr := ""
		ast.Inspect(fd.Body, func(n ast.Node) bool {
			if ce, ok := n.(*ast.CallExpr); ok && exprString(ce.Fun) == "max" && expr == "" {
				expr = g.render(ce)
			}
			return true
		})
		fmt.Fprintf(b, "/-- the nomination window formula in `state.nominationWindow` (%s) -/\ndef nominationWindowExpr : String := %s\n", g.pos(fd.Pos()), leanStr(expr))
		mult, floor := 0, 0
		if expr == "max(2*options.FromContext(ctx).BatchMaxDuration, 10*time.Second)" {
			mult, floor = 2, 10
		} else {
			g.errf("c18: nominationWindow has an unexpected shape: %s", expr)
		}
		fmt.Fprintf(b, "def nominationBatchMultiplier : Nat := %d\ndef nominationFloorSeconds : Nat := %d\n\n", mult, floor)
	}
}

// ---------- SSA-based write-effect analysis ----------

// SSA-based write-effect analysis for C18 (see facts_c18.go for what is emitted and why).
//
// Every write is described by an *access path*: a root (a parameter of the entry point, an allocation, the result of a
// call that is not traced, a global) and the struct fields traversed from the root to the written location. Paths through
// parameters of inner functions are lifted to their call sites until the root is one of the above. A write whose root is
// an allocation made on the way and whose path is empty writes fresh memory and is dropped (counted).

type c18Root struct {
	kind  string // param | alloc | call | global | unknown
	desc  string
	fn    *ssa.Function
	param int
	// an allocated container whose elements are pointer-like: it has no fields of its own, what its elements point to is
	// tracked separately (elems), so a path below it is an artefact of not distinguishing the two
	ptrContainer bool
}

type c18Origin struct {
	root c18Root
	path []string
}

func (o c18Origin) key() string {
	return fmt.Sprintf("%s|%s|%p|%d|%s", o.root.kind, o.root.desc, o.root.fn, o.root.param, strings.Join(o.path, ">"))
}

const c18MaxPath = 6

func c18Extend(p []string, more ...string) []string {
	out := append(append([]string{}, p...), more...)
	// collapse immediate repetitions (recursive structures) and bound the length
	var d []string
	for _, x := range out {
		if len(d) > 0 && d[len(d)-1] == x {
			continue
		}
		d = append(d, x)
	}
	if len(d) > c18MaxPath {
		d = append(append(append([]string{}, d[:3]...), "…"), d[len(d)-2:]...)
	}
	return d
}

type c18An struct {
	g          *gen
	prog       *ssa.Program
	all        map[*ssa.Function]bool
	globalFns  map[*ssa.Global][]*ssa.Function
	addrTaken  map[string][]*ssa.Function
	namedTypes []types.Type
	chaCache   map[string][]*ssa.Function
	closureOf  map[*ssa.Function]*ssa.MakeClosure
	retMemo    map[string][]c18Origin
	retBusy    map[*ssa.Function]bool
}

func isModule(fn *ssa.Function) bool {
	for f := fn; f != nil; f = f.Parent() {
		if f.Pkg != nil {
			return strings.HasPrefix(f.Pkg.Pkg.Path(), karpMod)
		}
		if o := f.Object(); o != nil && o.Pkg() != nil {
			return strings.HasPrefix(o.Pkg().Path(), karpMod)
		}
		if org := f.Origin(); org != nil && org != f {
			return isModule(org)
		}
	}
	return false
}

func (a *c18An) build() bool {
	g := a.g
	var roots []*packages.Package
	for _, p := range g.pkgs {
		roots = append(roots, p)
	}
	sort.Slice(roots, func(i, j int) bool { return roots[i].PkgPath < roots[j].PkgPath })
	var initial []*packages.Package
	packages.Visit(roots, nil, func(p *packages.Package) {
		if strings.HasPrefix(p.PkgPath, karpMod) && p.Types != nil && !p.IllTyped {
			initial = append(initial, p)
		}
	})
	if len(initial) == 0 {
		g.errf("c18: no module packages loaded")
		return false
	}
	prog, _ := ssautil.Packages(initial, ssa.InstantiateGenerics)
	prog.Build()
	a.prog = prog
	a.all = map[*ssa.Function]bool{}
	a.globalFns = map[*ssa.Global][]*ssa.Function{}
	a.addrTaken = map[string][]*ssa.Function{}
	a.chaCache = map[string][]*ssa.Function{}
	a.closureOf = map[*ssa.Function]*ssa.MakeClosure{}
	a.retMemo = map[string][]c18Origin{}
	a.retBusy = map[*ssa.Function]bool{}
	for fn := range ssautil.AllFunctions(prog) {
		if fn.Blocks != nil && isModule(fn) {
			a.all[fn] = true
		}
	}
	for _, sp := range prog.AllPackages() {
		if !strings.HasPrefix(sp.Pkg.Path(), karpMod) {
			continue
		}
		for _, m := range sp.Members {
			if t, ok := m.(*ssa.Type); ok {
				a.namedTypes = append(a.namedTypes, t.Type(), types.NewPointer(t.Type()))
			}
		}
	}
	seenTaken := map[*ssa.Function]bool{}
	take := func(f *ssa.Function) {
		if f == nil || seenTaken[f] || f.Blocks == nil || f.Signature.Recv() != nil {
			return
		}
		seenTaken[f] = true
		k := types.TypeString(f.Signature, nil)
		a.addrTaken[k] = append(a.addrTaken[k], f)
	}
	for fn := range a.all {
		for _, b := range fn.Blocks {
			for _, ins := range b.Instrs {
				if mc, ok := ins.(*ssa.MakeClosure); ok {
					if f, ok := mc.Fn.(*ssa.Function); ok {
						a.closureOf[f] = mc
						take(f)
					}
				}
				if st, ok := ins.(*ssa.Store); ok {
					if gl, ok := st.Addr.(*ssa.Global); ok {
						switch v := st.Val.(type) {
						case *ssa.Function:
							a.globalFns[gl] = append(a.globalFns[gl], v)
						case *ssa.MakeClosure:
							if f, ok := v.Fn.(*ssa.Function); ok {
								a.globalFns[gl] = append(a.globalFns[gl], f)
							}
						}
					}
				}
				var ops []*ssa.Value
				call, isCall := ins.(ssa.CallInstruction)
				for _, op := range ins.Operands(ops) {
					if op == nil || *op == nil {
						continue
					}
					if f, ok := (*op).(*ssa.Function); ok {
						if isCall && call.Common().Value == f {
							continue
						}
						take(f)
					}
				}
			}
		}
	}
	return true
}

// implementers of an interface method among the module's named types (class hierarchy analysis)
func (a *c18An) cha(iface *types.Interface, m *types.Func) []*ssa.Function {
	key := types.TypeString(iface, nil) + "#" + m.Name()
	if r, ok := a.chaCache[key]; ok {
		return r
	}
	var out []*ssa.Function
	for _, t := range a.namedTypes {
		if types.IsInterface(t) || !types.Implements(t, iface) {
			continue
		}
		sel := a.prog.MethodSets.MethodSet(t).Lookup(m.Pkg(), m.Name())
		if sel == nil {
			continue
		}
		if f := a.prog.MethodValue(sel); f != nil {
			out = append(out, f)
		}
	}
	a.chaCache[key] = out
	return out
}

func (a *c18An) callees(c *ssa.CallCommon) []*ssa.Function {
	if c.IsInvoke() {
		iface, ok := c.Value.Type().Underlying().(*types.Interface)
		if !ok {
			return nil
		}
		return a.cha(iface, c.Method)
	}
	if f := c.StaticCallee(); f != nil {
		return []*ssa.Function{f}
	}
	return nil
}

// dynamic resolves the call of a function value to the functions of `avail` (function values created in reachable code)
// with an identical signature
func (a *c18An) dynamic(c *ssa.CallCommon, avail []*ssa.Function) []*ssa.Function {
	if c.IsInvoke() || c.StaticCallee() != nil {
		return nil
	}
	if _, ok := c.Value.(*ssa.Builtin); ok {
		return nil
	}
	sig, ok := c.Value.Type().Underlying().(*types.Signature)
	if !ok {
		return nil
	}
	var out []*ssa.Function
	for _, f := range avail {
		if types.Identical(f.Signature, sig) {
			out = append(out, f)
		}
	}
	return out
}

func (a *c18An) reach(entry *ssa.Function) map[*ssa.Function]bool {
	seen := map[*ssa.Function]bool{}
	var work []*ssa.Function
	push := func(f *ssa.Function) {
		if f != nil && !seen[f] && f.Blocks != nil && isModule(f) {
			seen[f] = true
			work = append(work, f)
		}
	}
	push(entry)
	for len(work) > 0 {
		fn := work[len(work)-1]
		work = work[:len(work)-1]
		for _, an := range fn.AnonFuncs {
			push(an)
		}
		for _, b := range fn.Blocks {
			for _, ins := range b.Instrs {
				if c, ok := ins.(ssa.CallInstruction); ok {
					for _, f := range a.callees(c.Common()) {
						push(f)
					}
				}
				var ops []*ssa.Value
				for _, op := range ins.Operands(ops) {
					if op == nil || *op == nil {
						continue
					}
					switch v := (*op).(type) {
					case *ssa.Function:
						push(v)
					case *ssa.Global:
						for _, f := range a.globalFns[v] {
							push(f)
						}
					}
				}
			}
		}
	}
	return seen
}

// structField names field idx of the struct (or pointer to struct) type t as "pkg.Type.field".
func structField(t types.Type, idx int) (string, bool) {
	if p, ok := t.Underlying().(*types.Pointer); ok {
		t = p.Elem()
	}
	st, ok := t.Underlying().(*types.Struct)
	if !ok || idx >= st.NumFields() {
		return "", false
	}
	tn := "struct"
	if n, ok := t.(*types.Named); ok {
		tn = n.Obj().Name()
		if n.Obj().Pkg() != nil {
			tn = c18PkgShort(n.Obj().Pkg().Path()) + "." + tn
		}
	} else if al, ok := t.(*types.Alias); ok {
		tn = al.Obj().Name()
		if al.Obj().Pkg() != nil {
			tn = c18PkgShort(al.Obj().Pkg().Path()) + "." + tn
		}
	}
	return tn + "." + st.Field(idx).Name(), true
}

type c18Ctx struct {
	a     *c18An
	depth int
	seen  map[ssa.Value]bool
	seenE map[elemKey]bool
}

func dedupOrigins(os []c18Origin) []c18Origin {
	seen := map[string]bool{}
	var out []c18Origin
	for _, o := range os {
		k := o.key()
		if !seen[k] {
			seen[k] = true
			out = append(out, o)
		}
	}
	return out
}

func (a *c18An) chase(v ssa.Value) []c18Origin {
	c := &c18Ctx{a: a, seen: map[ssa.Value]bool{}}
	return dedupOrigins(c.val(v))
}

// holdsRefs: a container type whose elements are (or contain) references
func holdsRefs(t types.Type) bool {
	switch u := t.Underlying().(type) {
	case *types.Slice:
		return isRefType(u.Elem())
	case *types.Array:
		return isRefType(u.Elem())
	case *types.Map:
		return isRefType(u.Elem()) || isRefType(u.Key())
	}
	return false
}

// ptrElems: a container whose elements are pointer-like (it has no struct fields of its own: a non-empty path below it
// necessarily went through an element, an empty path is about the container itself)
func ptrElems(t types.Type) bool {
	var el types.Type
	switch u := t.Underlying().(type) {
	case *types.Slice:
		el = u.Elem()
	case *types.Array:
		el = u.Elem()
	case *types.Map:
		el = u.Elem()
	default:
		return false
	}
	switch el.Underlying().(type) {
	case *types.Pointer, *types.Map, *types.Slice, *types.Interface:
		return true
	}
	return false
}

// argOrigins: origins to substitute for a callee parameter that the callee used with the given path
func (c *c18Ctx) argOrigins(arg ssa.Value, calleePathEmpty bool) []c18Origin {
	if !holdsRefs(arg.Type()) {
		return c.val(arg)
	}
	if ptrElems(arg.Type()) {
		if calleePathEmpty {
			return c.val(arg)
		}
		return c.elems(arg)
	}
	return append(c.val(arg), c.elems(arg)...)
}

// chaseArg: an argument handed to a callee. The callee does not distinguish a container from its elements, so both the
// container's identity and what its elements are count.
func (a *c18An) chaseArg(v ssa.Value) []c18Origin {
	c := &c18Ctx{a: a, seen: map[ssa.Value]bool{}}
	out := c.val(v)
	if holdsRefs(v.Type()) {
		c2 := &c18Ctx{a: a, seen: map[ssa.Value]bool{}}
		out = append(out, c2.elems(v)...)
	}
	return dedupOrigins(out)
}

func paramIndex(p *ssa.Parameter) int {
	for i, q := range p.Parent().Params {
		if q == p {
			return i
		}
	}
	return -1
}

func extendAll(os []c18Origin, f string) []c18Origin {
	out := make([]c18Origin, 0, len(os))
	for _, o := range os {
		out = append(out, c18Origin{root: o.root, path: c18Extend(o.path, f)})
	}
	return out
}

func allocRoot(t types.Type, in *ssa.Function) c18Origin {
	return c18Origin{root: c18Root{kind: "alloc", desc: c18TypeName(t) + "\x00" + c18FuncName(in), ptrContainer: ptrElems(t)}}
}

func unknown(desc string) []c18Origin {
	return []c18Origin{{root: c18Root{kind: "unknown", desc: desc}}}
}

// contents of a local variable cell that was not lifted to a register: every value stored into it, here or in a
// closure that captures it
func (c *c18Ctx) allocContents(al *ssa.Alloc) []c18Origin {
	var out []c18Origin
	n := 0
	for _, r := range *al.Referrers() {
		switch x := r.(type) {
		case *ssa.Store:
			if x.Addr == al {
				n++
				out = append(out, c.val(x.Val)...)
			}
		case *ssa.MakeClosure:
			cf, ok := x.Fn.(*ssa.Function)
			if !ok {
				continue
			}
			for i, bnd := range x.Bindings {
				if bnd != al || i >= len(cf.FreeVars) {
					continue
				}
				fv := cf.FreeVars[i]
				for _, b := range cf.Blocks {
					for _, ins := range b.Instrs {
						if st, ok := ins.(*ssa.Store); ok && st.Addr == fv {
							n++
							out = append(out, c.val(st.Val)...)
						}
					}
				}
			}
		}
	}
	if n == 0 {
		return []c18Origin{allocRoot(al.Type().Underlying().(*types.Pointer).Elem(), al.Parent())}
	}
	return out
}

func (c *c18Ctx) freeVar(fv *ssa.FreeVar) ssa.Value {
	fn := fv.Parent()
	mc := c.a.closureOf[fn]
	if mc == nil {
		return nil
	}
	for i, f := range fn.FreeVars {
		if f == fv && i < len(mc.Bindings) {
			return mc.Bindings[i]
		}
	}
	return nil
}

// load: origins of the value obtained by loading from address addr
func (c *c18Ctx) load(addr ssa.Value) []c18Origin {
	switch x := addr.(type) {
	case *ssa.FieldAddr:
		if f, ok := structField(x.X.Type(), x.Field); ok {
			return extendAll(c.val(x.X), f)
		}
	case *ssa.Alloc:
		return c.allocContents(x)
	case *ssa.IndexAddr:
		return c.elems(x.X)
	case *ssa.Global:
		return []c18Origin{{root: c18Root{kind: "global", desc: c18PkgShort(x.Pkg.Pkg.Path()) + "." + x.Name()}}}
	case *ssa.FreeVar:
		if b := c.freeVar(x); b != nil {
			return c.load(b)
		}
		return unknown("capture:" + c18TypeName(x.Type()))
	}
	return c.val(addr)
}

func (c *c18Ctx) val(v ssa.Value) []c18Origin {
	if v == nil || c.seen[v] {
		return nil
	}
	c.seen[v] = true
	c.depth++
	defer func() { c.depth-- }()
	if c.depth > 60 {
		return unknown("deep:" + c18TypeName(v.Type()))
	}
	switch x := v.(type) {
	case *ssa.Parameter:
		return []c18Origin{{root: c18Root{kind: "param", fn: x.Parent(), param: paramIndex(x)}}}
	case *ssa.FreeVar:
		if b := c.freeVar(x); b != nil {
			return c.val(b)
		}
		return unknown("capture:" + c18TypeName(x.Type()))
	case *ssa.Alloc:
		return []c18Origin{allocRoot(x.Type().Underlying().(*types.Pointer).Elem(), x.Parent())}
	case *ssa.MakeMap, *ssa.MakeSlice:
		return []c18Origin{allocRoot(v.Type(), v.(ssa.Instruction).Parent())}
	case *ssa.MakeChan, *ssa.MakeClosure:
		return []c18Origin{allocRoot(v.Type(), v.(ssa.Instruction).Parent())}
	case *ssa.Const:
		return []c18Origin{{root: c18Root{kind: "alloc", desc: "nil"}}}
	case *ssa.Function, *ssa.Builtin:
		return nil
	case *ssa.Global:
		return []c18Origin{{root: c18Root{kind: "global", desc: c18PkgShort(x.Pkg.Pkg.Path()) + "." + x.Name()}}}
	case *ssa.UnOp:
		if x.Op == token.MUL {
			return c.load(x.X)
		}
		if x.Op == token.ARROW {
			return unknown("chan-recv:" + c18TypeName(x.Type()))
		}
		return nil
	case *ssa.FieldAddr:
		if f, ok := structField(x.X.Type(), x.Field); ok {
			return extendAll(c.val(x.X), f)
		}
	case *ssa.Field:
		if f, ok := structField(x.X.Type(), x.Field); ok {
			return extendAll(c.val(x.X), f)
		}
	case *ssa.IndexAddr:
		return c.elems(x.X)
	case *ssa.Index:
		return c.elems(x.X)
	case *ssa.Lookup:
		return c.elems(x.X)
	case *ssa.Slice:
		return c.val(x.X)
	case *ssa.Phi:
		var out []c18Origin
		for _, e := range x.Edges {
			out = append(out, c.val(e)...)
		}
		return out
	case *ssa.ChangeType:
		return c.val(x.X)
	case *ssa.Convert:
		return c.val(x.X)
	case *ssa.ChangeInterface:
		return c.val(x.X)
	case *ssa.MakeInterface:
		return c.val(x.X)
	case *ssa.TypeAssert:
		return c.val(x.X)
	case *ssa.SliceToArrayPointer:
		return c.val(x.X)
	case *ssa.Extract:
		switch t := x.Tuple.(type) {
		case *ssa.Next:
			if r, ok := t.Iter.(*ssa.Range); ok {
				return c.elems(r.X)
			}
		case *ssa.Lookup:
			return c.elems(t.X)
		case *ssa.TypeAssert:
			return c.val(t.X)
		case *ssa.Call:
			return c.call(t, x.Index)
		}
		return unknown("extract:" + c18TypeName(x.Type()))
	case *ssa.Call:
		return c.call(x, 0)
	case *ssa.BinOp:
		return nil
	}
	return unknown(fmt.Sprintf("%T:%s", v, c18TypeName(v.Type())))
}

// elems: origins of what the elements of container v are (or point to). For containers made in this function these are
// the values stored into them; for everything else container and elements are not distinguished.
func (c *c18Ctx) elems(v ssa.Value) []c18Origin {
	if v == nil {
		return nil
	}
	key := elemKey{v}
	if c.seenE[key] {
		return nil
	}
	if c.seenE == nil {
		c.seenE = map[elemKey]bool{}
	}
	c.seenE[key] = true
	contents := func(x ssa.Value) []c18Origin {
		var out []c18Origin
		for _, r := range *x.Referrers() {
			switch u := r.(type) {
			case *ssa.MapUpdate:
				if u.Map == x {
					out = append(out, c.val(u.Value)...)
					delete(c.seen, u.Value)
				}
			case *ssa.IndexAddr:
				if u.X == x {
					for _, r2 := range *u.Referrers() {
						if st, ok := r2.(*ssa.Store); ok && st.Addr == u {
							out = append(out, c.val(st.Val)...)
							delete(c.seen, st.Val)
						}
					}
				}
			}
		}
		return out
	}
	// value elements (structs) live inside the container itself; pointer-like elements live elsewhere
	self := func(t types.Type, in *ssa.Function) []c18Origin {
		var el types.Type
		switch u := t.Underlying().(type) {
		case *types.Slice:
			el = u.Elem()
		case *types.Array:
			el = u.Elem()
		case *types.Map:
			el = u.Elem()
		}
		if el != nil {
			switch el.Underlying().(type) {
			case *types.Pointer, *types.Map, *types.Slice, *types.Interface, *types.Basic, *types.Signature, *types.Chan:
				return nil
			}
		}
		if in == nil {
			return []c18Origin{{}}
		}
		return []c18Origin{allocRoot(t, in)}
	}
	switch x := v.(type) {
	case *ssa.MakeMap, *ssa.MakeSlice:
		return append(self(v.Type(), v.(ssa.Instruction).Parent()), contents(v)...)
	case *ssa.Alloc:
		el := x.Type().Underlying().(*types.Pointer).Elem()
		if _, isArr := el.Underlying().(*types.Array); isArr {
			return append(self(el, x.Parent()), contents(x)...)
		}
	case *ssa.Slice:
		return c.elems(x.X)
	case *ssa.Phi:
		var out []c18Origin
		for _, e := range x.Edges {
			out = append(out, c.elems(e)...)
		}
		return out
	case *ssa.ChangeType:
		return c.elems(x.X)
	case *ssa.Convert:
		return c.elems(x.X)
	case *ssa.MakeInterface:
		return c.elems(x.X)
	case *ssa.UnOp:
		if al, ok := x.X.(*ssa.Alloc); ok && x.Op == token.MUL {
			// a local variable holding a container: the elements of everything assigned to it
			var out []c18Origin
			n := 0
			for _, r := range *al.Referrers() {
				if st, ok := r.(*ssa.Store); ok && st.Addr == al {
					n++
					out = append(out, c.elems(st.Val)...)
				}
			}
			if n > 0 {
				return append(out, c.val(v)...)
			}
		}
	case *ssa.Call:
		return c.callX(x, 0, true)
	case *ssa.Extract:
		if call, ok := x.Tuple.(*ssa.Call); ok {
			return c.callX(call, x.Index, true)
		}
	}
	// otherwise container and elements are not distinguished — except that a container allocated on the way, whose
	// elements are pointer-like, holds only what was stored into it (tracked above), never itself
	out := c.val(v)
	if len(self(v.Type(), nil)) == 0 {
		kept := out[:0:0]
		for _, o := range out {
			if o.root.kind == "alloc" && len(o.path) == 0 {
				continue
			}
			kept = append(kept, o)
		}
		out = kept
	}
	return out
}

type elemKey struct{ v ssa.Value }

// library functions whose result is (one of) their arguments
var c18PassThrough = map[string][]int{
	"github.com/samber/lo.Ternary":   {1, 2},
	"github.com/samber/lo.FromPtr":   {0},
	"github.com/samber/lo.Must":      {0},
	"github.com/samber/lo.Must1":     {0},
	"github.com/samber/lo.Slice":     {0},
	"github.com/samber/lo.FromPtrOr": {0, 1},
}

// library functions whose result is a new container holding (some of) the elements of their arguments: the container
// is fresh, what the elements point to is not. The marker stays in the path.
const c18Shallow = "[shallow-copy]"

var c18ShallowCopy = map[string][]int{
	"github.com/samber/lo.Filter":       {0},
	"github.com/samber/lo.FilterReject": {0},
	"github.com/samber/lo.Reject":       {0},
	"github.com/samber/lo.Uniq":         {0},
	"github.com/samber/lo.Values":       {0},
	"github.com/samber/lo.Assign":       {0, 1, 2, 3},
	"github.com/samber/lo.PickBy":       {0},
	"github.com/samber/lo.OmitBy":       {0},
	"github.com/samber/lo.ToSlicePtr":   {0},
	"slices.Concat":                     {0, 1, 2, 3},
	"slices.Clone":                      {0},
	"maps.Clone":                        {0},
}

// result idx of a call
func (c *c18Ctx) call(call *ssa.Call, idx int) []c18Origin { return c.callX(call, idx, false) }

// callX: the idx-th result of a call as a container (elems=false) or what its elements are (elems=true)
func (c *c18Ctx) callX(call *ssa.Call, idx int, elems bool) []c18Origin {
	com := call.Common()
	if b, ok := com.Value.(*ssa.Builtin); ok {
		if b.Name() == "append" && len(com.Args) > 0 {
			if elems {
				var out []c18Origin
				for _, ar := range com.Args {
					out = append(out, c.elems(ar)...)
				}
				return out
			}
			// as a container the result is the first argument's backing array (or a fresh one)
			return c.val(com.Args[0])
		}
		return []c18Origin{allocRoot(call.Type(), call.Parent())}
	}
	f := com.StaticCallee()
	if f != nil && f.Blocks != nil && isModule(f) && !com.IsInvoke() {
		var res []c18Origin
		for _, o := range c.a.returnsOf(f, idx, elems) {
			if o.root.kind == "param" && o.root.fn == f {
				if o.root.param >= 0 && o.root.param < len(com.Args) {
					arg := com.Args[o.root.param]
					aos := c.argOrigins(arg, len(o.path) == 0 && !elems)
					for _, ao := range aos {
						res = append(res, c18Origin{root: ao.root, path: c18Extend(ao.path, o.path...)})
					}
					// the same argument may be needed again for another returned path
					delete(c.seen, com.Args[o.root.param])
				}
				continue
			}
			res = append(res, o)
		}
		return res
	}
	name := "?"
	switch {
	case f != nil:
		base := f
		if org := f.Origin(); org != nil {
			base = org
		}
		full := base.RelString(nil)
		if args, ok := c18ShallowCopy[full]; ok {
			var res []c18Origin
			for _, i := range args {
				if i < len(com.Args) {
					res = append(res, extendAll(c.elems(com.Args[i]), c18Shallow)...)
				}
			}
			if len(res) == 0 {
				res = []c18Origin{allocRoot(call.Type(), call.Parent())}
			}
			return res
		}
		if args, ok := c18PassThrough[full]; ok {
			var res []c18Origin
			for _, i := range args {
				if i < len(com.Args) {
					if elems {
						res = append(res, c.elems(com.Args[i])...)
					} else {
						res = append(res, c.val(com.Args[i])...)
					}
				}
			}
			return res
		}
		name = c18FuncName(base)
	case com.IsInvoke():
		name = c18TypeName(com.Value.Type()) + "." + com.Method.Name()
	default:
		name = "dynamic:" + c18TypeName(com.Value.Type())
	}
	return []c18Origin{{root: c18Root{kind: "call", desc: name}}}
}

// returnsOf: origins (in f's own frame) of the idx-th result of f
func (a *c18An) returnsOf(f *ssa.Function, idx int, elems bool) []c18Origin {
	key := fmt.Sprintf("%p#%d#%v", f, idx, elems)
	if r, ok := a.retMemo[key]; ok {
		return r
	}
	if a.retBusy[f] {
		return []c18Origin{{root: c18Root{kind: "call", desc: c18FuncName(f)}}}
	}
	a.retBusy[f] = true
	var out []c18Origin
	for _, b := range f.Blocks {
		for _, ins := range b.Instrs {
			if r, ok := ins.(*ssa.Return); ok && idx < len(r.Results) {
				if elems {
					c := &c18Ctx{a: a, seen: map[ssa.Value]bool{}}
					out = append(out, c.elems(r.Results[idx])...)
				} else {
					out = append(out, a.chase(r.Results[idx])...)
				}
			}
		}
	}
	a.retBusy[f] = false
	out = dedupOrigins(out)
	if len(out) > 16 {
		out = []c18Origin{{root: c18Root{kind: "call", desc: c18FuncName(f)}}}
	}
	a.retMemo[key] = out
	return out
}

// mutating library functions (external to the module): their receiver / first argument is written
var c18LibMut = map[string]string{
	"(*sync.Map).Store": "sync.Map.Store", "(*sync.Map).LoadOrStore": "sync.Map.LoadOrStore", "(*sync.Map).LoadAndDelete": "sync.Map.LoadAndDelete",
	"(*sync.Map).Delete": "sync.Map.Delete", "(*sync.Map).Swap": "sync.Map.Swap", "(*sync.Map).CompareAndSwap": "sync.Map.CompareAndSwap",
	"(*sync.Map).CompareAndDelete": "sync.Map.CompareAndDelete", "(*sync.Map).Clear": "sync.Map.Clear",
	"(*sync/atomic.Bool).Store": "atomic.Store", "(*sync/atomic.Int64).Add": "atomic.Add", "(*sync/atomic.Int64).Store": "atomic.Store",
	"(*sync/atomic.Int32).Add": "atomic.Add", "(*sync/atomic.Int32).Store": "atomic.Store", "sync/atomic.AddInt64": "atomic.Add", "sync/atomic.StoreInt64": "atomic.Store",
	"(*k8s.io/apimachinery/pkg/api/resource.Quantity).Add": "Quantity.Add", "(*k8s.io/apimachinery/pkg/api/resource.Quantity).Sub": "Quantity.Sub",
	"(*k8s.io/apimachinery/pkg/api/resource.Quantity).Set": "Quantity.Set", "(*k8s.io/apimachinery/pkg/api/resource.Quantity).SetMilli": "Quantity.SetMilli",
	"(*k8s.io/apimachinery/pkg/api/resource.Quantity).Neg": "Quantity.Neg", "(*k8s.io/apimachinery/pkg/api/resource.Quantity).SetScaled": "Quantity.SetScaled",
	"(*k8s.io/apimachinery/pkg/api/resource.Quantity).RoundUp": "Quantity.RoundUp",
	"maps.Copy": "maps.Copy", "maps.DeleteFunc": "maps.DeleteFunc",
	"slices.Sort": "slices.Sort", "slices.SortFunc": "slices.SortFunc", "slices.SortStableFunc": "slices.SortStableFunc", "slices.Reverse": "slices.Reverse",
	"sort.Slice": "sort.Slice", "sort.SliceStable": "sort.SliceStable", "sort.Sort": "sort.Sort", "sort.Stable": "sort.Stable",
	"sort.Strings": "sort.Strings", "sort.Ints": "sort.Ints", "sort.Float64s": "sort.Float64s",
	"k8s.io/apimachinery/pkg/apis/meta/v1.SetMetaDataAnnotation": "metav1.SetMetaDataAnnotation", "k8s.io/apimachinery/pkg/apis/meta/v1.SetMetaDataLabel": "metav1.SetMetaDataLabel",
	"(github.com/awslabs/operatorpkg/status.ConditionSet).Set": "ConditionSet.Set", "(github.com/awslabs/operatorpkg/status.ConditionSet).SetTrue": "ConditionSet.Set",
	"(github.com/awslabs/operatorpkg/status.ConditionSet).SetFalse": "ConditionSet.Set", "(github.com/awslabs/operatorpkg/status.ConditionSet).SetUnknown": "ConditionSet.Set",
	"(github.com/awslabs/operatorpkg/status.ConditionSet).Clear": "ConditionSet.Clear", "(github.com/awslabs/operatorpkg/status.ConditionSet).SetTrueWithReason": "ConditionSet.Set",
}

func c18LibMutating(f *ssa.Function) (string, bool) {
	base := f
	if org := f.Origin(); org != nil {
		base = org
	}
	full := base.RelString(nil)
	if n, ok := c18LibMut[full]; ok {
		return n, true
	}
	if strings.HasPrefix(full, "(k8s.io/apimachinery/pkg/util/sets.Set[") {
		switch f.Name() {
		case "Insert", "Delete", "Clear", "PopAny":
			return "sets.Set." + f.Name(), true
		}
	}
	return "", false
}

var c18ClientWriteMethods = map[string]bool{"Create": true, "Update": true, "Patch": true, "Delete": true, "DeleteAllOf": true, "Apply": true}

type c18Write struct {
	kind  string // field | map | elem | deref | append | sort | lib | global
	inner string // the written field (pkg.Type.field), the library method, the global
	base  ssa.Value
}

func (a *c18An) writes(fn *ssa.Function) (ws []c18Write, clientWrites []string) {
	for _, b := range fn.Blocks {
		for _, ins := range b.Instrs {
			switch x := ins.(type) {
			case *ssa.Store:
				switch ad := x.Addr.(type) {
				case *ssa.Alloc:
					// assignment to a local variable
				case *ssa.FieldAddr:
					if f, ok := structField(ad.X.Type(), ad.Field); ok {
						ws = append(ws, c18Write{kind: "field", inner: f, base: ad.X})
					}
				case *ssa.IndexAddr:
					ws = append(ws, c18Write{kind: "elem", base: ad.X})
				case *ssa.Global:
					ws = append(ws, c18Write{kind: "global", inner: c18PkgShort(ad.Pkg.Pkg.Path()) + "." + ad.Name(), base: ad})
				case *ssa.FreeVar:
					c := &c18Ctx{a: a, seen: map[ssa.Value]bool{}}
					if bnd := c.freeVar(ad); bnd != nil {
						if _, ok := bnd.(*ssa.Alloc); ok {
							continue // assignment to a captured local variable of the enclosing function
						}
						ws = append(ws, c18Write{kind: "deref", base: bnd})
					} else {
						ws = append(ws, c18Write{kind: "deref", base: ad})
					}
				default:
					ws = append(ws, c18Write{kind: "deref", base: x.Addr})
				}
			case *ssa.MapUpdate:
				ws = append(ws, c18Write{kind: "map", base: x.Map})
			case ssa.CallInstruction:
				com := x.Common()
				if bi, ok := com.Value.(*ssa.Builtin); ok {
					switch bi.Name() {
					case "delete", "clear":
						ws = append(ws, c18Write{kind: "map", base: com.Args[0]})
					case "append":
						ws = append(ws, c18Write{kind: "append", base: com.Args[0]})
					case "copy":
						ws = append(ws, c18Write{kind: "elem", base: com.Args[0]})
					}
					continue
				}
				if com.IsInvoke() {
					recvT := types.TypeString(com.Value.Type(), nil)
					if strings.HasPrefix(recvT, "sigs.k8s.io/controller-runtime/pkg/client.") && c18ClientWriteMethods[com.Method.Name()] {
						clientWrites = append(clientWrites, strings.TrimPrefix(recvT, "sigs.k8s.io/controller-runtime/pkg/")+"."+com.Method.Name())
					}
					continue
				}
				if f := com.StaticCallee(); f != nil && (f.Blocks == nil || !isModule(f)) {
					if name, ok := c18LibMutating(f); ok && len(com.Args) > 0 {
						kind := "lib"
						if strings.HasPrefix(name, "sort.") || strings.HasPrefix(name, "slices.") {
							kind = "sort"
						}
						ws = append(ws, c18Write{kind: kind, inner: name, base: com.Args[0]})
					}
				}
			}
		}
	}
	return ws, clientWrites
}

// one write as seen from a function: through parameter `param`, at `path` below it
type c18Spec struct {
	kind, inner, via string
	path             string // joined with ">"
}

type c18Row struct {
	rootKind, rootDesc string
	path               []string
	kind, inner, via   string
}

func (r c18Row) key() string {
	return strings.Join([]string{r.rootKind, r.rootDesc, strings.Join(r.path, ">"), r.kind, r.inner, r.via}, "|")
}

func splitPath(s string) []string {
	if s == "" {
		return nil
	}
	return strings.Split(s, ">")
}

func (a *c18An) effects(entry *ssa.Function) (rows []c18Row, clientRows [][2]string, nFuncs, nLocal int) {
	reach := a.reach(entry)
	nFuncs = len(reach)
	fns := make([]*ssa.Function, 0, len(reach))
	for f := range reach {
		fns = append(fns, f)
	}
	sort.Slice(fns, func(i, j int) bool { return c18FuncName(fns[i]) < c18FuncName(fns[j]) })
	rowSet := map[string]c18Row{}
	sums := map[*ssa.Function]map[int]map[c18Spec]bool{}
	addSum := func(f *ssa.Function, i int, s c18Spec) bool {
		if sums[f] == nil {
			sums[f] = map[int]map[c18Spec]bool{}
		}
		if sums[f][i] == nil {
			sums[f][i] = map[c18Spec]bool{}
		}
		if sums[f][i][s] {
			return false
		}
		sums[f][i][s] = true
		return true
	}
	addRow := func(r c18Row) { rowSet[r.key()] = r }
	// emit attributes one write (kind, inner, performed in `via`) whose base object has the given origins
	emit := func(os []c18Origin, kind, inner, via string, t types.Type) bool {
		changed := false
		if len(os) == 0 {
			// the value derives only from nil and from appends to itself: a slice grown locally
			nLocal++
			return false
		}
		for _, o := range os {
			switch o.root.kind {
			case "alloc":
				if o.root.desc == "nil" {
					continue // a nil value has nothing behind it
				}
				if len(o.path) == 0 {
					nLocal++
					continue
				}
				if o.root.ptrContainer {
					continue
				}
				addRow(c18Row{"alloc", o.root.desc, o.path, kind, inner, via})
			case "param":
				if o.root.fn == entry {
					name := "?"
					if o.root.param >= 0 && o.root.param < len(entry.Params) {
						name = entry.Params[o.root.param].Name()
					}
					addRow(c18Row{"entry-param", name, o.path, kind, inner, via})
				} else if addSum(o.root.fn, o.root.param, c18Spec{kind: kind, inner: inner, via: via, path: strings.Join(o.path, ">")}) {
					changed = true
				}
			default:
				addRow(c18Row{o.root.kind, o.root.desc, o.path, kind, inner, via})
			}
		}
		return changed
	}
	clientSet := map[[2]string]bool{}
	for _, fn := range fns {
		ws, cw := a.writes(fn)
		for _, m := range cw {
			clientSet[[2]string{c18FuncName(fn), m}] = true
		}
		for _, w := range ws {
			if w.kind == "global" {
				addRow(c18Row{"global", w.inner, nil, "global", w.inner, c18FuncName(fn)})
				continue
			}
			emit(a.chase(w.base), w.kind, w.inner, c18FuncName(fn), w.base.Type())
		}
	}
	// lift the writes made through parameters to the call sites until nothing changes
	type site struct {
		fn     *ssa.Function
		callee *ssa.Function
		args   []ssa.Value
	}
	var sites []site
	called := map[*ssa.Function]bool{}
	// function values created in reachable code (closures, bound methods, functions used as values, functions stored in
	// globals that reachable code reads)
	availSet := map[*ssa.Function]bool{}
	for _, fn := range fns {
		for _, b := range fn.Blocks {
			for _, ins := range b.Instrs {
				call, isCall := ins.(ssa.CallInstruction)
				var ops []*ssa.Value
				for _, op := range ins.Operands(ops) {
					if op == nil || *op == nil {
						continue
					}
					switch v := (*op).(type) {
					case *ssa.Function:
						if isCall && call.Common().Value == v {
							continue
						}
						availSet[v] = true
					case *ssa.MakeClosure:
						if f, ok := v.Fn.(*ssa.Function); ok {
							availSet[f] = true
						}
					case *ssa.Global:
						for _, f := range a.globalFns[v] {
							availSet[f] = true
						}
					}
				}
				if mc, ok := ins.(*ssa.MakeClosure); ok {
					if f, ok := mc.Fn.(*ssa.Function); ok {
						availSet[f] = true
					}
				}
			}
		}
	}
	var avail []*ssa.Function
	for f := range availSet {
		if reach[f] {
			avail = append(avail, f)
		}
	}
	sort.Slice(avail, func(i, j int) bool { return c18FuncName(avail[i]) < c18FuncName(avail[j]) })
	for _, fn := range fns {
		for _, b := range fn.Blocks {
			for _, ins := range b.Instrs {
				ci, ok := ins.(ssa.CallInstruction)
				if !ok {
					continue
				}
				com := ci.Common()
				for _, callee := range append(a.callees(com), a.dynamic(com, avail)...) {
					if !reach[callee] {
						continue
					}
					args := com.Args
					if com.IsInvoke() {
						args = append([]ssa.Value{com.Value}, com.Args...)
					}
					sites = append(sites, site{fn, callee, args})
					called[callee] = true
				}
			}
		}
	}
	type argKey struct {
		v     ssa.Value
		empty bool
	}
	argMemo := map[argKey][]c18Origin{}
	for iter := 0; iter < 60; iter++ {
		changed := false
		for _, s := range sites {
			sum := sums[s.callee]
			if sum == nil {
				continue
			}
			for i, specs := range sum {
				if i < 0 || i >= len(s.args) {
					continue
				}
				for sp := range specs {
					mk := argKey{s.args[i], sp.path == ""}
					os, ok := argMemo[mk]
					if !ok {
						c := &c18Ctx{a: a, seen: map[ssa.Value]bool{}}
						os = dedupOrigins(c.argOrigins(s.args[i], sp.path == ""))
						argMemo[mk] = os
					}
					lifted := make([]c18Origin, 0, len(os))
					for _, o := range os {
						lifted = append(lifted, c18Origin{root: o.root, path: c18Extend(o.path, splitPath(sp.path)...)})
					}
					if emit(lifted, sp.kind, sp.inner, sp.via, s.args[i].Type()) {
						changed = true
					}
				}
			}
		}
		if !changed {
			break
		}
	}
	// functions that only library code calls (callbacks): their parameters cannot be traced further
	for f, sum := range sums {
		if called[f] || f == entry {
			continue
		}
		for i, specs := range sum {
			t := "?"
			if i >= 0 && i < len(f.Params) {
				t = c18TypeName(f.Params[i].Type())
			}
			for sp := range specs {
				addRow(c18Row{"callback-param", t, splitPath(sp.path), sp.kind, sp.inner, sp.via})
			}
		}
	}
	for _, r := range rowSet {
		rows = append(rows, r)
	}
	sort.Slice(rows, func(i, j int) bool { return rows[i].key() < rows[j].key() })
	for c := range clientSet {
		clientRows = append(clientRows, c)
	}
	sort.Slice(clientRows, func(i, j int) bool { return clientRows[i][0]+clientRows[i][1] < clientRows[j][0]+clientRows[j][1] })
	return rows, clientRows, nFuncs, nLocal
}

func (a *c18An) findFunc(pkgPath, recv, name string) *ssa.Function {
	for fn := range a.all {
		if fn.Name() != name || fn.Parent() != nil {
			continue
		}
		if fn.Pkg == nil || fn.Pkg.Pkg.Path() != karpMod+pkgPath {
			continue
		}
		r := ""
		if rv := fn.Signature.Recv(); rv != nil {
			t := rv.Type()
			if p, ok := t.(*types.Pointer); ok {
				t = p.Elem()
			}
			if n, ok := t.(*types.Named); ok {
				r = n.Obj().Name()
			}
		}
		if r == recv {
			return fn
		}
	}
	return nil
}
