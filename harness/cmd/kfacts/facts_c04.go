package main

import (
	"fmt"
	"go/ast"
	"go/constant"
	"go/token"
	"go/types"
	"strings"
)

// ---- C04: new capacity only when existing capacity cannot admit the pod ----
// Group "C04Flow": call orders of the provisioning pass and of Scheduler.add, the conditions that guard the
// StateNode views (which representation — Node or NodeClaim — the scheduler looks at in each lifecycle stage),
// the Synced gate, the deleting-node filter, and the table of known ephemeral taints.

const c04Group = "C04Flow"

func init() {
	register([]string{
		"pkg/controllers/provisioning",
		"pkg/controllers/provisioning/scheduling",
		"pkg/controllers/state",
		"pkg/scheduling",
		"pkg/apis/v1",
		"pkg/utils/pod",
	}, func(g *gen) {
		const prov = "pkg/controllers/provisioning"
		const sched = "pkg/controllers/provisioning/scheduling"
		const state = "pkg/controllers/state"
		// order of the steps of one provisioning round
		g.callSeq(c04Group, prov, "Provisioner.Reconcile", "reconcileCalls", []string{"Wait", "Synced", "Schedule", "CreateNodeClaims"})
		g.c04ReturnsBetween(prov, "Provisioner.Reconcile", "Synced", "Schedule", "reconcileSyncedGate")
		g.callSeq(c04Group, prov, "Provisioner.Schedule", "scheduleCalls", []string{"DeepCopyNodes", "GetPendingPods", "Deleting", "Active", "NewScheduler", "Solve"})
		g.c04CallArg(prov, "Provisioner.Schedule", "NewScheduler", 2, "scheduleStateNodesArg")
		g.callSeq(c04Group, prov, "Provisioner.Create", "createCalls", []string{"ExceededBy", "ToNodeClaim", "Create", "UpdateNodeClaim"})
		g.callSeq(c04Group, prov, "Provisioner.CreateNodeClaims", "createNodeClaimsCalls", []string{"Create"})
		// Scheduler.add: existing nodes, then the NodeClaims of this pass, then a new NodeClaim
		g.callSeq(c04Group, sched, "Scheduler.add", "addCalls", []string{"addToExistingNode", "addToInflightNode", "addToNewNodeClaim"})
		g.c04IfConds(sched, "Scheduler.add", "addConds")
		g.callSeq(c04Group, sched, "Scheduler.trySchedule", "tryScheduleCalls", []string{"add", "Relax"})
		g.callSeq(c04Group, sched, "Scheduler.calculateExistingNodeClaims", "existingNodeCalls", []string{"Taints", "getCompatibleDaemonPods", "NewExistingNode"})
		g.callSeq(c04Group, sched, "ExistingNode.CanAdd", "existingCanAddCalls", []string{"ToleratesPod", "ExceedsLimits", "Conflicts", "Fits", "Compatible"})
		g.c04IfConds(sched, "ExistingNode.CanAdd", "existingCanAddConds")
		// a failing volume alternative is skipped, not final; daemon pods are checked against an existing node's labels
		// with no undefined key allowed
		g.c04AfterCallFailure(sched, "ExistingNode.CanAdd", "tryVolumeAlternative", "volumeAlternativeFailure")
		g.c04CallArgs(sched, "Scheduler.isDaemonPodCompatibleWithNode", "Compatible", "daemonNodeCompatibleArgs")
		// every provider id of a MarkForDeletion call is handled; attach limits count the union; custom requirement keys
		// become NodeClaim labels
		g.c04Returns(state, "Cluster.MarkForDeletion", "markForDeletionReturns")
		g.c04Returns(state, "Cluster.UnmarkForDeletion", "unmarkForDeletionReturns")
		g.callSeq(c04Group, "pkg/scheduling", "VolumeUsage.ExceedsLimits", "exceedsLimitsCalls", []string{"Union"})
		g.c04IfConds(sched, "NodeClaimTemplate.resolveCustomLabelsFromRequirements", "resolveCustomLabelsConds")
		// the StateNode views
		for _, fn := range []string{"Taints", "Labels", "Allocatable", "Capacity", "Registered", "Initialized", "Managed", "MarkedForDeletion", "Deleted", "HostName", "Name"} {
			g.c04IfConds(state, "StateNode."+fn, "stateNode"+fn+"Conds")
			g.c04Returns(state, "StateNode."+fn, "stateNode"+fn+"Returns")
		}
		g.c04Returns(state, "StateNodes.Active", "activeReturns")
		g.c04Returns(state, "StateNodes.Deleting", "deletingReturns")
		// the Synced gate and what feeds it
		g.c04IfConds(state, "Cluster.Synced", "syncedConds")
		g.c04IfConds(state, "Cluster.UpdateNodeClaim", "updateNodeClaimConds")
		g.c04Assigns(state, "Cluster.UpdateNodeClaim", "nodeClaimNameToProviderID", "updateNodeClaimRecords")
		// taints hidden while a managed node is not initialized
		g.c04Taints("pkg/scheduling", "KnownEphemeralTaints", "knownEphemeralTaints")
		g.strSetVar(c04Group, "pkg/scheduling", "KnownEphemeralTaintKeyPrefixes", "knownEphemeralTaintKeyPrefixes")
		g.callSeq(c04Group, "pkg/scheduling", "IsKnownEphemeralTaint", "isKnownEphemeralTaintCalls", []string{"MatchTaint", "HasPrefix"})
		g.strConst(c04Group, "pkg/apis/v1", "NodeRegisteredLabelKey", "nodeRegisteredLabelKey")
		g.strConst(c04Group, "pkg/apis/v1", "NodeInitializedLabelKey", "nodeInitializedLabelKey")
		// "what is already assigned there": how cluster state charges and releases the pods bound to a node
		g.c04IfConds(state, "Cluster.UpdatePod", "updatePodConds")
		g.callSeq(c04Group, state, "Cluster.UpdatePod", "updatePodCalls", []string{"IsTerminal", "IsTerminating", "updateNodeUsageFromPodCompletion", "updateNodeUsageFromPod"})
		g.callSeq(c04Group, state, "Cluster.DeletePod", "deletePodCalls", []string{"updateNodeUsageFromPodCompletion", "updateNodeUsageFromPod"})
		g.callSeq(c04Group, state, "Cluster.newStateFromNode", "newStateFromNodeCalls", []string{"NewNode", "populateResourceRequests"})
		g.c04IfConds(state, "Cluster.populateResourceRequests", "populateResourceRequestsConds")
		g.callSeq(c04Group, state, "Cluster.populateResourceRequests", "populateResourceRequestsCalls", []string{"List", "IsTerminal", "IsTerminating", "IsActive", "updateForPod", "cleanupOldBindings"})
		g.c04IfConds(state, "Cluster.updateNodeUsageFromPod", "updateNodeUsageFromPodConds")
		g.callSeq(c04Group, state, "Cluster.updateNodeUsageFromPod", "updateNodeUsageFromPodCalls", []string{"updateNodeUsageFromPodCompletion", "updateForPod", "cleanupOldBindings"})
		g.c04IfConds(state, "Cluster.updateNodeUsageFromPodCompletion", "podCompletionConds")
		g.callSeq(c04Group, state, "Cluster.updateNodeUsageFromPodCompletion", "podCompletionCalls", []string{"delete", "cleanupForPod"})
		g.c04IfConds(state, "Cluster.cleanupOldBindings", "cleanupOldBindingsConds")
		g.callSeq(c04Group, state, "StateNode.cleanupForPod", "cleanupForPodCalls", []string{"DeletePod", "delete"})
		g.c04Returns("pkg/utils/pod", "IsTerminal", "isTerminalReturns")
		g.c04Returns("pkg/utils/pod", "IsTerminating", "isTerminatingReturns")
	})
}

func leanStrList(xs []string) string {
	var b strings.Builder
	b.WriteString("[")
	for i, s := range xs {
		if i > 0 {
			b.WriteString(", ")
		}
		b.WriteString(leanStr(s))
	}
	b.WriteString("]")
	return b.String()
}

// c04IfConds lists, in source order, the conditions of every `if` statement of the function (rendered source).
func (g *gen) c04IfConds(pkgPath, fn, lean string) {
	_, fd := g.findFunc(pkgPath, fn)
	if fd == nil {
		return
	}
	var conds []string
	ast.Inspect(fd.Body, func(n ast.Node) bool {
		if is, ok := n.(*ast.IfStmt); ok {
			conds = append(conds, types.ExprString(is.Cond))
		}
		return true
	})
	fmt.Fprintf(g.out(c04Group), "/-- conditions of the `if` statements of `%s.%s` (%s), in source order -/\ndef %s : List String := %s\n\n",
		pkgPath, fn, g.pos(fd.Pos()), lean, leanStrList(conds))
}

// c04Returns lists, in source order, the returned expressions of the function (including those of function literals,
// e.g. the predicate handed to lo.Filter).
func (g *gen) c04Returns(pkgPath, fn, lean string) {
	_, fd := g.findFunc(pkgPath, fn)
	if fd == nil {
		return
	}
	var rets []string
	ast.Inspect(fd.Body, func(n ast.Node) bool {
		if rs, ok := n.(*ast.ReturnStmt); ok {
			var parts []string
			for _, r := range rs.Results {
				if _, isLit := r.(*ast.FuncLit); isLit {
					continue
				}
				s := types.ExprString(r)
				if strings.Contains(s, "func(") {
					s = s[:strings.Index(s, "func(")] + "func"
				}
				parts = append(parts, s)
			}
			rets = append(rets, strings.Join(parts, ", "))
		}
		return true
	})
	fmt.Fprintf(g.out(c04Group), "/-- returned expressions of `%s.%s` (%s), in source order -/\ndef %s : List String := %s\n\n",
		pkgPath, fn, g.pos(fd.Pos()), lean, leanStrList(rets))
}

// c04ReturnsBetween: between the first call to `after` and the first call to `before` (source order), is there an
// `if` whose condition negates the `after` call and whose body returns?  Emits the condition ("" if none).
func (g *gen) c04ReturnsBetween(pkgPath, fn, after, before, lean string) {
	_, fd := g.findFunc(pkgPath, fn)
	if fd == nil {
		return
	}
	var beforePos token.Pos
	ast.Inspect(fd.Body, func(n ast.Node) bool {
		if ce, ok := n.(*ast.CallExpr); ok && beforePos == 0 {
			name := exprString(ce.Fun)
			if name == before || strings.HasSuffix(name, "."+before) {
				beforePos = ce.Pos()
			}
		}
		return true
	})
	cond := ""
	ast.Inspect(fd.Body, func(n ast.Node) bool {
		is, ok := n.(*ast.IfStmt)
		if !ok || cond != "" {
			return true
		}
		if beforePos != 0 && is.Pos() > beforePos {
			return true
		}
		s := types.ExprString(is.Cond)
		if !strings.Contains(s, "."+after+"(") {
			return true
		}
		returns := false
		for _, st := range is.Body.List {
			if _, ok := st.(*ast.ReturnStmt); ok {
				returns = true
			}
		}
		if returns {
			cond = s
		}
		return true
	})
	fmt.Fprintf(g.out(c04Group), "/-- in `%s.%s` (%s): the condition of the `if … { return }` that precedes the first call of `%s` and tests `%s` (\"\" = none) -/\ndef %s : String := %s\n\n",
		pkgPath, fn, g.pos(fd.Pos()), before, after, lean, leanStr(cond))
}

// c04CallArg renders the i-th argument of the first call whose callee ends with `callee`.
func (g *gen) c04CallArg(pkgPath, fn, callee string, i int, lean string) {
	_, fd := g.findFunc(pkgPath, fn)
	if fd == nil {
		return
	}
	arg := ""
	found := false
	ast.Inspect(fd.Body, func(n ast.Node) bool {
		ce, ok := n.(*ast.CallExpr)
		if !ok || found {
			return true
		}
		name := exprString(ce.Fun)
		if name == callee || strings.HasSuffix(name, "."+callee) {
			found = true
			if i < len(ce.Args) {
				arg = types.ExprString(ce.Args[i])
			}
		}
		return true
	})
	if !found {
		g.errf("%s.%s: no call of %s", pkgPath, fn, callee)
	}
	fmt.Fprintf(g.out(c04Group), "/-- argument %d of the call of `%s` in `%s.%s` (%s) -/\ndef %s : String := %s\n\n", i, callee, pkgPath, fn, g.pos(fd.Pos()), lean, leanStr(arg))
}

// c04CallArgs renders every argument of the first call whose callee ends with `callee`.
func (g *gen) c04CallArgs(pkgPath, fn, callee, lean string) {
	_, fd := g.findFunc(pkgPath, fn)
	if fd == nil {
		return
	}
	args := []string{}
	found := false
	ast.Inspect(fd.Body, func(n ast.Node) bool {
		ce, ok := n.(*ast.CallExpr)
		if !ok || found {
			return true
		}
		name := exprString(ce.Fun)
		if name == callee || strings.HasSuffix(name, "."+callee) {
			found = true
			for _, a := range ce.Args {
				args = append(args, types.ExprString(a))
			}
		}
		return true
	})
	if !found {
		g.errf("%s.%s: no call of %s", pkgPath, fn, callee)
	}
	fmt.Fprintf(g.out(c04Group), "/-- the arguments of the call of `%s` in `%s.%s` (%s) -/\ndef %s : List String := %s\n\n", callee, pkgPath, fn, g.pos(fd.Pos()), lean, leanStrList(args))
}

// c04AfterCallFailure: inside a loop of the function, the statement `x, err := …callee(…)` is followed by `if err != nil {…}`;
// emits the statements of that block (assignments as `lhs = rhs`, `continue` / `break`, `return …`), and whether the pair
// sits directly in the body of a `for … range` loop.
func (g *gen) c04AfterCallFailure(pkgPath, fn, callee, lean string) {
	_, fd := g.findFunc(pkgPath, fn)
	if fd == nil {
		return
	}
	var out []string
	found := false
	ast.Inspect(fd.Body, func(n ast.Node) bool {
		rs, ok := n.(*ast.RangeStmt)
		if !ok || found {
			return true
		}
		for i, st := range rs.Body.List {
			as, ok := st.(*ast.AssignStmt)
			if !ok || len(as.Rhs) != 1 {
				continue
			}
			ce, ok := as.Rhs[0].(*ast.CallExpr)
			if !ok {
				continue
			}
			name := exprString(ce.Fun)
			if name != callee && !strings.HasSuffix(name, "."+callee) {
				continue
			}
			if i+1 >= len(rs.Body.List) {
				continue
			}
			is, ok := rs.Body.List[i+1].(*ast.IfStmt)
			if !ok {
				continue
			}
			found = true
			out = append(out, "if "+types.ExprString(is.Cond))
			for _, b := range is.Body.List {
				switch v := b.(type) {
				case *ast.AssignStmt:
					var l, r []string
					for _, e := range v.Lhs {
						l = append(l, types.ExprString(e))
					}
					for _, e := range v.Rhs {
						r = append(r, types.ExprString(e))
					}
					out = append(out, strings.Join(l, ", ")+" "+v.Tok.String()+" "+strings.Join(r, ", "))
				case *ast.BranchStmt:
					out = append(out, v.Tok.String())
				case *ast.ReturnStmt:
					var r []string
					for _, e := range v.Results {
						r = append(r, types.ExprString(e))
					}
					out = append(out, strings.TrimSpace("return "+strings.Join(r, ", ")))
				default:
					out = append(out, "other")
				}
			}
		}
		return true
	})
	if !found {
		g.errf("%s.%s: no `… := %s(…)` followed by an `if` inside a range loop", pkgPath, fn, callee)
	}
	fmt.Fprintf(g.out(c04Group), "/-- in a `for … range` loop of `%s.%s` (%s): the `if` that follows the call of `%s` and the statements of its block -/\ndef %s : List String := %s\n\n", pkgPath, fn, g.pos(fd.Pos()), callee, lean, leanStrList(out))
}

// c04Assigns lists `lhs = rhs` for every assignment in the function whose left side mentions `field`.
func (g *gen) c04Assigns(pkgPath, fn, field, lean string) {
	_, fd := g.findFunc(pkgPath, fn)
	if fd == nil {
		return
	}
	var out []string
	ast.Inspect(fd.Body, func(n ast.Node) bool {
		as, ok := n.(*ast.AssignStmt)
		if !ok || len(as.Lhs) != 1 || len(as.Rhs) != 1 {
			return true
		}
		l := types.ExprString(as.Lhs[0])
		if strings.Contains(l, field) {
			out = append(out, l+" = "+types.ExprString(as.Rhs[0]))
		}
		return true
	})
	fmt.Fprintf(g.out(c04Group), "/-- assignments to `%s` in `%s.%s` (%s) -/\ndef %s : List String := %s\n\n", field, pkgPath, fn, g.pos(fd.Pos()), lean, leanStrList(out))
}

// c04Taints emits (key, value, effect) of every element of a `[]corev1.Taint{…}` package variable; an element that
// is a reference to another package-level taint variable is resolved through that variable's composite literal.
func (g *gen) c04Taints(pkgPath, name, lean string) {
	p := g.pkg(pkgPath)
	if p == nil {
		return
	}
	var init ast.Expr
	var pos token.Pos
	for _, f := range p.Syntax {
		for _, d := range f.Decls {
			gd, ok := d.(*ast.GenDecl)
			if !ok {
				continue
			}
			for _, s := range gd.Specs {
				if vs, ok := s.(*ast.ValueSpec); ok {
					for i, n := range vs.Names {
						if n.Name == name && i < len(vs.Values) {
							init, pos = vs.Values[i], n.Pos()
						}
					}
				}
			}
		}
	}
	cl, ok := init.(*ast.CompositeLit)
	if !ok {
		g.errf("%s.%s: not a composite literal", pkgPath, name)
		return
	}
	type taint struct{ k, v, e string }
	var out []taint
	fromLit := func(info *types.Info, lit *ast.CompositeLit) (taint, bool) {
		var t taint
		for _, el := range lit.Elts {
			kv, ok := el.(*ast.KeyValueExpr)
			if !ok {
				return t, false
			}
			tv, ok := info.Types[kv.Value]
			if !ok || tv.Value == nil || tv.Value.Kind() != constant.String {
				return t, false
			}
			s := constant.StringVal(tv.Value)
			switch exprString(kv.Key) {
			case "Key":
				t.k = s
			case "Value":
				t.v = s
			case "Effect":
				t.e = s
			}
		}
		return t, true
	}
	for _, el := range cl.Elts {
		switch v := el.(type) {
		case *ast.CompositeLit:
			t, ok := fromLit(p.TypesInfo, v)
			if !ok {
				g.errf("%s.%s: non-constant taint literal", pkgPath, name)
				return
			}
			out = append(out, t)
		case *ast.SelectorExpr:
			// pkg.Var: find the variable's initializer in the package it belongs to
			obj := p.TypesInfo.Uses[v.Sel]
			resolved := false
			if obj != nil && obj.Pkg() != nil {
				if q := g.pkgs[obj.Pkg().Path()]; q != nil {
					for _, f := range q.Syntax {
						for _, d := range f.Decls {
							gd, ok := d.(*ast.GenDecl)
							if !ok {
								continue
							}
							for _, s := range gd.Specs {
								vs, ok := s.(*ast.ValueSpec)
								if !ok {
									continue
								}
								for i, n := range vs.Names {
									if n.Name == v.Sel.Name && i < len(vs.Values) {
										if lit, ok := vs.Values[i].(*ast.CompositeLit); ok {
											if t, ok := fromLit(q.TypesInfo, lit); ok {
												out = append(out, t)
												resolved = true
											}
										}
									}
								}
							}
						}
					}
				}
			}
			if !resolved {
				g.errf("%s.%s: cannot resolve element %s", pkgPath, name, exprString(v))
				return
			}
		default:
			g.errf("%s.%s: unexpected element", pkgPath, name)
			return
		}
	}
	b := g.out(c04Group)
	fmt.Fprintf(b, "/-- `%s.%s` (%s) as (key, value, effect) -/\ndef %s : List (String × String × String) := [", pkgPath, name, g.pos(pos), lean)
	for i, t := range out {
		if i > 0 {
			b.WriteString(",")
		}
		fmt.Fprintf(b, "\n  (%s, %s, %s)", leanStr(t.k), leanStr(t.v), leanStr(t.e))
	}
	b.WriteString("]\n\n")
}
