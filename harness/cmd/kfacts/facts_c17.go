package main

import (
	"bytes"
	"fmt"
	"go/ast"
	"go/printer"
	"strings"
)

// ---- C17: scarce capacity (capacity reservations, DRA allocation tracker) ----
// Group "C17Facts": the two reserved-offering modes, the order of the manager calls inside NodeClaim.Add, the
// position of the reserved-offering test relative to relaxation in trySchedule, whether Provisioner.Schedule
// selects the strict mode, and the order Commit/ReleaseInstanceType inside NodeClaim.Add.

func init() {
	register([]string{
		"pkg/controllers/provisioning",
		"pkg/controllers/provisioning/scheduling",
		"pkg/scheduling/dynamicresources",
	}, func(g *gen) {
		const grp = "C17Facts"
		const sched = "pkg/controllers/provisioning/scheduling"
		g.natConst(grp, sched, "ReservedOfferingModeFallback", "reservedOfferingModeFallback")
		g.natConst(grp, sched, "ReservedOfferingModeStrict", "reservedOfferingModeStrict")
		// NodeClaim.Add: Reserve the new set first, then release what is no longer compatible, then the DRA commit/release
		g.callSeq(grp, sched, "NodeClaim.Add", "nodeClaimAddCalls", []string{"Reserve", "releaseReservedOfferings", "Commit", "ReleaseInstanceType"})
		// offeringsToReserve only asks CanReserve (no mutation during CanAdd)
		g.callSeq(grp, sched, "NodeClaim.offeringsToReserve", "offeringsToReserveCalls", []string{"CanReserve", "Reserve", "Release", "NewReservedOfferingError"})
		// trySchedule: the reserved-offering test comes before the relaxation
		g.callSeq(grp, sched, "Scheduler.trySchedule", "tryScheduleCalls", []string{"add", "IsReservedOfferingError", "Relax"})
		// addToNewNodeClaim consults IsReservedOfferingError for every template error
		g.callSeq(grp, sched, "Scheduler.addToNewNodeClaim", "addToNewNodeClaimReservedCalls", []string{"CanAdd", "IsReservedOfferingError", "Add"})
		// FinalizeScheduling: the requirement constructors and the Add of the reservation-id requirement
		g.callSeq(grp, sched, "NodeClaim.FinalizeScheduling", "finalizeCalls", []string{"NewRequirement", "Add", "addDaemonRequests"})
		c17Mentions(g, grp, "pkg/controllers/provisioning", "Provisioner.Schedule", "DisableReservedCapacityFallback", "provisionerScheduleStrict")
		// the two places that react to a reserved-offering error, statement by statement
		c17IfBlock(g, grp, sched, "Scheduler.trySchedule", "IsReservedOfferingError", "tryScheduleReserved", false)
		c17IfBlock(g, grp, sched, "Scheduler.addToNewNodeClaim", "IsReservedOfferingError", "addToNewReserved", false)
		// the strict-mode block of offeringsToReserve: the guards only (error texts may be reworded freely)
		c17IfBlock(g, grp, sched, "NodeClaim.offeringsToReserve", "ReservedOfferingModeStrict", "strictBlock", true)
		// NodeClaim.Add releases, under this NodeClaim's hostname, the instance types the allocator simulated but the scheduler pruned
		c17IfBlock(g, grp, sched, "NodeClaim.Add", "len(pruned)", "prunedRelease", false)
		// the allocation tracker: Allocator.ReleaseInstanceType delegates to the tracker
		g.callSeq(grp, "pkg/scheduling/dynamicresources", "Allocator.ReleaseInstanceType", "allocatorReleaseCalls", []string{"ReleaseInstanceTypes"})
		g.callSeq(grp, "pkg/scheduling/dynamicresources", "allocation.Commit", "allocationCommitCalls", []string{"Commit"})
		// shared counters: the budgets are initialised at construction from the pools gathered with empty requirements and no
		// node name; InitRemainingCounters walks these device lists of a pool and skips a device under these guards
		const drapkg = "pkg/scheduling/dynamicresources"
		g.callSeq(grp, drapkg, "NewAllocator", "newAllocatorCounterCalls", []string{"GatherPools", "InitRemainingCounters"})
		c17RangeLoops(g, grp, drapkg, "AllocationTracker.InitRemainingCounters", "deductFromCounters", "initCounters")
		// the tracker books / gives back counters and capacity on every Commit / ReleaseInstanceTypes
		g.callSeq(grp, drapkg, "AllocationTracker.Commit", "trackerCommitBudgetCalls", []string{"commitCounters", "commitCapacity"})
		g.callSeq(grp, drapkg, "AllocationTracker.ReleaseInstanceTypes", "trackerReleaseBudgetCalls", []string{"releaseCounters", "releaseCapacity"})
		// the search tests the counter budget of a device before it records the device and books it as allocating
		g.callSeq(grp, drapkg, "allocator.tryDevice", "tryDeviceCounterCalls", []string{"checkCapacity", "IsAllocated", "checkCounters", "deductAllocatingCapacity", "deductAllocatingCounters"})
		// consumable capacity: every return of the guard checkCapacity with the condition it stands under; the consumption is
		// computed for every dimension of the DEVICE (not of the request); an absent entry is filled in by fillEmptyRequest
		c17Returns(g, grp, drapkg, "allocator.checkCapacity", "checkCapacityReturns")
		g.callSeq(grp, drapkg, "allocator.checkCapacity", "checkCapacityCalls", []string{"requestsContainNonExistCapacity", "computeConsumedCapacity"})
		c17RangeLoops(g, grp, drapkg, "computeConsumedCapacity", "calculateConsumedCapacity", "computeConsumed")
		c17Returns(g, grp, drapkg, "computeConsumedCapacity", "computeConsumedReturns")
		c17Returns(g, grp, drapkg, "calculateConsumedCapacity", "calculateConsumedReturns")
		c17Returns(g, grp, drapkg, "fillEmptyRequest", "fillEmptyRequestReturns")
	})
}

// c17Mentions emits `def lean : Bool` = the body of fn mentions the identifier ident.
func c17Mentions(g *gen, group, pkgPath, fn, ident, lean string) {
	_, fd := g.findFunc(pkgPath, fn)
	if fd == nil {
		return
	}
	found := false
	ast.Inspect(fd.Body, func(n ast.Node) bool {
		switch v := n.(type) {
		case *ast.Ident:
			if v.Name == ident {
				found = true
			}
		case *ast.SelectorExpr:
			if v.Sel.Name == ident {
				found = true
			}
		}
		return !found
	})
	fmt.Fprintf(g.out(group), "/-- does `%s.%s` (%s) mention `%s`? -/\ndef %s : Bool := %v\n\n", pkgPath, fn, g.pos(fd.Pos()), ident, lean, found)
}

// c17IfBlock finds the first `if` statement of fn whose condition mentions ident and emits its condition and the
// statements of its body, each rendered on one line (`<lean>Cond : String`, `<lean>Body : List String`); with condsOnly a
// nested `if` is represented by its condition alone.
func c17IfBlock(g *gen, group, pkgPath, fn, ident, lean string, condsOnly bool) {
	_, fd := g.findFunc(pkgPath, fn)
	if fd == nil {
		return
	}
	render := func(n ast.Node) string {
		var b bytes.Buffer
		if err := printer.Fprint(&b, g.fset, n); err != nil {
			return "?"
		}
		return strings.Join(strings.Fields(b.String()), " ")
	}
	var found *ast.IfStmt
	ast.Inspect(fd.Body, func(n ast.Node) bool {
		if found != nil {
			return false
		}
		if is, ok := n.(*ast.IfStmt); ok && strings.Contains(render(is.Cond), ident) {
			found = is
			return false
		}
		return true
	})
	if found == nil {
		g.errf("%s.%s: no if statement mentioning %s", pkgPath, fn, ident)
		return
	}
	b := g.out(group)
	fmt.Fprintf(b, "/-- the `if` reacting to `%s` inside `%s.%s` (%s): its condition -/\ndef %sCond : String := %s\n\n", ident, pkgPath, fn, g.pos(found.Pos()), lean, leanStr(render(found.Cond)))
	fmt.Fprintf(b, "/-- … and the statements of its body (comments dropped, one line each); else-branch present: %v -/\ndef %sBody : List String := [", found.Else != nil, lean)
	for i, st := range found.Body.List {
		if i > 0 {
			b.WriteString(", ")
		}
		if is, ok := st.(*ast.IfStmt); ok && condsOnly {
			b.WriteString(leanStr("if " + render(is.Cond)))
		} else {
			b.WriteString(leanStr(render(st)))
		}
	}
	b.WriteString("]\n\n")
}

// c17Returns emits `<lean> : List (String × String)`: every return statement of fn in source order, paired with the
// condition of the innermost enclosing `if` / `case` clause it stands under ("" = none; "else" for an else branch), both
// rendered on one line.
func c17Returns(g *gen, group, pkgPath, fn, lean string) {
	_, fd := g.findFunc(pkgPath, fn)
	if fd == nil {
		return
	}
	render := func(n ast.Node) string {
		var b bytes.Buffer
		if err := printer.Fprint(&b, g.fset, n); err != nil {
			return "?"
		}
		return strings.Join(strings.Fields(b.String()), " ")
	}
	type pair struct{ cond, ret string }
	var out []pair
	var walk func(n ast.Node, cond string)
	walk = func(n ast.Node, cond string) {
		switch v := n.(type) {
		case nil:
		case *ast.BlockStmt:
			if v == nil {
				return
			}
			for _, st := range v.List {
				walk(st, cond)
			}
		case *ast.ReturnStmt:
			out = append(out, pair{cond, render(v)})
		case *ast.IfStmt:
			walk(v.Body, render(v.Cond))
			if v.Else != nil {
				if _, ok := v.Else.(*ast.IfStmt); ok {
					walk(v.Else, cond)
				} else {
					walk(v.Else, "else")
				}
			}
		case *ast.ForStmt:
			walk(v.Body, cond)
		case *ast.RangeStmt:
			walk(v.Body, cond)
		case *ast.SwitchStmt:
			for _, cc := range v.Body.List {
				c := cc.(*ast.CaseClause)
				cs := "default"
				if len(c.List) > 0 {
					parts := []string{}
					for _, e := range c.List {
						parts = append(parts, render(e))
					}
					cs = strings.Join(parts, ", ")
				}
				for _, st := range c.Body {
					walk(st, cs)
				}
			}
		case *ast.LabeledStmt:
			walk(v.Stmt, cond)
		}
	}
	walk(fd.Body, "")
	b := g.out(group)
	fmt.Fprintf(b, "/-- every `return` of `%s.%s` (%s) with the condition of the innermost `if` / `case` it stands under -/\ndef %s : List (String × String) := [", pkgPath, fn, g.pos(fd.Pos()), lean)
	for i, p := range out {
		if i > 0 {
			b.WriteString(", ")
		}
		fmt.Fprintf(b, "(%s, %s)", leanStr(p.cond), leanStr(p.ret))
	}
	b.WriteString("]\n\n")
}

// c17RangeLoops finds the `for … range X` statements of fn whose body calls callee and emits, in source order, the ranged
// expressions (`<lean>Ranges : List String`) and for each loop the condition of its `if … { continue }` guard, with the
// ranged expression abbreviated to `D` (`<lean>Guards : List String`; "" when the loop has no such guard).
func c17RangeLoops(g *gen, group, pkgPath, fn, callee, lean string) {
	_, fd := g.findFunc(pkgPath, fn)
	if fd == nil {
		return
	}
	render := func(n ast.Node) string {
		var b bytes.Buffer
		if err := printer.Fprint(&b, g.fset, n); err != nil {
			return "?"
		}
		return strings.Join(strings.Fields(b.String()), " ")
	}
	calls := func(n ast.Node) bool {
		found := false
		ast.Inspect(n, func(m ast.Node) bool {
			if c, ok := m.(*ast.CallExpr); ok {
				switch f := c.Fun.(type) {
				case *ast.Ident:
					found = found || f.Name == callee
				case *ast.SelectorExpr:
					found = found || f.Sel.Name == callee
				}
			}
			return !found
		})
		return found
	}
	var ranges, guards []string
	ast.Inspect(fd.Body, func(n ast.Node) bool {
		rs, ok := n.(*ast.RangeStmt)
		if !ok || !calls(rs.Body) {
			return true
		}
		x := render(rs.X)
		ranges = append(ranges, x)
		guard := ""
		for _, st := range rs.Body.List {
			is, ok := st.(*ast.IfStmt)
			if !ok || len(is.Body.List) != 1 {
				continue
			}
			if br, ok := is.Body.List[0].(*ast.BranchStmt); ok && br.Tok.String() == "continue" {
				guard = strings.ReplaceAll(render(is.Cond), x, "D")
				break
			}
		}
		guards = append(guards, guard)
		return false
	})
	if len(ranges) == 0 {
		g.errf("%s.%s: no range loop calling %s", pkgPath, fn, callee)
		return
	}
	b := g.out(group)
	emit := func(name, doc string, xs []string) {
		fmt.Fprintf(b, "/-- %s -/\ndef %s : List String := [", doc, name)
		for i, x := range xs {
			if i > 0 {
				b.WriteString(", ")
			}
			b.WriteString(leanStr(x))
		}
		b.WriteString("]\n\n")
	}
	emit(lean+"Ranges", fmt.Sprintf("the expressions ranged over by the loops of `%s.%s` (%s) that call `%s`, in source order", pkgPath, fn, g.pos(fd.Pos()), callee), ranges)
	emit(lean+"Guards", "… and the condition under which each of them skips a device (`D` = the ranged expression)", guards)
}
