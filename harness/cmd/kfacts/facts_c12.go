package main

func init() {
	register([]string{"pkg/apis/v1"}, func(g *gen) {
		// ---- C12/C13/C15: label tables used by the requirement algebra ----
		g.strSetVar("Labels", "pkg/apis/v1", "NormalizedLabels", "normalizedLabels")
		g.strSetVar("Labels", "pkg/apis/v1", "NormalizedLabelValues", "normalizedLabelValues")
		g.strSetVar("Labels", "pkg/apis/v1", "WellKnownLabels", "wellKnownLabels")
		g.strSetVar("Labels", "pkg/apis/v1", "RestrictedLabels", "restrictedLabels")
		g.strSetVar("Labels", "pkg/apis/v1", "WellKnownLabelsForOfferings", "wellKnownLabelsForOfferings")
		g.strSetVar("Labels", "pkg/apis/v1", "SupportedNodeSelectorOps", "supportedNodeSelectorOps")
		g.strConst("Labels", "pkg/apis/v1", "NodePoolLabelKey", "nodePoolLabelKey")
		g.strConst("Labels", "pkg/apis/v1", "CapacityTypeLabelKey", "capacityTypeLabelKey")
		g.strConst("Labels", "pkg/apis/v1", "CapacityTypeReserved", "capacityTypeReserved")
		g.strConst("Labels", "pkg/apis/v1", "CapacityTypeSpot", "capacityTypeSpot")
		g.strConst("Labels", "pkg/apis/v1", "CapacityTypeOnDemand", "capacityTypeOnDemand")
		g.strConst("Labels", "pkg/apis/v1", "NodeSelectorOpGte", "opGte")
		g.strConst("Labels", "pkg/apis/v1", "NodeSelectorOpLte", "opLte")
	})
}
