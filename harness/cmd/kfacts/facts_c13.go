package main

func init() {
	register([]string{"pkg/controllers/provisioning/scheduling", "pkg/apis/v1"}, func(g *gen) {
		// ---- C13: what ToNodeClaim filters / truncates ----
		g.strSetVar("Template", "pkg/controllers/provisioning/scheduling", "schedulingSimulationKeys", "simulationKeys")
		g.natConst("Template", "pkg/controllers/provisioning/scheduling", "MaxInstanceTypes", "maxInstanceTypes")
		g.strConst("Template", "pkg/apis/v1", "NodePoolHashAnnotationKey", "hashAnnotationKey")
		g.strConst("Template", "pkg/apis/v1", "NodePoolHashVersionAnnotationKey", "hashVersionAnnotationKey")
		g.strConst("Template", "pkg/apis/v1", "NodePoolHashVersion", "nodePoolHashVersion")
		g.strConst("Template", "pkg/apis/v1", "NodeRegisteredLabelKey", "registeredLabelKey")
		g.strConst("Template", "pkg/apis/v1", "NodeInitializedLabelKey", "initializedLabelKey")
	})
}
