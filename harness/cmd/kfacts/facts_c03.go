package main

import (
	"bytes"
	"fmt"
	"go/ast"
	"go/printer"
	"go/token"
	"strings"
)

func init() {
	register([]string{
		"pkg/controllers/state",
		"pkg/controllers/provisioning",
		"pkg/controllers/provisioning/scheduling",
		"pkg/controllers/static/provisioning",
		"pkg/controllers/static/deprovisioning",
		"pkg/controllers/disruption",
		"pkg/utils/resources",
		"pkg/utils/nodepool",
	}, func(g *gen) {
		// ---- C03 (static pools): NodePoolState ----
		g.c03GCCondition()
		g.c03ReleaseGuard()
		g.callSeq("C03Pool", "pkg/controllers/static/provisioning", "Controller.Reconcile", "staticProvisionCalls",
			[]string{"Synced", "GetNodeCount", "ReserveNodeCount", "CreateNodeClaims"})
		g.callSeq("C03Pool", "pkg/controllers/static/deprovisioning", "Controller.Reconcile", "staticDeprovisionCalls",
			[]string{"GetNodeCount", "getDeprovisioningCandidates", "kubeClient.Delete", "MarkNodeClaimDeleting"})
		g.callSeq("C03Pool", "pkg/controllers/disruption", "StaticDrift.ComputeCommands", "staticDriftCalls",
			[]string{"GetNodeCount", "ReserveNodeCount"})
		g.callSeq("C03Pool", "pkg/controllers/disruption", "Queue.StartCommand", "startCommandCalls",
			[]string{"HasAny", "markDisrupted", "createReplacementNodeClaims", "MarkForDeletion"})
		g.c03StartCommandEarlyRelease()
		g.c03StaticDriftCap()
		g.c03IsStatic()
		g.callSeq("C03Pool", "pkg/controllers/provisioning", "Provisioner.CreateNodeClaims", "createNodeClaimsCalls",
			[]string{"p.Create", "ReleaseNodeCount"})
		g.callSeq("C03Pool", "pkg/controllers/state", "Cluster.UpdateNodeClaim", "clusterUpdateNodeClaimCalls",
			[]string{"newStateFromNodeClaim", "NodePoolState.UpdateNodeClaim"})
		g.callSeq("C03Pool", "pkg/controllers/state", "Cluster.cleanupNodeClaim", "clusterCleanupCalls",
			[]string{"updateNodePoolResources", "NodePoolState.Cleanup"})

		// ---- C03 (limits) ----
		g.strConst("C03Limits", "pkg/utils/resources", "Node", "nodeResourceName")
		g.c03SubtractMaxNodes()
		g.callSeq("C03Limits", "pkg/controllers/provisioning", "Provisioner.Reconcile", "reconcileCalls",
			[]string{"cluster.Synced", "p.Schedule", "p.CreateNodeClaims"})
		g.callSeq("C03Limits", "pkg/controllers/provisioning", "Provisioner.Create", "createCalls",
			[]string{"ExceededBy", "kubeClient.Create", "cluster.UpdateNodeClaim"})
		g.callSeq("C03Limits", "pkg/controllers/provisioning/scheduling", "Scheduler.addToNewNodeClaim", "openNewCalls",
			[]string{"IsZero", "filterByRemainingResources", "CanAdd", "newNodeClaim.Add", "subtractMax"})
		g.callSeq("C03Limits", "pkg/controllers/provisioning/scheduling", "Scheduler.calculateExistingNodeClaims", "existingCalls",
			[]string{"updateRemainingResources"})
		g.callSeq("C03Limits", "pkg/controllers/provisioning/scheduling", "Scheduler.updateRemainingResources", "updateRemainingCalls",
			[]string{"resources.Subtract", "node.Capacity"})
		g.callSeq("C03Limits", "pkg/controllers/provisioning/scheduling", "subtractMax", "subtractMaxCalls",
			[]string{"resources.MaxResources", "resources.MinResources", "cp.Sub", "cp.Add"})
	})
}

func (g *gen) render(n ast.Node) string {
	var b bytes.Buffer
	printer.Fprint(&b, token.NewFileSet(), n)
	return strings.Join(strings.Fields(b.String()), " ")
}

// c03GCCondition extracts the condition under which NodePoolState.Cleanup deletes the pool entry:
// the sets whose emptiness it requires (codes: 0 Active, 1 Deleting, 2 PendingDisruption) and whether it also
// looks at the reserved counter.
func (g *gen) c03GCCondition() {
	_, fd := g.findFunc("pkg/controllers/state", "NodePoolState.Cleanup")
	if fd == nil {
		return
	}
	var cond ast.Expr
	var pos token.Pos
	ast.Inspect(fd.Body, func(n ast.Node) bool {
		is, ok := n.(*ast.IfStmt)
		if !ok {
			return true
		}
		for _, st := range is.Body.List {
			es, ok := st.(*ast.ExprStmt)
			if !ok {
				continue
			}
			ce, ok := es.X.(*ast.CallExpr)
			if !ok || exprString(ce.Fun) != "delete" || len(ce.Args) != 2 {
				continue
			}
			if strings.HasSuffix(exprString(ce.Args[0]), "nodePoolNameToNodeClaimState") {
				cond, pos = is.Cond, is.Pos()
			}
		}
		return true
	})
	if cond == nil {
		g.errf("NodePoolState.Cleanup: no `if … { delete(n.nodePoolNameToNodeClaimState, …) }` found")
		return
	}
	codes := map[string]int{"Active": 0, "Deleting": 1, "PendingDisruption": 2}
	var sets []int
	reserved := false
	bad := ""
	var walk func(e ast.Expr)
	walk = func(e ast.Expr) {
		switch v := e.(type) {
		case *ast.ParenExpr:
			walk(v.X)
		case *ast.BinaryExpr:
			if v.Op == token.LAND {
				walk(v.X)
				walk(v.Y)
				return
			}
			txt := g.render(v)
			if v.Op == token.EQL && g.render(v.Y) == "0" {
				// npState.<Set>.Len() == 0   or   len(npState.<Set>) == 0
				for name, c := range codes {
					if strings.Contains(g.render(v.X), "."+name+".Len()") || strings.Contains(g.render(v.X), "."+name+")") {
						sets = append(sets, c)
						return
					}
				}
				if strings.Contains(txt, "nodePoolNameToNodePoolLimit") || strings.Contains(txt, "Load()") || strings.Contains(strings.ToLower(txt), "reserved") {
					reserved = true
					return
				}
			}
			bad = txt
		default:
			bad = g.render(e)
		}
	}
	walk(cond)
	if bad != "" {
		g.errf("NodePoolState.Cleanup: garbage-collection condition has a conjunct the model does not know: %s", bad)
		return
	}
	for i := 0; i < len(sets); i++ {
		for j := i + 1; j < len(sets); j++ {
			if sets[j] < sets[i] {
				sets[i], sets[j] = sets[j], sets[i]
			}
		}
	}
	b := g.out("C03Pool")
	fmt.Fprintf(b, "/-- the condition under which `NodePoolState.Cleanup` deletes the pool entry (%s):\n    `%s` -/\ndef gcConditionText : String := %s\n\n", g.pos(pos), g.render(cond), leanStr(g.render(cond)))
	fmt.Fprintf(b, "/-- the sets that condition requires to be empty: 0 = Active, 1 = Deleting, 2 = PendingDisruption -/\ndef gcEmptySets : List Nat := [")
	for i, c := range sets {
		if i > 0 {
			b.WriteString(", ")
		}
		fmt.Fprintf(b, "%d", c)
	}
	fmt.Fprintf(b, "]\n\n/-- whether that condition also requires the reserved counter to be zero -/\ndef gcChecksReserved : Bool := %v\n\n", reserved)
}

// c03ReleaseGuard: does ReleaseNodeCount look the counter up with a presence / nil check before dereferencing it?
func (g *gen) c03ReleaseGuard() {
	_, fd := g.findFunc("pkg/controllers/state", "NodePoolState.ReleaseNodeCount")
	if fd == nil {
		return
	}
	guarded := false
	ast.Inspect(fd.Body, func(n ast.Node) bool {
		switch v := n.(type) {
		case *ast.AssignStmt: // v, ok := n.nodePoolNameToNodePoolLimit[np]
			if len(v.Lhs) == 2 && len(v.Rhs) == 1 && strings.Contains(g.render(v.Rhs[0]), "nodePoolNameToNodePoolLimit[") {
				guarded = true
			}
		case *ast.BinaryExpr:
			if (v.Op == token.EQL || v.Op == token.NEQ) && (g.render(v.Y) == "nil" || g.render(v.X) == "nil") {
				guarded = true
			}
		case *ast.CallExpr:
			if strings.HasSuffix(exprString(v.Fun), "ensureNodePoolEntry") {
				guarded = true
			}
		}
		return true
	})
	fmt.Fprintf(g.out("C03Pool"), "/-- `NodePoolState.ReleaseNodeCount` (%s) checks that the pool's reserved counter exists before dereferencing it -/\ndef releaseGuardsMissingEntry : Bool := %v\n\n", g.pos(fd.Pos()), guarded)
}

// c03SubtractMaxNodes: does subtractMax account for the one node every NodeClaim consumes (any mention of
// resources.Node in its body)?
func (g *gen) c03SubtractMaxNodes() {
	_, fd := g.findFunc("pkg/controllers/provisioning/scheduling", "subtractMax")
	if fd == nil {
		return
	}
	found := false
	ast.Inspect(fd.Body, func(n ast.Node) bool {
		if se, ok := n.(*ast.SelectorExpr); ok && exprString(se) == "resources.Node" {
			found = true
		}
		return true
	})
	fmt.Fprintf(g.out("C03Limits"), "/-- `subtractMax` (%s) also takes one `nodes` unit off the remaining resources (it mentions `resources.Node`) -/\ndef subtractMaxCountsNode : Bool := %v\n\n", g.pos(fd.Pos()), found)
}

// c03StartCommandEarlyRelease: does Queue.StartCommand give reserved node slots back on the paths that return before
// createReplacementNodeClaims (a call to ReleaseNodeCount / a release* helper that precedes it in the source)?
func (g *gen) c03StartCommandEarlyRelease() {
	_, fd := g.findFunc("pkg/controllers/disruption", "Queue.StartCommand")
	if fd == nil {
		return
	}
	var createPos token.Pos
	var releases []token.Pos
	ast.Inspect(fd.Body, func(n ast.Node) bool {
		ce, ok := n.(*ast.CallExpr)
		if !ok {
			return true
		}
		name := exprString(ce.Fun)
		last := name
		if i := strings.LastIndex(name, "."); i >= 0 {
			last = name[i+1:]
		}
		switch {
		case last == "createReplacementNodeClaims":
			if createPos == token.NoPos {
				createPos = ce.Pos()
			}
		case last == "ReleaseNodeCount" || strings.HasPrefix(last, "release"):
			releases = append(releases, ce.Pos())
		}
		return true
	})
	if createPos == token.NoPos {
		g.errf("Queue.StartCommand: no call to createReplacementNodeClaims")
		return
	}
	early := false
	for _, p := range releases {
		if p < createPos {
			early = true
		}
	}
	fmt.Fprintf(g.out("C03Pool"), "/-- `Queue.StartCommand` (%s) gives the reserved node slots of a command back on the paths that return before `createReplacementNodeClaims` -/\ndef startCommandReleasesEarly : Bool := %v\n\n", g.pos(fd.Pos()), early)
}

// c03StaticDriftCap: how many drifts StaticDrift.ComputeCommands asks ReserveNodeCount for, per pool of the pass:
// the arguments of `maxDrifts := lo.Min([]int64{…})` by class (0 = the pool's disruption budget, 1 = the number of
// candidates of the pool being processed, 2 = the number of candidates of all pools), and that the cap is what is
// reserved, for the pool being processed, and that the commands are built from `<pool candidates>[:<granted>]`.
func (g *gen) c03StaticDriftCap() {
	_, fd := g.findFunc("pkg/controllers/disruption", "StaticDrift.ComputeCommands")
	if fd == nil {
		return
	}
	var params []string
	for _, f := range fd.Type.Params.List {
		for _, n := range f.Names {
			params = append(params, n.Name)
		}
	}
	if len(params) < 3 {
		g.errf("StaticDrift.ComputeCommands: expected (ctx, budgets, candidates...) parameters")
		return
	}
	budgetParam, allParam := params[1], params[len(params)-1]
	// candidatesByNodePool := lo.GroupBy(candidates, …); for key, value := range candidatesByNodePool
	grouped := map[string]bool{}
	ast.Inspect(fd.Body, func(n ast.Node) bool {
		as, ok := n.(*ast.AssignStmt)
		if !ok || len(as.Lhs) != 1 || len(as.Rhs) != 1 {
			return true
		}
		ce, ok := as.Rhs[0].(*ast.CallExpr)
		if !ok || exprString(ce.Fun) != "lo.GroupBy" || len(ce.Args) < 1 || exprString(ce.Args[0]) != allParam {
			return true
		}
		if id, ok := as.Lhs[0].(*ast.Ident); ok {
			grouped[id.Name] = true
		}
		return true
	})
	var loop *ast.RangeStmt
	ast.Inspect(fd.Body, func(n ast.Node) bool {
		rs, ok := n.(*ast.RangeStmt)
		if ok && loop == nil && grouped[exprString(rs.X)] {
			loop = rs
		}
		return true
	})
	if loop == nil || loop.Key == nil || loop.Value == nil {
		g.errf("StaticDrift.ComputeCommands: no `for name, candidates := range lo.GroupBy(%s, …)` loop found", allParam)
		return
	}
	keyVar, valueVar := exprString(loop.Key), exprString(loop.Value)
	// np := <value>[0].NodePool
	poolIdents := map[string]bool{}
	ast.Inspect(loop.Body, func(n ast.Node) bool {
		as, ok := n.(*ast.AssignStmt)
		if !ok || len(as.Lhs) != 1 || len(as.Rhs) != 1 {
			return true
		}
		if g.render(as.Rhs[0]) == valueVar+"[0].NodePool" {
			poolIdents[exprString(as.Lhs[0])] = true
		}
		return true
	})
	isPoolKey := func(e ast.Expr) bool {
		if id, ok := e.(*ast.Ident); ok {
			return id.Name == keyVar
		}
		if se, ok := e.(*ast.SelectorExpr); ok && se.Sel.Name == "Name" {
			return poolIdents[exprString(se.X)]
		}
		return false
	}
	strip := func(e ast.Expr) ast.Expr {
		for {
			switch v := e.(type) {
			case *ast.ParenExpr:
				e = v.X
				continue
			case *ast.CallExpr:
				if id, ok := v.Fun.(*ast.Ident); ok && len(v.Args) == 1 && (id.Name == "int64" || id.Name == "int" || id.Name == "int32") {
					e = v.Args[0]
					continue
				}
			}
			return e
		}
	}
	var capVar, capText string
	var capPos token.Pos
	var classes []int
	bad := ""
	var grantVar string
	reserveOK := false
	ast.Inspect(loop.Body, func(n ast.Node) bool {
		as, ok := n.(*ast.AssignStmt)
		if !ok || len(as.Lhs) != 1 || len(as.Rhs) != 1 {
			return true
		}
		ce, ok := as.Rhs[0].(*ast.CallExpr)
		if !ok {
			return true
		}
		switch {
		case exprString(ce.Fun) == "lo.Min" && len(ce.Args) == 1:
			cl, ok := ce.Args[0].(*ast.CompositeLit)
			if !ok {
				bad = "lo.Min over " + g.render(ce.Args[0])
				return true
			}
			capVar, capText, capPos = exprString(as.Lhs[0]), g.render(ce), as.Pos()
			for _, el := range cl.Elts {
				e := strip(el)
				switch v := e.(type) {
				case *ast.IndexExpr:
					if exprString(v.X) == budgetParam && isPoolKey(v.Index) {
						classes = append(classes, 0)
						continue
					}
				case *ast.CallExpr:
					if exprString(v.Fun) == "len" && len(v.Args) == 1 {
						switch exprString(v.Args[0]) {
						case valueVar:
							classes = append(classes, 1)
							continue
						case allParam:
							classes = append(classes, 2)
							continue
						}
					}
				}
				bad = g.render(el)
			}
		case strings.HasSuffix(exprString(ce.Fun), "ReserveNodeCount") && len(ce.Args) == 3:
			grantVar = exprString(as.Lhs[0])
			reserveOK = isPoolKey(ce.Args[0]) && capVar != "" && exprString(ce.Args[2]) == capVar
		}
		return true
	})
	if capVar == "" {
		g.errf("StaticDrift.ComputeCommands: no `x := lo.Min([]int64{…})` inside the per-pool loop")
		return
	}
	if bad != "" {
		g.errf("StaticDrift.ComputeCommands: the cap on the drifts of a pool has an argument the model does not know: %s", bad)
		return
	}
	if !reserveOK {
		g.errf("StaticDrift.ComputeCommands: ReserveNodeCount is not called as (<pool being processed>, limit, %s)", capVar)
		return
	}
	sliced := false
	ast.Inspect(loop.Body, func(n ast.Node) bool {
		se, ok := n.(*ast.SliceExpr)
		if ok && exprString(se.X) == valueVar && se.Low == nil && se.High != nil && exprString(se.High) == grantVar && se.Max == nil {
			sliced = true
		}
		return true
	})
	if !sliced {
		g.errf("StaticDrift.ComputeCommands: the commands are not built from `%s[:%s]`", valueVar, grantVar)
		return
	}
	b := g.out("C03Pool")
	fmt.Fprintf(b, "/-- the number of drifts `StaticDrift.ComputeCommands` asks `ReserveNodeCount` for, for the pool being processed (%s):\n    `%s`; the commands are built from `%s[:%s]` -/\ndef staticDriftCapText : String := %s\n\n", g.pos(capPos), capText, valueVar, grantVar, leanStr(capText))
	fmt.Fprintf(b, "/-- its arguments by class: 0 = the pool's disruption budget, 1 = number of drifted candidates of the pool being processed, 2 = number of drifted candidates of all pools of the pass -/\ndef staticDriftCapArgs : List Nat := [")
	for i, c := range classes {
		if i > 0 {
			b.WriteString(", ")
		}
		fmt.Fprintf(b, "%d", c)
	}
	b.WriteString("]\n\n")
}

// c03IsStatic: what makes a NodePool static (the expression nodepoolutils.IsStatic returns), and whether
// Provisioner.NewScheduler drops the NodePools for which it holds before it builds the scheduler.
func (g *gen) c03IsStatic() {
	_, fd := g.findFunc("pkg/utils/nodepool", "IsStatic")
	if fd == nil {
		return
	}
	text, replicasSet := "", false
	if len(fd.Body.List) == 1 {
		if rs, ok := fd.Body.List[0].(*ast.ReturnStmt); ok && len(rs.Results) == 1 {
			text = g.render(rs.Results[0])
			if be, ok := rs.Results[0].(*ast.BinaryExpr); ok && be.Op == token.NEQ {
				x, y := g.render(be.X), g.render(be.Y)
				replicasSet = (strings.HasSuffix(x, ".Spec.Replicas") && y == "nil") || (strings.HasSuffix(y, ".Spec.Replicas") && x == "nil")
			}
		}
	}
	if text == "" {
		g.errf("pkg/utils/nodepool.IsStatic: body is not a single return statement")
		return
	}
	fmt.Fprintf(g.out("C03Pool"), "/-- what `nodepoolutils.IsStatic` (%s) returns -/\ndef isStaticExpr : String := %s\n\n", g.pos(fd.Pos()), leanStr(text))
	fmt.Fprintf(g.out("C03Pool"), "/-- that expression is `<nodepool>.Spec.Replicas != nil`: a NodePool is static exactly when spec.replicas is set, whatever its value -/\ndef isStaticMeansReplicasSet : Bool := %v\n\n", replicasSet)

	_, ns := g.findFunc("pkg/controllers/provisioning", "Provisioner.NewScheduler")
	if ns == nil {
		return
	}
	drops := false
	ast.Inspect(ns.Body, func(n ast.Node) bool {
		ifs, ok := n.(*ast.IfStmt)
		if !ok || ifs.Init != nil {
			return true
		}
		call, ok := ifs.Cond.(*ast.CallExpr)
		if !ok || !strings.HasSuffix(exprString(call.Fun), "IsStatic") || len(ifs.Body.List) != 1 {
			return true
		}
		if rs, ok := ifs.Body.List[0].(*ast.ReturnStmt); ok && len(rs.Results) == 1 && g.render(rs.Results[0]) == "false" {
			drops = true
		}
		return true
	})
	fmt.Fprintf(g.out("C03Pool"), "/-- `Provisioner.NewScheduler` (%s) filters the NodePools with `if nodepoolutils.IsStatic(np) { return false }`: static NodePools are not offered to the pod-driven scheduler -/\ndef newSchedulerDropsStatic : Bool := %v\n\n", g.pos(ns.Pos()), drops)
}
