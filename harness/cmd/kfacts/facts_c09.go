package main

import (
	"fmt"
	"go/ast"
	"go/constant"
	"go/token"
	"strings"
)

// ---- C09: ordered finalization of Nodes / NodeClaims ----
// Group "Finalize": the drain-time constants, the "stuck terminating" buffer and its comparison, the order of the
// termination stages in the node termination controller's `finalize`, the requeue intervals of the stages, and the
// call orders inside the two `finalize` functions.

func init() {
	register([]string{
		"pkg/controllers/node/termination",
		"pkg/controllers/nodeclaim/lifecycle",
		"pkg/utils/pod",
	}, func(g *gen) {
		const term = "pkg/controllers/node/termination"
		const life = "pkg/controllers/nodeclaim/lifecycle"
		g.natConst("Finalize", term, "MinDrainTime", "minDrainTimeNs")
		c09Compare(g, "pkg/utils/pod", "IsStuckTerminating", "", []token.Token{token.GTR, token.GEQ}, "stuckTerminating",
			"`clk.Since(pod.DeletionTimestamp.Time) <op> <const>` in `IsStuckTerminating`: a pod that has been terminating for longer than this no longer holds the drain")
		c09Compare(g, term, "Controller.awaitDrain", "MinDrainTime", []token.Token{token.LSS, token.LEQ}, "minDrainCmp",
			"`c.clock.Since(cond.LastTransitionTime.Time) <op> MinDrainTime` in `awaitDrain`: requeue while true")
		c09Stages(g)
		c09Requeues(g, term, "Controller.awaitDrain", "requeueDrainNs")
		c09Requeues(g, term, "Controller.awaitVolumeDetachment", "requeueVolumesNs")
		c09Requeues(g, term, "Controller.awaitInstanceTermination", "requeueInstanceNs")
		c09Requeues(g, life, "Controller.finalize", "requeueClaimInstanceNs")
		g.callSeq("Finalize", term, "Controller.finalize", "nodeFinalizeCalls",
			[]string{"nodeutils.NodeClaimForNode", "kubeClient.Delete", "cloudProvider.Get", "c.nodeTerminationTime", "terminator.Taint", "Status().Patch", "c.removeFinalizer"})
		g.callSeq("Finalize", life, "Controller.finalize", "claimFinalizeCalls",
			[]string{"c.ensureTerminationGracePeriodTerminationTimeAnnotation", "nodeclaimutils.AllNodesForNodeClaim", "kubeClient.Delete", "cloudProvider.Delete", "Status().Patch", "controllerutil.RemoveFinalizer", "kubeClient.Patch"})
		g.callSeq("Finalize", life, "Controller.Reconcile", "claimReconcileCalls",
			[]string{"c.finalize", "controllerutil.AddFinalizer", "kubeClient.Patch", "reconciler.Reconcile", "Status().Patch"})
		g.callSeq("Finalize", term, "Controller.awaitInstanceTermination", "instanceStageCalls",
			[]string{"cloudProvider.Delete", "cloudprovider.IgnoreNodeClaimNotFoundError", "SetTrue", "cloudprovider.IsNodeClaimNotFoundError"})
	})
}

// c09Compare finds, in the body of fn, the first binary comparison with one of the given operators whose right
// operand is a constant (named `rhsName` when non-empty) and emits `<lean>Ns : Nat` and `<lean>Strict : Bool`
// (strict = the operator is `>` / `<`).
func c09Compare(g *gen, pkgPath, fn, rhsName string, ops []token.Token, lean, doc string) {
	p, fd := g.findFunc(pkgPath, fn)
	if fd == nil {
		return
	}
	found := false
	ast.Inspect(fd.Body, func(n ast.Node) bool {
		be, ok := n.(*ast.BinaryExpr)
		if !ok || found {
			return true
		}
		match := false
		for _, o := range ops {
			if be.Op == o {
				match = true
			}
		}
		if !match {
			return true
		}
		if rhsName != "" && !strings.HasSuffix(exprString(be.Y), rhsName) {
			return true
		}
		tv, ok := p.TypesInfo.Types[be.Y]
		if !ok || tv.Value == nil {
			return true
		}
		v, exact := constant.Int64Val(constant.ToInt(tv.Value))
		if !exact || v < 0 {
			return true
		}
		found = true
		strict := be.Op == token.GTR || be.Op == token.LSS
		fmt.Fprintf(g.out("Finalize"), "/-- %s (%s.%s, %s; operator `%s`) -/\ndef %sNs : Nat := %d\ndef %sStrict : Bool := %v\n\n", doc, pkgPath, fn, g.pos(be.Pos()), be.Op, lean, v, lean, strict)
		return false
	})
	if !found {
		g.errf("%s.%s: comparison with a constant right operand (%v %s) not found", pkgPath, fn, ops, rhsName)
	}
}

// c09Stages: the `[]terminationFunc{c.awaitDrain, c.awaitVolumeDetachment, c.awaitInstanceTermination}` literal the
// node termination controller's `finalize` ranges over, in order.
func c09Stages(g *gen) {
	const pkgPath = "pkg/controllers/node/termination"
	_, fd := g.findFunc(pkgPath, "Controller.finalize")
	if fd == nil {
		return
	}
	var lit *ast.CompositeLit
	ast.Inspect(fd.Body, func(n ast.Node) bool {
		cl, ok := n.(*ast.CompositeLit)
		if !ok || lit != nil {
			return true
		}
		at, ok := cl.Type.(*ast.ArrayType)
		if !ok {
			return true
		}
		if id, ok := at.Elt.(*ast.Ident); ok && id.Name == "terminationFunc" {
			lit = cl
			return false
		}
		return true
	})
	if lit == nil {
		g.errf("%s.Controller.finalize: the []terminationFunc{...} stage list was not found", pkgPath)
		return
	}
	var names []string
	for _, e := range lit.Elts {
		se, ok := e.(*ast.SelectorExpr)
		if !ok {
			g.errf("%s.Controller.finalize: stage %s is not a method value", pkgPath, exprString(e))
			return
		}
		names = append(names, se.Sel.Name)
	}
	b := g.out("Finalize")
	fmt.Fprintf(b, "/-- the termination stages `finalize` runs, in order, stopping at the first that requeues or fails (%s.Controller.finalize, %s) -/\ndef terminationStages : List String := [", pkgPath, g.pos(lit.Pos()))
	for i, s := range names {
		if i > 0 {
			b.WriteString(", ")
		}
		b.WriteString(leanStr(s))
	}
	b.WriteString("]\n\n")
}

// c09Requeues: the constant `RequeueAfter:` values inside fn, in source order (nanoseconds).
func c09Requeues(g *gen, pkgPath, fn, lean string) {
	p, fd := g.findFunc(pkgPath, fn)
	if fd == nil {
		return
	}
	var vals []int64
	bad := false
	ast.Inspect(fd.Body, func(n ast.Node) bool {
		kv, ok := n.(*ast.KeyValueExpr)
		if !ok {
			return true
		}
		id, ok := kv.Key.(*ast.Ident)
		if !ok || id.Name != "RequeueAfter" {
			return true
		}
		tv, ok := p.TypesInfo.Types[kv.Value]
		if !ok || tv.Value == nil {
			bad = true
			return true
		}
		v, exact := constant.Int64Val(constant.ToInt(tv.Value))
		if !exact || v < 0 {
			bad = true
			return true
		}
		vals = append(vals, v)
		return true
	})
	if bad {
		g.errf("%s.%s: a RequeueAfter value is not a non-negative constant", pkgPath, fn)
		return
	}
	b := g.out("Finalize")
	fmt.Fprintf(b, "/-- the constant `RequeueAfter` intervals in `%s.%s` (%s), in source order, nanoseconds -/\ndef %s : List Nat := [", pkgPath, fn, g.pos(fd.Pos()), lean)
	for i, v := range vals {
		if i > 0 {
			b.WriteString(", ")
		}
		fmt.Fprintf(b, "%d", v)
	}
	b.WriteString("]\n\n")
}
