package main

import (
	"bytes"
	"fmt"
	"go/ast"
	"go/constant"
	"go/printer"
	"go/token"
	"sort"
	"strings"
)

// ---- C09: ordered finalization of Nodes / NodeClaims ----
// Group "Finalize": the drain-time constants, the "stuck terminating" buffer and its comparison, the order of the
// termination stages in the node termination controller's `finalize`, the requeue intervals of the stages, and the
// call orders inside the two `finalize` functions.

func init() {
	register([]string{
		"pkg/controllers/node/termination",
		"pkg/controllers/nodeclaim/lifecycle",
		"pkg/utils/pod",
		"pkg/cloudprovider",
	}, func(g *gen) {
		const term = "pkg/controllers/node/termination"
		const life = "pkg/controllers/nodeclaim/lifecycle"
		g.natConst("Finalize", term, "MinDrainTime", "minDrainTimeNs")
		c09Compare(g, "pkg/utils/pod", "IsStuckTerminating", "", []token.Token{token.GTR, token.GEQ}, "stuckTerminating",
			"`clk.Since(pod.DeletionTimestamp.Time) <op> <const>` in `IsStuckTerminating`: a pod that has been terminating for longer than this no longer holds the drain")
		c09Compare(g, term, "Controller.awaitDrain", "MinDrainTime", []token.Token{token.LSS, token.LEQ}, "minDrainCmp",
			"`c.clock.Since(cond.LastTransitionTime.Time) <op> MinDrainTime` in `awaitDrain`: requeue while true")
		c09Stages(g)
		c09Requeues(g, term, "Controller.awaitDrain", "requeueDrainNs")
		c09Requeues(g, term, "Controller.awaitVolumeDetachment", "requeueVolumesNs")
		c09Requeues(g, term, "Controller.awaitInstanceTermination", "requeueInstanceNs")
		c09Requeues(g, life, "Controller.finalize", "requeueClaimInstanceNs")
		g.callSeq("Finalize", term, "Controller.finalize", "nodeFinalizeCalls",
			[]string{"nodeutils.NodeClaimForNode", "kubeClient.Delete", "cloudProvider.Get", "c.nodeTerminationTime", "terminator.Taint", "Status().Patch", "c.removeFinalizer"})
		g.callSeq("Finalize", life, "Controller.finalize", "claimFinalizeCalls",
			[]string{"c.ensureTerminationGracePeriodTerminationTimeAnnotation", "nodeclaimutils.AllNodesForNodeClaim", "kubeClient.Delete", "cloudProvider.Delete", "Status().Patch", "controllerutil.RemoveFinalizer", "kubeClient.Patch"})
		g.callSeq("Finalize", life, "Controller.Reconcile", "claimReconcileCalls",
			[]string{"c.finalize", "controllerutil.AddFinalizer", "kubeClient.Patch", "reconciler.Reconcile", "Status().Patch"})
		g.callSeq("Finalize", term, "Controller.awaitInstanceTermination", "instanceStageCalls",
			[]string{"cloudProvider.Delete", "cloudprovider.IgnoreNodeClaimNotFoundError", "SetTrue", "cloudprovider.IsNodeClaimNotFoundError"})
		c09ReturnExprs(g, "pkg/cloudprovider", "IsNodeClaimNotFoundError", "isNotFoundReturns",
			"the return expressions of `cloudprovider.IsNodeClaimNotFoundError`, in source order: the only way for a provider error to say \"the instance is gone\" is to be (or wrap) a *NodeClaimNotFoundError - no other error kind (a Kubernetes API NotFound for some other object, a message) counts")
		c09ReturnExprs(g, "pkg/cloudprovider", "IgnoreNodeClaimNotFoundError", "ignoreNotFoundReturns",
			"the return expressions of `cloudprovider.IgnoreNodeClaimNotFoundError`, in source order")
		c09ObjectReads(g, term, []string{"filterVolumeAttachments", "Controller.pendingVolumeAttachments", "Controller.awaitVolumeDetachment"},
			"VolumeAttachment", "vaFilterReads",
			"what the volume-detachment stage reads of a single VolumeAttachment (selector paths rooted at a value of type *storagev1.VolumeAttachment, sorted): an attachment blocks or not by these alone - in particular not by its deletionTimestamp, finalizers or status")
	})
}

// c09Compare finds, in the body of fn, the first binary comparison with one of the given operators whose right
// operand is a constant (named `rhsName` when non-empty) and emits `<lean>Ns : Nat` and `<lean>Strict : Bool`
// (strict = the operator is `>` / `<`).
func c09Compare(g *gen, pkgPath, fn, rhsName string, ops []token.Token, lean, doc string) {
	p, fd := g.findFunc(pkgPath, fn)
	if fd == nil {
		return
	}
	found := false
	ast.Inspect(fd.Body, func(n ast.Node) bool {
		be, ok := n.(*ast.BinaryExpr)
		if !ok || found {
			return true
		}
		match := false
		for _, o := range ops {
			if be.Op == o {
				match = true
			}
		}
		if !match {
			return true
		}
		if rhsName != "" && !strings.HasSuffix(exprString(be.Y), rhsName) {
			return true
		}
		tv, ok := p.TypesInfo.Types[be.Y]
		if !ok || tv.Value == nil {
			return true
		}
		v, exact := constant.Int64Val(constant.ToInt(tv.Value))
		if !exact || v < 0 {
			return true
		}
		found = true
		strict := be.Op == token.GTR || be.Op == token.LSS
		fmt.Fprintf(g.out("Finalize"), "/-- %s (%s.%s, %s; operator `%s`) -/\ndef %sNs : Nat := %d\ndef %sStrict : Bool := %v\n\n", doc, pkgPath, fn, g.pos(be.Pos()), be.Op, lean, v, lean, strict)
		return false
	})
	if !found {
		g.errf("%s.%s: comparison with a constant right operand (%v %s) not found", pkgPath, fn, ops, rhsName)
	}
}

// c09Stages: the `[]terminationFunc{c.awaitDrain, c.awaitVolumeDetachment, c.awaitInstanceTermination}` literal the
// node termination controller's `finalize` ranges over, in order.
func c09Stages(g *gen) {
	const pkgPath = "pkg/controllers/node/termination"
	_, fd := g.findFunc(pkgPath, "Controller.finalize")
	if fd == nil {
		return
	}
	var lit *ast.CompositeLit
	ast.Inspect(fd.Body, func(n ast.Node) bool {
		cl, ok := n.(*ast.CompositeLit)
		if !ok || lit != nil {
			return true
		}
		at, ok := cl.Type.(*ast.ArrayType)
		if !ok {
			return true
		}
		if id, ok := at.Elt.(*ast.Ident); ok && id.Name == "terminationFunc" {
			lit = cl
			return false
		}
		return true
	})
	if lit == nil {
		g.errf("%s.Controller.finalize: the []terminationFunc{...} stage list was not found", pkgPath)
		return
	}
	var names []string
	for _, e := range lit.Elts {
		se, ok := e.(*ast.SelectorExpr)
		if !ok {
			g.errf("%s.Controller.finalize: stage %s is not a method value", pkgPath, exprString(e))
			return
		}
		names = append(names, se.Sel.Name)
	}
	b := g.out("Finalize")
	fmt.Fprintf(b, "/-- the termination stages `finalize` runs, in order, stopping at the first that requeues or fails (%s.Controller.finalize, %s) -/\ndef terminationStages : List String := [", pkgPath, g.pos(lit.Pos()))
	for i, s := range names {
		if i > 0 {
			b.WriteString(", ")
		}
		b.WriteString(leanStr(s))
	}
	b.WriteString("]\n\n")
}

// c09Requeues: the constant `RequeueAfter:` values inside fn, in source order (nanoseconds).
func c09Requeues(g *gen, pkgPath, fn, lean string) {
	p, fd := g.findFunc(pkgPath, fn)
	if fd == nil {
		return
	}
	var vals []int64
	bad := false
	ast.Inspect(fd.Body, func(n ast.Node) bool {
		kv, ok := n.(*ast.KeyValueExpr)
		if !ok {
			return true
		}
		id, ok := kv.Key.(*ast.Ident)
		if !ok || id.Name != "RequeueAfter" {
			return true
		}
		tv, ok := p.TypesInfo.Types[kv.Value]
		if !ok || tv.Value == nil {
			bad = true
			return true
		}
		v, exact := constant.Int64Val(constant.ToInt(tv.Value))
		if !exact || v < 0 {
			bad = true
			return true
		}
		vals = append(vals, v)
		return true
	})
	if bad {
		g.errf("%s.%s: a RequeueAfter value is not a non-negative constant", pkgPath, fn)
		return
	}
	b := g.out("Finalize")
	fmt.Fprintf(b, "/-- the constant `RequeueAfter` intervals in `%s.%s` (%s), in source order, nanoseconds -/\ndef %s : List Nat := [", pkgPath, fn, g.pos(fd.Pos()), lean)
	for i, v := range vals {
		if i > 0 {
			b.WriteString(", ")
		}
		fmt.Fprintf(b, "%d", v)
	}
	b.WriteString("]\n\n")
}

// c09ObjectReads: the selector paths (maximal chains, e.g. `Spec.Source.PersistentVolumeName`) rooted at an identifier
// whose type is (a pointer to) the named struct type `typeName`, inside the given functions; sorted, without duplicates.
func c09ObjectReads(g *gen, pkgPath string, fns []string, typeName, lean, doc string) {
	seen := map[string]bool{}
	where := ""
	for _, fn := range fns {
		p, fd := g.findFunc(pkgPath, fn)
		if fd == nil {
			return
		}
		if where == "" {
			where = g.pos(fd.Pos())
		}
		inner := map[ast.Expr]bool{} // selector expressions that are the operand of a longer chain
		ast.Inspect(fd.Body, func(n ast.Node) bool {
			if se, ok := n.(*ast.SelectorExpr); ok {
				if x, ok := se.X.(*ast.SelectorExpr); ok {
					inner[x] = true
				}
			}
			return true
		})
		ast.Inspect(fd.Body, func(n ast.Node) bool {
			se, ok := n.(*ast.SelectorExpr)
			if !ok || inner[se] {
				return true
			}
			var path []string
			var cur ast.Expr = se
			for {
				s, ok := cur.(*ast.SelectorExpr)
				if !ok {
					break
				}
				path = append([]string{s.Sel.Name}, path...)
				cur = s.X
			}
			// the root: an identifier, possibly dereferenced / parenthesised
			for {
				switch r := cur.(type) {
				case *ast.ParenExpr:
					cur = r.X
					continue
				case *ast.StarExpr:
					cur = r.X
					continue
				}
				break
			}
			id, ok := cur.(*ast.Ident)
			if !ok {
				return true
			}
			tv, ok := p.TypesInfo.Types[id]
			if !ok || tv.Type == nil {
				return true
			}
			ts := tv.Type.String()
			if strings.HasSuffix(ts, "."+typeName) && !strings.HasPrefix(ts, "[]") {
				seen[strings.Join(path, ".")] = true
			}
			return true
		})
	}
	var paths []string
	for k := range seen {
		paths = append(paths, k)
	}
	sort.Strings(paths)
	b := g.out("Finalize")
	fmt.Fprintf(b, "/-- %s (%s: %s, %s) -/\ndef %s : List String := [", doc, pkgPath, strings.Join(fns, ", "), where, lean)
	for i, s := range paths {
		if i > 0 {
			b.WriteString(", ")
		}
		b.WriteString(leanStr(s))
	}
	b.WriteString("]\n\n")
}

// c09ReturnExprs: the expressions returned by fn, printed in canonical gofmt form, in source order.
func c09ReturnExprs(g *gen, pkgPath, fn, lean, doc string) {
	p, fd := g.findFunc(pkgPath, fn)
	if fd == nil {
		return
	}
	var exprs []string
	ast.Inspect(fd.Body, func(n ast.Node) bool {
		if _, ok := n.(*ast.FuncLit); ok {
			return false
		}
		rs, ok := n.(*ast.ReturnStmt)
		if !ok {
			return true
		}
		var parts []string
		for _, e := range rs.Results {
			var buf bytes.Buffer
			if err := printer.Fprint(&buf, p.Fset, e); err != nil {
				g.errf("%s.%s: cannot print a return expression: %v", pkgPath, fn, err)
				return false
			}
			parts = append(parts, strings.Join(strings.Fields(buf.String()), " "))
		}
		exprs = append(exprs, strings.Join(parts, ", "))
		return true
	})
	b := g.out("Finalize")
	fmt.Fprintf(b, "/-- %s (%s.%s, %s) -/\ndef %s : List String := [", doc, pkgPath, fn, g.pos(fd.Pos()), lean)
	for i, s := range exprs {
		if i > 0 {
			b.WriteString(", ")
		}
		b.WriteString(leanStr(s))
	}
	b.WriteString("]\n\n")
}
