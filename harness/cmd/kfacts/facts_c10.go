package main

import (
	"fmt"
	"go/ast"
	"go/constant"
	"go/token"
	"go/types"
	"strings"
)

// ---- C10: drain / eviction queue ----

const c10Group = "C10Drain"

func init() {
	register([]string{
		"pkg/utils/pod",
		"pkg/apis/v1",
		"pkg/controllers/node/termination/terminator",
		"pkg/controllers/node/termination",
	}, func(g *gen) {
		const pod = "pkg/utils/pod"
		const term = "pkg/controllers/node/termination/terminator"
		// IsStuckTerminating: `clk.Since(deletionTimestamp) > time.Minute`
		g.c10Compare(pod, "IsStuckTerminating", "stuckTerminating")
		// forceDelete: `max(int64(remaining.Seconds()), 1)`
		g.c10MaxFloor(term, "Queue.forceDelete", "forceDeleteMinGraceSeconds")
		// needsForceDelete: `clk.Now().After(deleteTime)` and the `* -1` of the pod's grace period
		g.c10ReturnCall(term, "needsForceDelete", "needsForceDeleteCompare")
		// groupPodsByPriority: critical class names and the order of the returned tiers
		g.c10StringsComparedWith(term, "Terminator.groupPodsByPriority", "PriorityClassName", "criticalPriorityClasses")
		g.c10TierOrder(term, "Terminator.groupPodsByPriority", "tierOrder")
		// owner kinds
		g.c10GVK(pod, "IsOwnedByDaemonSet", "daemonSetOwner")
		g.c10GVK(pod, "IsOwnedByNode", "nodeOwner")
		// annotation / taint
		g.strConst(c10Group, "pkg/apis/v1", "DoNotDisruptAnnotationKey", "doNotDisruptAnnotationKey")
		g.c10VarStructStrings("pkg/apis/v1", "DisruptedNoScheduleTaint", []string{"Key", "Value", "Effect"}, "disruptedNoScheduleTaint")
		// conjunct structure of the predicates (callee names, "!" = negated)
		g.c10Conjuncts(pod, "IsActive", "isActiveConjuncts")
		g.c10Conjuncts(pod, "IsEvictable", "isEvictableConjuncts")
		g.c10Conjuncts(pod, "IsDrainable", "isDrainableConjuncts")
		g.c10Conjuncts(pod, "IsWaitingEviction", "isWaitingEvictionConjuncts")
		g.c10Conjuncts(pod, "IsPodEligibleForForcedEviction", "isForcedEvictionEligibleConjuncts")
		// order of the decisions inside Reconcile / Drain
		g.callSeq(c10Group, term, "Queue.Reconcile", "reconcileCalls", []string{"needsForceDelete", "forceDelete", "IsActive", "complete", "IsEvictable", "evict"})
		g.callSeq(c10Group, term, "Terminator.Drain", "drainCalls", []string{"IsWaitingEviction", "needsForceDelete", "Add", "groupPodsByPriority", "Delete", "Create"})
		g.callSeq(c10Group, term, "Queue.evict", "evictCalls", []string{"SubResource", "Create", "Delete", "complete"})
		g.callSeq(c10Group, term, "Queue.forceDelete", "forceDeleteCalls", []string{"SubResource", "Create", "Delete", "complete"})
		g.callSeq(c10Group, "pkg/controllers/node/termination", "Controller.awaitDrain", "awaitDrainCalls", []string{"Drain", "Delete", "SetTrue"})
		// where the termination controller takes the node deadline from: annotation key, timestamp layout, the
		// values nodeTerminationTime is computed from, and what each of its (guarded) returns hands back
		g.strConst(c10Group, "pkg/apis/v1", "NodeClaimTerminationTimestampAnnotationKey", "terminationTimestampAnnotationKey")
		g.c10DeadlineSource("pkg/controllers/node/termination", "Controller.nodeTerminationTime", "nodeTerminationTime")
		// finalize asks for the deadline (and returns its error) before it taints, drains or deletes anything
		g.callSeq(c10Group, "pkg/controllers/node/termination", "Controller.finalize", "finalizeCalls", []string{"nodeTerminationTime", "Taint", "Drain", "awaitDrain"})
	})
}

func (g *gen) c10ConstOf(fnPkg string, e ast.Expr) (constant.Value, bool) {
	p := g.pkg(fnPkg)
	if p == nil {
		return nil, false
	}
	if tv, ok := p.TypesInfo.Types[e]; ok && tv.Value != nil {
		return tv.Value, true
	}
	return nil, false
}

// c10Compare finds the single comparison against a constant in the function and emits the operator and the
// constant (a time.Duration, in nanoseconds).
func (g *gen) c10Compare(pkgPath, fn, lean string) {
	_, fd := g.findFunc(pkgPath, fn)
	if fd == nil {
		return
	}
	type hit struct {
		op  token.Token
		val int64
		pos token.Pos
	}
	var hits []hit
	ast.Inspect(fd.Body, func(n ast.Node) bool {
		be, ok := n.(*ast.BinaryExpr)
		if !ok {
			return true
		}
		switch be.Op {
		case token.GTR, token.GEQ, token.LSS, token.LEQ:
			if v, ok := g.c10ConstOf(pkgPath, be.Y); ok {
				if i, exact := constant.Int64Val(constant.ToInt(v)); exact {
					hits = append(hits, hit{be.Op, i, be.Pos()})
				}
			}
		}
		return true
	})
	if len(hits) != 1 || hits[0].val < 0 {
		g.errf("%s.%s: expected exactly one comparison against a non-negative constant, found %d", pkgPath, fn, len(hits))
		return
	}
	b := g.out(c10Group)
	fmt.Fprintf(b, "/-- the comparison `elapsed %s %d` in `%s.%s` (%s) -/\ndef %sOp : String := %s\ndef %sNs : Nat := %d\n\n",
		hits[0].op, hits[0].val, pkgPath, fn, g.pos(hits[0].pos), lean, leanStr(hits[0].op.String()), lean, hits[0].val)
}

// c10MaxFloor finds the builtin `max(x, c)` call with one constant argument and emits the constant.
func (g *gen) c10MaxFloor(pkgPath, fn, lean string) {
	_, fd := g.findFunc(pkgPath, fn)
	if fd == nil {
		return
	}
	var vals []int64
	var pos token.Pos
	ast.Inspect(fd.Body, func(n ast.Node) bool {
		ce, ok := n.(*ast.CallExpr)
		if !ok {
			return true
		}
		if id, ok := ce.Fun.(*ast.Ident); ok && id.Name == "max" && len(ce.Args) == 2 {
			for _, a := range ce.Args {
				if v, ok := g.c10ConstOf(pkgPath, a); ok {
					if i, exact := constant.Int64Val(constant.ToInt(v)); exact {
						vals = append(vals, i)
						pos = ce.Pos()
					}
				}
			}
		}
		return true
	})
	if len(vals) != 1 || vals[0] < 0 {
		g.errf("%s.%s: expected exactly one max(x, const) call, found %d constants", pkgPath, fn, len(vals))
		return
	}
	fmt.Fprintf(g.out(c10Group), "/-- lower clamp of the grace period in `%s.%s`: `max(remaining, %d)` (%s) -/\ndef %s : Nat := %d\n\n", pkgPath, fn, vals[0], g.pos(pos), lean, vals[0])
}

// c10ReturnCall renders the last return statement of the function (the time comparison of needsForceDelete)
// and the multiplier constants used in the body.
func (g *gen) c10ReturnCall(pkgPath, fn, lean string) {
	_, fd := g.findFunc(pkgPath, fn)
	if fd == nil {
		return
	}
	var last *ast.ReturnStmt
	for _, st := range fd.Body.List {
		if r, ok := st.(*ast.ReturnStmt); ok {
			last = r
		}
	}
	if last == nil || len(last.Results) != 1 {
		g.errf("%s.%s: no final single-value return", pkgPath, fn)
		return
	}
	// integer literal multipliers in the body, e.g. `* -1`
	var muls []string
	ast.Inspect(fd.Body, func(n ast.Node) bool {
		be, ok := n.(*ast.BinaryExpr)
		if !ok || be.Op != token.MUL {
			return true
		}
		if v, ok := g.c10ConstOf(pkgPath, be.Y); ok {
			if _, isSel := be.Y.(*ast.SelectorExpr); !isSel {
				muls = append(muls, v.ExactString())
			}
		}
		return true
	})
	b := g.out(c10Group)
	fmt.Fprintf(b, "/-- final decision of `%s.%s` (%s) and the literal multipliers applied to the pod's grace period -/\ndef %s : String := %s\ndef %sMultipliers : List String := [", pkgPath, fn, g.pos(last.Pos()), lean, leanStr(renderExpr(last.Results[0])), lean)
	for i, m := range muls {
		if i > 0 {
			b.WriteString(", ")
		}
		b.WriteString(leanStr(m))
	}
	b.WriteString("]\n\n")
}

func renderExpr(e ast.Expr) string {
	switch v := e.(type) {
	case *ast.CallExpr:
		var args []string
		for _, a := range v.Args {
			args = append(args, renderExpr(a))
		}
		return renderExpr(v.Fun) + "(" + strings.Join(args, ", ") + ")"
	case *ast.SelectorExpr:
		return renderExpr(v.X) + "." + v.Sel.Name
	case *ast.Ident:
		return v.Name
	case *ast.UnaryExpr:
		return v.Op.String() + renderExpr(v.X)
	case *ast.BinaryExpr:
		return renderExpr(v.X) + " " + v.Op.String() + " " + renderExpr(v.Y)
	case *ast.StarExpr:
		return "*" + renderExpr(v.X)
	case *ast.ParenExpr:
		return "(" + renderExpr(v.X) + ")"
	case *ast.BasicLit:
		return v.Value
	}
	return "?"
}

// c10StringsComparedWith lists the string constants compared (==) with a selector ending in `field`.
func (g *gen) c10StringsComparedWith(pkgPath, fn, field, lean string) {
	_, fd := g.findFunc(pkgPath, fn)
	if fd == nil {
		return
	}
	var vals []string
	ast.Inspect(fd.Body, func(n ast.Node) bool {
		be, ok := n.(*ast.BinaryExpr)
		if !ok || be.Op != token.EQL {
			return true
		}
		if strings.HasSuffix(exprString(be.X), "."+field) {
			if v, ok := g.c10ConstOf(pkgPath, be.Y); ok && v.Kind() == constant.String {
				vals = append(vals, constant.StringVal(v))
			}
		}
		return true
	})
	if len(vals) == 0 {
		g.errf("%s.%s: no string compared with .%s", pkgPath, fn, field)
		return
	}
	b := g.out(c10Group)
	fmt.Fprintf(b, "/-- strings `%s` is compared with in `%s.%s` (%s) -/\ndef %s : List String := [", field, pkgPath, fn, g.pos(fd.Pos()), lean)
	for i, s := range vals {
		if i > 0 {
			b.WriteString(", ")
		}
		b.WriteString(leanStr(s))
	}
	b.WriteString("]\n\n")
}

// c10TierOrder reads the composite literal returned by groupPodsByPriority. Each element is a bucket variable;
// its meaning (critical?, daemon?) is derived from the branch in which the function appends to it.
func (g *gen) c10TierOrder(pkgPath, fn, lean string) {
	_, fd := g.findFunc(pkgPath, fn)
	if fd == nil {
		return
	}
	// bucket -> (critical, daemon) from the if/else nesting: outer condition mentions PriorityClassName,
	// inner condition calls IsOwnedByDaemonSet
	type cls struct{ critical, daemon bool }
	meaning := map[string]cls{}
	var walk func(n ast.Node, crit, daemon *bool)
	walk = func(n ast.Node, crit, daemon *bool) {
		switch v := n.(type) {
		case *ast.BlockStmt:
			for _, s := range v.List {
				walk(s, crit, daemon)
			}
		case *ast.RangeStmt:
			walk(v.Body, crit, daemon)
		case *ast.IfStmt:
			cond := renderExpr(v.Cond)
			t, f := true, false
			switch {
			case strings.Contains(cond, "PriorityClassName"):
				walk(v.Body, &t, daemon)
				if v.Else != nil {
					walk(v.Else, &f, daemon)
				}
			case strings.Contains(cond, "IsOwnedByDaemonSet") && !strings.Contains(cond, "!"):
				walk(v.Body, crit, &t)
				if v.Else != nil {
					walk(v.Else, crit, &f)
				}
			default:
				g.errf("%s.%s: unrecognised condition %q", pkgPath, fn, cond)
			}
		case *ast.AssignStmt:
			if len(v.Lhs) == 1 && len(v.Rhs) == 1 {
				if ce, ok := v.Rhs[0].(*ast.CallExpr); ok && exprString(ce.Fun) == "append" {
					if id, ok := v.Lhs[0].(*ast.Ident); ok && crit != nil && daemon != nil {
						if old, dup := meaning[id.Name]; dup && (old != cls{*crit, *daemon}) {
							g.errf("%s.%s: bucket %s filled from two different branches", pkgPath, fn, id.Name)
						}
						meaning[id.Name] = cls{*crit, *daemon}
					}
				}
			}
		}
	}
	walk(fd.Body, nil, nil)
	var ret *ast.CompositeLit
	for _, st := range fd.Body.List {
		if r, ok := st.(*ast.ReturnStmt); ok && len(r.Results) == 1 {
			if cl, ok := r.Results[0].(*ast.CompositeLit); ok {
				ret = cl
			}
		}
	}
	if ret == nil {
		g.errf("%s.%s: does not return a composite literal", pkgPath, fn)
		return
	}
	b := g.out(c10Group)
	fmt.Fprintf(b, "/-- tiers returned by `%s.%s` (%s), in order, as (critical, daemon) -/\ndef %s : List (Bool × Bool) := [", pkgPath, fn, g.pos(ret.Pos()), lean)
	for i, el := range ret.Elts {
		id, ok := el.(*ast.Ident)
		if !ok {
			g.errf("%s.%s: tier %d is not a variable", pkgPath, fn, i)
			continue
		}
		m, ok := meaning[id.Name]
		if !ok {
			g.errf("%s.%s: tier variable %s is never appended to", pkgPath, fn, id.Name)
			continue
		}
		if i > 0 {
			b.WriteString(", ")
		}
		fmt.Fprintf(b, "(%v, %v)", m.critical, m.daemon)
	}
	b.WriteString("]\n\n")
}

// c10GVK emits the (group/version, kind) of the single GroupVersionKind literal in the function, in the form
// ownerReferences carry it (apiVersion, kind).
func (g *gen) c10GVK(pkgPath, fn, lean string) {
	_, fd := g.findFunc(pkgPath, fn)
	if fd == nil {
		return
	}
	var found [][3]string
	ast.Inspect(fd.Body, func(n ast.Node) bool {
		cl, ok := n.(*ast.CompositeLit)
		if !ok {
			return true
		}
		var gvk [3]string
		has := false
		for _, el := range cl.Elts {
			kv, ok := el.(*ast.KeyValueExpr)
			if !ok {
				continue
			}
			k, _ := kv.Key.(*ast.Ident)
			v, okv := g.c10ConstOf(pkgPath, kv.Value)
			if k == nil || !okv || v.Kind() != constant.String {
				continue
			}
			switch k.Name {
			case "Group":
				gvk[0], has = constant.StringVal(v), true
			case "Version":
				gvk[1], has = constant.StringVal(v), true
			case "Kind":
				gvk[2], has = constant.StringVal(v), true
			}
		}
		if has && gvk[2] != "" {
			found = append(found, gvk)
		}
		return true
	})
	if len(found) != 1 {
		g.errf("%s.%s: expected one GroupVersionKind literal, found %d", pkgPath, fn, len(found))
		return
	}
	av := found[0][1]
	if found[0][0] != "" {
		av = found[0][0] + "/" + found[0][1]
	}
	fmt.Fprintf(g.out(c10Group), "/-- owner matched by `%s.%s` (%s): (apiVersion, kind) -/\ndef %s : String × String := (%s, %s)\n\n", pkgPath, fn, g.pos(fd.Pos()), lean, leanStr(av), leanStr(found[0][2]))
}

// c10VarStructStrings emits the named string fields of a package-level struct literal (absent field = "").
func (g *gen) c10VarStructStrings(pkgPath, name string, fields []string, lean string) {
	p := g.pkg(pkgPath)
	if p == nil {
		return
	}
	var lit *ast.CompositeLit
	var pos token.Pos
	for _, f := range p.Syntax {
		for _, d := range f.Decls {
			gd, ok := d.(*ast.GenDecl)
			if !ok {
				continue
			}
			for _, s := range gd.Specs {
				vs, ok := s.(*ast.ValueSpec)
				if !ok {
					continue
				}
				for i, n := range vs.Names {
					if n.Name == name && i < len(vs.Values) {
						if cl, ok := vs.Values[i].(*ast.CompositeLit); ok {
							lit, pos = cl, n.Pos()
						}
					}
				}
			}
		}
	}
	if lit == nil {
		g.errf("%s.%s: struct literal not found", pkgPath, name)
		return
	}
	vals := map[string]string{}
	for _, el := range lit.Elts {
		kv, ok := el.(*ast.KeyValueExpr)
		if !ok {
			g.errf("%s.%s: positional struct literal", pkgPath, name)
			return
		}
		k, _ := kv.Key.(*ast.Ident)
		if k == nil {
			continue
		}
		if tv, ok := p.TypesInfo.Types[kv.Value]; ok && tv.Value != nil && tv.Value.Kind() == constant.String {
			vals[k.Name] = constant.StringVal(tv.Value)
		} else {
			vals[k.Name] = "?non-constant"
		}
	}
	b := g.out(c10Group)
	fmt.Fprintf(b, "/-- `%s.%s` (%s) -/\n", pkgPath, name, g.pos(pos))
	for _, f := range fields {
		fmt.Fprintf(b, "def %s%s : String := %s\n", lean, f, leanStr(vals[f]))
	}
	b.WriteString("\n")
}

// c10Conjuncts: for a function whose body is `return a && b && ...`, the conjuncts as callee names
// ("!" prefix when negated; non-call conjuncts are rendered).
func (g *gen) c10Conjuncts(pkgPath, fn, lean string) {
	_, fd := g.findFunc(pkgPath, fn)
	if fd == nil {
		return
	}
	if len(fd.Body.List) != 1 {
		g.errf("%s.%s: body is not a single return", pkgPath, fn)
		return
	}
	rs, ok := fd.Body.List[0].(*ast.ReturnStmt)
	if !ok || len(rs.Results) != 1 {
		g.errf("%s.%s: body is not a single return", pkgPath, fn)
		return
	}
	var out []string
	var flat func(e ast.Expr)
	name := func(e ast.Expr) string {
		neg := ""
		if u, ok := e.(*ast.UnaryExpr); ok && u.Op == token.NOT {
			neg, e = "!", u.X
		}
		if ce, ok := e.(*ast.CallExpr); ok {
			s := exprString(ce.Fun)
			if i := strings.LastIndex(s, "."); i >= 0 {
				// keep method calls on values distinguishable: pod.DeletionTimestamp.After -> DeletionTimestamp.After
				parts := strings.Split(s, ".")
				if len(parts) > 2 {
					s = strings.Join(parts[len(parts)-2:], ".")
				} else {
					s = s[i+1:]
				}
			}
			return neg + s
		}
		return neg + renderExpr(e)
	}
	flat = func(e ast.Expr) {
		if p, ok := e.(*ast.ParenExpr); ok {
			e = p.X
		}
		if be, ok := e.(*ast.BinaryExpr); ok && be.Op == token.LAND {
			flat(be.X)
			flat(be.Y)
			return
		}
		out = append(out, name(e))
	}
	flat(rs.Results[0])
	b := g.out(c10Group)
	fmt.Fprintf(b, "/-- conjuncts of `%s.%s` (%s) -/\ndef %s : List String := [", pkgPath, fn, g.pos(fd.Pos()), lean)
	for i, s := range out {
		if i > 0 {
			b.WriteString(", ")
		}
		b.WriteString(leanStr(s))
	}
	b.WriteString("]\n\n")
}

// c10DeadlineSource describes `Controller.nodeTerminationTime`: the two-value assignments it computes its
// result from (lhs, rhs as written), the constant layout passed to time.Parse, and every return statement in
// source order as (guard, deadline, error) where guard is the condition of the enclosing `if` ("" = the final,
// unguarded return), deadline is the first result as written and error is "nil" or "error".
func (g *gen) c10DeadlineSource(pkgPath, fn, lean string) {
	_, fd := g.findFunc(pkgPath, fn)
	if fd == nil {
		return
	}
	type ret struct{ guard, val, err string }
	var rets []ret
	var assigns [][2]string
	layout, layouts := "", 0
	var walk func(stmts []ast.Stmt, guard string, depth int)
	walk = func(stmts []ast.Stmt, guard string, depth int) {
		for _, st := range stmts {
			switch v := st.(type) {
			case *ast.ReturnStmt:
				if len(v.Results) != 2 {
					g.errf("%s.%s: return with %d results", pkgPath, fn, len(v.Results))
					return
				}
				e := "error"
				if id, ok := v.Results[1].(*ast.Ident); ok && id.Name == "nil" {
					e = "nil"
				}
				rets = append(rets, ret{guard, types.ExprString(v.Results[0]), e})
			case *ast.IfStmt:
				if v.Init != nil || v.Else != nil || depth > 0 {
					g.errf("%s.%s: unexpected shape of an if statement at %s", pkgPath, fn, g.pos(v.Pos()))
					return
				}
				walk(v.Body.List, types.ExprString(v.Cond), depth+1)
			case *ast.AssignStmt:
				if len(v.Lhs) == 2 && len(v.Rhs) == 1 {
					assigns = append(assigns, [2]string{types.ExprString(v.Lhs[0]) + ", " + types.ExprString(v.Lhs[1]), types.ExprString(v.Rhs[0])})
				} else {
					g.errf("%s.%s: unexpected assignment at %s", pkgPath, fn, g.pos(v.Pos()))
				}
			case *ast.ExprStmt:
				// events published on the way (no influence on the result)
			default:
				g.errf("%s.%s: unexpected statement at %s", pkgPath, fn, g.pos(st.Pos()))
			}
		}
	}
	walk(fd.Body.List, "", 0)
	ast.Inspect(fd.Body, func(n ast.Node) bool {
		ce, ok := n.(*ast.CallExpr)
		if !ok || types.ExprString(ce.Fun) != "time.Parse" || len(ce.Args) != 2 {
			return true
		}
		if v, ok := g.c10ConstOf(pkgPath, ce.Args[0]); ok && v.Kind() == constant.String {
			layout = constant.StringVal(v)
			layouts++
		}
		return true
	})
	if layouts != 1 {
		g.errf("%s.%s: expected exactly one time.Parse call with a constant layout, found %d", pkgPath, fn, layouts)
		return
	}
	b := g.out(c10Group)
	fmt.Fprintf(b, "/-- `%s.%s` (%s): layout given to `time.Parse` -/\ndef terminationTimestampLayout : String := %s\n\n", pkgPath, fn, g.pos(fd.Pos()), leanStr(layout))
	fmt.Fprintf(b, "/-- `%s.%s`: the assignments (lhs, rhs) its result is computed from -/\ndef %sAssigns : List (String × String) := [", pkgPath, fn, lean)
	for i, a := range assigns {
		if i > 0 {
			b.WriteString(", ")
		}
		fmt.Fprintf(b, "(%s, %s)", leanStr(a[0]), leanStr(a[1]))
	}
	b.WriteString("]\n\n")
	fmt.Fprintf(b, "/-- `%s.%s`: every return in source order as (guard of the enclosing if, deadline returned, error returned) -/\ndef %sReturns : List (String × String × String) := [", pkgPath, fn, lean)
	for i, r := range rets {
		if i > 0 {
			b.WriteString(", ")
		}
		fmt.Fprintf(b, "(%s, %s, %s)", leanStr(r.guard), leanStr(r.val), leanStr(r.err))
	}
	b.WriteString("]\n\n")
}
