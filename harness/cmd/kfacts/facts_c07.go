package main

// C07 facts: group `CandidateFacts` (lean/Karp/Gen/CandidateFacts.lean).
//
//   - the disruption method list of `NewMethods` (order) and each method type's `Class()` value
//   - the two disruption class strings
//   - the nomination window formula  max(factor * BatchMaxDuration, floor)
//   - the eviction-cost formula constants (powers of two, clamp) that decide "contributes positive cost"
//   - the do-not-disrupt annotation key and the ConsolidationPolicy / condition names the anchored code compares with
//   - the call order inside ValidateNodeDisruptable / ValidatePodsDisruptable / NewCandidate / the ShouldDisrupt filters
//   - the control flow of the nodeclaim.disruption controller around its sub-reconcilers: which ones `runReconcilers`
//     runs (in order), whether its loop can stop early, and whether `Reconcile` can return between running them and
//     persisting the result

import (
	"fmt"
	"go/ast"
	"go/constant"
	"go/token"
	"go/types"
	"sort"
	"strings"
)

const c07Group = "CandidateFacts"

func init() {
	register([]string{
		"pkg/apis/v1",
		"pkg/controllers/state",
		"pkg/controllers/disruption",
		"pkg/controllers/nodeclaim/disruption",
		"pkg/controllers/provisioning/scheduling",
		"pkg/utils/disruption",
		"pkg/utils/pod",
		"pkg/utils/pdb",
	}, func(g *gen) {
		g.strConst(c07Group, "pkg/apis/v1", "DoNotDisruptAnnotationKey", "doNotDisruptKey")
		g.strConst(c07Group, "pkg/apis/v1", "NodePoolLabelKey", "nodePoolLabelKey")
		g.strConst(c07Group, "pkg/apis/v1", "NodeInitializedLabelKey", "nodeInitializedLabelKey")
		g.strConst(c07Group, "pkg/apis/v1", "NodeRegisteredLabelKey", "nodeRegisteredLabelKey")
		g.strConst(c07Group, "pkg/apis/v1", "ConditionTypeConsolidatable", "condConsolidatable")
		g.strConst(c07Group, "pkg/apis/v1", "ConditionTypeDrifted", "condDrifted")
		g.strConst(c07Group, "pkg/apis/v1", "ConditionTypeInitialized", "condInitialized")
		g.strConst(c07Group, "pkg/apis/v1", "ConditionTypeInstanceTerminating", "condInstanceTerminating")
		g.strConst(c07Group, "pkg/apis/v1", "DisruptionReasonDrifted", "reasonDrifted")
		g.strConst(c07Group, "pkg/apis/v1", "ConsolidationPolicyWhenEmpty", "policyWhenEmpty")
		g.strConst(c07Group, "pkg/apis/v1", "DisruptedTaintKey", "disruptedTaintKey")
		g.strConst(c07Group, "pkg/controllers/disruption", "GracefulDisruptionClass", "gracefulClass")
		g.strConst(c07Group, "pkg/controllers/disruption", "EventualDisruptionClass", "eventualClass")
		g.ratioConst(c07Group, "pkg/controllers/disruption", "PerNodeBaseDisruptionCost", "perNodeBaseCost")

		c07MethodOrder(g)
		c07MethodClasses(g)
		c07NominationWindow(g)
		c07EvictionCost(g)

		g.callSeq(c07Group, "pkg/controllers/state", "StateNode.ValidateNodeDisruptable", "validateNodeCalls",
			[]string{"Initialized", "MarkedForDeletion", "Nominated", "Annotations", "Labels"})
		g.callSeq(c07Group, "pkg/controllers/state", "StateNode.ValidatePodsDisruptable", "validatePodsCalls",
			[]string{"Pods", "IsDisruptable", "CanEvictPods"})
		g.callSeq(c07Group, "pkg/controllers/state", "StateNode.MarkedForDeletion", "markedForDeletionCalls",
			[]string{"Deleted"})
		g.callSeq(c07Group, "pkg/controllers/disruption", "NewCandidate", "newCandidateCalls",
			[]string{"HasAny", "ValidateNodeDisruptable", "ValidatePodsDisruptable", "IgnorePodBlockEvictionError"})
		g.callSeq(c07Group, "pkg/controllers/disruption", "consolidation.ShouldDisrupt", "consolidationFilterCalls",
			[]string{"OwnedByStaticNodePool", "IsEmpty", "IsTrue"})
		g.callSeq(c07Group, "pkg/controllers/disruption", "Emptiness.ShouldDisrupt", "emptinessFilterCalls",
			[]string{"OwnedByStaticNodePool", "HasBufferPods", "IsEmpty", "IsTrue"})
		g.callSeq(c07Group, "pkg/controllers/disruption", "Drift.ShouldDisrupt", "driftFilterCalls",
			[]string{"OwnedByStaticNodePool", "IsTrue"})
		g.callSeq(c07Group, "pkg/controllers/disruption", "StaticDrift.ShouldDisrupt", "staticDriftFilterCalls",
			[]string{"OwnedByStaticNodePool", "IsTrue"})
		g.callSeq(c07Group, "pkg/controllers/disruption", "GetCandidatesWithTotals", "getCandidatesCalls",
			[]string{"DeepCopyNodes", "NewCandidate", "shouldDisrupt"})
		g.callSeq(c07Group, "pkg/utils/pod", "IsEvictable", "isEvictableCalls",
			[]string{"IsActive", "ToleratesDisruptedNoScheduleTaint", "IsOwnedByNode", "IsDoNotDisruptActive"})
		g.callSeq(c07Group, "pkg/utils/pod", "IsDisruptable", "isDisruptableCalls",
			[]string{"IsActive", "IsDoNotDisruptActive"})
		g.callSeq(c07Group, "pkg/controllers/nodeclaim/disruption", "Consolidation.Reconcile", "consolidatableCalls",
			[]string{"Clear", "IsUnderConsolidateAfter", "SetTrue"})
		// what a method looks at again between the listing of its candidates and its command (the pass is not atomic)
		g.callSeq(c07Group, "pkg/controllers/disruption", "Drift.ComputeCommands", "driftComputeCalls",
			[]string{"SimulateScheduling", "Deleting", "MarkedForDeletion", "IsValid", "Validate"})
		g.callSeq(c07Group, "pkg/controllers/disruption", "StaticDrift.ComputeCommands", "staticDriftComputeCalls",
			[]string{"SimulateScheduling", "Deleting", "MarkedForDeletion", "Deleted", "IsValid", "Validate"})
		g.callSeq(c07Group, "pkg/controllers/disruption", "consolidation.computeConsolidation", "computeConsolidationCalls",
			[]string{"SimulateScheduling"})
		g.callSeq(c07Group, "pkg/controllers/disruption", "SingleNodeConsolidation.ComputeCommands", "singleComputeCalls",
			[]string{"computeConsolidation", "Validate"})
		g.callSeq(c07Group, "pkg/controllers/disruption", "MultiNodeConsolidation.firstNConsolidationOption", "multiOptionCalls",
			[]string{"computeConsolidation"})
		g.callSeq(c07Group, "pkg/controllers/disruption", "MultiNodeConsolidation.ComputeCommands", "multiComputeCalls",
			[]string{"firstNConsolidationOption", "Validate"})
		g.callSeq(c07Group, "pkg/controllers/disruption", "Emptiness.ComputeCommands", "emptinessComputeCalls",
			[]string{"SimulateScheduling", "Validate"})
		g.callSeq(c07Group, "pkg/controllers/disruption", "SimulateScheduling", "simulateSchedulingCalls",
			[]string{"DeepCopyNodes", "Deleting", "Active", "GetPendingPods", "NewScheduler", "Solve"})
		c07SubReconcilers(g)
		c07ProtectionWriters(g)
	})
}

// c07ProtectionWriters: the control flow around the two callers that write the in-memory protections.
//
//	recordNominateCalls          — calls of Cluster.NominateNodeForPod in scheduling.Results.Record
//	recordReturnsBeforeNominate  — return statements of Results.Record that precede the (first) nomination call: an
//	                               early exit ("nothing to report") before it would skip the nominations
//	completeCommandUnmarkGuards  — for every Cluster.UnmarkForDeletion call of disruption.Queue.CompleteCommand the
//	                               conditions of the if statements around it, innermost last, joined by " && "
//	                               ("" = unconditional)
//	startCommandMarks            — calls of Cluster.MarkForDeletion in Queue.StartCommand
func c07ProtectionWriters(g *gen) {
	b := g.out(c07Group)
	calls, pos := g.callsIn("pkg/controllers/provisioning/scheduling", "Results.Record", "NominateNodeForPod")
	_, fd := g.findFunc("pkg/controllers/provisioning/scheduling", "Results.Record")
	if fd == nil {
		g.errf("scheduling.Results.Record not found")
		return
	}
	before := 0
	if len(calls) > 0 {
		first := calls[0].Pos()
		for _, c := range calls {
			if c.Pos() < first {
				first = c.Pos()
			}
		}
		ast.Inspect(fd.Body, func(n ast.Node) bool {
			if _, ok := n.(*ast.FuncLit); ok {
				return false // a return inside a closure does not leave Record
			}
			if r, ok := n.(*ast.ReturnStmt); ok && r.Pos() < first {
				before++
			}
			return true
		})
	}
	fmt.Fprintf(b, "/-- calls of `Cluster.NominateNodeForPod` in `scheduling.Results.Record` (%s) -/\ndef recordNominateCalls : Nat := %d\n\n", g.pos(pos), len(calls))
	fmt.Fprintf(b, "/-- return statements of `Results.Record` that precede its first nomination call: 0 = no early exit can skip the nominations -/\ndef recordReturnsBeforeNominate : Nat := %d\n\n", before)

	_, cd := g.findFunc("pkg/controllers/disruption", "Queue.CompleteCommand")
	if cd == nil {
		g.errf("disruption.Queue.CompleteCommand not found")
		return
	}
	var guards []string
	var walk func(n ast.Node, conds []string)
	walk = func(n ast.Node, conds []string) {
		switch v := n.(type) {
		case nil:
			return
		case *ast.IfStmt:
			if v.Init != nil {
				walk(v.Init, conds)
			}
			walk(v.Cond, conds)
			walk(v.Body, append(append([]string{}, conds...), types.ExprString(v.Cond)))
			if v.Else != nil {
				walk(v.Else, append(append([]string{}, conds...), "!("+types.ExprString(v.Cond)+")"))
			}
			return
		case *ast.CallExpr:
			name := exprString(v.Fun)
			if name == "UnmarkForDeletion" || strings.HasSuffix(name, ".UnmarkForDeletion") {
				guards = append(guards, strings.Join(conds, " && "))
			}
		}
		// generic descent over the children, keeping the guards
		var children []ast.Node
		first := true
		ast.Inspect(n, func(c ast.Node) bool {
			if first {
				first = false
				return true
			}
			if c != nil {
				children = append(children, c)
			}
			return false
		})
		for _, c := range children {
			walk(c, conds)
		}
	}
	walk(cd.Body, nil)
	g.leanStrList(c07Group, fmt.Sprintf("guards of the `Cluster.UnmarkForDeletion` calls of `disruption.Queue.CompleteCommand` (%s): the candidates of a command are released only under these conditions", g.pos(cd.Pos())), "completeCommandUnmarkGuards", guards)
	marks, mpos := g.callsIn("pkg/controllers/disruption", "Queue.StartCommand", "MarkForDeletion")
	fmt.Fprintf(b, "/-- calls of `Cluster.MarkForDeletion` in `disruption.Queue.StartCommand` (%s) -/\ndef startCommandMarks : Nat := %d\n\n", g.pos(mpos), len(marks))
}

// c07SubReconcilers: the control flow of `nodeclaim/disruption.Controller` that decides whether the Consolidation
// sub-reconciler gets to run (and its result gets persisted) when another step of the same run fails.
//
//	subReconcilers              — the receiver fields put into the `reconcilers` slice of runReconcilers, in order
//	subReconcilerLoopExits      — return / break / continue / goto statements and panic calls inside the loop over them
//	reconcileReturnsBeforePatch — return statements of Reconcile between the runReconcilers call and the Patch call
func c07SubReconcilers(g *gen) {
	const pkg = "pkg/controllers/nodeclaim/disruption"
	_, fd := g.findFunc(pkg, "Controller.runReconcilers")
	if fd == nil {
		return
	}
	var subs []string
	addElem := func(e ast.Expr) {
		if se, ok := e.(*ast.SelectorExpr); ok {
			subs = append(subs, se.Sel.Name)
		} else {
			g.errf("runReconcilers: sub-reconciler is not a receiver field: %s", exprString(e))
		}
	}
	var loops []*ast.RangeStmt
	ast.Inspect(fd.Body, func(n ast.Node) bool {
		switch v := n.(type) {
		case *ast.AssignStmt:
			if len(v.Lhs) != 1 || len(v.Rhs) != 1 {
				return true
			}
			if id, ok := v.Lhs[0].(*ast.Ident); !ok || id.Name != "reconcilers" {
				return true
			}
			switch r := v.Rhs[0].(type) {
			case *ast.CompositeLit:
				for _, e := range r.Elts {
					addElem(e)
				}
			case *ast.CallExpr:
				if exprString(r.Fun) == "append" && len(r.Args) >= 1 && exprString(r.Args[0]) == "reconcilers" {
					for _, e := range r.Args[1:] {
						addElem(e)
					}
				} else {
					g.errf("runReconcilers: `reconcilers` assigned from %s", exprString(r))
				}
			default:
				g.errf("runReconcilers: `reconcilers` assigned from an unexpected expression")
			}
		case *ast.RangeStmt:
			if exprString(v.X) == "reconcilers" {
				loops = append(loops, v)
			}
		}
		return true
	})
	if len(subs) == 0 || len(loops) != 1 {
		g.errf("runReconcilers: expected a `reconcilers` slice and exactly one loop over it (found %d elements, %d loops)", len(subs), len(loops))
		return
	}
	exits := 0
	ast.Inspect(loops[0].Body, func(n ast.Node) bool {
		switch v := n.(type) {
		case *ast.FuncLit:
			return false
		case *ast.ReturnStmt, *ast.BranchStmt:
			exits++
		case *ast.CallExpr:
			if exprString(v.Fun) == "panic" {
				exits++
			}
		}
		return true
	})
	g.leanStrList(c07Group, fmt.Sprintf("the sub-reconcilers `Controller.runReconcilers` runs (%s), in order", g.pos(fd.Pos())), "subReconcilers", subs)
	b := g.out(c07Group)
	fmt.Fprintf(b, "/-- early exits (return / break / continue / goto / panic) inside the loop of `runReconcilers` over the sub-reconcilers (%s): 0 = every sub-reconciler runs whatever the others returned -/\ndef subReconcilerLoopExits : Nat := %d\n\n", g.pos(loops[0].Pos()), exits)

	_, rd := g.findFunc(pkg, "Controller.Reconcile")
	if rd == nil {
		return
	}
	var runPos, patchPos token.Pos
	ast.Inspect(rd.Body, func(n ast.Node) bool {
		if ce, ok := n.(*ast.CallExpr); ok {
			name := exprString(ce.Fun)
			if strings.HasSuffix(name, ".runReconcilers") && runPos == 0 {
				runPos = ce.Pos()
			}
			if strings.HasSuffix(name, ".Patch") && patchPos == 0 {
				patchPos = ce.Pos()
			}
		}
		return true
	})
	if runPos == 0 || patchPos == 0 || patchPos < runPos {
		g.errf("nodeclaim/disruption.Controller.Reconcile: expected a runReconcilers call followed by a Patch call")
		return
	}
	between := 0
	ast.Inspect(rd.Body, func(n ast.Node) bool {
		switch v := n.(type) {
		case *ast.FuncLit:
			return false
		case *ast.ReturnStmt:
			if v.Pos() > runPos && v.Pos() < patchPos {
				between++
			}
		}
		return true
	})
	fmt.Fprintf(b, "/-- return statements of `Controller.Reconcile` between the `runReconcilers` call and the status `Patch` call (%s): 0 = what the sub-reconcilers changed is persisted before their errors are returned -/\ndef reconcileReturnsBeforePatch : Nat := %d\n\n", g.pos(rd.Pos()), between)
}

func (g *gen) leanStrList(group, doc, lean string, xs []string) {
	b := g.out(group)
	fmt.Fprintf(b, "/-- %s -/\ndef %s : List String := [", doc, lean)
	for i, s := range xs {
		if i > 0 {
			b.WriteString(", ")
		}
		b.WriteString(leanStr(s))
	}
	b.WriteString("]\n\n")
}

// c07MethodOrder: the constructor calls inside the slice literal returned by NewMethods, in order.
func c07MethodOrder(g *gen) {
	_, fd := g.findFunc("pkg/controllers/disruption", "NewMethods")
	if fd == nil {
		return
	}
	var order []string
	ast.Inspect(fd.Body, func(n ast.Node) bool {
		rs, ok := n.(*ast.ReturnStmt)
		if !ok || len(rs.Results) != 1 {
			return true
		}
		cl, ok := rs.Results[0].(*ast.CompositeLit)
		if !ok {
			return true
		}
		for _, e := range cl.Elts {
			if ce, ok := e.(*ast.CallExpr); ok {
				order = append(order, strings.TrimPrefix(exprString(ce.Fun), "New"))
			} else {
				g.errf("NewMethods: element is not a constructor call: %s", exprString(e))
			}
		}
		return false
	})
	if len(order) == 0 {
		g.errf("NewMethods: no method list found")
		return
	}
	g.leanStrList(c07Group, fmt.Sprintf("the disruption methods in the order of `disruption.NewMethods` (%s): constructor names without `New`", g.pos(fd.Pos())), "methodOrder", order)
}

// c07MethodClasses: for every type of package disruption with a `Class() string` method returning a constant,
// the pair (type name, constant value).
func c07MethodClasses(g *gen) {
	p := g.pkg("pkg/controllers/disruption")
	if p == nil {
		return
	}
	type kv struct{ k, v, pos string }
	var out []kv
	for _, f := range p.Syntax {
		if strings.HasSuffix(g.fset.Position(f.Pos()).Filename, "_test.go") {
			continue
		}
		for _, d := range f.Decls {
			fd, ok := d.(*ast.FuncDecl)
			if !ok || fd.Name.Name != "Class" || fd.Recv == nil || len(fd.Recv.List) != 1 || fd.Body == nil {
				continue
			}
			t := fd.Recv.List[0].Type
			if s, ok := t.(*ast.StarExpr); ok {
				t = s.X
			}
			id, ok := t.(*ast.Ident)
			if !ok {
				continue
			}
			var val string
			found := false
			for _, st := range fd.Body.List {
				if rs, ok := st.(*ast.ReturnStmt); ok && len(rs.Results) == 1 {
					if tv, ok := p.TypesInfo.Types[rs.Results[0]]; ok && tv.Value != nil && tv.Value.Kind() == constant.String {
						val, found = constant.StringVal(tv.Value), true
					}
				}
			}
			if !found || len(fd.Body.List) != 1 {
				g.errf("disruption.%s.Class: body is not a single `return <string constant>`", id.Name)
				continue
			}
			out = append(out, kv{id.Name, val, g.pos(fd.Pos())})
		}
	}
	if len(out) == 0 {
		g.errf("no Class() methods found in pkg/controllers/disruption")
		return
	}
	sort.Slice(out, func(i, j int) bool { return out[i].k < out[j].k })
	b := g.out(c07Group)
	fmt.Fprintf(b, "/-- `Class()` of every disruption method type (type name, class string), sorted by type name -/\ndef methodClass : List (String × String) := [")
	for i, e := range out {
		if i > 0 {
			b.WriteString(",")
		}
		fmt.Fprintf(b, "\n  (%s, %s) /- %s -/", leanStr(e.k), leanStr(e.v), e.pos)
	}
	b.WriteString("]\n\n")
}

// constOf evaluates a constant expression through go/types.
func (g *gen) constOf(pkgPath string, e ast.Expr) (constant.Value, bool) {
	p := g.pkg(pkgPath)
	if p == nil {
		return nil, false
	}
	if tv, ok := p.TypesInfo.Types[e]; ok && tv.Value != nil {
		return tv.Value, true
	}
	return nil, false
}

// callsIn lists the call expressions of a function whose callee renders to `callee` (or ends with "."+callee).
func (g *gen) callsIn(pkgPath, fn, callee string) ([]*ast.CallExpr, token.Pos) {
	_, fd := g.findFunc(pkgPath, fn)
	if fd == nil {
		return nil, 0
	}
	var out []*ast.CallExpr
	ast.Inspect(fd.Body, func(n ast.Node) bool {
		if ce, ok := n.(*ast.CallExpr); ok {
			name := exprString(ce.Fun)
			if name == callee || strings.HasSuffix(name, "."+callee) {
				out = append(out, ce)
			}
		}
		return true
	})
	return out, fd.Pos()
}

// c07NominationWindow: `max(F*options.FromContext(ctx).BatchMaxDuration, FLOOR)` in state.nominationWindow.
func c07NominationWindow(g *gen) {
	const pkg = "pkg/controllers/state"
	calls, pos := g.callsIn(pkg, "nominationWindow", "max")
	if len(calls) != 1 || len(calls[0].Args) != 2 {
		g.errf("state.nominationWindow: expected exactly one max(a, b) call")
		return
	}
	floor, ok := g.constOf(pkg, calls[0].Args[1])
	if !ok {
		g.errf("state.nominationWindow: second argument of max is not a constant")
		return
	}
	be, ok := calls[0].Args[0].(*ast.BinaryExpr)
	if !ok || be.Op != token.MUL {
		g.errf("state.nominationWindow: first argument of max is not a product")
		return
	}
	var factor constant.Value
	var other ast.Expr
	if v, ok := g.constOf(pkg, be.X); ok {
		factor, other = v, be.Y
	} else if v, ok := g.constOf(pkg, be.Y); ok {
		factor, other = v, be.X
	} else {
		g.errf("state.nominationWindow: no constant factor in the product")
		return
	}
	if !strings.HasSuffix(exprString(other), ".BatchMaxDuration") {
		g.errf("state.nominationWindow: the product does not scale BatchMaxDuration but %s", exprString(other))
		return
	}
	fl, ok1 := constant.Int64Val(constant.ToInt(floor))
	fa, ok2 := constant.Int64Val(constant.ToInt(factor))
	if !ok1 || !ok2 || fl < 0 || fa < 0 {
		g.errf("state.nominationWindow: constants are not natural numbers")
		return
	}
	b := g.out(c07Group)
	fmt.Fprintf(b, "/-- `state.nominationWindow` (%s) = max(nominationBatchFactor * BatchMaxDuration, nominationFloorNs) -/\ndef nominationBatchFactor : Nat := %d\ndef nominationFloorNs : Nat := %d\n\n", g.pos(pos), fa, fl)
}

// c07EvictionCost: `cost := BASE; cost += delCost / math.Pow(2, A); cost += prio / math.Pow(2, B); lo.Clamp(cost, LO, HI)`.
func c07EvictionCost(g *gen) {
	const pkg = "pkg/utils/disruption"
	pows, pos := g.callsIn(pkg, "EvictionCost", "math.Pow")
	if len(pows) != 2 {
		g.errf("disruption.EvictionCost: expected two math.Pow calls, found %d", len(pows))
		return
	}
	var exps []int64
	for _, c := range pows {
		if len(c.Args) != 2 {
			g.errf("disruption.EvictionCost: math.Pow arity")
			return
		}
		base, ok1 := g.constOf(pkg, c.Args[0])
		exp, ok2 := g.constOf(pkg, c.Args[1])
		if !ok1 || !ok2 {
			g.errf("disruption.EvictionCost: math.Pow arguments are not constants")
			return
		}
		bi, okb := constant.Int64Val(constant.ToInt(base))
		ei, oke := constant.Int64Val(constant.ToInt(exp))
		if !okb || !oke || bi != 2 || ei < 0 {
			g.errf("disruption.EvictionCost: math.Pow(%s, %s) is not a natural power of two", base, exp)
			return
		}
		exps = append(exps, ei)
	}
	clamps, _ := g.callsIn(pkg, "EvictionCost", "lo.Clamp")
	if len(clamps) != 1 || len(clamps[0].Args) != 3 {
		g.errf("disruption.EvictionCost: expected one lo.Clamp(x, lo, hi)")
		return
	}
	loV, ok1 := g.constOf(pkg, clamps[0].Args[1])
	hiV, ok2 := g.constOf(pkg, clamps[0].Args[2])
	if !ok1 || !ok2 {
		g.errf("disruption.EvictionCost: clamp bounds are not constants")
		return
	}
	loI, okl := constant.Int64Val(constant.ToInt(loV))
	hiI, okh := constant.Int64Val(constant.ToInt(hiV))
	if !okl || !okh {
		g.errf("disruption.EvictionCost: clamp bounds are not integers")
		return
	}
	// the initial value `cost := 1.0`
	_, fd := g.findFunc(pkg, "EvictionCost")
	var base constant.Value
	if fd != nil {
		for _, st := range fd.Body.List {
			if as, ok := st.(*ast.AssignStmt); ok && as.Tok == token.DEFINE && len(as.Lhs) == 1 && len(as.Rhs) == 1 {
				if id, ok := as.Lhs[0].(*ast.Ident); ok && id.Name == "cost" {
					if v, ok := g.constOf(pkg, as.Rhs[0]); ok {
						base = v
					}
				}
			}
		}
	}
	if base == nil {
		g.errf("disruption.EvictionCost: `cost := <constant>` not found")
		return
	}
	bi, okb := constant.Int64Val(constant.ToInt(base))
	if !okb {
		g.errf("disruption.EvictionCost: base cost is not an integer")
		return
	}
	b := g.out(c07Group)
	fmt.Fprintf(b, "/-- `disruption.EvictionCost` (%s): cost = evictionBase + deletionCost / 2^evictionDelExp + priority / 2^evictionPrioExp, clamped to [evictionClampLo, evictionClampHi] -/\n", g.pos(pos))
	fmt.Fprintf(b, "def evictionBase : Int := %d\ndef evictionDelExp : Nat := %d\ndef evictionPrioExp : Nat := %d\ndef evictionClampLo : Int := %d\ndef evictionClampHi : Int := %d\n\n", bi, exps[0], exps[1], loI, hiI)
}
