package main

import "strings"

// Fact tables are registered per property in facts_cNN.go files (one file per property so that
// they can be edited independently). One group = one generated Lean file lean/Karp/Gen/<Group>.lean;
// keep each group small so that a change rebuilds only what depends on it.

var factPackages []string

var factEmitters []func(g *gen)

// register adds the packages (paths relative to the module, e.g. "pkg/state/nodepoolhealth") that must be
// loaded and the function that emits the facts.
func register(pkgs []string, emit func(g *gen)) {
	for _, p := range pkgs {
		full := "sigs.k8s.io/karpenter/" + p
		dup := false
		for _, q := range factPackages {
			if q == full {
				dup = true
			}
		}
		if !dup {
			factPackages = append(factPackages, full)
		}
	}
	factEmitters = append(factEmitters, emit)
}

func emitFacts(g *gen) {
	for _, e := range factEmitters {
		g.cur = nil
		start := len(g.errs)
		e(g)
		// an extraction error concerns the groups this emitter writes: `check` only holds it against the properties whose
		// Lean modules import one of them
		for i := start; i < len(g.errs); i++ {
			g.errs[i] = "[groups=" + strings.Join(g.cur, ",") + "] " + g.errs[i]
		}
	}
}
