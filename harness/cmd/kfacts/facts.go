package main

// The fact tables. One group = one generated Lean file lean/Karp/Gen/<Group>.lean.
// Add facts here; keep each group small so that a change rebuilds only what depends on it.

var factPackages = []string{
	"sigs.k8s.io/karpenter/pkg/state/nodepoolhealth",
}

func emitFacts(g *gen) {
	// ---- C20: registration health window ----
	g.natConst("Health", "pkg/state/nodepoolhealth", "BufferSize", "bufferSize")
	g.ratioConst("Health", "pkg/state/nodepoolhealth", "ThresholdFalse", "thresholdFalse")
	g.natConst("Health", "pkg/state/nodepoolhealth", "StatusUnknown", "statusUnknown")
	g.natConst("Health", "pkg/state/nodepoolhealth", "StatusHealthy", "statusHealthy")
	g.natConst("Health", "pkg/state/nodepoolhealth", "StatusUnhealthy", "statusUnhealthy")
}
