package main

import (
	"fmt"
	"go/ast"
	"go/types"
	"sort"
	"strings"
)

// ---- C15: the static-drift fingerprint (NodePool.Hash) and the drift decision ----
//
// Group C15Hash: every struct type hashstructure walks when it hashes `v1.NodeClaimTemplate`, with the
// name / type / `hash` tag / exportedness of every field in declaration order; the expression that is hashed
// and the HashOptions literal inside `NodePool.Hash`; the reachable types that customise hashing
// (Hashable / Includable / IncludableMap). Group C15Drift: constants and the order of the checks in `isDrifted`.

func init() {
	register([]string{
		"pkg/apis/v1",
		"pkg/controllers/nodeclaim/disruption",
		"pkg/controllers/nodepool/hash",
		"pkg/controllers/provisioning/scheduling",
		"pkg/controllers/nodeclaim/lifecycle",
	}, func(g *gen) {
		const grp = "C15Hash"
		g.c15ReachableStructs(grp, "pkg/apis/v1", "NodeClaimTemplate", "structs")
		// what the hash does NOT cover is documented by the tags on these (the hashed expression is Spec.Template only)
		g.structFields(grp, "pkg/apis/v1", "NodePoolSpec", "nodePoolSpecFields")
		g.structFields(grp, "pkg/apis/v1", "Disruption", "disruptionFields")
		g.structFields(grp, "pkg/apis/v1", "Budget", "budgetFields")
		g.c15HashCall(grp, "pkg/apis/v1", "NodePool.Hash")
		g.strConst(grp, "pkg/apis/v1", "NodePoolHashVersion", "hashVersion")
		g.strConst(grp, "pkg/apis/v1", "NodePoolHashAnnotationKey", "hashAnnotationKey")
		g.strConst(grp, "pkg/apis/v1", "NodePoolHashVersionAnnotationKey", "hashVersionAnnotationKey")

		const grd = "C15Drift"
		g.strConst(grd, "pkg/controllers/nodeclaim/disruption", "NodePoolDrifted", "reasonNodePoolDrifted")
		g.strConst(grd, "pkg/controllers/nodeclaim/disruption", "RequirementsDrifted", "reasonRequirementsDrifted")
		g.strConst(grd, "pkg/controllers/nodeclaim/disruption", "InstanceTypeNotFound", "reasonInstanceTypeNotFound")
		g.strConst(grd, "pkg/apis/v1", "ConditionTypeDrifted", "conditionDrifted")
		g.strConst(grd, "pkg/apis/v1", "ConditionTypeLaunched", "conditionLaunched")
		g.strConst(grd, "pkg/apis/v1", "NodePoolLabelKey", "nodePoolLabelKey")
		// the order of the checks: static hash, requirements, (instance types), provider
		g.callSeq(grd, "pkg/controllers/nodeclaim/disruption", "Drift.isDrifted", "isDriftedCalls",
			[]string{"areStaticFieldsDrifted", "areRequirementsDrifted", "GetInstanceTypes", "instanceTypeNotFound", "IsDrifted"})
		// the hash controller: NodeClaims are migrated (updateNodeClaimHash) before the NodePool annotation is rewritten
		g.callSeq(grd, "pkg/controllers/nodepool/hash", "Controller.Reconcile", "hashReconcileCalls",
			[]string{"updateNodeClaimHash", "Hash", "Patch"})
		g.callSeq(grd, "pkg/controllers/nodepool/hash", "Controller.updateNodeClaimHash", "updateNodeClaimHashCalls",
			[]string{"ListManaged", "Get", "Hash", "Patch"})
		// what a NodeClaim built from a NodePool is stamped with: the expressions assigned to the two static-drift
		// annotation keys inside NewNodeClaimTemplate (the hash must be computed from the template the NodeClaim is built
		// from, not read from the NodePool's eventually-consistent annotation)
		g.c15Stamps(grd, "pkg/controllers/provisioning/scheduling", "NewNodeClaimTemplate")
		// the NodeClaim NewNodeClaimTemplate starts from shares its label / annotation maps with the NodePool's template
		// (v1.NodeClaimTemplate.ToNodeClaim copies nothing): every map it fills must be a fresh one (lo.Assign), never
		// written in place — the static-capacity code builds several templates from one NodePool object
		g.c15InPlaceWrites(grd, "pkg/controllers/provisioning/scheduling", "NewNodeClaimTemplate", "claimTemplateInPlaceWrites")
		// which offerings the instance-type check consults: the full list (HasCompatible directly on it.Offerings), not a
		// filtered one (an offering that is merely unavailable at the moment is still offered)
		g.callSeq(grd, "pkg/controllers/nodeclaim/disruption", "instanceTypeNotFound", "instanceTypeNotFoundOfferingCalls",
			[]string{"Available", "Compatible", "HasCompatible"})
		// the launch: the cached answer or a real launch, then — on BOTH paths — the answer is cached, merged into the
		// NodeClaim (PopulateNodeClaimDetails) and only then Launched is set; launchNodeClaim itself merges nothing
		g.callSeq(grd, "pkg/controllers/nodeclaim/lifecycle", "Launch.Reconcile", "launchReconcileCalls",
			[]string{"cache.Get", "launchNodeClaim", "cache.SetDefault", "PopulateNodeClaimDetails", "SetTrue"})
		g.callSeq(grd, "pkg/controllers/nodeclaim/lifecycle", "Launch.launchNodeClaim", "launchNodeClaimCalls",
			[]string{"Create", "PopulateNodeClaimDetails"})
		// the order of the lifecycle controller's API writes: (finalizer) Patch, sub-reconcilers, Patch, Status().Patch
		g.callSeq(grd, "pkg/controllers/nodeclaim/lifecycle", "Controller.Reconcile", "lifecycleReconcileCalls",
			[]string{"AddFinalizer", "kubeClient.Patch", "reconciler.Reconcile", "kubeClient.Status().Patch"})
	})
}

// c15RenderFull is c15Render that also spells the arguments of calls.
func c15RenderFull(e ast.Expr) string {
	if ce, ok := e.(*ast.CallExpr); ok {
		args := []string{}
		for _, a := range ce.Args {
			args = append(args, c15RenderFull(a))
		}
		return c15RenderFull(ce.Fun) + "(" + strings.Join(args, ", ") + ")"
	}
	if se, ok := e.(*ast.SelectorExpr); ok {
		return c15RenderFull(se.X) + "." + se.Sel.Name
	}
	return c15Render(e)
}

// c15InPlaceWrites emits every in-place write to an indexable value inside fn: the rendered `m[…]` target of an index
// assignment (`m[k] = v`, `m[k] += v`, `m[k]++`) and the first argument of `delete(m, k)` / `clear(m)`, in source order.
func (g *gen) c15InPlaceWrites(group, pkgPath, fn, lean string) {
	_, fd := g.findFunc(pkgPath, fn)
	if fd == nil {
		return
	}
	writes := []string{}
	target := func(e ast.Expr) {
		if ix, ok := e.(*ast.IndexExpr); ok {
			writes = append(writes, c15Render(ix.X)+"[…]")
		}
	}
	ast.Inspect(fd.Body, func(nd ast.Node) bool {
		switch v := nd.(type) {
		case *ast.AssignStmt:
			for _, lhs := range v.Lhs {
				target(lhs)
			}
		case *ast.IncDecStmt:
			target(v.X)
		case *ast.CallExpr:
			if id, ok := v.Fun.(*ast.Ident); ok && (id.Name == "delete" || id.Name == "clear") && len(v.Args) > 0 {
				writes = append(writes, id.Name+"("+c15Render(v.Args[0])+")")
			}
		}
		return true
	})
	b := g.out(group)
	fmt.Fprintf(b, "/-- every in-place write (index assignment, delete, clear) inside `%s.%s` (%s) -/\ndef %s : List String := [", pkgPath, fn, g.pos(fd.Pos()), lean)
	for i, v := range writes {
		if i > 0 {
			b.WriteString(", ")
		}
		b.WriteString(leanStr(v))
	}
	b.WriteString("]\n\n")
}

// c15Stamps emits, for fn, the name of its first parameter and every expression that a map literal inside fn assigns to
// the keys v1.NodePoolHashAnnotationKey / v1.NodePoolHashVersionAnnotationKey (sorted, duplicates kept).
func (g *gen) c15Stamps(group, pkgPath, fn string) {
	_, fd := g.findFunc(pkgPath, fn)
	if fd == nil {
		return
	}
	param := ""
	if fd.Type.Params != nil && len(fd.Type.Params.List) > 0 && len(fd.Type.Params.List[0].Names) > 0 {
		param = fd.Type.Params.List[0].Names[0].Name
	}
	stamps := map[string][]string{"NodePoolHashAnnotationKey": {}, "NodePoolHashVersionAnnotationKey": {}}
	ast.Inspect(fd.Body, func(nd ast.Node) bool {
		switch v := nd.(type) {
		case *ast.KeyValueExpr:
			k := c15Render(v.Key)
			for name := range stamps {
				if k == name || strings.HasSuffix(k, "."+name) {
					stamps[name] = append(stamps[name], c15RenderFull(v.Value))
				}
			}
		case *ast.AssignStmt:
			// m[key] = value
			for i, lhs := range v.Lhs {
				ix, ok := lhs.(*ast.IndexExpr)
				if !ok || i >= len(v.Rhs) {
					continue
				}
				k := c15Render(ix.Index)
				for name := range stamps {
					if k == name || strings.HasSuffix(k, "."+name) {
						stamps[name] = append(stamps[name], c15RenderFull(v.Rhs[i]))
					}
				}
			}
		}
		return true
	})
	b := g.out(group)
	fmt.Fprintf(b, "/-- the first parameter of `%s.%s` (%s) -/\ndef claimTemplateParam : String := %s\n\n", pkgPath, fn, g.pos(fd.Pos()), leanStr(param))
	for _, e := range [][2]string{{"NodePoolHashAnnotationKey", "claimHashStamps"}, {"NodePoolHashVersionAnnotationKey", "claimHashVersionStamps"}} {
		vs := stamps[e[0]]
		sort.Strings(vs)
		fmt.Fprintf(b, "/-- every expression `%s.%s` assigns to the annotation `v1.%s` of the NodeClaim it builds -/\ndef %s : List String := [", pkgPath, fn, e[0], e[1])
		for i, v := range vs {
			if i > 0 {
				b.WriteString(", ")
			}
			b.WriteString(leanStr(v))
		}
		b.WriteString("]\n\n")
	}
}

// c15ReachableStructs walks the type graph the way hashstructure's visitor does (pointers, slices, arrays and maps are
// looked through; time.Time is a leaf because the library special-cases it) and emits every struct type it meets.
func (g *gen) c15ReachableStructs(group, pkgPath, root, lean string) {
	p := g.pkg(pkgPath)
	if p == nil {
		return
	}
	obj := p.Types.Scope().Lookup(root)
	if obj == nil {
		g.errf("%s.%s: type not found", pkgPath, root)
		return
	}
	qual := func(p *types.Package) string { return p.Name() }
	type entry struct {
		qualified, short, pos string
		fields                [][4]string
	}
	var entries []entry
	var custom []string
	seen := map[string]bool{}
	var walk func(t types.Type)
	walk = func(t types.Type) {
		switch v := t.(type) {
		case *types.Pointer:
			walk(v.Elem())
		case *types.Slice:
			walk(v.Elem())
		case *types.Array:
			walk(v.Elem())
		case *types.Map:
			walk(v.Key())
			walk(v.Elem())
		case *types.Alias:
			walk(types.Unalias(v))
		case *types.Named:
			qn := types.TypeString(v, func(p *types.Package) string { return p.Path() })
			if seen[qn] {
				return
			}
			seen[qn] = true
			if v.Obj().Pkg() != nil && v.Obj().Pkg().Path() == "time" && v.Obj().Name() == "Time" {
				return // hashstructure: MarshalBinary
			}
			// methods that change how hashstructure treats the type
			for _, recv := range []types.Type{v, types.NewPointer(v)} {
				ms := types.NewMethodSet(recv)
				for _, m := range []string{"Hash", "HashInclude", "HashIncludeMap"} {
					if sel := ms.Lookup(v.Obj().Pkg(), m); sel != nil {
						custom = append(custom, qn+"."+m)
					}
				}
			}
			st, ok := v.Underlying().(*types.Struct)
			if !ok {
				walk(v.Underlying())
				return
			}
			e := entry{qualified: qn, short: v.Obj().Name(), pos: g.pos(v.Obj().Pos())}
			for i := 0; i < st.NumFields(); i++ {
				f := st.Field(i)
				ex := "false"
				if f.Exported() {
					ex = "true"
				}
				e.fields = append(e.fields, [4]string{f.Name(), types.TypeString(f.Type(), qual), tagGet(st.Tag(i), "hash"), ex})
			}
			entries = append(entries, e)
			for i := 0; i < st.NumFields(); i++ {
				f := st.Field(i)
				tag := tagGet(st.Tag(i), "hash")
				if !f.Exported() || tag == "ignore" || tag == "-" {
					continue // never visited
				}
				walk(f.Type())
			}
		case *types.Struct:
			g.errf("%s.%s: anonymous struct reachable (not supported by the C15 model)", pkgPath, root)
		case *types.Interface:
			g.errf("%s.%s: interface-typed field reachable (not supported by the C15 model)", pkgPath, root)
		}
	}
	walk(obj.Type())
	b := g.out(group)
	fmt.Fprintf(b, "/-- every struct type hashstructure visits below `%s.%s`, in discovery order:\n    (qualified type, `reflect.Type.Name()`, fields in declaration order as (name, type, hash tag, exported)) -/\n", pkgPath, root)
	fmt.Fprintf(b, "def %s : List (String × String × List (String × String × String × Bool)) := [", lean)
	for i, e := range entries {
		if i > 0 {
			b.WriteString(",")
		}
		fmt.Fprintf(b, "\n  -- %s\n  (%s, %s, [", e.pos, leanStr(e.qualified), leanStr(e.short))
		for j, f := range e.fields {
			if j > 0 {
				b.WriteString(",")
			}
			fmt.Fprintf(b, "\n    (%s, %s, %s, %s)", leanStr(f[0]), leanStr(f[1]), leanStr(f[2]), f[3])
		}
		b.WriteString("])")
	}
	b.WriteString("]\n\n")
	sort.Strings(custom)
	fmt.Fprintf(b, "/-- reachable types with a method hashstructure consults (Hashable.Hash, Includable.HashInclude, IncludableMap.HashIncludeMap) -/\ndef customHashers : List String := [")
	for i, c := range custom {
		if i > 0 {
			b.WriteString(", ")
		}
		b.WriteString(leanStr(c))
	}
	b.WriteString("]\n\n")
}

func c15Render(e ast.Expr) string {
	switch v := e.(type) {
	case *ast.Ident:
		return v.Name
	case *ast.SelectorExpr:
		return c15Render(v.X) + "." + v.Sel.Name
	case *ast.BasicLit:
		return v.Value
	case *ast.UnaryExpr:
		return v.Op.String() + c15Render(v.X)
	case *ast.StarExpr:
		return "*" + c15Render(v.X)
	case *ast.ParenExpr:
		return "(" + c15Render(v.X) + ")"
	case *ast.CompositeLit:
		return c15Render(v.Type) + "{…}"
	case *ast.CallExpr:
		return c15Render(v.Fun) + "(…)"
	}
	return "?"
}

// c15HashCall finds the `hashstructure.Hash(x, format, &HashOptions{...})` call inside fn and emits the hashed expression,
// the format and the option literal.
func (g *gen) c15HashCall(group, pkgPath, fn string) {
	_, fd := g.findFunc(pkgPath, fn)
	if fd == nil {
		return
	}
	var call *ast.CallExpr
	n := 0
	ast.Inspect(fd.Body, func(nd ast.Node) bool {
		ce, ok := nd.(*ast.CallExpr)
		if !ok {
			return true
		}
		if c15Render(ce.Fun) == "hashstructure.Hash" {
			call = ce
			n++
		}
		return true
	})
	if call == nil || n != 1 || len(call.Args) != 3 {
		g.errf("%s.%s: expected exactly one hashstructure.Hash(x, format, opts) call", pkgPath, fn)
		return
	}
	b := g.out(group)
	fmt.Fprintf(b, "/-- the expression hashed by `%s.%s` (%s) -/\ndef hashedExpr : String := %s\n\n", pkgPath, fn, g.pos(call.Pos()), leanStr(c15Render(call.Args[0])))
	fmt.Fprintf(b, "/-- the hashstructure format -/\ndef hashFormat : String := %s\n\n", leanStr(c15Render(call.Args[1])))
	var opts [][2]string
	lit := call.Args[2]
	if u, ok := lit.(*ast.UnaryExpr); ok {
		lit = u.X
	}
	cl, ok := lit.(*ast.CompositeLit)
	if !ok {
		g.errf("%s.%s: hash options are not a composite literal", pkgPath, fn)
		return
	}
	if !strings.HasSuffix(c15Render(cl.Type), "HashOptions") {
		g.errf("%s.%s: third argument is not a HashOptions literal", pkgPath, fn)
	}
	for _, el := range cl.Elts {
		kv, ok := el.(*ast.KeyValueExpr)
		if !ok {
			g.errf("%s.%s: positional HashOptions literal", pkgPath, fn)
			continue
		}
		opts = append(opts, [2]string{c15Render(kv.Key), c15Render(kv.Value)})
	}
	sort.Slice(opts, func(i, j int) bool { return opts[i][0] < opts[j][0] })
	fmt.Fprintf(b, "/-- the `HashOptions` literal, sorted by field -/\ndef hashOptions : List (String × String) := [")
	for i, o := range opts {
		if i > 0 {
			b.WriteString(", ")
		}
		fmt.Fprintf(b, "(%s, %s)", leanStr(o[0]), leanStr(o[1]))
	}
	b.WriteString("]\n\n")
}
