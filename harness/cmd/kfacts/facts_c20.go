package main

func init() {
	register([]string{"pkg/state/nodepoolhealth"}, func(g *gen) {
		// ---- C20: registration health window ----
		g.natConst("Health", "pkg/state/nodepoolhealth", "BufferSize", "bufferSize")
		g.ratioConst("Health", "pkg/state/nodepoolhealth", "ThresholdFalse", "thresholdFalse")
		g.natConst("Health", "pkg/state/nodepoolhealth", "StatusUnknown", "statusUnknown")
		g.natConst("Health", "pkg/state/nodepoolhealth", "StatusHealthy", "statusHealthy")
		g.natConst("Health", "pkg/state/nodepoolhealth", "StatusUnhealthy", "statusUnhealthy")
	})
}
