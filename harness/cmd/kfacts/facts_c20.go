package main

import (
	"fmt"
	"go/ast"
	"go/token"
	"strings"
)

const c20Life = "pkg/controllers/nodeclaim/lifecycle"

// every controller that writes status.conditions of a NodePool (a JSON merge patch replaces the list as a whole)
var c20ConditionWriters = [][2]string{
	{"pkg/controllers/nodepool/readiness", "Controller.Reconcile"},
	{"pkg/controllers/nodepool/registrationhealth", "Controller.Reconcile"},
	{"pkg/controllers/nodepool/validation", "Controller.Reconcile"},
	{c20Life, "Registration.updateNodePoolRegistrationHealth"},
	{c20Life, "Liveness.updateNodePoolRegistrationHealth"},
}

func init() {
	register([]string{"pkg/state/nodepoolhealth", c20Life, "pkg/controllers/nodepool/readiness", "pkg/controllers/nodepool/registrationhealth", "pkg/controllers/nodepool/validation"}, func(g *gen) {
		// ---- C20: registration health window ----
		g.natConst("Health", "pkg/state/nodepoolhealth", "BufferSize", "bufferSize")
		g.ratioConst("Health", "pkg/state/nodepoolhealth", "ThresholdFalse", "thresholdFalse")
		g.natConst("Health", "pkg/state/nodepoolhealth", "StatusUnknown", "statusUnknown")
		g.natConst("Health", "pkg/state/nodepoolhealth", "StatusHealthy", "statusHealthy")
		g.natConst("Health", "pkg/state/nodepoolhealth", "StatusUnhealthy", "statusUnhealthy")
		// ---- C20: who records a launch outcome, and when ----
		// the sub-reconcilers of the nodeclaim lifecycle controller in the order one pass runs them (the model of a pass
		// folds over this list: registration must see the Node before liveness judges the timeouts)
		g.c20ReconcilerOrder("Health", "lifecycleOrder")
		// inside the two updateNodePoolRegistrationHealth functions: the outcome is recorded (Update) after the status
		// patch went through, and not in a defer (a failed patch returns before it: the retry records it, once)
		g.c20CallSeq("Health", c20Life, "Liveness.updateNodePoolRegistrationHealth", "livenessHealthCalls",
			[]string{"kubeClient.Get", "DryRun", "Patch", "Update"})
		g.c20CallSeq("Health", c20Life, "Registration.updateNodePoolRegistrationHealth", "registrationHealthCalls",
			[]string{"kubeClient.Get", "DryRun", "SetTrue", "Patch", "Update"})
		// Liveness.Reconcile: each timeout branch records, then deletes
		g.c20CallSeq("Health", c20Life, "Liveness.Reconcile", "livenessCalls",
			[]string{"updateNodePoolRegistrationHealth", "deleteNodeClaimForTimeout"})
		// Registration.Reconcile: Registered=True is set on the NodeClaim before the NodePool is updated
		g.c20CallSeq("Health", c20Life, "Registration.Reconcile", "registrationCalls",
			[]string{"SetTrue", "updateNodePoolRegistrationHealth"})
		// ---- C20: the writers of a NodePool's status.conditions and how each of them patches ----
		g.c20StatusPatches("Health", "conditionWriters", c20ConditionWriters)
	})
}

// c20ReconcilerOrder emits the field names of the sub-reconciler slice literal ranged over in Controller.Reconcile.
func (g *gen) c20ReconcilerOrder(group, lean string) {
	_, fd := g.findFunc(c20Life, "Controller.Reconcile")
	if fd == nil {
		return
	}
	var names []string
	var pos token.Pos
	loops := 0
	ast.Inspect(fd.Body, func(n ast.Node) bool {
		rs, ok := n.(*ast.RangeStmt)
		if !ok {
			return true
		}
		cl, ok := rs.X.(*ast.CompositeLit)
		if !ok {
			return true
		}
		if _, isArr := cl.Type.(*ast.ArrayType); !isArr {
			return true
		}
		loops++
		pos = cl.Pos()
		for _, e := range cl.Elts {
			names = append(names, strings.TrimPrefix(exprString(e), "c."))
		}
		return true
	})
	if loops != 1 {
		g.errf("%s.Controller.Reconcile: expected exactly one loop over a slice literal of sub-reconcilers, found %d", c20Life, loops)
		return
	}
	b := g.out(group)
	fmt.Fprintf(b, "/-- the sub-reconcilers one pass of `nodeclaim.lifecycle` `Controller.Reconcile` runs, in order (%s) -/\ndef %s : List String := [", g.pos(pos), lean)
	for i, s := range names {
		if i > 0 {
			b.WriteString(", ")
		}
		b.WriteString(leanStr(s))
	}
	b.WriteString("]\n\n")
}

// c20CallSeq is callSeq that also tells a deferred call ("defer Update") from a call made in place.
func (g *gen) c20CallSeq(group, pkgPath, fn, lean string, suffixes []string) {
	_, fd := g.findFunc(pkgPath, fn)
	if fd == nil {
		return
	}
	deferred := map[*ast.CallExpr]bool{}
	var seq []string
	ast.Inspect(fd.Body, func(n ast.Node) bool {
		if ds, ok := n.(*ast.DeferStmt); ok {
			deferred[ds.Call] = true
			return true
		}
		ce, ok := n.(*ast.CallExpr)
		if !ok {
			return true
		}
		name := exprString(ce.Fun)
		for _, s := range suffixes {
			if name == s || strings.HasSuffix(name, "."+s) {
				if deferred[ce] {
					s = "defer " + s
				}
				seq = append(seq, s)
				break
			}
		}
		return true
	})
	b := g.out(group)
	fmt.Fprintf(b, "/-- order of the calls %v inside `%s.%s` (%s); \"defer x\" = the call is deferred -/\ndef %s : List String := [", suffixes, pkgPath, fn, g.pos(fd.Pos()), lean)
	for i, s := range seq {
		if i > 0 {
			b.WriteString(", ")
		}
		b.WriteString(leanStr(s))
	}
	b.WriteString("]\n\n")
}

// c20StatusPatches emits, for every listed function, how each `….Status().Patch(ctx, obj, P)` call in it builds P:
// "optimistic-lock" if P mentions MergeFromWithOptimisticLock (the write is rejected with 409 when the object has moved
// on), else "plain" (a stale status.conditions list would be written back as a whole).
func (g *gen) c20StatusPatches(group, lean string, sites [][2]string) {
	b := g.out(group)
	fmt.Fprintf(b, "/-- the controllers that write a NodePool's `status.conditions` and, per `Status().Patch` call in them, whether the patch carries the optimistic lock -/\ndef %s : List (String × List String) := [", lean)
	for i, site := range sites {
		_, fd := g.findFunc(site[0], site[1])
		if fd == nil {
			g.errf("%s.%s: not found", site[0], site[1])
			continue
		}
		var kinds []string
		ast.Inspect(fd.Body, func(n ast.Node) bool {
			ce, ok := n.(*ast.CallExpr)
			if !ok || !strings.HasSuffix(exprString(ce.Fun), "Status().Patch") || len(ce.Args) < 3 {
				return true
			}
			kind := "plain"
			ast.Inspect(ce.Args[2], func(m ast.Node) bool {
				if id, ok := m.(*ast.Ident); ok && id.Name == "MergeFromWithOptimisticLock" {
					kind = "optimistic-lock"
				}
				return true
			})
			kinds = append(kinds, kind)
			return true
		})
		if i > 0 {
			b.WriteString(",\n  ")
		}
		fmt.Fprintf(b, "(%s, [", leanStr(site[0]+"."+site[1]))
		for j, k := range kinds {
			if j > 0 {
				b.WriteString(", ")
			}
			b.WriteString(leanStr(k))
		}
		b.WriteString("])")
	}
	b.WriteString("]\n\n")
}
