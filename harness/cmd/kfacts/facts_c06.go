package main

// C06 facts: group `C06Facts` (lean/Karp/Gen/C06Facts.lean).
//
//   - MinInstanceTypesForSpotToSpotConsolidation, commandValidationDelay, PerNodeBaseDisruptionCost
//   - the capacity-type label key / values and the precedence list inside Offerings.WorstLaunchPrice
//   - the eviction-cost formula constants
//   - every comparison (operator and operands, in source order) inside the anchored decision functions
//   - the call order inside computeConsolidation / computeSpotToSpotConsolidation / filterOutSameInstanceType /
//     RemoveInstanceTypeOptionsByPriceAndMinValues / validateCommand / SimulateScheduling
//   - every guard of validateCommand with what it returns (so that the presence, the polarity and the ARGUMENT ORDER
//     of the instanceTypesAreSubset / requirementsAreSubset calls are facts) and the statement skeleton of
//     requirementsAreSubset (what is ranged over, which side `Get` is called on, the size comparison)

import (
	"fmt"
	"go/ast"
	"go/constant"
	"go/printer"
	"go/token"
	"go/types"
	"strings"
)

const c06Group = "C06Facts"

func init() {
	register([]string{
		"pkg/apis/v1",
		"pkg/cloudprovider",
		"pkg/controllers/disruption",
		"pkg/controllers/provisioning/scheduling",
		"pkg/utils/disruption",
		"pkg/test/v1alpha1",
		"pkg/utils/pdb",
		"pkg/controllers/nodeoverlay",
	}, func(g *gen) {
		const dis = "pkg/controllers/disruption"
		const cp = "pkg/cloudprovider"
		const sch = "pkg/controllers/provisioning/scheduling"
		g.natConst(c06Group, dis, "MinInstanceTypesForSpotToSpotConsolidation", "minInstanceTypesForSpotToSpot")
		g.natConst(c06Group, dis, "commandValidationDelay", "commandValidationDelayNs")
		g.ratioConst(c06Group, dis, "PerNodeBaseDisruptionCost", "perNodeBaseCost")
		g.strConst(c06Group, "pkg/apis/v1", "CapacityTypeLabelKey", "capacityTypeKey")
		g.strConst(c06Group, "pkg/apis/v1", "CapacityTypeSpot", "ctSpot")
		g.strConst(c06Group, "pkg/apis/v1", "CapacityTypeOnDemand", "ctOnDemand")
		g.strConst(c06Group, "pkg/apis/v1", "CapacityTypeReserved", "ctReserved")
		g.strConst(c06Group, "pkg/test/v1alpha1", "LabelReservationID", "testReservationIDLabel")
		c06Precedence(g)
		c06EvictionCost(g)

		g.c06Cmps(cp, "Offerings.WorstLaunchPrice", "worstLaunchPriceCmps")
		g.c06Cmps(cp, "Offerings.MostExpensive", "mostExpensiveCmps")
		g.c06Cmps(cp, "Offerings.Cheapest", "cheapestCmps")
		g.c06Cmps(cp, "InstanceType.OfferingPrice", "offeringPriceCmps")
		g.c06Cmps(sch, "NodeClaim.RemoveInstanceTypeOptionsByPriceAndMinValues", "removeByPriceCmps")
		g.c06Cmps(dis, "consolidation.computeConsolidation", "computeConsolidationCmps")
		g.c06Cmps(dis, "consolidation.computeSpotToSpotConsolidation", "spotToSpotCmps")
		g.c06Cmps(dis, "filterOutSameInstanceType", "sameTypeCmps")
		g.c06Cmps(dis, "validation.validateCommand", "validateCommandCmps")
		g.c06Cmps(dis, "instanceTypesAreSubset", "subsetCmps")
		g.c06Cmps(dis, "requirementsAreSubset", "reqSubsetCmps")
		g.c06Guards(dis, "validation.validateCommand", "validateCommandGuards")
		g.c06Skeleton(dis, "requirementsAreSubset", "reqSubsetSkeleton")
		g.c06Cmps(dis, "Candidate.IsEmpty", "isEmptyCmps")
		g.c06Cmps(dis, "Command.Decision", "decisionCmps")
		g.c06Cmps(dis, "resolveNodePrice", "resolveNodePriceCmps")

		// the essential order inside the decision functions (incidental calls are left out on purpose)
		g.callSeq(c06Group, dis, "consolidation.computeConsolidation", "computeConsolidationCalls",
			[]string{"SimulateScheduling", "AllNonPendingPodsScheduled", "sumCandidatePrices", "OrderByPrice", "computeSpotToSpotConsolidation",
				"RemoveInstanceTypeOptionsByPriceAndMinValues", "Add"})
		g.callSeq(c06Group, dis, "consolidation.computeSpotToSpotConsolidation", "spotToSpotCalls",
			[]string{"Add", "RemoveInstanceTypeOptionsByPriceAndMinValues"})
		g.callSeq(c06Group, sch, "NodeClaim.RemoveInstanceTypeOptionsByPriceAndMinValues", "removeByPriceCalls",
			[]string{"Available", "WorstLaunchPrice", "SatisfiesMinValues"})
		g.callSeq(c06Group, dis, "validation.validateCommand", "validateCommandCalls",
			[]string{"SimulateScheduling", "AllNonPendingPodsScheduled", "instanceTypesAreSubset", "requirementsAreSubset"})
		g.callSeq(c06Group, dis, "ConsolidationValidator.isValid", "isValidCalls",
			[]string{"After", "validateCommand"})
		g.callSeq(c06Group, dis, "SimulateScheduling", "simulateSchedulingCalls",
			[]string{"Solve", "TruncateInstanceTypes", "Initialized", "NewUninitializedNodeError"})
		// the launch cap: Results.TruncateInstanceTypes (every new NodeClaim cut to the cheapest MaxInstanceTypes options; a
		// NodeClaim that then misses minValues is dropped and ITS PODS ARE REPORTED in the returned Results' PodErrors)
		g.c06Outline(sch, "Results.TruncateInstanceTypes", "truncateResultsOutline")
		g.c06Outline(cp, "InstanceTypes.Truncate", "truncateTypesOutline")
		g.c06Cmps(sch, "Results.AllNonPendingPodsScheduled", "allNonPendingCmps")
		// which pod errors a simulation may ignore: those of pods that were ALREADY unschedulable before (IsProvisionable:
		// unbound and marked unschedulable) — not those of pods bound to a node that are still starting (phase Pending)
		g.callSeq(c06Group, sch, "Results.AllNonPendingPodsScheduled", "allNonPendingCalls", []string{"IsProvisionable", "IsPending", "IsScheduled", "FailedToSchedule"})
		g.callSeq(c06Group, sch, "Results.NonPendingPodSchedulingErrors", "nonPendingErrorsCalls", []string{"IsProvisionable", "IsPending", "IsScheduled", "FailedToSchedule"})
		// PodDisruptionBudgets: the unhealthyPodEvictionPolicy=AlwaysAllow exception for a not-Ready pod is taken BEFORE the
		// blocker-specific test, i.e. for CanEvictPods (is the node a candidate) and isFullyBlocked (is the pod part of the
		// simulation) alike
		g.c06Outline("pkg/utils/pdb", "Limits.isEvictable", "pdbIsEvictableOutline")
		// NodeOverlay prices: an overlaid offering is a COPY (the provider's cached Offering objects are never written)
		g.c06Outline("pkg/controllers/nodeoverlay", "internalInstanceTypeStore.applyPriceOverlays", "applyPriceOverlaysOutline")
		// prices are per NodePool: BuildNodePoolMap asks the provider for EVERY NodePool's instance types and NewCandidate
		// prices a node from its own NodePool's entry
		g.c06Outline(dis, "BuildNodePoolMap", "buildNodePoolMapOutline")
		g.callSeq(c06Group, dis, "NewCandidate", "newCandidateCalls", []string{"resolveNodePrice"})
		g.callSeq(c06Group, dis, "MultiNodeConsolidation.firstNConsolidationOption", "firstNCalls",
			[]string{"computeConsolidation", "filterOutSameInstanceType"})
		g.callSeq(c06Group, dis, "MultiNodeConsolidation.ComputeCommands", "multiComputeCalls",
			[]string{"firstNConsolidationOption", "Validate"})
		g.callSeq(c06Group, dis, "SingleNodeConsolidation.ComputeCommands", "singleComputeCalls",
			[]string{"computeConsolidation", "Validate"})
		g.callSeq(c06Group, dis, "Emptiness.ComputeCommands", "emptinessComputeCalls",
			[]string{"Validate"})

		// Emptiness: the command that is RETURNED is the one the validator returned (its candidates narrowed to those that
		// are still empty candidates after the delay)
		g.c06Guards(dis, "Emptiness.ComputeCommands", "emptinessComputeGuards")
		g.c06AssignOfCall(dis, "Emptiness.ComputeCommands", "Validate", "emptinessValidateAssign")
		g.c06FinalReturn(dis, "Emptiness.ComputeCommands", "emptinessComputeReturns")
		g.c06Skeleton(dis, "EmptinessValidator.Validate", "emptinessValidateSkeleton")
		g.c06Cmps(dis, "EmptinessValidator.validateCandidates", "emptinessValidateCandidatesCmps")
		g.callSeq(c06Group, dis, "EmptinessValidator.validateCandidates", "emptinessValidateCandidatesCalls",
			[]string{"GetCandidates", "mapCandidates", "BuildDisruptionBudgetMapping", "IsNodeNominated"})
		g.callSeq(c06Group, dis, "Emptiness.ShouldDisrupt", "emptinessShouldDisruptCalls",
			[]string{"IsEmpty"})
	})
}

// c06Cmps emits every comparison (`==`, `!=`, `<`, `<=`, `>`, `>=`) inside the function, in source order,
// rendered as "lhs op rhs" (without `err != nil` and the `len(candidates) == 1` guards of event publication).
func (g *gen) c06Cmps(pkgPath, fn, lean string) {
	_, fd := g.findFunc(pkgPath, fn)
	if fd == nil {
		return
	}
	var out []string
	ast.Inspect(fd.Body, func(n ast.Node) bool {
		be, ok := n.(*ast.BinaryExpr)
		if !ok {
			return true
		}
		switch be.Op {
		case token.EQL, token.NEQ, token.LSS, token.LEQ, token.GTR, token.GEQ:
			txt := types.ExprString(be.X) + " " + be.Op.String() + " " + types.ExprString(be.Y)
			// error plumbing and the "single candidate" guards around event publication are not decision logic
			if txt == "err != nil" || txt == "len(candidates) == 1" {
				return true
			}
			out = append(out, txt)
		}
		return true
	})
	b := g.out(c06Group)
	fmt.Fprintf(b, "/-- the comparisons inside `%s.%s` (%s), in source order -/\ndef %s : List String := [", pkgPath, fn, g.pos(fd.Pos()), lean)
	for i, s := range out {
		if i > 0 {
			b.WriteString(",")
		}
		fmt.Fprintf(b, "\n  %s", leanStr(s))
	}
	b.WriteString("]\n\n")
}

// c06AssignOfCall emits every assignment (also the init statement of an `if`) whose right-hand side is a call of
// `callee` (last selector), as written: which variables receive the call's results.
func (g *gen) c06AssignOfCall(pkgPath, fn, callee, lean string) {
	_, fd := g.findFunc(pkgPath, fn)
	if fd == nil {
		return
	}
	var out []string
	ast.Inspect(fd.Body, func(n ast.Node) bool {
		as, ok := n.(*ast.AssignStmt)
		if !ok || len(as.Rhs) != 1 {
			return true
		}
		ce, ok := as.Rhs[0].(*ast.CallExpr)
		if !ok {
			return true
		}
		name := exprString(ce.Fun)
		if name != callee && !strings.HasSuffix(name, "."+callee) {
			return true
		}
		var l []string
		for _, e := range as.Lhs {
			l = append(l, types.ExprString(e))
		}
		out = append(out, strings.Join(l, ", ")+" "+as.Tok.String()+" "+types.ExprString(as.Rhs[0]))
		return true
	})
	b := g.out(c06Group)
	fmt.Fprintf(b, "/-- the assignments of a `%s` call's results inside `%s.%s` (%s), as written -/\ndef %s : List String := [", callee, pkgPath, fn, g.pos(fd.Pos()), lean)
	for i, s := range out {
		if i > 0 {
			b.WriteString(",")
		}
		fmt.Fprintf(b, "\n  %s", leanStr(s))
	}
	b.WriteString("]\n\n")
}

// c06FinalReturn emits the function's last statement printed in full (composite literals with their elements): which
// value is handed back on the success path.
func (g *gen) c06FinalReturn(pkgPath, fn, lean string) {
	_, fd := g.findFunc(pkgPath, fn)
	if fd == nil {
		return
	}
	txt := "(no statement)"
	if n := len(fd.Body.List); n > 0 {
		var sb strings.Builder
		if err := printer.Fprint(&sb, token.NewFileSet(), fd.Body.List[n-1]); err == nil {
			txt = strings.Join(strings.Fields(sb.String()), " ")
		}
	}
	b := g.out(c06Group)
	fmt.Fprintf(b, "/-- the last statement of `%s.%s` (%s), in full -/\ndef %s : String := %s\n\n", pkgPath, fn, g.pos(fd.Pos()), lean, leanStr(txt))
}

// c06Return renders a return statement: call results keep the callee only (`return NewFooError(…)`), everything else
// is printed as written (`return nil`, `return false`).
func c06Return(rs *ast.ReturnStmt) string {
	var parts []string
	for _, e := range rs.Results {
		if ce, ok := e.(*ast.CallExpr); ok {
			parts = append(parts, exprString(ce.Fun)+"(…)")
		} else {
			parts = append(parts, types.ExprString(e))
		}
	}
	if len(parts) == 0 {
		return "return"
	}
	return "return " + strings.Join(parts, ", ")
}

// c06Guards emits every `if` of the function in source order as "<condition> => <last statement of its body>", and
// the function's final statement as "end => …".  The condition is printed in full, so a call inside it is pinned with
// its polarity and the order of its arguments.
func (g *gen) c06Guards(pkgPath, fn, lean string) {
	_, fd := g.findFunc(pkgPath, fn)
	if fd == nil {
		return
	}
	last := func(b *ast.BlockStmt) string {
		if b == nil || len(b.List) == 0 {
			return "(empty)"
		}
		switch s := b.List[len(b.List)-1].(type) {
		case *ast.ReturnStmt:
			return c06Return(s)
		case *ast.BranchStmt:
			return s.Tok.String()
		default:
			return "(falls through)"
		}
	}
	var out []string
	ast.Inspect(fd.Body, func(n ast.Node) bool {
		if is, ok := n.(*ast.IfStmt); ok {
			txt := types.ExprString(is.Cond) + " => " + last(is.Body)
			if is.Else != nil {
				txt += " (has else)"
			}
			out = append(out, txt)
		}
		return true
	})
	out = append(out, "end => "+last(fd.Body))
	b := g.out(c06Group)
	fmt.Fprintf(b, "/-- the guards of `%s.%s` (%s) in source order, each with the statement its body ends in -/\ndef %s : List String := [", pkgPath, fn, g.pos(fd.Pos()), lean)
	for i, s := range out {
		if i > 0 {
			b.WriteString(",")
		}
		fmt.Fprintf(b, "\n  %s", leanStr(s))
	}
	b.WriteString("]\n\n")
}

// c06Skeleton emits the statements of a (small) function in source order: `for k, v := range X`, assignments,
// `if cond`, returns.  Anything else is printed as "(other statement)" so that an unexpected shape shows.
func (g *gen) c06Skeleton(pkgPath, fn, lean string) {
	_, fd := g.findFunc(pkgPath, fn)
	if fd == nil {
		return
	}
	var out []string
	var walk func(list []ast.Stmt)
	walk = func(list []ast.Stmt) {
		for _, st := range list {
			switch s := st.(type) {
			case *ast.RangeStmt:
				k, v := "_", "_"
				if s.Key != nil {
					k = types.ExprString(s.Key)
				}
				if s.Value != nil {
					v = types.ExprString(s.Value)
				}
				out = append(out, fmt.Sprintf("for %s, %s := range %s", k, v, types.ExprString(s.X)))
				walk(s.Body.List)
			case *ast.AssignStmt:
				var l, r []string
				for _, e := range s.Lhs {
					l = append(l, types.ExprString(e))
				}
				for _, e := range s.Rhs {
					r = append(r, types.ExprString(e))
				}
				out = append(out, strings.Join(l, ", ")+" "+s.Tok.String()+" "+strings.Join(r, ", "))
			case *ast.IfStmt:
				out = append(out, "if "+types.ExprString(s.Cond))
				walk(s.Body.List)
				if s.Else != nil {
					out = append(out, "else")
					if eb, ok := s.Else.(*ast.BlockStmt); ok {
						walk(eb.List)
					} else {
						out = append(out, "(other statement)")
					}
				}
			case *ast.ReturnStmt:
				out = append(out, c06Return(s))
			default:
				out = append(out, "(other statement)")
			}
		}
	}
	walk(fd.Body.List)
	// the parameter names, in order (the model's `lhs` / `rhs`)
	var params []string
	for _, f := range fd.Type.Params.List {
		for _, n := range f.Names {
			params = append(params, n.Name)
		}
	}
	b := g.out(c06Group)
	fmt.Fprintf(b, "/-- the statements of `%s.%s(%s)` (%s) in source order -/\ndef %s : List String := [", pkgPath, fn, strings.Join(params, ", "), g.pos(fd.Pos()), lean)
	for i, s := range out {
		if i > 0 {
			b.WriteString(",")
		}
		fmt.Fprintf(b, "\n  %s", leanStr(s))
	}
	b.WriteString("]\n")
	fmt.Fprintf(b, "def %sParams : List String := [", lean)
	for i, s := range params {
		if i > 0 {
			b.WriteString(", ")
		}
		b.WriteString(leanStr(s))
	}
	b.WriteString("]\n\n")
}

// c06Outline emits the statements of a function in source order like c06Skeleton, with the right-hand side of an
// assignment abbreviated to the called function (`f(…)`) when it is a call: WHERE a value is stored (which variable, map
// or field) and under which guard, without pinning message texts or argument lists.
func (g *gen) c06Outline(pkgPath, fn, lean string) {
	_, fd := g.findFunc(pkgPath, fn)
	if fd == nil {
		return
	}
	var out []string
	short := func(e ast.Expr) string {
		if c, ok := e.(*ast.CallExpr); ok {
			return types.ExprString(c.Fun) + "(…)"
		}
		return types.ExprString(e)
	}
	var walk func(list []ast.Stmt)
	walk = func(list []ast.Stmt) {
		for _, st := range list {
			switch s := st.(type) {
			case *ast.DeclStmt:
				if gd, ok := s.Decl.(*ast.GenDecl); ok {
					for _, sp := range gd.Specs {
						if vs, ok := sp.(*ast.ValueSpec); ok {
							for _, n := range vs.Names {
								out = append(out, "var "+n.Name)
							}
						}
					}
				}
			case *ast.RangeStmt:
				k, v := "_", "_"
				if s.Key != nil {
					k = types.ExprString(s.Key)
				}
				if s.Value != nil {
					v = types.ExprString(s.Value)
				}
				out = append(out, fmt.Sprintf("for %s, %s := range %s", k, v, types.ExprString(s.X)))
				walk(s.Body.List)
				out = append(out, "end")
			case *ast.AssignStmt:
				var l, r []string
				for _, e := range s.Lhs {
					l = append(l, types.ExprString(e))
				}
				for _, e := range s.Rhs {
					r = append(r, short(e))
				}
				out = append(out, strings.Join(l, ", ")+" "+s.Tok.String()+" "+strings.Join(r, ", "))
			case *ast.IfStmt:
				out = append(out, "if "+types.ExprString(s.Cond))
				walk(s.Body.List)
				if s.Else != nil {
					out = append(out, "else")
					if eb, ok := s.Else.(*ast.BlockStmt); ok {
						walk(eb.List)
					} else {
						out = append(out, "(other statement)")
					}
				}
				out = append(out, "end")
			case *ast.ReturnStmt:
				var r []string
				for _, e := range s.Results {
					r = append(r, short(e))
				}
				out = append(out, "return "+strings.Join(r, ", "))
			default:
				out = append(out, "(other statement)")
			}
		}
	}
	walk(fd.Body.List)
	recv := ""
	if fd.Recv != nil && len(fd.Recv.List) == 1 {
		recv = types.ExprString(fd.Recv.List[0].Type)
		for _, n := range fd.Recv.List[0].Names {
			recv = n.Name + " " + recv
		}
	}
	b := g.out(c06Group)
	fmt.Fprintf(b, "/-- outline of `%s.%s` (%s): statements in source order, calls abbreviated -/\ndef %s : List String := [", pkgPath, fn, g.pos(fd.Pos()), lean)
	for i, s := range out {
		if i > 0 {
			b.WriteString(",")
		}
		fmt.Fprintf(b, "\n  %s", leanStr(s))
	}
	b.WriteString("]\n")
	fmt.Fprintf(b, "/-- the receiver of `%s` (a value receiver is a COPY: what the function stores must reach the returned value) -/\ndef %sRecv : String := %s\n\n", fn, lean, leanStr(recv))
}

// c06Precedence: the composite literal `[]scheduling.Requirements{ReservedRequirement, SpotRequirement, OnDemandRequirement}`
// ranged over in Offerings.WorstLaunchPrice; each element is a package var built as
// NewRequirements(NewRequirement(CapacityTypeLabelKey, In, <capacity type>)).
func c06Precedence(g *gen) {
	const pkg = "pkg/cloudprovider"
	p, fd := g.findFunc(pkg, "Offerings.WorstLaunchPrice")
	if fd == nil {
		return
	}
	var lit *ast.CompositeLit
	ast.Inspect(fd.Body, func(n ast.Node) bool {
		if rs, ok := n.(*ast.RangeStmt); ok && lit == nil {
			if cl, ok := rs.X.(*ast.CompositeLit); ok {
				lit = cl
			}
		}
		return true
	})
	if lit == nil {
		g.errf("cloudprovider.Offerings.WorstLaunchPrice: no range over a composite literal")
		return
	}
	// var name -> capacity type value
	valueOf := func(name string) (string, bool) {
		for _, f := range p.Syntax {
			for _, d := range f.Decls {
				gd, ok := d.(*ast.GenDecl)
				if !ok {
					continue
				}
				for _, s := range gd.Specs {
					vs, ok := s.(*ast.ValueSpec)
					if !ok {
						continue
					}
					for i, n := range vs.Names {
						if n.Name != name || i >= len(vs.Values) {
							continue
						}
						var found []string
						var key string
						ast.Inspect(vs.Values[i], func(n ast.Node) bool {
							ce, ok := n.(*ast.CallExpr)
							if !ok || !strings.HasSuffix(exprString(ce.Fun), "NewRequirement") || len(ce.Args) < 3 {
								return true
							}
							if k, ok := g.constStr(p, ce.Args[0]); ok {
								key = k
							}
							if exprString(ce.Args[1]) != "corev1.NodeSelectorOpIn" {
								return true
							}
							for _, a := range ce.Args[2:] {
								if s, ok := g.constStr(p, a); ok {
									found = append(found, s)
								}
							}
							return true
						})
						if len(found) == 1 && key == "karpenter.sh/capacity-type" {
							return found[0], true
						}
					}
				}
			}
		}
		return "", false
	}
	var order []string
	for _, e := range lit.Elts {
		id, ok := e.(*ast.Ident)
		if !ok {
			g.errf("cloudprovider.Offerings.WorstLaunchPrice: precedence element %s is not an identifier", exprString(e))
			return
		}
		v, ok := valueOf(id.Name)
		if !ok {
			g.errf("cloudprovider.%s: not a single `capacity-type In [x]` requirement", id.Name)
			return
		}
		order = append(order, v)
	}
	b := g.out(c06Group)
	fmt.Fprintf(b, "/-- the capacity types in the order `Offerings.WorstLaunchPrice` tries them (%s) -/\ndef worstLaunchPrecedence : List String := [", g.pos(fd.Pos()))
	for i, s := range order {
		if i > 0 {
			b.WriteString(", ")
		}
		b.WriteString(leanStr(s))
	}
	b.WriteString("]\n\n")
}

// c06EvictionCost: `cost := BASE; cost += delCost / math.Pow(2, A); cost += prio / math.Pow(2, B); lo.Clamp(cost, LO, HI)`.
func c06EvictionCost(g *gen) {
	const pkg = "pkg/utils/disruption"
	// When the formula can no longer be read off the source (every such case is reported as a FACT-ERROR and fails the
	// check), the constants are still emitted — with the DOCUMENTED values (1 + deletionCost/2^27 + priority/2^25, clamped to
	// [-10, 10]) — so that the model driver links and the sweep can look for a concrete input on which the changed code
	// breaks the property.
	emitted := false
	defer func() {
		if emitted {
			return
		}
		b := g.out(c06Group)
		fmt.Fprintf(b, "/-- `disruption.EvictionCost`: NOT regenerated (the source no longer has the expected shape: see the FACT-ERROR); the documented formula -/\n")
		fmt.Fprintf(b, "def evictionBase : Int := 1\ndef evictionDelExp : Nat := 27\ndef evictionPrioExp : Nat := 25\ndef evictionClampLo : Int := -10\ndef evictionClampHi : Int := 10\n\n")
		g.callSeq(c06Group, "pkg/controllers/disruption", "computeRescheduleDisruptionCost", "rescheduleCostCalls", []string{"Max", "EvictionCost"})
	}()
	pows, pos := g.callsIn(pkg, "EvictionCost", "math.Pow")
	if len(pows) != 2 {
		g.errf("disruption.EvictionCost: expected two math.Pow calls, found %d", len(pows))
		return
	}
	var exps []int64
	for _, c := range pows {
		if len(c.Args) != 2 {
			g.errf("disruption.EvictionCost: math.Pow arity")
			return
		}
		base, ok1 := g.constOf(pkg, c.Args[0])
		exp, ok2 := g.constOf(pkg, c.Args[1])
		if !ok1 || !ok2 {
			g.errf("disruption.EvictionCost: math.Pow arguments are not constants")
			return
		}
		bi, okb := constant.Int64Val(constant.ToInt(base))
		ei, oke := constant.Int64Val(constant.ToInt(exp))
		if !okb || !oke || bi != 2 || ei < 0 {
			g.errf("disruption.EvictionCost: math.Pow(%s, %s) is not a natural power of two", base, exp)
			return
		}
		exps = append(exps, ei)
	}
	clamps, _ := g.callsIn(pkg, "EvictionCost", "lo.Clamp")
	if len(clamps) != 1 || len(clamps[0].Args) != 3 {
		g.errf("disruption.EvictionCost: expected one lo.Clamp(x, lo, hi)")
		return
	}
	loV, ok1 := g.constOf(pkg, clamps[0].Args[1])
	hiV, ok2 := g.constOf(pkg, clamps[0].Args[2])
	if !ok1 || !ok2 {
		g.errf("disruption.EvictionCost: clamp bounds are not constants")
		return
	}
	loI, okl := constant.Int64Val(constant.ToInt(loV))
	hiI, okh := constant.Int64Val(constant.ToInt(hiV))
	if !okl || !okh {
		g.errf("disruption.EvictionCost: clamp bounds are not integers")
		return
	}
	_, fd := g.findFunc(pkg, "EvictionCost")
	var base constant.Value
	if fd != nil {
		for _, st := range fd.Body.List {
			if as, ok := st.(*ast.AssignStmt); ok && as.Tok == token.DEFINE && len(as.Lhs) == 1 && len(as.Rhs) == 1 {
				if id, ok := as.Lhs[0].(*ast.Ident); ok && id.Name == "cost" {
					if v, ok := g.constOf(pkg, as.Rhs[0]); ok {
						base = v
					}
				}
			}
		}
	}
	if base == nil {
		g.errf("disruption.EvictionCost: `cost := <constant>` not found")
		return
	}
	bi, okb := constant.Int64Val(constant.ToInt(base))
	if !okb {
		g.errf("disruption.EvictionCost: base cost is not an integer")
		return
	}
	emitted = true
	b := g.out(c06Group)
	fmt.Fprintf(b, "/-- `disruption.EvictionCost` (%s): cost = evictionBase + deletionCost / 2^evictionDelExp + priority / 2^evictionPrioExp, clamped to [evictionClampLo, evictionClampHi] -/\n", g.pos(pos))
	fmt.Fprintf(b, "def evictionBase : Int := %d\ndef evictionDelExp : Nat := %d\ndef evictionPrioExp : Nat := %d\ndef evictionClampLo : Int := %d\ndef evictionClampHi : Int := %d\n\n", bi, exps[0], exps[1], loI, hiI)
	// the reschedule cost sums max(0, EvictionCost) over the reschedulable pods on top of the per-node base
	g.callSeq(c06Group, "pkg/controllers/disruption", "computeRescheduleDisruptionCost", "rescheduleCostCalls", []string{"Max", "EvictionCost"})
}
