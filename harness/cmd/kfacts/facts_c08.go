package main

import (
	"fmt"
	"go/ast"
	"go/token"
	"strings"
)

// ---- C08: disruption orchestration queue (replacements ready before removal; failed actions roll back) ----
// Group "OrchQueue": the retry-window constants, the order of the protocol steps inside StartCommand /
// waitOrTerminate / Reconcile / CompleteCommand / the controller's cleanup, and HOW the retry window is applied
// to a pass of waitOrTerminate (the model switches on this fact).

func init() {
	register([]string{"pkg/controllers/disruption", "pkg/controllers/state"}, func(g *gen) {
		const pkg = "pkg/controllers/disruption"
		g.natConst("OrchQueue", pkg, "minRetryDuration", "minRetryDurationNs")
		g.natConst("OrchQueue", pkg, "maxRetryDuration", "maxRetryDurationNs")
		g.natConst("OrchQueue", pkg, "retryDurationScale", "retryDurationScaleNs")
		g.natConst("OrchQueue", pkg, "queueBaseDelay", "queueBaseDelayNs")
		g.callSeq("OrchQueue", pkg, "Queue.StartCommand", "startCommandOrder",
			[]string{"HasAny", "markDisrupted", "createReplacementNodeClaims", "MarkForDeletion", "Lock"})
		g.callSeq("OrchQueue", pkg, "Queue.waitOrTerminate", "waitOrTerminateOrder",
			[]string{"kubeClient.Get", "NodeClaimExists", "kubeClient.Delete"})
		g.callSeq("OrchQueue", pkg, "Queue.Reconcile", "reconcileOrder",
			[]string{"waitOrTerminate", "IsUnrecoverableError", "RequireNoScheduleTaint", "ClearNodeClaimsCondition", "CompleteCommand"})
		g.callSeq("OrchQueue", pkg, "Queue.CompleteCommand", "completeCommandOrder",
			[]string{"UnmarkForDeletion", "delete"})
		g.callSeq("OrchQueue", pkg, "Controller.Reconcile", "controllerOrder",
			[]string{"Synced", "HasAny", "MarkedForDeletion", "RequireNoScheduleTaint", "ClearNodeClaimsCondition", "disrupt"})
		g.callSeq("OrchQueue", pkg, "NewCandidate", "newCandidateOrder",
			[]string{"HasAny", "ValidateNodeDisruptable", "ValidatePodsDisruptable"})
		c08TimeoutMode(g)
		// the per-candidate loops of the rollback / enqueue bookkeeping visit EVERY listed provider id (the model folds
		// over all live candidates): no statement inside them leaves the loop or the function early
		c08LoopShape(g, "pkg/controllers/state", "Cluster.MarkForDeletion", "markForDeletion")
		c08LoopShape(g, "pkg/controllers/state", "Cluster.UnmarkForDeletion", "unmarkForDeletion")
		c08LoopShape(g, pkg, "Queue.CompleteCommand", "completeCommand")
	})
}

// c08LoopShape emits, for one function, the number of `for … range` loops in its body (function literals excluded) and
// the number of statements inside those loops that end the iteration over the remaining elements early: `return`,
// `break` / `goto` (a `break` that only leaves a nested switch/select/for counts too: conservative), calls of panic /
// os.Exit / log.Fatal*. `continue` does not count: the remaining elements are still visited.
func c08LoopShape(g *gen, pkgPath, fn, lean string) {
	_, fd := g.findFunc(pkgPath, fn)
	if fd == nil {
		return
	}
	loops, exits := 0, 0
	var walk func(n ast.Node, inLoop bool)
	walk = func(n ast.Node, inLoop bool) {
		ast.Inspect(n, func(x ast.Node) bool {
			switch v := x.(type) {
			case nil:
				return false
			case *ast.FuncLit:
				return false // another function: its returns do not leave the loop
			case *ast.RangeStmt:
				if x == n {
					return true
				}
				loops++
				walk(v.Body, true)
				return false
			case *ast.ForStmt:
				if x == n {
					return true
				}
				loops++
				walk(v.Body, true)
				return false
			case *ast.ReturnStmt:
				if inLoop {
					exits++
				}
			case *ast.BranchStmt:
				if inLoop && (v.Tok == token.BREAK || v.Tok == token.GOTO) {
					exits++
				}
			case *ast.CallExpr:
				if inLoop {
					switch name := exprString(v.Fun); {
					case name == "panic", name == "os.Exit", strings.HasPrefix(name, "log.Fatal"):
						exits++
					}
				}
			}
			return true
		})
	}
	walk(fd.Body, false)
	b := g.out("OrchQueue")
	fmt.Fprintf(b, "/-- `%s.%s` (%s): number of for/range loops in the body (function literals excluded) -/\ndef %sLoops : Nat := %d\n\n", pkgPath, fn, g.pos(fd.Pos()), lean, loops)
	fmt.Fprintf(b, "/-- `%s.%s`: statements inside those loops that leave the loop or the function before every element has been visited (return / break / goto / panic) -/\ndef %sLoopExits : Nat := %d\n\n", pkgPath, fn, lean, exits)
}

func containsCall(n ast.Node, suffix string) bool {
	found := false
	ast.Inspect(n, func(x ast.Node) bool {
		if ce, ok := x.(*ast.CallExpr); ok {
			name := exprString(ce.Fun)
			if name == suffix || strings.HasSuffix(name, "."+suffix) {
				found = true
			}
		}
		return !found
	})
	return found
}

// mentionsRetryWindow: a condition of the shape `q.clock.Since(cmd.CreationTimestamp) > retryDuration`
// (`>=` is accepted as the same shape: where exactly the edge lies is checked by the correspondence at +-1 ns)
func mentionsRetryWindow(e ast.Expr) bool {
	ok := false
	ast.Inspect(e, func(x ast.Node) bool {
		if be, isBin := x.(*ast.BinaryExpr); isBin && (be.Op == token.GTR || be.Op == token.GEQ) && containsCall(be.X, "Since") {
			if id, isId := be.Y.(*ast.Ident); isId && id.Name == "retryDuration" {
				ok = true
			}
		}
		return !ok
	})
	return ok
}

func mentionsErrNotNil(e ast.Expr) bool {
	ok := false
	ast.Inspect(e, func(x ast.Node) bool {
		if be, isBin := x.(*ast.BinaryExpr); isBin && be.Op == token.NEQ {
			l, lok := be.X.(*ast.Ident)
			r, rok := be.Y.(*ast.Ident)
			if lok && rok && l.Name == "err" && r.Name == "nil" {
				ok = true
			}
		}
		return !ok
	})
	return ok
}

// c08TimeoutMode classifies how waitOrTerminate applies the retry window:
//
//	0  a deferred function wraps EVERY result of the pass into an UnrecoverableError once the window has passed
//	   (`if q.clock.Since(cmd.CreationTimestamp) > retryDuration { err = NewUnrecoverableError(...) }`)
//	1  the deferred wrapper is additionally guarded by `err != nil`
//	2  no deferred wrapper: the window is tested (with NewUnrecoverableError) only before the candidate deletes
//	   are issued (textually before the ParallelizeUntil call of the delete phase)
//
// Anything else is a FACT-ERROR: the model does not know that shape.
func c08TimeoutMode(g *gen) {
	const pkgPath = "pkg/controllers/disruption"
	_, fd := g.findFunc(pkgPath, "Queue.waitOrTerminate")
	if fd == nil {
		return
	}
	mode := -1
	var deferPos token.Pos
	nDefers := 0
	ast.Inspect(fd.Body, func(n ast.Node) bool {
		ds, ok := n.(*ast.DeferStmt)
		if !ok {
			return true
		}
		fl, ok := ds.Call.Fun.(*ast.FuncLit)
		if !ok || !containsCall(fl.Body, "NewUnrecoverableError") {
			return true
		}
		nDefers++
		deferPos = ds.Pos()
		// the wrapper must be exactly one `if <window passed> [&& err != nil] { err = NewUnrecoverableError(...) }`
		if len(fl.Body.List) != 1 {
			return false
		}
		is, ok := fl.Body.List[0].(*ast.IfStmt)
		if !ok || is.Else != nil || is.Init != nil || !mentionsRetryWindow(is.Cond) {
			return false
		}
		if mentionsErrNotNil(is.Cond) {
			mode = 1
		} else if be, plain := is.Cond.(*ast.BinaryExpr); plain && (be.Op == token.GTR || be.Op == token.GEQ) {
			mode = 0
		}
		return false
	})
	if nDefers == 0 {
		// no deferred wrapper: every window test must precede the delete fan-out
		var fanOut token.Pos
		ast.Inspect(fd.Body, func(n ast.Node) bool {
			if ce, ok := n.(*ast.CallExpr); ok && strings.HasSuffix(exprString(ce.Fun), "ParallelizeUntil") && fanOut == token.NoPos {
				fanOut = ce.Pos()
			}
			return true
		})
		tests, late := 0, 0
		ast.Inspect(fd.Body, func(n ast.Node) bool {
			if is, ok := n.(*ast.IfStmt); ok && mentionsRetryWindow(is.Cond) && containsCall(is.Body, "NewUnrecoverableError") {
				tests++
				if fanOut == token.NoPos || is.Pos() > fanOut {
					late++
				}
			}
			return true
		})
		if tests >= 1 && late == 0 {
			mode = 2
			deferPos = fd.Pos()
		}
	}
	if mode < 0 || nDefers > 1 {
		g.errf("%s.Queue.waitOrTerminate: unrecognised application of the retry window (deferred wrappers: %d)", pkgPath, nDefers)
		// keep the driver buildable so that the sweep can still look for a concrete failing input: best guess
		mode = 2
		if nDefers > 0 {
			mode = 0
		}
		if deferPos == token.NoPos {
			deferPos = fd.Pos()
		}
	}
	fmt.Fprintf(g.out("OrchQueue"), "/-- how `%s.Queue.waitOrTerminate` applies the retry window (%s): 0 = deferred wrapper turns every result of a late pass into an UnrecoverableError, 1 = deferred wrapper guarded by `err != nil`, 2 = window only tested before the candidate deletes are issued -/\ndef timeoutMode : Nat := %d\n\n", pkgPath, g.pos(deferPos), mode)
}
