package main

func init() {
	register([]string{
		"pkg/controllers/provisioning",
		"pkg/controllers/provisioning/scheduling",
		"pkg/cloudprovider",
	}, func(g *gen) {
		// ---- C19: weight and price ordering ----
		const grp = "C19Facts"
		// the truncation bound used by ToNodeClaim / TruncateInstanceTypes (a package var with a constant initializer)
		g.natConst(grp, "pkg/controllers/provisioning/scheduling", "MaxInstanceTypes", "maxInstanceTypes")
		// the NodePools are ordered by weight before the templates are built from them
		g.callSeq(grp, "pkg/controllers/provisioning", "Provisioner.NewScheduler", "provisionerNewSchedulerCalls",
			[]string{"OrderByWeight", "NewScheduler"})
		// which NodePools become templates at all: the filter in front of OrderByWeight looks at replicas (IsStatic), at the
		// root condition through ConditionSet.IsTrue (Unknown / missing is not ready) and at the deletionTimestamp; any
		// other condition predicate used there shows up in the sequence
		g.callSeq(grp, "pkg/controllers/provisioning", "Provisioner.NewScheduler", "provisionerPoolFilterCalls",
			[]string{"ListManaged", "IsStatic", "IsTrue", "IsFalse", "IsUnknown", "IsZero", "OrderByWeight"})
		// lo.Slice(OrderByPrice(..), 0, MaxInstanceTypes)
		g.callSeq(grp, "pkg/controllers/provisioning/scheduling", "NodeClaimTemplate.ToNodeClaim", "toNodeClaimCalls",
			[]string{"Slice", "OrderByPrice"})
		g.callSeq(grp, "pkg/cloudprovider", "InstanceTypes.Truncate", "truncateCalls",
			[]string{"Slice", "OrderByPrice"})
		// the templates are evaluated through parallelizeUntil; both publication sites take the mutex
		g.callSeq(grp, "pkg/controllers/provisioning/scheduling", "Scheduler.addToNewNodeClaim", "addToNewNodeClaimCalls",
			[]string{"parallelizeUntil", "Lock"})
	})
}
