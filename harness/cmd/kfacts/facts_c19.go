package main

import (
	"bytes"
	"fmt"
	"go/ast"
	"go/printer"
	"go/token"
	"strings"
)

// c19CallArg: the source text of argument number `idx` of every call to `callee` (a function or method name) inside `fn`,
// in source order; a leading receiver qualifier `s.` is dropped so that a local and the scheduler field read alike.
func (g *gen) c19CallArg(group, pkgPath, fn, callee string, idx int, lean string) {
	_, fd := g.findFunc(pkgPath, fn)
	if fd == nil {
		return
	}
	var seq []string
	ast.Inspect(fd.Body, func(n ast.Node) bool {
		ce, ok := n.(*ast.CallExpr)
		if !ok {
			return true
		}
		name := exprString(ce.Fun)
		if name != callee && !strings.HasSuffix(name, "."+callee) {
			return true
		}
		if idx >= len(ce.Args) {
			seq = append(seq, "<missing>")
			return true
		}
		var b bytes.Buffer
		printer.Fprint(&b, token.NewFileSet(), ce.Args[idx])
		seq = append(seq, strings.TrimPrefix(strings.Join(strings.Fields(b.String()), " "), "s."))
		return true
	})
	b := g.out(group)
	fmt.Fprintf(b, "/-- argument %d of the calls to `%s` inside `%s.%s` (%s), in source order -/\ndef %s : List String := [", idx, callee, pkgPath, fn, g.pos(fd.Pos()), lean)
	for i, s := range seq {
		if i > 0 {
			b.WriteString(", ")
		}
		b.WriteString(leanStr(s))
	}
	b.WriteString("]\n\n")
}

// c19FlagAssigns: every assignment to the local boolean `flag` inside `fn`, in source order, classified by its right-hand
// side: "false" / "true" (the literals), "or-self" (flag || …, … || flag), "other" (anything else: the flag takes the
// value of an expression, so an earlier `true` can be lost).
func (g *gen) c19FlagAssigns(group, pkgPath, fn, flag, lean string) {
	_, fd := g.findFunc(pkgPath, fn)
	if fd == nil {
		return
	}
	isFlag := func(e ast.Expr) bool {
		id, ok := e.(*ast.Ident)
		return ok && id.Name == flag
	}
	var seq []string
	ast.Inspect(fd.Body, func(n ast.Node) bool {
		as, ok := n.(*ast.AssignStmt)
		if !ok {
			return true
		}
		for i, l := range as.Lhs {
			if !isFlag(l) || i >= len(as.Rhs) {
				continue
			}
			kind := "other"
			switch r := as.Rhs[i].(type) {
			case *ast.Ident:
				if r.Name == "true" || r.Name == "false" {
					kind = r.Name
				}
			case *ast.BinaryExpr:
				if r.Op == token.LOR && (isFlag(r.X) || isFlag(r.Y)) {
					kind = "or-self"
				}
			}
			if as.Tok != token.ASSIGN && as.Tok != token.DEFINE {
				kind = "other"
			}
			seq = append(seq, kind)
		}
		return true
	})
	b := g.out(group)
	fmt.Fprintf(b, "/-- what is assigned to `%s` inside `%s.%s` (%s), in source order -/\ndef %s : List String := [", flag, pkgPath, fn, g.pos(fd.Pos()), lean)
	for i, s := range seq {
		if i > 0 {
			b.WriteString(", ")
		}
		b.WriteString(leanStr(s))
	}
	b.WriteString("]\n\n")
}

func init() {
	register([]string{
		"pkg/controllers/provisioning",
		"pkg/controllers/provisioning/scheduling",
		"pkg/cloudprovider",
	}, func(g *gen) {
		// ---- C19: weight and price ordering ----
		const grp = "C19Facts"
		// the truncation bound used by ToNodeClaim / TruncateInstanceTypes (a package var with a constant initializer)
		g.natConst(grp, "pkg/controllers/provisioning/scheduling", "MaxInstanceTypes", "maxInstanceTypes")
		// the NodePools are ordered by weight before the templates are built from them
		g.callSeq(grp, "pkg/controllers/provisioning", "Provisioner.NewScheduler", "provisionerNewSchedulerCalls",
			[]string{"OrderByWeight", "NewScheduler"})
		// which NodePools become templates at all: the filter in front of OrderByWeight looks at replicas (IsStatic), at the
		// root condition through ConditionSet.IsTrue (Unknown / missing is not ready) and at the deletionTimestamp; any
		// other condition predicate used there shows up in the sequence
		g.callSeq(grp, "pkg/controllers/provisioning", "Provisioner.NewScheduler", "provisionerPoolFilterCalls",
			[]string{"ListManaged", "IsStatic", "IsTrue", "IsFalse", "IsUnknown", "IsZero", "OrderByWeight"})
		// lo.Slice(OrderByPrice(..), 0, MaxInstanceTypes)
		g.callSeq(grp, "pkg/controllers/provisioning/scheduling", "NodeClaimTemplate.ToNodeClaim", "toNodeClaimCalls",
			[]string{"Slice", "OrderByPrice"})
		g.callSeq(grp, "pkg/cloudprovider", "InstanceTypes.Truncate", "truncateCalls",
			[]string{"Slice", "OrderByPrice"})
		// the templates are evaluated through parallelizeUntil; both publication sites take the mutex
		g.callSeq(grp, "pkg/controllers/provisioning/scheduling", "Scheduler.addToNewNodeClaim", "addToNewNodeClaimCalls",
			[]string{"parallelizeUntil", "Lock"})
		// NewNodeClaimTemplate: the injected labels (nodepool name, NodeClass) are merged into the template's labels
		// (lo.Assign, after the annotations' lo.Assign) BEFORE the label requirements are derived from them
		g.callSeq(grp, "pkg/controllers/provisioning/scheduling", "NewNodeClaimTemplate", "newNodeClaimTemplateCalls",
			[]string{"Assign", "NewLabelRequirements"})
		// NewScheduler: the flag "some NodePool has a PreferNoSchedule taint" starts false and is only ever raised
		// minValues: the NodePool-level pre-filter of NewScheduler (which decides whether a pool becomes a template at all)
		// and the per-pod filter behind NodeClaim.CanAdd relax minValues under the same condition
		g.c19CallArg(grp, "pkg/controllers/provisioning/scheduling", "NewScheduler", "filterInstanceTypesByRequirements", 6, "prefilterRelaxArg")
		g.c19CallArg(grp, "pkg/controllers/provisioning/scheduling", "Scheduler.addToNewNodeClaim", "CanAdd", 3, "canAddRelaxArg")
		g.c19FlagAssigns(grp, "pkg/controllers/provisioning/scheduling", "NewScheduler", "toleratePreferNoSchedule", "tolerateFlagAssigns")
	})
}
