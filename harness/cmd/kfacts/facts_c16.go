package main

import (
	"fmt"
	"go/ast"
	"go/constant"
	"go/token"
	"go/types"
	"strconv"
	"strings"
)

// ---- C16: forceful reapers (expiration, garbage collection, liveness, node repair) ----
// Group "Reapers": the liveness timeouts, the repair circuit-breaker percentage and its rounding mode, and
// one control-flow fact about the garbage collector (does the per-claim closure return after it recorded a
// failed Node lookup?), the conditions of its early returns after the two list calls, and one control-flow fact
// about the Node -> NodeClaim lookup node repair starts with (is a Node without provider id resolved to no
// NodeClaim before the NodeClaims are listed by provider id?).

func init() {
	register([]string{
		"pkg/controllers/nodeclaim/lifecycle",
		"pkg/controllers/nodeclaim/garbagecollection",
		"pkg/controllers/node/health",
		"pkg/utils/node",
	}, func(g *gen) {
		g.natConst("Reapers", "pkg/controllers/nodeclaim/lifecycle", "LaunchTimeout", "launchTimeoutNs")
		g.natConst("Reapers", "pkg/controllers/nodeclaim/lifecycle", "registrationTimeout", "registrationTimeoutNs")
		c16Percent(g)
		c16RoundUp(g)
		c16GCReturns(g)
		c16GCListGuards(g)
		c16NodeClaimLookupGuard(g)
	})
}

// allowedUnhealthyPercent = intstr.FromString("20%")
func c16Percent(g *gen) {
	const pkgPath, name = "pkg/controllers/node/health", "allowedUnhealthyPercent"
	p := g.pkg(pkgPath)
	if p == nil {
		return
	}
	for _, f := range p.Syntax {
		for _, d := range f.Decls {
			gd, ok := d.(*ast.GenDecl)
			if !ok || gd.Tok != token.VAR {
				continue
			}
			for _, s := range gd.Specs {
				vs := s.(*ast.ValueSpec)
				for i, n := range vs.Names {
					if n.Name != name || i >= len(vs.Values) {
						continue
					}
					ce, ok := vs.Values[i].(*ast.CallExpr)
					if !ok || exprString(ce.Fun) != "intstr.FromString" || len(ce.Args) != 1 {
						g.errf("%s.%s: initializer is not intstr.FromString(<const>)", pkgPath, name)
						return
					}
					str, ok := g.constStr(p, ce.Args[0])
					if !ok || !strings.HasSuffix(str, "%") {
						g.errf("%s.%s: not a constant percentage", pkgPath, name)
						return
					}
					v, err := strconv.Atoi(strings.TrimSuffix(str, "%"))
					if err != nil || v < 0 {
						g.errf("%s.%s: bad percentage %q", pkgPath, name, str)
						return
					}
					fmt.Fprintf(g.out("Reapers"), "/-- `%s.%s` = intstr.FromString(%q) (%s): percentage of unhealthy nodes tolerated by node repair -/\ndef allowedUnhealthyPercent : Nat := %d\n\n", pkgPath, name, str, g.pos(n.Pos()), v)
					return
				}
			}
		}
	}
	g.errf("%s.%s: var not found", pkgPath, name)
}

// areNodesHealthy: intstr.GetScaledValueFromIntOrPercent(new(allowedUnhealthyPercent), len(nodeList.Items), <roundUp>)
func c16RoundUp(g *gen) {
	const pkgPath = "pkg/controllers/node/health"
	p, fd := g.findFunc(pkgPath, "Controller.areNodesHealthy")
	if fd == nil {
		return
	}
	found := false
	ast.Inspect(fd.Body, func(n ast.Node) bool {
		ce, ok := n.(*ast.CallExpr)
		if !ok || found || exprString(ce.Fun) != "intstr.GetScaledValueFromIntOrPercent" || len(ce.Args) != 3 {
			return true
		}
		tv, ok := p.TypesInfo.Types[ce.Args[2]]
		if !ok || tv.Value == nil || tv.Value.Kind() != constant.Bool {
			return true
		}
		if !strings.Contains(exprString(ce.Args[0]), "allowedUnhealthyPercent") {
			// new(allowedUnhealthyPercent) renders as "new()" through exprString; look at the argument directly
			ok2 := false
			ast.Inspect(ce.Args[0], func(m ast.Node) bool {
				if id, ok := m.(*ast.Ident); ok && id.Name == "allowedUnhealthyPercent" {
					ok2 = true
				}
				return true
			})
			if !ok2 {
				return true
			}
		}
		found = true
		fmt.Fprintf(g.out("Reapers"), "/-- rounding mode of the unhealthy-node threshold: third argument of `intstr.GetScaledValueFromIntOrPercent` in `%s.areNodesHealthy` (%s) -/\ndef unhealthyRoundUp : Bool := %v\n\n", pkgPath, g.pos(ce.Pos()), constant.BoolVal(tv.Value))
		// the comparison that follows must be `unhealthyNodeCount <= threshold`
		return true
	})
	if !found {
		g.errf("%s.areNodesHealthy: call GetScaledValueFromIntOrPercent(allowedUnhealthyPercent, _, <const bool>) not found", pkgPath)
	}
}

// garbagecollection.Controller.Reconcile: inside the ParallelizeUntil closure,
//
//	if nodeclaimutils.IgnoreDuplicateNodeError(nodeclaimutils.IgnoreNodeNotFoundError(err)) != nil { errs[i] = err [; return] }
//
// Does that branch end the closure (so that the NodeClaim is not deleted when its Node could not be looked up)?
func c16GCReturns(g *gen) {
	const pkgPath = "pkg/controllers/nodeclaim/garbagecollection"
	_, fd := g.findFunc(pkgPath, "Controller.Reconcile")
	if fd == nil {
		return
	}
	var hit *ast.IfStmt
	ast.Inspect(fd.Body, func(n ast.Node) bool {
		is, ok := n.(*ast.IfStmt)
		if !ok || hit != nil {
			return true
		}
		mentions := false
		ast.Inspect(is.Cond, func(m ast.Node) bool {
			if se, ok := m.(*ast.SelectorExpr); ok && se.Sel.Name == "IgnoreNodeNotFoundError" {
				mentions = true
			}
			if id, ok := m.(*ast.Ident); ok && id.Name == "IgnoreNodeNotFoundError" {
				mentions = true
			}
			return true
		})
		if mentions {
			hit = is
			return false
		}
		return true
	})
	if hit == nil {
		g.errf("%s.Controller.Reconcile: the Node-lookup error check (IgnoreNodeNotFoundError) was not found", pkgPath)
		return
	}
	returns := false
	if n := len(hit.Body.List); n > 0 {
		_, returns = hit.Body.List[n-1].(*ast.ReturnStmt)
	}
	fmt.Fprintf(g.out("Reapers"), "/-- does the garbage collector's per-NodeClaim closure `return` after recording a failed Node lookup\n    (`if IgnoreDuplicateNodeError(IgnoreNodeNotFoundError(err)) != nil { errs[i] = err … }`, %s)? -/\ndef gcReturnsOnNodeLookupError : Bool := %v\n\n", g.pos(hit.Pos()), returns)
}

// garbagecollection.Controller.Reconcile: the two list calls whose results decide what "the provider no longer
// lists" means,
//
//	nodeClaims, err := nodeclaimutils.ListManaged(...)
//	cloudProviderNodeClaims, err := c.cloudProvider.List(ctx)
//
// and the condition of the early-return `if` that immediately follows each of them (the model aborts the pass on
// ANY error of either call: that is only the code's behaviour while the conditions are the plain `err != nil`,
// not e.g. `client.IgnoreNotFound(err) != nil` / `cloudprovider.IgnoreNodeClaimNotFoundError(err) != nil`).
func c16GCListGuards(g *gen) {
	const pkgPath = "pkg/controllers/nodeclaim/garbagecollection"
	_, fd := g.findFunc(pkgPath, "Controller.Reconcile")
	if fd == nil {
		return
	}
	type guard struct{ call, cond, pos string }
	var guards []guard
	for k, st := range fd.Body.List {
		as, ok := st.(*ast.AssignStmt)
		if !ok || len(as.Rhs) != 1 {
			continue
		}
		ce, ok := as.Rhs[0].(*ast.CallExpr)
		if !ok {
			continue
		}
		name := exprString(ce.Fun)
		if name != "nodeclaimutils.ListManaged" && !strings.HasSuffix(name, ".cloudProvider.List") {
			continue
		}
		gd := guard{call: name, cond: "<no early return on error>", pos: g.pos(as.Pos())}
		if k+1 < len(fd.Body.List) {
			if is, ok := fd.Body.List[k+1].(*ast.IfStmt); ok && is.Init == nil && is.Else == nil {
				if n := len(is.Body.List); n > 0 {
					if _, ret := is.Body.List[n-1].(*ast.ReturnStmt); ret {
						gd.cond = types.ExprString(is.Cond)
					}
				}
			}
		}
		guards = append(guards, gd)
	}
	if len(guards) == 0 {
		g.errf("%s.Controller.Reconcile: neither nodeclaimutils.ListManaged nor cloudProvider.List is called at the top level", pkgPath)
		return
	}
	var items, where []string
	for _, gd := range guards {
		items = append(items, fmt.Sprintf("(%s, %s)", strconv.Quote(gd.call), strconv.Quote(gd.cond)))
		where = append(where, gd.pos)
	}
	fmt.Fprintf(g.out("Reapers"), "/-- the garbage collector's list calls and the condition of the early-return `if` right after each (%s):\n    which errors of a list call end the pass -/\ndef gcListGuards : List (String × String) := [%s]\n\n", strings.Join(where, ", "), strings.Join(items, ", "))
}

// nodeutils.GetNodeClaims (behind nodeutils.NodeClaimForNode, the first call of the node/health Reconcile):
//
//	if node.Spec.ProviderID == "" { return nil, nil }
//	... kubeClient.List(ctx, ncs, nodeclaimutils.ForProviderID(node.Spec.ProviderID)) ...
//
// Is the LIST by provider id preceded by an early return for a Node whose spec.providerID is empty? (The
// status.providerID field index lists every NodeClaim that is still launching under "".)
func c16NodeClaimLookupGuard(g *gen) {
	const pkgPath = "pkg/utils/node"
	_, fd := g.findFunc(pkgPath, "GetNodeClaims")
	if fd == nil {
		return
	}
	isEmptyPIDTest := func(e ast.Expr) bool {
		be, ok := e.(*ast.BinaryExpr)
		if !ok || be.Op != token.EQL {
			return false
		}
		for _, pr := range [][2]ast.Expr{{be.X, be.Y}, {be.Y, be.X}} {
			l, r := types.ExprString(pr[0]), types.ExprString(pr[1])
			if strings.HasSuffix(l, ".Spec.ProviderID") && r == `""` {
				return true
			}
			if strings.HasPrefix(l, "len(") && strings.HasSuffix(l, ".Spec.ProviderID)") && r == "0" {
				return true
			}
		}
		return false
	}
	listsAt, guarded, guardPos := -1, false, ""
	for k, st := range fd.Body.List {
		lists := false
		ast.Inspect(st, func(n ast.Node) bool {
			if ce, ok := n.(*ast.CallExpr); ok && strings.HasSuffix(exprString(ce.Fun), ".List") {
				lists = true
			}
			return true
		})
		if lists {
			listsAt = k
			break
		}
		if is, ok := st.(*ast.IfStmt); ok && is.Init == nil && is.Else == nil && isEmptyPIDTest(is.Cond) {
			if n := len(is.Body.List); n > 0 {
				if _, ret := is.Body.List[n-1].(*ast.ReturnStmt); ret {
					guarded, guardPos = true, g.pos(is.Pos())
				}
			}
		}
	}
	if listsAt < 0 {
		g.errf("%s.GetNodeClaims: no <client>.List call found at the top level", pkgPath)
		return
	}
	where := g.pos(fd.Pos())
	if guarded {
		where = guardPos
	}
	fmt.Fprintf(g.out("Reapers"), "/-- `%s.GetNodeClaims` (the Node -> NodeClaim lookup of node repair): is the NodeClaim LIST by provider id preceded by\n    `if node.Spec.ProviderID == \"\" { return … }` — a Node without provider id resolves to no NodeClaim (%s)? -/\ndef nodeClaimLookupSkipsEmptyProviderID : Bool := %v\n\n", pkgPath, where, guarded)
}
