package main

import (
	"fmt"
	"go/ast"
	"go/constant"
	"go/token"
	"go/types"
	"strings"

	"golang.org/x/tools/go/packages"
)

// ---- C05: disruption budgets ----
//
// Group BudgetFacts: the constants the budget evaluation uses ("unbounded" values, the round-up flag), the
// reason each disruption method charges, the method order, the validation delay, the CRD admission markers of
// v1.Budget (taken as preconditions), and the call-order facts "the mapping is built before ComputeCommands",
// "both validators rebuild the mapping", "StartCommand marks the candidates for deletion".

func init() {
	register([]string{"pkg/apis/v1", "pkg/controllers/disruption"}, func(g *gen) {
		const grp = "BudgetFacts"
		const api = "pkg/apis/v1"
		const dis = "pkg/controllers/disruption"

		// the value returned for an inactive budget, and the initial minimum
		g.c05ConstInFunc(grp, api, "Budget.GetAllowedDisruptions", "inactiveAllowed", 2147483647, func(p *packages.Package, fd *ast.FuncDecl) (ast.Expr, string) {
			// the `return X, nil` directly inside `if !active { ... }`
			var found ast.Expr
			ast.Inspect(fd.Body, func(n ast.Node) bool {
				is, ok := n.(*ast.IfStmt)
				if !ok || types.ExprString(is.Cond) != "!active" {
					return true
				}
				for _, s := range is.Body.List {
					if r, ok := s.(*ast.ReturnStmt); ok && len(r.Results) == 2 {
						found = r.Results[0]
					}
				}
				return true
			})
			return found, "value returned by `if !active { return …, nil }`"
		})
		g.c05ConstInFunc(grp, api, "NodePool.GetAllowedDisruptionsByReason", "initialAllowed", 2147483647, func(p *packages.Package, fd *ast.FuncDecl) (ast.Expr, string) {
			var found ast.Expr
			ast.Inspect(fd.Body, func(n ast.Node) bool {
				as, ok := n.(*ast.AssignStmt)
				if ok && as.Tok == token.DEFINE && len(as.Lhs) == 1 && exprString(as.Lhs[0]) == "allowedNodes" && len(as.Rhs) == 1 {
					found = as.Rhs[0]
				}
				return true
			})
			return found, "initial value of `allowedNodes`"
		})
		g.c05ConstInFunc(grp, api, "NodePool.MustGetAllowedDisruptions", "mustErrorValue", 0, func(p *packages.Package, fd *ast.FuncDecl) (ast.Expr, string) {
			var found ast.Expr
			ast.Inspect(fd.Body, func(n ast.Node) bool {
				is, ok := n.(*ast.IfStmt)
				if !ok || !strings.Contains(c05Src(g, is.Cond), "err != nil") {
					return true
				}
				for _, s := range is.Body.List {
					if r, ok := s.(*ast.ReturnStmt); ok && len(r.Results) == 1 {
						found = r.Results[0]
					}
				}
				return true
			})
			return found, "value returned when GetAllowedDisruptionsByReason reports an error"
		})
		// roundUp argument of intstr.GetScaledValueFromIntOrPercent
		g.c05RoundUp(grp, api)
		// how GetAllowedDisruptionsByReason decides that a budget lists no reason
		g.c05ReasonsGuard(grp, api)

		// the reasons
		g.strConst(grp, api, "DisruptionReasonUnderutilized", "reasonUnderutilized")
		g.strConst(grp, api, "DisruptionReasonEmpty", "reasonEmpty")
		g.strConst(grp, api, "DisruptionReasonDrifted", "reasonDrifted")
		for _, m := range []string{"Emptiness", "StaticDrift", "Drift", "MultiNodeConsolidation", "SingleNodeConsolidation"} {
			g.c05MethodReason(grp, dis, m)
		}
		g.c05MethodOrder(grp, dis)

		// commandValidationDelay in nanoseconds
		if v, pos, ok := g.constVal(dis, "commandValidationDelay"); ok {
			if i, exact := constant.Int64Val(constant.ToInt(v)); exact && i >= 0 {
				fmt.Fprintf(g.out(grp), "/-- `%s.commandValidationDelay` (%s), nanoseconds -/\ndef validationDelayNs : Nat := %d\n\n", dis, g.pos(pos), i)
			} else {
				g.errf("commandValidationDelay: not a duration constant")
			}
		}

		// CRD admission markers of v1.Budget / Disruption.Budgets
		g.c05Marker(grp, api, "Budget", "Nodes", "kubebuilder:validation:Pattern", "nodesPattern")
		g.c05Marker(grp, api, "Budget", "Schedule", "kubebuilder:validation:Pattern", "schedulePattern")
		g.c05Marker(grp, api, "Budget", "Duration", "kubebuilder:validation:Pattern", "durationPattern")
		g.c05Marker(grp, api, "Disruption", "Budgets", "kubebuilder:validation:XValidation", "budgetsRule")
		g.c05Marker(grp, api, "Disruption", "Budgets", "kubebuilder:default", "budgetsDefault")

		// call-order facts
		g.callSeq(grp, dis, "BuildDisruptionBudgetMapping", "mappingCalls", []string{"DeepCopyNodes", "ListManaged", "MustGetAllowedDisruptions"})
		g.callSeq(grp, dis, "Controller.disrupt", "disruptCalls", []string{"GetCandidatesWithTotals", "BuildDisruptionBudgetMapping", "ComputeCommands", "StartCommand"})
		g.callSeq(grp, dis, "EmptinessValidator.validateCandidates", "emptinessValidatorCalls", []string{"GetCandidates", "mapCandidates", "BuildDisruptionBudgetMapping"})
		g.callSeq(grp, dis, "ConsolidationValidator.validateCandidates", "consolidationValidatorCalls", []string{"GetCandidates", "mapCandidates", "BuildDisruptionBudgetMapping"})
		g.callSeq(grp, dis, "ConsolidationValidator.isValid", "isValidCalls", []string{"After", "validateCandidates", "validateCommand"})
		g.callSeq(grp, dis, "Queue.StartCommand", "startCommandCalls", []string{"HasAny", "markDisrupted", "createReplacementNodeClaims", "MarkForDeletion"})
		g.callSeq(grp, dis, "Emptiness.ComputeCommands", "emptinessComputeCalls", []string{"Validate"})
		g.callSeq(grp, dis, "MultiNodeConsolidation.ComputeCommands", "multiComputeCalls", []string{"firstNConsolidationOption", "Validate"})
		g.callSeq(grp, dis, "SingleNodeConsolidation.ComputeCommands", "singleComputeCalls", []string{"computeConsolidation", "Validate"})
		g.callSeq(grp, dis, "NewCandidate", "newCandidateCalls", []string{"HasAny", "ValidateNodeDisruptable", "ValidatePodsDisruptable"})

		// the life cycle of the in-memory deletion mark: which commands CompleteCommand un-marks, and that the mark
		// survives NodeClaim/Node updates of the cluster state
		g.c05CompleteGuard(grp, dis)
		g.callSeq(grp, dis, "Queue.Reconcile", "queueReconcileCalls", []string{"waitOrTerminate", "CompleteCommand"})
	})
}

func c05Src(g *gen, e ast.Expr) string { return types.ExprString(e) }

// c05ConstInFunc finds an expression inside a function body and emits its constant integer value.
// When the expression cannot be found (or is no longer a constant) a FACT-ERROR is reported (the check then counts
// the fact as broken) and `fallback` is emitted so that the model and the driver still build and the sweep can
// look for a concrete failing input.
func (g *gen) c05ConstInFunc(group, pkgPath, fn, lean string, fallback int64, pick func(p *packages.Package, fd *ast.FuncDecl) (ast.Expr, string)) {
	p, fd := g.findFunc(pkgPath, fn)
	fail := func(format string, a ...any) {
		g.errf(format, a...)
		fmt.Fprintf(g.out(group), "/-- NOT FOUND in the source (FACT-ERROR reported); placeholder so that the model still builds -/\ndef %s : Int := %d\n\n", lean, fallback)
	}
	if fd == nil {
		fail("%s.%s: function not found", pkgPath, fn)
		return
	}
	e, what := pick(p, fd)
	if e == nil {
		fail("%s.%s: %s not found", pkgPath, fn, what)
		return
	}
	tv, ok := p.TypesInfo.Types[e]
	if !ok || tv.Value == nil {
		fail("%s.%s: %s is not a constant (%s)", pkgPath, fn, what, types.ExprString(e))
		return
	}
	i, exact := constant.Int64Val(constant.ToInt(tv.Value))
	if !exact {
		fail("%s.%s: %s is not an integer", pkgPath, fn, what)
		return
	}
	fmt.Fprintf(g.out(group), "/-- %s in `%s.%s` (%s): `%s` -/\ndef %s : Int := %d\n\n", what, pkgPath, fn, g.pos(e.Pos()), types.ExprString(e), lean, i)
}

func (g *gen) c05RoundUp(group, pkgPath string) {
	p, fd := g.findFunc(pkgPath, "Budget.GetAllowedDisruptions")
	if fd == nil {
		fmt.Fprintf(g.out(group), "def scaledRoundUp : Bool := true\ndef scaledTotalArg : String := \"?\"\n\n")
		return
	}
	var call *ast.CallExpr
	ast.Inspect(fd.Body, func(n ast.Node) bool {
		if ce, ok := n.(*ast.CallExpr); ok && strings.HasSuffix(exprString(ce.Fun), "GetScaledValueFromIntOrPercent") {
			call = ce
		}
		return true
	})
	placeholder := func() {
		fmt.Fprintf(g.out(group), "/-- NOT FOUND in the source (FACT-ERROR reported); placeholder so that the model still builds -/\ndef scaledRoundUp : Bool := true\ndef scaledTotalArg : String := \"?\"\n\n")
	}
	if call == nil || len(call.Args) != 3 {
		g.errf("Budget.GetAllowedDisruptions: call of GetScaledValueFromIntOrPercent not found")
		placeholder()
		return
	}
	tv, ok := p.TypesInfo.Types[call.Args[2]]
	if !ok || tv.Value == nil || tv.Value.Kind() != constant.Bool {
		g.errf("Budget.GetAllowedDisruptions: roundUp argument is not a constant")
		placeholder()
		return
	}
	fmt.Fprintf(g.out(group), "/-- the `roundUp` argument of `intstr.GetScaledValueFromIntOrPercent` in `Budget.GetAllowedDisruptions` (%s);\n    second argument: `%s` -/\ndef scaledRoundUp : Bool := %v\ndef scaledTotalArg : String := %s\n\n",
		g.pos(call.Pos()), types.ExprString(call.Args[1]), constant.BoolVal(tv.Value), leanStr(types.ExprString(call.Args[1])))
}

// c05MethodReason emits the string value returned by `(*M).Reason()`.
func (g *gen) c05MethodReason(group, pkgPath, method string) {
	p, fd := g.findFunc(pkgPath, method+".Reason")
	if fd == nil {
		fmt.Fprintf(g.out(group), "def reasonOf%s : String := \"?\"\n\n", method)
		return
	}
	var val string
	found := false
	ast.Inspect(fd.Body, func(n ast.Node) bool {
		if r, ok := n.(*ast.ReturnStmt); ok && len(r.Results) == 1 {
			if s, ok := g.constStr(p, r.Results[0]); ok {
				val, found = s, true
			}
		}
		return true
	})
	if !found {
		g.errf("%s.%s.Reason: no constant string result", pkgPath, method)
		fmt.Fprintf(g.out(group), "def reasonOf%s : String := \"?\"\n\n", method)
		return
	}
	fmt.Fprintf(g.out(group), "/-- `(*%s).Reason()` (%s) -/\ndef reasonOf%s : String := %s\n\n", method, g.pos(fd.Pos()), method, leanStr(val))
}

// c05MethodOrder: the constructors called, in order, inside the slice literal returned by NewMethods.
func (g *gen) c05MethodOrder(group, pkgPath string) {
	_, fd := g.findFunc(pkgPath, "NewMethods")
	if fd == nil {
		return
	}
	var order []string
	ast.Inspect(fd.Body, func(n ast.Node) bool {
		cl, ok := n.(*ast.CompositeLit)
		if !ok {
			return true
		}
		for _, el := range cl.Elts {
			if ce, ok := el.(*ast.CallExpr); ok {
				order = append(order, exprString(ce.Fun))
			}
		}
		return false
	})
	b := g.out(group)
	fmt.Fprintf(b, "/-- constructors in the slice returned by `%s.NewMethods` (%s), in order -/\ndef methodOrder : List String := [", pkgPath, g.pos(fd.Pos()))
	for i, s := range order {
		if i > 0 {
			b.WriteString(", ")
		}
		b.WriteString(leanStr(s))
	}
	b.WriteString("]\n\n")
}

// c05Marker emits the value of a `+marker:=value` / `+marker=value` / `+marker:key=value,...` line in the doc
// comment of a struct field.
func (g *gen) c05Marker(group, pkgPath, typ, field, marker, lean string) {
	p := g.pkg(pkgPath)
	if p == nil {
		return
	}
	for _, f := range p.Syntax {
		for _, d := range f.Decls {
			gd, ok := d.(*ast.GenDecl)
			if !ok {
				continue
			}
			for _, s := range gd.Specs {
				ts, ok := s.(*ast.TypeSpec)
				if !ok || ts.Name.Name != typ {
					continue
				}
				st, ok := ts.Type.(*ast.StructType)
				if !ok {
					continue
				}
				for _, fl := range st.Fields.List {
					for _, n := range fl.Names {
						if n.Name != field || fl.Doc == nil {
							continue
						}
						for _, c := range fl.Doc.List {
							line := strings.TrimSpace(strings.TrimPrefix(c.Text, "//"))
							if !strings.HasPrefix(line, "+"+marker) {
								continue
							}
							val := strings.TrimPrefix(line, "+"+marker)
							val = strings.TrimLeft(val, ":")
							val = strings.TrimPrefix(val, "=")
							if len(val) >= 2 && (val[0] == '"' || val[0] == '`') && val[len(val)-1] == val[0] {
								val = val[1 : len(val)-1]
							}
							fmt.Fprintf(g.out(group), "/-- marker `+%s` on `%s.%s.%s` (%s) -/\ndef %s : String := %s\n\n", marker, pkgPath, typ, field, g.pos(c.Pos()), lean, leanStr(val))
							return
						}
					}
				}
			}
		}
	}
	g.errf("%s.%s.%s: marker +%s not found", pkgPath, typ, field, marker)
}

// c05CompleteGuard looks at the call of `cluster.UnmarkForDeletion` inside `Queue.CompleteCommand` and emits the
// condition under which it runs (the conditions of all enclosing `if` statements, outermost first; "else(…)" for an
// else branch; "" = unconditional) and whether the candidates of a SUCCEEDED command are un-marked. A succeeded
// command has deleted its candidates' NodeClaims in the API, but the cluster state only learns of the
// deletionTimestamp when the informer delivers it: until then the in-memory mark is the only thing that makes the
// node count as "being deleted" for the budgets. The model follows this fact; `fact_completeGuard` pins it.
func (g *gen) c05CompleteGuard(group, pkgPath string) {
	_, fd := g.findFunc(pkgPath, "Queue.CompleteCommand")
	emit := func(unmarksSucceeded bool, guard string, pos token.Pos, note string) {
		fmt.Fprintf(g.out(group), "/-- the guard of `cluster.UnmarkForDeletion(candidates)` in `Queue.CompleteCommand` (%s)%s;\n    `completeUnmarksSucceeded`: are the candidates of a command that SUCCEEDED un-marked too? -/\ndef completeUnmarkGuard : String := %s\ndef completeUnmarksSucceeded : Bool := %v\n\n", g.pos(pos), note, leanStr(guard), unmarksSucceeded)
	}
	if fd == nil {
		g.errf("%s.Queue.CompleteCommand: function not found", pkgPath)
		emit(true, "?", token.NoPos, " — NOT FOUND (FACT-ERROR reported)")
		return
	}
	var stack []ast.Node
	var guards []string
	found := false
	var at token.Pos
	ast.Inspect(fd.Body, func(n ast.Node) bool {
		if n == nil {
			stack = stack[:len(stack)-1]
			return true
		}
		if ce, ok := n.(*ast.CallExpr); ok && !found && strings.HasSuffix(exprString(ce.Fun), "UnmarkForDeletion") {
			found, at = true, ce.Pos()
			for i, a := range stack {
				is, ok := a.(*ast.IfStmt)
				if !ok || i+1 >= len(stack) {
					continue
				}
				switch stack[i+1] {
				case ast.Node(is.Body):
					guards = append(guards, types.ExprString(is.Cond))
				case is.Else:
					guards = append(guards, "else("+types.ExprString(is.Cond)+")")
				}
			}
			// the last stack entry's relation to the call itself
			if len(stack) > 0 {
				if is, ok := stack[len(stack)-1].(*ast.IfStmt); ok && is.Cond == ast.Expr(ce) {
					guards = append(guards, "in-condition")
				}
			}
		}
		stack = append(stack, n)
		return true
	})
	if !found {
		g.errf("%s.Queue.CompleteCommand: no call of UnmarkForDeletion", pkgPath)
		emit(false, "absent", fd.Pos(), " — no such call (FACT-ERROR reported)")
		return
	}
	guard := strings.Join(guards, " && ")
	switch guard {
	case "!cmd.Succeeded":
		emit(false, guard, at, "")
	case "":
		emit(true, guard, at, " — unconditional")
	default:
		g.errf("%s.Queue.CompleteCommand: unknown guard `%s` around UnmarkForDeletion", pkgPath, guard)
		emit(true, guard, at, " — unknown guard (FACT-ERROR reported)")
	}
}

// c05ReasonsGuard looks at `if <guard> || lo.Contains(budget.Reasons, reason)` in GetAllowedDisruptionsByReason and
// emits whether a non-nil EMPTY reasons list counts as "lists none": `budget.Reasons == nil` (no: the code as found,
// known finding C05-empty-reasons) or `len(budget.Reasons) == 0` (yes: the proposed repair). The model follows this
// fact, so the check stays valid on either side of the repair.
func (g *gen) c05ReasonsGuard(group, pkgPath string) {
	_, fd := g.findFunc(pkgPath, "NodePool.GetAllowedDisruptionsByReason")
	emit := func(val bool, src string, pos token.Pos) {
		fmt.Fprintf(g.out(group), "/-- the \"lists no reason\" guard in `NodePool.GetAllowedDisruptionsByReason` (%s): `%s`;\n    true iff a non-nil empty `reasons` list counts as listing none -/\ndef emptyReasonsApply : Bool := %v\ndef reasonsGuard : String := %s\n\n", g.pos(pos), src, val, leanStr(src))
	}
	if fd == nil {
		emit(false, "?", token.NoPos)
		return
	}
	var guard ast.Expr
	var whole ast.Expr
	ast.Inspect(fd.Body, func(n ast.Node) bool {
		is, ok := n.(*ast.IfStmt)
		if !ok {
			return true
		}
		be, ok := is.Cond.(*ast.BinaryExpr)
		if ok && be.Op == token.LOR && strings.Contains(types.ExprString(be.Y), "Contains") {
			guard, whole = be.X, is.Cond
		}
		return true
	})
	if guard == nil {
		g.errf("NodePool.GetAllowedDisruptionsByReason: `<guard> || lo.Contains(...)` not found")
		emit(false, "?", fd.Pos())
		return
	}
	src := types.ExprString(whole)
	switch types.ExprString(guard) {
	case "budget.Reasons == nil":
		emit(false, src, guard.Pos())
	case "len(budget.Reasons) == 0":
		emit(true, src, guard.Pos())
	default:
		g.errf("NodePool.GetAllowedDisruptionsByReason: unknown reasons guard `%s`", types.ExprString(guard))
		emit(false, src, guard.Pos())
	}
}
