package main

import (
	"fmt"
	"go/ast"
	"go/constant"
	"go/token"
	"strings"

	"golang.org/x/tools/go/packages"
)

// ---- C14: NodeClaim lifecycle (launch once / finalizer first / Launched -> Registered -> Initialized) ----

const c14Group = "Lifecycle"
const c14Pkg = "pkg/controllers/nodeclaim/lifecycle"

func init() {
	register([]string{c14Pkg, "pkg/apis/v1", "pkg/scheduling"}, func(g *gen) {
		// durations as whole seconds
		g.c14Seconds(c14Pkg, "LaunchTimeout", "launchTimeoutSecs")
		g.c14Seconds(c14Pkg, "registrationTimeout", "registrationTimeoutSecs")
		// the launch cache: cache.New(<ttl>, <cleanup>) in NewController
		g.c14CallArgSeconds(c14Pkg, "NewController", "cache.New", 0, "launchCacheTTLSecs")
		// the sleep after the two patches (read-your-writes)
		g.c14CallArgSeconds(c14Pkg, "Controller.Reconcile", "c.clock.Sleep", 0, "postPatchSleepSecs")
		// sub-reconciler order inside Controller.Reconcile
		g.c14ReconcilerOrder()
		// call order inside Controller.Reconcile: finalizer, its patch, the sub-reconcilers, metadata patch, status patch
		g.callSeq(c14Group, c14Pkg, "Controller.Reconcile", "reconcileCallOrder",
			[]string{"finalize", "AddFinalizer", "Patch", "Status", "Reconcile", "Sleep"})
		// call order inside Launch.Reconcile: cache lookup before Create, cache store before Launched=True
		g.callSeq(c14Group, c14Pkg, "Launch.Reconcile", "launchCallOrder",
			[]string{"cache.Delete", "cache.Get", "launchNodeClaim", "cache.SetDefault", "PopulateNodeClaimDetails", "SetTrue"})
		// inside launchNodeClaim: Create, then per error class a Delete of the NodeClaim
		g.callSeq(c14Group, c14Pkg, "Launch.launchNodeClaim", "launchNodeClaimCallOrder",
			[]string{"Create", "IsInsufficientCapacityError", "IsNodeClassNotReadyError", "Delete", "SetUnknownWithReason", "SetTrue"})
		// Registration.Reconcile: node patch precedes Registered=True
		g.callSeq(c14Group, c14Pkg, "Registration.Reconcile", "registrationCallOrder",
			[]string{"NodeForNodeClaim", "syncNode", "Patch", "SetTrue", "SetFalse"})
		// Initialization.Reconcile: every precondition check precedes Initialized=True
		g.callSeq(c14Group, c14Pkg, "Initialization.Reconcile", "initializationCallOrder",
			[]string{"IsTrue", "NodeForNodeClaim", "GetCondition", "StartupTaintsRemoved", "KnownEphemeralTaintsRemoved", "RequestedResourcesRegistered", "draDriverPoolsPublished", "Patch", "SetTrue"})
		// Initialization.Reconcile: the guards on Node conditions, `GetCondition(node, <type>).Status <op> <status>`
		g.c14ConditionGates(c14Pkg, "Initialization.Reconcile", "initConditionGates")
		// Registration.Reconcile: how taints are told apart and removed (MatchTaint = key + effect; a whole-struct
		// comparison such as lo.Without / lo.Contains would also compare value and timeAdded)
		g.callSeq(c14Group, c14Pkg, "Registration.Reconcile", "registrationTaintCalls",
			[]string{"MatchTaint", "Reject", "Filter", "Without", "Contains", "IndexOf", "Difference"})
		// Liveness.Reconcile: per deadline, the NodePool bookkeeping, how its error is filtered, then the delete
		g.callSeq(c14Group, c14Pkg, "Liveness.Reconcile", "livenessCallOrder",
			[]string{"updateNodePoolRegistrationHealth", "IgnoreNotFound", "IsConflict", "deleteNodeClaimForTimeout"})
		// updateNodePoolRegistrationHealth: calls that build a new error (and may thereby drop the API status of the
		// NodePool read, which the callers inspect with IgnoreNotFound / IsConflict)
		errMakers := []string{"Errorf", "New", "Append", "Combine", "Join", "Wrap", "Wrapf"}
		g.callSeq(c14Group, c14Pkg, "Liveness.updateNodePoolRegistrationHealth", "livenessPoolHealthErrorCalls", errMakers)
		g.callSeq(c14Group, c14Pkg, "Registration.updateNodePoolRegistrationHealth", "registrationPoolHealthErrorCalls", errMakers)
		// Registration.syncNode: what the value of the do-not-sync-taints label is compared with
		g.c14LabelComparisons(c14Pkg, "Registration.syncNode", "doNotSyncComparisons")
		// truncateMessage (provider error text -> event / LaunchFailed condition message): what the length guard measures
		// and what the cut slices (both the string itself, i.e. bytes), and the limit
		g.c14Truncate(c14Pkg, "truncateMessage")
		// taints and labels
		g.strConst(c14Group, "pkg/apis/v1", "UnregisteredTaintKey", "unregisteredTaintKey")
		g.c14TaintVar("pkg/apis/v1", "UnregisteredNoExecuteTaint", "unregisteredTaint")
		g.c14TaintList("pkg/scheduling", "KnownEphemeralTaints", "knownEphemeralTaints")
		g.c14StrList("pkg/scheduling", "KnownEphemeralTaintKeyPrefixes", "knownEphemeralTaintKeyPrefixes")
		g.strConst(c14Group, "pkg/apis/v1", "TerminationFinalizer", "terminationFinalizer")
		g.strConst(c14Group, "pkg/apis/v1", "NodeRegisteredLabelKey", "nodeRegisteredLabelKey")
		g.strConst(c14Group, "pkg/apis/v1", "NodeInitializedLabelKey", "nodeInitializedLabelKey")
		g.strConst(c14Group, "pkg/apis/v1", "ConditionTypeLaunched", "condLaunched")
		g.strConst(c14Group, "pkg/apis/v1", "ConditionTypeRegistered", "condRegistered")
		g.strConst(c14Group, "pkg/apis/v1", "ConditionTypeInitialized", "condInitialized")
	})
}

// c14Seconds emits a duration constant (const, or var with a constant initializer) in whole seconds.
func (g *gen) c14Seconds(pkgPath, name, lean string) {
	v, pos, ok := g.constVal(pkgPath, name)
	if !ok {
		return
	}
	g.c14EmitSeconds(v, fmt.Sprintf("`%s.%s` (%s)", pkgPath, name, g.pos(pos)), lean)
}

func (g *gen) c14EmitSeconds(v constant.Value, what, lean string) {
	ns, exact := constant.Int64Val(constant.ToInt(v))
	if !exact || ns < 0 || ns%1_000_000_000 != 0 {
		g.errf("%s: not a whole non-negative number of seconds: %s", what, v)
		return
	}
	fmt.Fprintf(g.out(c14Group), "/-- %s, in seconds -/\ndef %s : Nat := %d\n\n", what, lean, ns/1_000_000_000)
}

// c14Truncate emits, for the message-truncating function fn: every comparison `len(<x>) <op> <const>` as
// (x, op, const) and every slice expression `<x>[lo:hi]` with constant bounds as (x, lo, hi) (an absent bound is 0 for
// lo; an absent hi is not emitted as a constant: the slice is then listed with hi = 0), in source order. A guard on
// len(msg) with a cut of msg itself measures and cuts the same thing (bytes); a cut of a converted value ([]rune(msg))
// under a guard on len(msg) does not.
func (g *gen) c14Truncate(pkgPath, fn string) {
	p, fd := g.findFunc(pkgPath, fn)
	if fd == nil {
		return
	}
	intOf := func(e ast.Expr) (int64, bool) {
		if e == nil {
			return 0, true
		}
		tv, ok := p.TypesInfo.Types[e]
		if !ok || tv.Value == nil {
			return 0, false
		}
		return constant.Int64Val(constant.ToInt(tv.Value))
	}
	var guards, slices []string
	ast.Inspect(fd.Body, func(n ast.Node) bool {
		switch x := n.(type) {
		case *ast.BinaryExpr:
			ce, ok := x.X.(*ast.CallExpr)
			if !ok || exprString(ce.Fun) != "len" || len(ce.Args) != 1 {
				return true
			}
			v, ok := intOf(x.Y)
			if !ok {
				g.errf("%s.%s: %s: length compared with a non-constant", pkgPath, fn, g.pos(x.Pos()))
				return true
			}
			guards = append(guards, fmt.Sprintf("(%s, %s, %d)", leanStr(exprString(ce.Args[0])), leanStr(x.Op.String()), v))
		case *ast.SliceExpr:
			lo, ok1 := intOf(x.Low)
			hi, ok2 := intOf(x.High)
			if !ok1 || !ok2 {
				g.errf("%s.%s: %s: slice bound is not constant", pkgPath, fn, g.pos(x.Pos()))
				return true
			}
			slices = append(slices, fmt.Sprintf("(%s, %d, %d)", leanStr(exprString(x.X)), lo, hi))
		}
		return true
	})
	b := g.out(c14Group)
	fmt.Fprintf(b, "/-- the comparisons `len(<x>) <op> <constant>` inside `%s.%s` (%s): (x, op, constant) -/\ndef truncateGuards : List (String × String × Nat) := [%s]\n\n",
		pkgPath, fn, g.pos(fd.Pos()), strings.Join(guards, ", "))
	fmt.Fprintf(b, "/-- the slice expressions `<x>[lo:hi]` inside `%s.%s`: (x, lo, hi) -/\ndef truncateSlices : List (String × Nat × Nat) := [%s]\n\n",
		pkgPath, fn, strings.Join(slices, ", "))
	if len(slices) == 1 {
		var hi int64
		fmt.Sscanf(slices[0][strings.LastIndex(slices[0], ",")+1:], "%d)", &hi)
		fmt.Fprintf(b, "/-- the cut of `%s.%s`: bytes kept before the \"...\" -/\ndef truncateLimit : Nat := %d\n\n", pkgPath, fn, hi)
	} else {
		g.errf("%s.%s: expected exactly one slice expression, found %d", pkgPath, fn, len(slices))
	}
}

// c14CallArgSeconds finds the first call to `callee` inside fn and emits its idx-th argument (a constant duration).
func (g *gen) c14CallArgSeconds(pkgPath, fn, callee string, idx int, lean string) {
	p, fd := g.findFunc(pkgPath, fn)
	if fd == nil {
		return
	}
	var found *ast.CallExpr
	ast.Inspect(fd.Body, func(n ast.Node) bool {
		if ce, ok := n.(*ast.CallExpr); ok && found == nil && exprString(ce.Fun) == callee {
			found = ce
		}
		return found == nil
	})
	if found == nil || len(found.Args) <= idx {
		g.errf("%s.%s: call %s not found", pkgPath, fn, callee)
		return
	}
	tv, ok := p.TypesInfo.Types[found.Args[idx]]
	if !ok || tv.Value == nil {
		g.errf("%s.%s: argument %d of %s is not constant", pkgPath, fn, idx, callee)
		return
	}
	g.c14EmitSeconds(tv.Value, fmt.Sprintf("argument %d of `%s` in `%s.%s` (%s)", idx, callee, pkgPath, fn, g.pos(found.Pos())), lean)
}

// c14ReconcilerOrder emits the field names of the sub-reconciler slice literal ranged over in Controller.Reconcile.
func (g *gen) c14ReconcilerOrder() {
	_, fd := g.findFunc(c14Pkg, "Controller.Reconcile")
	if fd == nil {
		return
	}
	var names []string
	var pos token.Pos
	ast.Inspect(fd.Body, func(n ast.Node) bool {
		rs, ok := n.(*ast.RangeStmt)
		if !ok {
			return true
		}
		cl, ok := rs.X.(*ast.CompositeLit)
		if !ok {
			return true
		}
		if _, isArr := cl.Type.(*ast.ArrayType); !isArr {
			return true
		}
		if names != nil {
			g.errf("%s.Controller.Reconcile: more than one sub-reconciler loop", c14Pkg)
		}
		pos = cl.Pos()
		for _, e := range cl.Elts {
			s := exprString(e)
			names = append(names, strings.TrimPrefix(s, "c."))
		}
		return true
	})
	if names == nil {
		g.errf("%s.Controller.Reconcile: sub-reconciler slice literal not found", c14Pkg)
		return
	}
	b := g.out(c14Group)
	fmt.Fprintf(b, "/-- the sub-reconcilers `Controller.Reconcile` runs, in order (%s) -/\ndef subReconcilers : List String := [", g.pos(pos))
	for i, s := range names {
		if i > 0 {
			b.WriteString(", ")
		}
		b.WriteString(leanStr(s))
	}
	b.WriteString("]\n\n")
}

// c14ConditionGates emits every comparison `GetCondition(x, <type>).Status ==/!= <status>` inside fn, in source order,
// as (condition type, operator, status) with the constants resolved to their string values.
func (g *gen) c14ConditionGates(pkgPath, fn, lean string) {
	p, fd := g.findFunc(pkgPath, fn)
	if fd == nil {
		return
	}
	type gate struct{ typ, op, status string }
	var gates []gate
	statusOf := func(e ast.Expr) (string, bool) { // GetCondition(x, T).Status -> T
		se, ok := e.(*ast.SelectorExpr)
		if !ok || se.Sel.Name != "Status" {
			return "", false
		}
		ce, ok := se.X.(*ast.CallExpr)
		if !ok || !(exprString(ce.Fun) == "GetCondition" || strings.HasSuffix(exprString(ce.Fun), ".GetCondition")) || len(ce.Args) != 2 {
			return "", false
		}
		return g.constStr(p, ce.Args[1])
	}
	ast.Inspect(fd.Body, func(n ast.Node) bool {
		be, ok := n.(*ast.BinaryExpr)
		if !ok || (be.Op != token.EQL && be.Op != token.NEQ) {
			return true
		}
		for _, sides := range [][2]ast.Expr{{be.X, be.Y}, {be.Y, be.X}} {
			typ, ok := statusOf(sides[0])
			if !ok {
				continue
			}
			st, ok := g.constStr(p, sides[1])
			if !ok {
				g.errf("%s.%s: %s: a Node condition status is compared with a non-constant", pkgPath, fn, g.pos(be.Pos()))
				return true
			}
			gates = append(gates, gate{typ, be.Op.String(), st})
			break
		}
		return true
	})
	b := g.out(c14Group)
	fmt.Fprintf(b, "/-- the comparisons `GetCondition(node, <type>).Status <op> <status>` inside `%s.%s` (%s): (type, op, status) -/\ndef %s : List (String × String × String) := [", pkgPath, fn, g.pos(fd.Pos()), lean)
	for i, x := range gates {
		if i > 0 {
			b.WriteString(", ")
		}
		fmt.Fprintf(b, "(%s, %s, %s)", leanStr(x.typ), leanStr(x.op), leanStr(x.status))
	}
	b.WriteString("]\n\n")
}

// c14LabelComparisons emits, for every `v, ok := x.Labels[<key>]` (init of an if statement or a plain assignment)
// inside fn, the comparisons `v ==/!= <constant string>` made in fn: (key constant's name, operator, string).
func (g *gen) c14LabelComparisons(pkgPath, fn, lean string) {
	p, fd := g.findFunc(pkgPath, fn)
	if fd == nil {
		return
	}
	vars := map[string]string{} // variable holding a label value -> name of the key constant
	ast.Inspect(fd.Body, func(n ast.Node) bool {
		as, ok := n.(*ast.AssignStmt)
		if !ok || len(as.Rhs) != 1 || len(as.Lhs) == 0 {
			return true
		}
		ie, ok := as.Rhs[0].(*ast.IndexExpr)
		if !ok || !strings.HasSuffix(exprString(ie.X), ".Labels") {
			return true
		}
		id, ok := as.Lhs[0].(*ast.Ident)
		if !ok || id.Name == "_" {
			return true
		}
		key := exprString(ie.Index)
		if i := strings.LastIndex(key, "."); i >= 0 {
			key = key[i+1:]
		}
		vars[id.Name] = key
		return true
	})
	type cmp struct{ key, op, val string }
	var cmps []cmp
	ast.Inspect(fd.Body, func(n ast.Node) bool {
		be, ok := n.(*ast.BinaryExpr)
		if !ok || (be.Op != token.EQL && be.Op != token.NEQ) {
			return true
		}
		for _, sides := range [][2]ast.Expr{{be.X, be.Y}, {be.Y, be.X}} {
			id, ok := sides[0].(*ast.Ident)
			if !ok {
				continue
			}
			key, ok := vars[id.Name]
			if !ok {
				continue
			}
			val, ok := g.constStr(p, sides[1])
			if !ok {
				g.errf("%s.%s: %s: a label value is compared with a non-constant", pkgPath, fn, g.pos(be.Pos()))
				return true
			}
			cmps = append(cmps, cmp{key, be.Op.String(), val})
			break
		}
		return true
	})
	b := g.out(c14Group)
	fmt.Fprintf(b, "/-- the comparisons of a label's value with a constant inside `%s.%s` (%s): (key constant, op, value) -/\ndef %s : List (String × String × String) := [", pkgPath, fn, g.pos(fd.Pos()), lean)
	for i, x := range cmps {
		if i > 0 {
			b.WriteString(", ")
		}
		fmt.Fprintf(b, "(%s, %s, %s)", leanStr(x.key), leanStr(x.op), leanStr(x.val))
	}
	b.WriteString("]\n\n")
}

func (g *gen) c14FindVar(pkgPath, name string) (*packages.Package, ast.Expr, token.Pos) {
	p := g.pkg(pkgPath)
	if p == nil {
		return nil, nil, 0
	}
	for _, f := range p.Syntax {
		for _, d := range f.Decls {
			gd, ok := d.(*ast.GenDecl)
			if !ok {
				continue
			}
			for _, s := range gd.Specs {
				vs, ok := s.(*ast.ValueSpec)
				if !ok {
					continue
				}
				for i, n := range vs.Names {
					if n.Name == name && i < len(vs.Values) {
						return p, vs.Values[i], n.Pos()
					}
				}
			}
		}
	}
	g.errf("%s.%s: var not found", pkgPath, name)
	return nil, nil, 0
}

// c14Taint evaluates a corev1.Taint expression: a composite literal with constant Key/Effect, or a reference to a
// package-level var of karpenter that is such a literal.
func (g *gen) c14Taint(p *packages.Package, e ast.Expr) (key, effect string, ok bool) {
	switch v := e.(type) {
	case *ast.CompositeLit:
		for _, el := range v.Elts {
			kv, isKV := el.(*ast.KeyValueExpr)
			if !isKV {
				return "", "", false
			}
			s, isStr := g.constStr(p, kv.Value)
			switch exprString(kv.Key) {
			case "Key":
				if !isStr {
					return "", "", false
				}
				key = s
			case "Effect":
				if !isStr {
					return "", "", false
				}
				effect = s
			}
		}
		return key, effect, key != ""
	case *ast.SelectorExpr, *ast.Ident:
		var id *ast.Ident
		if se, isSel := v.(*ast.SelectorExpr); isSel {
			id = se.Sel
		} else {
			id = v.(*ast.Ident)
		}
		obj := p.TypesInfo.Uses[id]
		if obj == nil || obj.Pkg() == nil {
			return "", "", false
		}
		rel := strings.TrimPrefix(obj.Pkg().Path(), "sigs.k8s.io/karpenter/")
		p2, init, _ := g.c14FindVar(rel, obj.Name())
		if init == nil {
			return "", "", false
		}
		return g.c14Taint(p2, init)
	}
	return "", "", false
}

func (g *gen) c14TaintVar(pkgPath, name, lean string) {
	p, init, pos := g.c14FindVar(pkgPath, name)
	if init == nil {
		return
	}
	k, e, ok := g.c14Taint(p, init)
	if !ok {
		g.errf("%s.%s: not a constant taint literal", pkgPath, name)
		return
	}
	fmt.Fprintf(g.out(c14Group), "/-- `%s.%s` (%s): (key, effect) -/\ndef %s : String × String := (%s, %s)\n\n", pkgPath, name, g.pos(pos), lean, leanStr(k), leanStr(e))
}

func (g *gen) c14TaintList(pkgPath, name, lean string) {
	p, init, pos := g.c14FindVar(pkgPath, name)
	if init == nil {
		return
	}
	cl, ok := init.(*ast.CompositeLit)
	if !ok {
		g.errf("%s.%s: not a composite literal", pkgPath, name)
		return
	}
	b := g.out(c14Group)
	fmt.Fprintf(b, "/-- `%s.%s` (%s): (key, effect) in source order; values are not compared by `MatchTaint` -/\ndef %s : List (String × String) := [", pkgPath, name, g.pos(pos), lean)
	for i, el := range cl.Elts {
		k, e, ok := g.c14Taint(p, el)
		if !ok {
			g.errf("%s.%s: element %d is not a constant taint", pkgPath, name, i)
			continue
		}
		if i > 0 {
			b.WriteString(",")
		}
		fmt.Fprintf(b, "\n  (%s, %s)", leanStr(k), leanStr(e))
	}
	b.WriteString("]\n\n")
}

// c14StrList emits a []string literal in source order.
func (g *gen) c14StrList(pkgPath, name, lean string) {
	p, init, pos := g.c14FindVar(pkgPath, name)
	if init == nil {
		return
	}
	cl, ok := init.(*ast.CompositeLit)
	if !ok {
		g.errf("%s.%s: not a composite literal", pkgPath, name)
		return
	}
	b := g.out(c14Group)
	fmt.Fprintf(b, "/-- `%s.%s` (%s) -/\ndef %s : List String := [", pkgPath, name, g.pos(pos), lean)
	for i, el := range cl.Elts {
		s, ok := g.constStr(p, el)
		if !ok {
			g.errf("%s.%s: element %d is not a constant string", pkgPath, name, i)
			continue
		}
		if i > 0 {
			b.WriteString(", ")
		}
		b.WriteString(leanStr(s))
	}
	b.WriteString("]\n\n")
}
