// kdebug: re-run the scenario of a whole-pass replay (optionally restricted to some pending pods) through the real
// scheduler and print the outcome together with the topology group counters (verif hook).
package main

import (
	"context"
	"encoding/json"
	"flag"
	"fmt"
	"os"
	"strings"

	corev1 "k8s.io/api/core/v1"
	"k8s.io/apimachinery/pkg/types"
	"k8s.io/apimachinery/pkg/util/sets"
	provsched "sigs.k8s.io/karpenter/pkg/controllers/provisioning/scheduling"

	"verifharness/internal/world"
)

func main() {
	replay := flag.String("replay", "", "replay file")
	only := flag.String("only", "", "comma separated pending pod names to keep")
	flag.Parse()
	b, err := os.ReadFile(*replay)
	if err != nil {
		panic(err)
	}
	var r struct {
		In json.RawMessage `json:"in"`
	}
	json.Unmarshal(b, &r)
	var s world.Scenario
	json.Unmarshal(r.In, &s)
	if *only != "" {
		keep := map[string]bool{}
		for _, n := range strings.Split(*only, ",") {
			keep[n] = true
		}
		var ps []world.Pod
		for _, p := range s.Pods {
			if keep[p.Name] {
				ps = append(ps, p)
			}
		}
		s.Pods = ps
	}
	w, err := world.Build(&s)
	if err != nil {
		panic(err)
	}
	var pl corev1.PodList
	w.Client.List(context.Background(), &pl)
	var pods []*corev1.Pod
	for i := range pl.Items {
		if pl.Items[i].Spec.NodeName == "" {
			pods = append(pods, &pl.Items[i])
		}
	}
	nodes := w.Cluster.DeepCopyNodes()
	sch, err := w.Prov.NewScheduler(w.Ctx, pods, nodes.Active(), sets.New[types.UID](), provsched.DisableReservedCapacityFallback)
	if err != nil {
		panic(err)
	}
	res, _ := sch.Solve(w.Ctx, pods)
	o := world.Extract(res)
	for _, e := range o.Existing {
		fmt.Println("EXISTING", e.Node, e.Pods)
	}
	for _, c := range o.Claims {
		fmt.Println("CLAIM", c.Pool, c.Pods, c.InstanceTypes, "zone", c.Reqs["topology.kubernetes.io/zone"].Values, "ct", c.Reqs["karpenter.sh/capacity-type"].Values)
	}
	fmt.Println("ERRORS", o.Errors)
	for _, g := range sch.VerifTopology().VerifGroups() {
		md := "nil"
		if g.MinDomains != nil {
			md = fmt.Sprint(*g.MinDomains)
		}
		fmt.Printf("GROUP %s key=%s maxSkew=%d minDomains=%s inverse=%v owners=%d domains=%v\n", g.Type, g.Key, g.MaxSkew, md, g.Inverse, g.Owners, g.Domains)
	}
}
