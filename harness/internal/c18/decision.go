package c18

// c18.simdecide: whole disruption decisions. The REAL Drift / SingleNodeConsolidation / MultiNodeConsolidation
// .ComputeCommands are run on candidates from the real GetCandidates; each runs many scheduling simulations (one per
// candidate until one works, or a binary search over prefixes of the candidate list) plus the price / instance-type
// post-processing of computeConsolidation, and — with the real validators — the re-simulation after the validation delay.
// A decision is only computed here, never executed (that is Queue.StartCommand): the world must be as it was.

import (
	"context"
	"encoding/json"
	"fmt"
	"math/rand/v2"
	"strings"
	"time"

	"sigs.k8s.io/karpenter/pkg/controllers/disruption"

	"verifharness/internal/core"
	"verifharness/internal/world"
)

type Decision struct {
	Method    string `json:"method"`    // drift | single | multi
	Validator string `json:"validator"` // pass | real
	Mode      string `json:"mode"`      // ok | cancelled | deadline | expire
	After     int    `json:"after"`
	Budget    int    `json:"budget"` // allowed disruptions per NodePool
}

type DecIn struct {
	Scn       world.Scenario `json:"scn"`
	Ext       Ext            `json:"ext"`
	Want      []string       `json:"want"`
	Decisions []Decision     `json:"decisions"`
}

// passValidator accepts every command immediately (the validation delay and re-simulation are the "real" variant)
type passValidator struct{}

func (passValidator) Validate(_ context.Context, cmd disruption.Command, _ time.Duration) (disruption.Command, error) {
	return cmd, nil
}

func implDecide(raw json.RawMessage) (any, error) {
	var in DecIn
	if err := json.Unmarshal(raw, &in); err != nil {
		return nil, err
	}
	e, err := BuildEnv(&in.Scn, &in.Ext)
	if err != nil {
		return nil, err
	}
	// the consolidation methods read (and lazily initialise) the cluster's consolidation timestamp: not part of a simulation
	e.W.Cluster.ConsolidationState()
	cands, err := e.candidates(in.Want)
	if err != nil {
		return nil, err
	}
	out := &SimOut{Now: e.W.Clock.Now().UnixNano(), Candidates: []string{}, Snaps: []Snapshot{}, Vals: []Values{}, Runs: []RunOut{}}
	for _, c := range cands {
		out.Candidates = append(out.Candidates, c.Name())
	}
	if out.Ignored, err = e.ignoredPods(); err != nil {
		return nil, err
	}
	take := func() (int, error) {
		s, err := e.Take(cands)
		if err != nil {
			return 0, err
		}
		v, err := e.TakeValues()
		if err != nil {
			return 0, err
		}
		out.Snaps = append(out.Snaps, s)
		out.Vals = append(out.Vals, v)
		return len(out.Snaps) - 1, nil
	}
	cur, err := take()
	if err != nil {
		return nil, err
	}
	cons := disruption.MakeConsolidation(e.W.Clock, e.W.Cluster, e.Client, e.Prov, e.CP, e.Rec, e.Queue)
	for _, d := range in.Decisions {
		var m disruption.Method
		switch d.Method {
		case "drift":
			m = disruption.NewDrift(e.Client, e.W.Cluster, e.Prov, e.Rec, e.W.Clock)
		case "single":
			if d.Validator == "real" {
				m = disruption.NewSingleNodeConsolidation(cons)
			} else {
				m = disruption.NewSingleNodeConsolidation(cons, disruption.WithValidator(passValidator{}))
			}
		case "multi":
			if d.Validator == "real" {
				m = disruption.NewMultiNodeConsolidation(cons)
			} else {
				m = disruption.NewMultiNodeConsolidation(cons, disruption.WithValidator(passValidator{}))
			}
		default:
			return nil, fmt.Errorf("bad method %q", d.Method)
		}
		budgets := map[string]int{}
		for _, np := range in.Scn.Pools {
			budgets[np.Name] = d.Budget
		}
		ro := RunOut{Before: cur, Candidates: append([]string{}, out.Candidates...)}
		ctx, cancel := e.ctxFor(d.Mode, d.After)
		w0, ev0 := e.Writes.Load(), len(e.Rec.Events())
		type result struct {
			cmds []disruption.Command
			err  error
		}
		done := make(chan result, 1)
		args := append([]*disruption.Candidate{}, cands...)
		go func() {
			defer func() {
				if r := recover(); r != nil {
					done <- result{nil, fmt.Errorf("panic: %v", r)}
				}
			}()
			cmds, err := m.ComputeCommands(ctx, budgets, args...)
			done <- result{cmds, err}
		}()
		var res result
		stepped := 0
	wait:
		for {
			select {
			case res = <-done:
				break wait
			default:
				// the real validators sleep on the (fake) clock for the validation delay: let it pass
				if e.W.Clock.HasWaiters() && stepped < 8 {
					e.W.Clock.Step(20 * time.Second)
					stepped++
				} else {
					time.Sleep(200 * time.Microsecond)
				}
			}
		}
		cancel()
		ro.Writes, ro.Events = e.Writes.Load()-w0, len(e.Rec.Events())-ev0
		switch {
		case res.err != nil && strings.HasPrefix(res.err.Error(), "panic:"):
			ro.Class = "panic"
		case res.err != nil:
			ro.Class = "error"
		case len(res.cmds) == 0:
			ro.Class = "no-command"
		default:
			ro.Class = string(res.cmds[0].Decision())
			ro.NewClaims = len(res.cmds[0].Replacements)
			ro.Placed = len(res.cmds[0].Candidates)
		}
		if stepped > 0 {
			// the clock moved during the validation delay (the harness's doing): compare against a snapshot at the new time
			// only where time matters (nothing is nominated in these worlds, so nothing else differs)
			ro.Class += "+validated"
		}
		if cur, err = take(); err != nil {
			return nil, err
		}
		ro.After = cur
		out.Runs = append(out.Runs, ro)
	}
	return out, nil
}

func genDecide(r *rand.Rand, t core.Tier) any {
	s, ext := genWorld(r, t)
	// consolidation needs somewhere cheaper to go: make most nodes lightly loaded and keep a cheap instance type around
	for i := range s.Nodes {
		if r.Float64() < 0.5 && len(s.Nodes[i].Pods) > 1 {
			s.Nodes[i].Pods = s.Nodes[i].Pods[:1]
		}
	}
	ext.Consolidatable = r.Float64() < 0.8
	ext.SpotToSpot = r.Float64() < 0.3
	in := DecIn{Scn: *s, Ext: *ext, Want: nodeNames(s)}
	k := 1 + r.IntN(3)
	for i := 0; i < k; i++ {
		d := Decision{Method: []string{"drift", "single", "multi", "multi"}[r.IntN(4)], Validator: "pass", Mode: "ok", Budget: []int{0, 1, 10, 10, 10, 10}[r.IntN(6)]}
		if r.Float64() < 0.35 {
			d.Validator = "real"
		}
		switch x := r.Float64(); {
		case x < 0.07:
			d.Mode = "cancelled"
		case x < 0.14:
			d.Mode = "deadline"
		case x < 0.3:
			d.Mode = "expire"
			d.After = r.IntN(30)
		}
		if d.Method == "drift" && !ext.Consolidatable {
			d.Method = "single"
		}
		in.Decisions = append(in.Decisions, d)
	}
	return in
}

func decLabels(raw json.RawMessage, impl any) []string {
	var in DecIn
	json.Unmarshal(raw, &in)
	l := simLabels(raw, impl)
	for _, d := range in.Decisions {
		l = append(l, "method:"+d.Method, "validator:"+d.Validator, "mode:"+d.Mode, fmt.Sprintf("budget=%d", d.Budget))
	}
	return l
}

func decNontrivial(_ json.RawMessage, impl any) bool {
	m, _ := impl.(map[string]any)
	runs, _ := m["runs"].([]any)
	for _, x := range runs {
		rm, _ := x.(map[string]any)
		c, _ := rm["class"].(string)
		if len(c) >= 6 && (c[:6] == "delete" || c[:7] == "replace") {
			return true
		}
	}
	return false
}

func shrinkDec(raw json.RawMessage) []any {
	var in DecIn
	json.Unmarshal(raw, &in)
	var out []any
	for _, c := range core.ShrinkList(in.Decisions) {
		if len(c) == 0 {
			continue
		}
		x := in
		x.Decisions = c
		out = append(out, x)
	}
	for _, c := range core.ShrinkList(in.Scn.Pods) {
		x := in
		x.Scn.Pods = c
		out = append(out, x)
	}
	for _, c := range core.ShrinkList(in.Scn.Nodes) {
		x := in
		x.Scn.Nodes = c
		if x.Scn.Nodes == nil {
			x.Scn.Nodes = []world.Node{}
		}
		out = append(out, x)
	}
	for i := range in.Scn.Nodes {
		for _, c := range core.ShrinkList(in.Scn.Nodes[i].Pods) {
			x := in
			x.Scn.Nodes = append([]world.Node{}, in.Scn.Nodes...)
			x.Scn.Nodes[i].Pods = c
			out = append(out, x)
		}
	}
	return out
}
