package c18

// Snapshot of everything the property calls observable: every API object, the whole state.Cluster (every field of the
// Cluster and of every StateNode, plus every exported accessor), the cloud provider's catalogue (every field of every
// InstanceType / Offering and the order of the slices handed out by GetInstanceTypes), and the shared inputs of a
// simulation (the Candidate objects, which the disruption controller re-uses across many simulations).

import (
	"crypto/sha256"
	"encoding/hex"
	"encoding/json"
	"fmt"
	"sort"
	"strings"

	appsv1 "k8s.io/api/apps/v1"
	corev1 "k8s.io/api/core/v1"
	policyv1 "k8s.io/api/policy/v1"
	resourcev1 "k8s.io/api/resource/v1"
	storagev1 "k8s.io/api/storage/v1"
	metav1 "k8s.io/apimachinery/pkg/apis/meta/v1"
	"k8s.io/apimachinery/pkg/types"
	"sigs.k8s.io/controller-runtime/pkg/client"

	autoscalingv1beta1 "sigs.k8s.io/karpenter/pkg/apis/autoscaling/v1beta1"
	v1 "sigs.k8s.io/karpenter/pkg/apis/v1"
	"sigs.k8s.io/karpenter/pkg/apis/v1alpha1"
	"sigs.k8s.io/karpenter/pkg/cloudprovider"
	"sigs.k8s.io/karpenter/pkg/controllers/disruption"
	"sigs.k8s.io/karpenter/pkg/controllers/state"
)

// fields of state.Cluster that are links out of the world rather than state (the API client, the cloud provider handle,
// the clock); everything else is digested field by field
var clusterLinks = map[string]bool{"kubeClient": true, "cloudProvider": true, "clock": true, "nodes": true}

func jsonDigest(x any) string {
	b, err := json.Marshal(x)
	if err != nil {
		return "marshal-error:" + err.Error()
	}
	h := sha256.Sum256(b)
	return hex.EncodeToString(h[:8])
}

func apiEntries(e *Env, out Snapshot) (Snapshot, error) {
	c := e.W.Client
	add := func(kind string, o client.Object) {
		out = append(out, Entry{"api", kind + "/" + o.GetNamespace() + "/" + o.GetName(), "object", jsonDigest(o)})
	}
	var pods corev1.PodList
	if err := c.List(e.Ctx, &pods); err != nil {
		return nil, err
	}
	for i := range pods.Items {
		add("Pod", &pods.Items[i])
	}
	var nodes corev1.NodeList
	if err := c.List(e.Ctx, &nodes); err != nil {
		return nil, err
	}
	for i := range nodes.Items {
		add("Node", &nodes.Items[i])
	}
	var ncs v1.NodeClaimList
	if err := c.List(e.Ctx, &ncs); err != nil {
		return nil, err
	}
	for i := range ncs.Items {
		add("NodeClaim", &ncs.Items[i])
	}
	var nps v1.NodePoolList
	if err := c.List(e.Ctx, &nps); err != nil {
		return nil, err
	}
	for i := range nps.Items {
		add("NodePool", &nps.Items[i])
	}
	var dss appsv1.DaemonSetList
	if err := c.List(e.Ctx, &dss); err != nil {
		return nil, err
	}
	for i := range dss.Items {
		add("DaemonSet", &dss.Items[i])
	}
	var pdbs policyv1.PodDisruptionBudgetList
	if err := c.List(e.Ctx, &pdbs); err != nil {
		return nil, err
	}
	for i := range pdbs.Items {
		add("PodDisruptionBudget", &pdbs.Items[i])
	}
	var pvcs corev1.PersistentVolumeClaimList
	if err := c.List(e.Ctx, &pvcs); err != nil {
		return nil, err
	}
	for i := range pvcs.Items {
		add("PersistentVolumeClaim", &pvcs.Items[i])
	}
	var pvs corev1.PersistentVolumeList
	if err := c.List(e.Ctx, &pvs); err != nil {
		return nil, err
	}
	for i := range pvs.Items {
		add("PersistentVolume", &pvs.Items[i])
	}
	var scs storagev1.StorageClassList
	if err := c.List(e.Ctx, &scs); err != nil {
		return nil, err
	}
	for i := range scs.Items {
		add("StorageClass", &scs.Items[i])
	}
	var csis storagev1.CSINodeList
	if err := c.List(e.Ctx, &csis); err != nil {
		return nil, err
	}
	for i := range csis.Items {
		add("CSINode", &csis.Items[i])
	}
	var svcs corev1.ServiceList
	if err := c.List(e.Ctx, &svcs); err != nil {
		return nil, err
	}
	for i := range svcs.Items {
		add("Service", &svcs.Items[i])
	}
	var evs corev1.EventList
	if err := c.List(e.Ctx, &evs); err != nil {
		return nil, err
	}
	for i := range evs.Items {
		add("Event", &evs.Items[i])
	}
	if e.Ext != nil && e.Ext.DRA != nil {
		var rcs resourcev1.ResourceClaimList
		if err := c.List(e.Ctx, &rcs); err != nil {
			return nil, err
		}
		for i := range rcs.Items {
			add("ResourceClaim", &rcs.Items[i])
		}
		var rss resourcev1.ResourceSliceList
		if err := c.List(e.Ctx, &rss); err != nil {
			return nil, err
		}
		for i := range rss.Items {
			add("ResourceSlice", &rss.Items[i])
		}
		var dcs resourcev1.DeviceClassList
		if err := c.List(e.Ctx, &dcs); err != nil {
			return nil, err
		}
		for i := range dcs.Items {
			add("DeviceClass", &dcs.Items[i])
		}
	}
	if e.Store != nil {
		var ovs v1alpha1.NodeOverlayList
		if err := c.List(e.Ctx, &ovs); err != nil {
			return nil, err
		}
		for i := range ovs.Items {
			add("NodeOverlay", &ovs.Items[i])
		}
	}
	if e.VPods != nil {
		var cbs autoscalingv1beta1.CapacityBufferList
		if err := c.List(e.Ctx, &cbs); err != nil {
			return nil, err
		}
		for i := range cbs.Items {
			add("CapacityBuffer", &cbs.Items[i])
		}
		var pts corev1.PodTemplateList
		if err := c.List(e.Ctx, &pts); err != nil {
			return nil, err
		}
		for i := range pts.Items {
			add("PodTemplate", &pts.Items[i])
		}
		var deps appsv1.DeploymentList
		if err := c.List(e.Ctx, &deps); err != nil {
			return nil, err
		}
		for i := range deps.Items {
			add("Deployment", &deps.Items[i])
		}
		var rss appsv1.ReplicaSetList
		if err := c.List(e.Ctx, &rss); err != nil {
			return nil, err
		}
		for i := range rss.Items {
			add("ReplicaSet", &rss.Items[i])
		}
	}
	var nss corev1.NamespaceList
	if err := c.List(e.Ctx, &nss); err != nil {
		return nil, err
	}
	for i := range nss.Items {
		add("Namespace", &nss.Items[i])
	}
	return out, nil
}

// isPhantom: a state node with neither a Node nor a NodeClaim (nothing the informers deliver creates one; most of its
// accessors would dereference nil)
func isPhantom(n *state.StateNode) bool { return n.Node == nil && n.NodeClaim == nil }

func liveNodes(cl *state.Cluster) []*state.StateNode {
	var ns []*state.StateNode
	for n := range cl.Nodes() {
		if !isPhantom(n) {
			ns = append(ns, n)
		}
	}
	sort.Slice(ns, func(i, j int) bool { return ns[i].ProviderID() < ns[j].ProviderID() })
	return ns
}

func phantomNodes(cl *state.Cluster) int {
	k := 0
	for n := range cl.Nodes() {
		if isPhantom(n) {
			k++
		}
	}
	return k
}

func nominatedUntil(n *state.StateNode) int64 {
	t := unexportedField(n, "nominatedUntil").Interface().(metav1.Time)
	if t.IsZero() {
		return 0
	}
	return t.UnixNano()
}

func clusterEntries(e *Env, out Snapshot) Snapshot {
	cl := e.W.Cluster
	out = structFields(out, "cluster", "", cl, nil, clusterLinks)
	// which nodes the cluster state tracks (the per-node entries below describe them one by one)
	out = append(out, Entry{"cluster", "", "nodes.len", fmt.Sprint(len(liveNodes(cl)))})
	if k := phantomNodes(cl); k > 0 {
		out = append(out, Entry{"cluster", "", "nodes.withoutNodeAndNodeClaim", fmt.Sprint(k)})
	}
	for _, n := range liveNodes(cl) {
		pid := n.ProviderID()
		out = structFields(out, "node", pid, n, nil, nil)
		acc := func(name string, v any) { out = append(out, Entry{"accessor", pid, name, Digest(v, nil)}) }
		acc("Name", n.Name())
		acc("HostName", n.HostName())
		acc("Labels", n.Labels())
		acc("Annotations", n.Annotations())
		acc("Taints", n.Taints())
		acc("Registered", n.Registered())
		acc("Initialized", n.Initialized())
		acc("Managed", n.Managed())
		acc("Capacity", n.Capacity())
		acc("Allocatable", n.Allocatable())
		acc("Available", n.Available())
		acc("PodRequests", n.PodRequests())
		acc("PodLimits", n.PodLimits())
		acc("DaemonSetRequests", n.DaemonSetRequests())
		acc("DaemonSetLimits", n.DaemonSetLimits())
		acc("HostPortUsage", n.HostPortUsage())
		acc("VolumeUsage", n.VolumeUsage())
		acc("DisruptionCost", n.DisruptionCost())
		acc("MarkedForDeletion", n.MarkedForDeletion())
		acc("Deleted", n.Deleted())
		acc("Nominated", n.Nominated(e.W.Clock))
		acc("IsNodeNominated", cl.IsNodeNominated(pid))
		acc("BufferPodCount", cl.BufferPodCount(pid))
	}
	for _, np := range e.W.Scn.Pools {
		out = append(out, Entry{"accessor", "pool:" + np.Name, "NodePoolResourcesFor", Digest(cl.NodePoolResourcesFor(np.Name), nil)})
		a, d, p := cl.NodePoolState.GetNodeCount(np.Name)
		out = append(out, Entry{"accessor", "pool:" + np.Name, "GetNodeCount", fmt.Sprintf("%d/%d/%d", a, d, p)})
	}
	out = append(out, Entry{"accessor", "", "HasSynced", fmt.Sprint(cl.HasSynced())})
	return out
}

func providerEntries(e *Env, out Snapshot) Snapshot {
	one := func(label string, its []*cloudprovider.InstanceType) {
		names := make([]string, len(its))
		for i, it := range its {
			names[i] = it.Name
			out = structFields(out, "provider", label+it.Name, it, nil, map[string]bool{"Offerings": true})
			for j, of := range it.Offerings {
				out = append(out, Entry{"provider", label + it.Name, fmt.Sprintf("Offerings[%d]", j), Digest(of, nil)})
			}
			out = append(out, Entry{"provider", label + it.Name, "Offerings.len", fmt.Sprint(len(it.Offerings))})
		}
		out = append(out, Entry{"provider", label, "order", strings.Join(names, ",")})
	}
	one("", e.W.CP.InstanceTypes)
	var pools []string
	for k := range e.W.CP.InstanceTypesForNodePool {
		pools = append(pools, k)
	}
	sort.Strings(pools)
	for _, k := range pools {
		one("pool:"+k+":", e.W.CP.InstanceTypesForNodePool[k])
	}
	return out
}

// draLinks: fields of the deviceallocation controller that hold no state of the world
var draLinks = map[string]bool{"kubeClient": true, "mu": true, "hydrationCh": true, "hydrationOnce": true}

// draEntries: the deviceallocation controller's view of the allocated in-cluster devices (every field: the per-device
// metadata with consumed capacities / contributions / pod UIDs, the claims per device, the per-claim metadata), which the
// Provisioner hands to every scheduler it builds; and, per instance type, the ResourceSlice templates once more split
// into their parts so that a violation says what moved (they are also part of the InstanceType's field digest)
func draEntries(e *Env, out Snapshot) Snapshot {
	if e.Dev == nil {
		return out
	}
	out = structFields(out, "dra", "deviceallocation", e.Dev, nil, draLinks)
	for _, it := range e.W.CP.InstanceTypes {
		for i, t := range it.DynamicResources.ResourceSliceTemplates {
			obj := fmt.Sprintf("%s/template[%d]", it.Name, i)
			out = append(out, Entry{"provider", obj, "ResourceSliceTemplate.SharedCounters", Digest(&t.SharedCounters, nil)})
			out = append(out, Entry{"provider", obj, "ResourceSliceTemplate.Devices", Digest(&t.Devices, nil)})
			out = append(out, Entry{"provider", obj, "ResourceSliceTemplate", Digest(t, nil)})
		}
		out = append(out, Entry{"provider", it.Name, "ResourceSliceTemplates.len", fmt.Sprint(len(it.DynamicResources.ResourceSliceTemplates))})
	}
	return out
}

// podEntries splits a shared pod into the parts a leak could touch, so that a violation can be told apart by what
// changed: the topology spread constraints, the preferred node-affinity terms as a set and their order, everything else.
func podEntries(out Snapshot, obj string, p *corev1.Pod) Snapshot {
	c := p.DeepCopy()
	// "<how many>:<digest>": the driver tells "stamped onto a pod that declared none" from any other change
	out = append(out, Entry{"input", obj, "pod.topologySpreadConstraints", fmt.Sprintf("%d:%s", len(c.Spec.TopologySpreadConstraints), Digest(c.Spec.TopologySpreadConstraints, nil))})
	var pref []corev1.PreferredSchedulingTerm
	if c.Spec.Affinity != nil && c.Spec.Affinity.NodeAffinity != nil {
		pref = c.Spec.Affinity.NodeAffinity.PreferredDuringSchedulingIgnoredDuringExecution
		c.Spec.Affinity.NodeAffinity.PreferredDuringSchedulingIgnoredDuringExecution = nil
	}
	order := make([]string, len(pref))
	for i := range pref {
		order[i] = Digest(pref[i], nil)
	}
	out = append(out, Entry{"input", obj, "pod.preferredNodeAffinity.order", strings.Join(order, ",")})
	set := append([]string{}, order...)
	sort.Strings(set)
	out = append(out, Entry{"input", obj, "pod.preferredNodeAffinity.set", strings.Join(set, ",")})
	c.Spec.TopologySpreadConstraints = nil
	out = append(out, Entry{"input", obj, "pod.rest", Digest(c, nil)})
	return out
}

func (e *Env) inputEntries(cands []*disruption.Candidate, out Snapshot) Snapshot {
	for _, c := range cands {
		obj := "candidate:" + c.Name()
		out = structFields(out, "input", obj, c, nil, map[string]bool{"reschedulablePods": true})
		pods := unexportedField(c, "reschedulablePods").Interface().([]*corev1.Pod)
		names := make([]string, len(pods))
		for i, p := range pods {
			names[i] = fmt.Sprintf("%s#%d", p.Name, e.objID(p))
			out = podEntries(out, obj+"/pod:"+p.Name, p)
		}
		// which pod objects the candidate holds, in which order
		out = append(out, Entry{"input", obj, "reschedulablePods", strings.Join(names, ",")})
	}
	return out
}

// objID numbers the objects it is shown in the order it first sees them (pointer identity without printing addresses)
func (e *Env) objID(p *corev1.Pod) int {
	if e.ids == nil {
		e.ids = map[*corev1.Pod]int{}
	}
	if id, ok := e.ids[p]; ok {
		return id
	}
	e.ids[p] = len(e.ids)
	return e.ids[p]
}

// Take digests the whole observable world.
func (e *Env) Take(cands []*disruption.Candidate) (Snapshot, error) {
	out, err := apiEntries(e, nil)
	if err != nil {
		return nil, err
	}
	out = clusterEntries(e, out)
	out = providerEntries(e, out)
	out = draEntries(e, out)
	out = virtualPodEntries(e, out)
	out = overlayEntries(e, out)
	out = e.inputEntries(cands, out)
	return out.sorted(), nil
}

// ---------- explicit values for the provisioning model ----------

type NodeVal struct {
	ProviderID     string `json:"providerID"`
	Name           string `json:"name"`
	NodeClaim      string `json:"nodeClaim"` // "" = unmanaged
	NominatedUntil int64  `json:"nominatedUntil"`
	Marked         bool   `json:"marked"`
}

type PodVal struct {
	Key         string `json:"key"`
	Ack         int64  `json:"ack"`
	Attempted   int64  `json:"attempted"`
	Schedulable int64  `json:"schedulable"`
	Healthy     int64  `json:"healthy"`
	NodeClaim   string `json:"nodeClaim"`
}

type Values struct {
	Nodes []NodeVal `json:"nodes"`
	Pods  []PodVal  `json:"pods"`
}

func unixOrZero(t interface {
	IsZero() bool
	UnixNano() int64
}) int64 {
	if t.IsZero() {
		return 0
	}
	return t.UnixNano()
}

func (e *Env) TakeValues() (Values, error) {
	var v Values
	cl := e.W.Cluster
	for _, n := range liveNodes(cl) {
		nv := NodeVal{ProviderID: n.ProviderID(), Name: n.Name(), NominatedUntil: nominatedUntil(n), Marked: n.MarkedForDeletion()}
		if n.NodeClaim != nil {
			nv.NodeClaim = n.NodeClaim.Name
		}
		v.Nodes = append(v.Nodes, nv)
	}
	var pods corev1.PodList
	if err := e.W.Client.List(e.Ctx, &pods); err != nil {
		return v, err
	}
	sort.Slice(pods.Items, func(i, j int) bool { return pods.Items[i].Name < pods.Items[j].Name })
	for i := range pods.Items {
		k := types.NamespacedName{Namespace: pods.Items[i].Namespace, Name: pods.Items[i].Name}
		v.Pods = append(v.Pods, PodVal{Key: pods.Items[i].Name,
			Ack:         unixOrZero(cl.PodAckTime(k)),
			Attempted:   unixOrZero(cl.PodSchedulingDecisionTime(k)),
			Schedulable: unixOrZero(cl.PodSchedulingSuccessTime(k)),
			Healthy:     unixOrZero(cl.PodSchedulingSuccessTimeRegistrationHealthyCheck(k)),
			NodeClaim:   cl.PodNodeClaimMapping(k)})
	}
	if v.Nodes == nil {
		v.Nodes = []NodeVal{}
	}
	if v.Pods == nil {
		v.Pods = []PodVal{}
	}
	return v, nil
}
