package c18

// c18.deepcopy: the mechanism the property rests on. Cluster.DeepCopyNodes() (and the StateNodes inside the Candidates
// of GetCandidates) must share nothing mutable with the live cluster state, because ExistingNode mutates its StateNode.
// The op takes the copies the REAL code hands out and overwrites everything reachable from them (every map entry, slice
// element and pointer target, exported or not, at every depth), then digests the live state again: any difference is a
// reference the copy still shares with the original.

import (
	"encoding/json"
	"fmt"
	"math/rand/v2"
	"reflect"
	"time"

	"sigs.k8s.io/karpenter/pkg/controllers/state"

	"verifharness/internal/core"
	"verifharness/internal/world"
)

type poisoner struct {
	visited map[visitKey]bool
	n       int // references overwritten
}

func (p *poisoner) scalar(v reflect.Value) {
	if !v.CanSet() {
		return
	}
	switch v.Kind() {
	case reflect.Bool:
		v.SetBool(!v.Bool())
	case reflect.Int, reflect.Int8, reflect.Int16, reflect.Int32, reflect.Int64:
		v.SetInt(v.Int() + 1)
	case reflect.Uint, reflect.Uint8, reflect.Uint16, reflect.Uint32, reflect.Uint64:
		v.SetUint(v.Uint() + 1)
	case reflect.Float32, reflect.Float64:
		v.SetFloat(v.Float() + 1)
	case reflect.String:
		v.SetString(v.String() + "#poison")
	}
}

// walk overwrites everything reachable from v. `shared` tells whether the memory v itself lives in was reached through a
// reference (pointer / slice element / map) — only then overwriting its scalars can be visible to anybody else.
func (p *poisoner) walk(v reflect.Value, shared bool) {
	if !v.IsValid() {
		return
	}
	v = readable(v)
	t := v.Type()
	if isSyncPrimitive(t) || t == tSyncMap {
		return
	}
	if t == tTime {
		if shared && v.CanSet() && v.CanInterface() {
			v.Set(reflect.ValueOf(v.Interface().(time.Time).Add(time.Second)))
			p.n++
		}
		return
	}
	switch v.Kind() {
	case reflect.Pointer:
		if v.IsNil() {
			return
		}
		k := visitKey{v.Pointer(), t}
		if p.visited[k] {
			return
		}
		p.visited[k] = true
		p.n++
		p.walk(v.Elem(), true)
	case reflect.Interface:
		if v.IsNil() {
			return
		}
		e := v.Elem()
		switch e.Kind() {
		case reflect.Pointer, reflect.Map, reflect.Slice:
			p.walk(e, shared)
		}
	case reflect.Map:
		if v.IsNil() {
			return
		}
		p.n++
		keys := v.MapKeys()
		for _, k := range keys {
			e := v.MapIndex(k)
			switch e.Kind() {
			case reflect.Pointer, reflect.Map, reflect.Slice, reflect.Interface:
				p.walk(e, true)
			case reflect.Struct, reflect.Array:
				if e.CanInterface() {
					c := reflect.New(e.Type()).Elem()
					c.Set(e)
					p.walk(c, false)
				}
			}
		}
		if v.CanInterface() {
			for _, k := range keys {
				v.SetMapIndex(k, reflect.Value{})
			}
			// an entry nobody had
			if t.Key().Kind() == reflect.String {
				v.SetMapIndex(reflect.ValueOf("c18.poison").Convert(t.Key()), reflect.Zero(t.Elem()))
			} else {
				v.SetMapIndex(reflect.Zero(t.Key()), reflect.Zero(t.Elem()))
			}
		}
	case reflect.Slice:
		if v.IsNil() {
			return
		}
		p.n++
		for i := 0; i < v.Len(); i++ {
			e := v.Index(i)
			p.walk(e, true)
			if e.CanSet() && e.Kind() != reflect.Struct {
				switch e.Kind() {
				case reflect.Pointer, reflect.Map, reflect.Slice, reflect.Interface:
					e.Set(reflect.Zero(e.Type()))
				}
			}
		}
	case reflect.Array:
		for i := 0; i < v.Len(); i++ {
			p.walk(v.Index(i), shared)
		}
	case reflect.Struct:
		for i := 0; i < v.NumField(); i++ {
			p.walk(v.Field(i), shared)
		}
	default:
		if shared {
			p.scalar(v)
		}
	}
}

type DCIn struct {
	Scn      world.Scenario `json:"scn"`
	Ext      Ext            `json:"ext"`
	Nominate []string       `json:"nominate"` // nodes nominated (and marks set by Scn) before copying
	Via      string         `json:"via"`      // DeepCopyNodes | GetCandidates
}

type DCOut struct {
	Copies    int        `json:"copies"`
	Poisoned  int        `json:"poisoned"`  // references overwritten in the copies
	Snaps     []Snapshot `json:"snaps"`     // live state before / after
	CopyEqual bool       `json:"copyEqual"` // every copy digested equal to its original before poisoning
}

func implDeepCopy(raw json.RawMessage) (any, error) {
	var in DCIn
	if err := json.Unmarshal(raw, &in); err != nil {
		return nil, err
	}
	e, err := BuildEnv(&in.Scn, &in.Ext)
	if err != nil {
		return nil, err
	}
	for _, n := range in.Nominate {
		e.W.Cluster.NominateNodeForPod(e.Ctx, "fake://"+n)
	}
	out := &DCOut{Snaps: []Snapshot{}, CopyEqual: true}
	s0, err := e.Take(nil)
	if err != nil {
		return nil, err
	}
	var copies []*state.StateNode
	switch in.Via {
	case "GetCandidates":
		cands, err := e.candidates(nodeNames(&in.Scn))
		if err != nil {
			return nil, err
		}
		for _, c := range cands {
			copies = append(copies, c.StateNode)
		}
	default:
		copies = e.W.Cluster.DeepCopyNodes()
	}
	orig := map[string]*state.StateNode{}
	for _, n := range liveNodes(e.W.Cluster) {
		orig[n.ProviderID()] = n
	}
	p := &poisoner{visited: map[visitKey]bool{}}
	for _, c := range copies {
		if o := orig[c.ProviderID()]; o == nil || Digest(o, nil) != Digest(c, nil) {
			out.CopyEqual = false
		}
	}
	for _, c := range copies {
		p.walk(reflect.ValueOf(c), false)
	}
	out.Copies, out.Poisoned = len(copies), p.n
	s1, err := e.Take(nil)
	if err != nil {
		return nil, err
	}
	out.Snaps = []Snapshot{s0, s1}
	return out, nil
}

func genDeepCopy(r *rand.Rand, t core.Tier) any {
	s, ext := genWorld(r, t)
	ext.DefaultSpread = false
	in := DCIn{Scn: *s, Ext: *ext, Nominate: []string{}, Via: []string{"DeepCopyNodes", "DeepCopyNodes", "GetCandidates"}[r.IntN(3)]}
	for _, n := range s.Nodes {
		if r.Float64() < 0.3 && in.Via == "DeepCopyNodes" {
			in.Nominate = append(in.Nominate, n.Name)
		}
	}
	return in
}

func dcLabels(raw json.RawMessage, impl any) []string {
	var in DCIn
	json.Unmarshal(raw, &in)
	m, _ := impl.(map[string]any)
	c, _ := m["copies"].(json.Number)
	l := []string{"via:" + in.Via, "copies=" + string(c)}
	if len(in.Ext.Volumes) > 0 {
		l = append(l, "volumes")
	}
	hp := false
	for _, n := range in.Scn.Nodes {
		for _, p := range n.Pods {
			if len(p.HostPorts) > 0 {
				hp = true
			}
		}
	}
	if hp {
		l = append(l, "host-ports")
	}
	if len(in.Nominate) > 0 {
		l = append(l, "nominated")
	}
	return l
}

func dcNontrivial(_ json.RawMessage, impl any) bool {
	m, _ := impl.(map[string]any)
	c, _ := m["copies"].(json.Number)
	return c != "" && c != "0"
}

func shrinkDC(raw json.RawMessage) []any {
	var in DCIn
	json.Unmarshal(raw, &in)
	var out []any
	for _, c := range core.ShrinkList(in.Scn.Nodes) {
		x := in
		x.Scn.Nodes = c
		if x.Scn.Nodes == nil {
			x.Scn.Nodes = []world.Node{}
		}
		out = append(out, x)
	}
	for i := range in.Scn.Nodes {
		for _, c := range core.ShrinkList(in.Scn.Nodes[i].Pods) {
			x := in
			x.Scn.Nodes = append([]world.Node{}, in.Scn.Nodes...)
			x.Scn.Nodes[i].Pods = c
			out = append(out, x)
		}
	}
	if len(in.Scn.Pods) > 0 {
		x := in
		x.Scn.Pods = nil
		out = append(out, x)
	}
	if len(in.Scn.DaemonSets) > 0 {
		x := in
		x.Scn.DaemonSets = []world.DaemonSet{}
		out = append(out, x)
	}
	_ = fmt.Sprint
	return out
}
