package c18

// Observable consequence of the known finding C18-virtual-pods-default-spread-stamped: a disruption simulation stamps the
// cluster-default topology spread constraints (with the selector deduced from the Services of that moment) onto the pods
// of the long-lived virtualpods.Cache; DefaultTopologySpreadInjector.Inject skips pods that already carry constraints, so
// after the Service is gone every later provisioning pass still spreads the buffer by the stale selector and decides
// differently from a process whose cache was never touched by a simulation.
//
//	go test -tags verif ./internal/c18 -run TestVirtualPodStaleSelector -v
//
// The test only logs on the unchanged tree; with C18_EXPECT_FIXED=1 (fixes/C18-virtual-pods-mutated.patch applied) it
// fails unless both processes decide the same.

import (
	"os"
	"testing"

	corev1 "k8s.io/api/core/v1"
	"k8s.io/apimachinery/pkg/types"

	"sigs.k8s.io/karpenter/pkg/controllers/disruption"

	"verifharness/internal/world"
)

func staleSelectorWorld(t *testing.T) *Env {
	t.Helper()
	s := &world.Scenario{
		ITs: []world.IT{{Name: "it-0", CPU: 4000, Mem: 8000, Pods: 10, Arch: "amd64", OS: []string{"linux"}, Offerings: []world.Offering{
			{Zone: "z1", CapacityType: "on-demand", Price: 100, Available: true}, {Zone: "z2", CapacityType: "on-demand", Price: 100, Available: true}}}},
		Pools: []world.NodePool{{Name: "pool-0", Labels: map[string]string{}}}, Nodes: []world.Node{}, DaemonSets: []world.DaemonSet{}, Parallelism: 1,
	}
	ext := &Ext{Volumes: map[string]int{}, DefaultSpread: true, Buffers: []Buffer{{Name: "buf-0", Replicas: 2, Source: "template", Via: "hydrate",
		Pod: world.Pod{Name: "tmpl", Labels: map[string]string{"app": "a"}, CPU: 500, Mem: 64}}}}
	e, err := BuildEnv(s, ext)
	if err != nil {
		t.Fatal(err)
	}
	return e
}

func dropService(t *testing.T, e *Env) {
	t.Helper()
	svc := &corev1.Service{}
	if err := e.W.Client.Get(e.Ctx, types.NamespacedName{Namespace: "default", Name: "svc-a"}, svc); err != nil {
		t.Fatal(err)
	}
	if err := e.W.Client.Delete(e.Ctx, svc); err != nil {
		t.Fatal(err)
	}
}

func passDecision(t *testing.T, e *Env) (claims int, constraints int) {
	t.Helper()
	res, err := e.Prov.Schedule(e.Ctx)
	if err != nil {
		t.Fatal(err)
	}
	for _, p := range e.virtualPods() {
		constraints += len(p.Spec.TopologySpreadConstraints)
	}
	return len(res.NewNodeClaims), constraints
}

func TestVirtualPodStaleSelector(t *testing.T) {
	// process A: one disruption simulation while the Service exists, then the Service is deleted, then a provisioning pass
	a := staleSelectorWorld(t)
	if _, err := disruption.SimulateScheduling(a.Ctx, a.Client, a.W.Cluster, a.Prov, a.W.Clock, a.Rec, nil); err != nil {
		t.Fatal(err)
	}
	stamped := 0
	for _, p := range a.virtualPods() {
		stamped += len(p.Spec.TopologySpreadConstraints)
	}
	dropService(t, a)
	claimsA, consA := passDecision(t, a)
	// process B: same cluster, same deletion, no simulation before the pass
	b := staleSelectorWorld(t)
	dropService(t, b)
	claimsB, consB := passDecision(t, b)
	t.Logf("constraints on the cached virtual pods after one simulation: %d", stamped)
	t.Logf("after the Service is gone: process A (simulated before) opens %d NodeClaim(s), cached pods carry %d constraint(s); process B (fresh cache) opens %d NodeClaim(s), cached pods carry %d constraint(s)", claimsA, consA, claimsB, consB)
	if os.Getenv("C18_EXPECT_FIXED") != "" && (claimsA != claimsB || stamped != 0 || consA != 0 || consB != 0) {
		t.Fatalf("a simulation left its mark on the virtual pod cache: %d vs %d NodeClaims, %d/%d/%d constraints", claimsA, claimsB, stamped, consA, consB)
	}
}
