// Package c18: scheduling simulations have no side effects — real disruption.SimulateScheduling / Provisioner.Schedule
// runs with before/after digests of the whole observable world, judged by the Lean specification.
package c18

import (
	"encoding/json"

	"verifharness/internal/core"
	"verifharness/internal/registry"
)

func init() { registry.Register("C18", Ops) }

func Ops() []*core.Op {
	return []*core.Op{
		{
			Name:       "c18.simulate",
			Doc:        "consecutive real disruption.SimulateScheduling calls (candidates from the real disruption.GetCandidates; accepted, rejected, cancelled, deadline-exceeded and mid-Solve timeouts; single candidates, prefixes and subsets as the consolidation methods use them) with a digest of every API object, every field and exported accessor of state.Cluster / StateNode, the provider's instance types / offerings (and slice orders) and the shared Candidate objects before and after every call; 35% of the worlds run with dynamic resource allocation on (IgnoreDRARequests=false, hydrated deviceallocation controller; instance types with ResourceSlice templates incl. partitionable devices with SharedCounters budgets, cluster-wide exclusive / multi-allocatable devices, node-local partitionable devices, pending pods with ResourceClaims, candidate pods holding allocated claims) and then also digest every ResourceSliceTemplate, every field of the deviceallocation controller and the ResourceClaim / ResourceSlice / DeviceClass objects; 15% contain running pods with required anti-affinity whose pod event reached the cluster state before their node's event; 20% run with FeatureGates.CapacityBuffer on and a real virtualpods.Cache (hydrated from CapacityBuffer + PodTemplate / Deployment / ReplicaSet objects or filled through UpdateEntry; templates with preferred affinities listed lightest first, unsatisfiable preferences, ScheduleAnyway spreads, several required terms; half of them with cluster-default spread constraints and a Service) handed to the real NewProvisioner, and digest every cached virtual pod (section virtualpods); 20% run with FeatureGates.NodeOverlay on: NodeOverlays (relative / flat / absolute price changes, capacity additions; selected by instance type, capacity type, zone, arch; weights, conflicts) evaluated by the REAL nodeoverlay controller's Reconcile into a real InstanceTypeStore, and the overlay-decorated provider (overlay.Decorate) in front of the fake provider handed to the real Provisioner, GetCandidates and the consolidation methods; the store is digested too (section overlay); multi-allocatable DRA devices have several consumable capacity dimensions and bound pods hold shares of some dimensions only (sole consumers of a dimension on a candidate while another pod keeps the device allocated)",
			N:          func(t core.Tier) int { return map[core.Tier]int{core.Quick: 220, core.Thorough: 4000}[t] },
			Gen:        genSimulate,
			Impl:       implSimulate,
			Rule:       "non-trivial = some run with at least one candidate placed a pod on an existing node or opened a new NodeClaim in the simulation",
			Nontrivial: simNontrivial,
			Labels:     simLabels,
			Signature:  func(json.RawMessage, any) string { return "simulate" },
			Shrink:     shrinkSim,
		},
		{
			Name:       "c18.simdecide",
			Doc:        "whole disruption decisions: the real Drift / SingleNodeConsolidation / MultiNodeConsolidation .ComputeCommands (one simulation per candidate, or a binary search over prefixes, plus computeConsolidation's price / instance-type post-processing; pass-through or the real validators with the validation delay and re-simulation; ok / cancelled / expired contexts) on candidates from the real GetCandidates, with the world digest before and after every decision (a decision is computed, not executed)",
			N:          func(t core.Tier) int { return map[core.Tier]int{core.Quick: 120, core.Thorough: 1800}[t] },
			Gen:        genDecide,
			Impl:       implDecide,
			Rule:       "non-trivial = some decision produced a delete or replace command",
			Nontrivial: decNontrivial,
			Labels:     decLabels,
			Signature:  func(json.RawMessage, any) string { return "simdecide" },
			Shrink:     shrinkDec,
		},
		{
			Name:       "c18.provision",
			Doc:        "consecutive real Provisioner.Schedule passes (clock steps in between; ok, cancelled, deadline-exceeded and mid-pass timeouts; acknowledged pods, NodePools with healthy registrations, pods the provisioner refuses) with the same world digest before and after every pass, and the nominations / deletion marks / pod bookkeeping read back as values and compared with the Lean model of Results.Record + MarkPodSchedulingDecisions; 30% of the worlds with dynamic resource allocation on (as in c18.simulate), 15% with anti-affinity pods whose node event is still outstanding, 20% with CapacityBuffers and a real virtualpods.Cache (as in c18.simulate; 20% with NodeOverlays behind the decorated provider; virtual pods are no API objects: the model is given the real pods of the outcome only); in 25% a node disappears (Node deleted, cluster state told) at the first List call of the first pass, i.e. between DeepCopyNodes() and Results.Record, and the pass is compared with this world's snapshot changed the way the same disappearance changes a twin world",
			N:          func(t core.Tier) int { return map[core.Tier]int{core.Quick: 200, core.Thorough: 4000}[t] },
			Gen:        genProvision,
			Impl:       implProvision,
			Rule:       "non-trivial = some pass placed a pod on an existing node (a nomination happened)",
			Nontrivial: provNontrivial,
			Labels:     provLabels,
			Signature:  func(json.RawMessage, any) string { return "provision" },
			Shrink:     shrinkProv,
		},
		{
			Name:       "c18.deepcopy",
			Doc:        "Cluster.DeepCopyNodes() / the StateNodes inside the Candidates of GetCandidates: everything reachable from the copies (every map entry, slice element, pointer target, exported or not, at every depth) is overwritten, then the live state is digested again",
			N:          func(t core.Tier) int { return map[core.Tier]int{core.Quick: 150, core.Thorough: 3000}[t] },
			Gen:        genDeepCopy,
			Impl:       implDeepCopy,
			Rule:       "non-trivial = at least one copy was handed out and overwritten",
			Nontrivial: dcNontrivial,
			Labels:     dcLabels,
			Signature:  func(json.RawMessage, any) string { return "deepcopy" },
			Shrink:     shrinkDC,
		},
	}
}
