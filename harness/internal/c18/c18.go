// Package c18: correspondence ops for C18 (stub, not yet built).
package c18

import (
	"verifharness/internal/core"
	"verifharness/internal/registry"
)

func init() { registry.Register("C18", Ops) }

func Ops() []*core.Op { return nil }
