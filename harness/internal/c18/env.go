package c18

// The C18 world: a world.World (fake API client, real state.Cluster, fake cloud provider) plus what the disruption side
// needs (orchestration queue, recorder, a Provisioner whose client counts write calls) and a few extensions of the
// shared scenario vocabulary (PodDisruptionBudgets, CSI volumes with per-node limits, pods that fail validation,
// cluster-default topology spread constraints).

import (
	"context"
	"fmt"
	"sort"
	"sync"
	"sync/atomic"
	"time"

	appsv1 "k8s.io/api/apps/v1"
	corev1 "k8s.io/api/core/v1"
	policyv1 "k8s.io/api/policy/v1"
	storagev1 "k8s.io/api/storage/v1"
	"k8s.io/apimachinery/pkg/api/resource"
	metav1 "k8s.io/apimachinery/pkg/apis/meta/v1"
	"k8s.io/apimachinery/pkg/types"
	"k8s.io/apimachinery/pkg/util/intstr"
	"sigs.k8s.io/controller-runtime/pkg/client"
	"sigs.k8s.io/controller-runtime/pkg/client/interceptor"

	v1 "sigs.k8s.io/karpenter/pkg/apis/v1"
	"sigs.k8s.io/karpenter/pkg/cloudprovider"
	"sigs.k8s.io/karpenter/pkg/controllers/disruption"
	"sigs.k8s.io/karpenter/pkg/controllers/dynamicresources/deviceallocation"
	"sigs.k8s.io/karpenter/pkg/controllers/nodeoverlay"
	"sigs.k8s.io/karpenter/pkg/controllers/provisioning"
	"sigs.k8s.io/karpenter/pkg/operator/options"
	"sigs.k8s.io/karpenter/pkg/state/virtualpods"
	"sigs.k8s.io/karpenter/pkg/test"

	"verifharness/internal/world"
)

type PDB struct {
	Name           string            `json:"name"`
	MatchLabels    map[string]string `json:"matchLabels"`
	MaxUnavailable *int32            `json:"maxUnavailable"`
	MinAvailable   *int32            `json:"minAvailable"`
	// DisruptionsAllowed is what the (absent) PDB controller would have written to status
	DisruptionsAllowed int32 `json:"disruptionsAllowed"`
}

// Ext extends world.Scenario (the shared vocabulary stays untouched).
type Ext struct {
	PDBs []PDB `json:"pdbs"`
	// pending pods (by name) that get a nodeSelector on a restricted label domain: Provisioner.Validate rejects them
	InvalidPods []string `json:"invalidPods"`
	// pods (pending or bound, by name) -> number of CSI PVC volumes they mount (driver csi.c18.io)
	Volumes map[string]int `json:"volumes"`
	// per-node attach limit for the driver (0 = no CSINode object)
	VolumeLimit int `json:"volumeLimit"`
	// --scheduler-config with one cluster-default zone spread constraint, plus a Service selecting app=a
	DefaultSpread bool `json:"defaultSpread"`
	// NodePools consolidate immediately (consolidateAfter 0s, WhenEmptyOrUnderutilized) and every NodeClaim carries
	// Consolidatable=True and Drifted=True: what the real disruption methods / validators require of a candidate
	Consolidatable bool `json:"consolidatable"`
	// the SpotToSpotConsolidation feature gate
	SpotToSpot bool `json:"spotToSpot"`
	// pending pods the pod controller has already acknowledged (Cluster.AckPods)
	Ack []string `json:"ack"`
	// every DaemonSet has one running pod (on the first node that has a Node object), so that the cluster state caches a
	// daemon pod for it (Cluster.UpdateDaemonSet / GetDaemonSetPod)
	DaemonPods bool `json:"daemonPods"`
	// informer race: this many running pods with REQUIRED pod anti-affinity are bound to a node ("late-node", which exists in
	// the API) whose Node event the cluster state has not processed yet: Cluster.UpdatePod fails with NotFound for the node
	// but already tracks the pod as an anti-affinity pod without a binding
	UntrackedAntiPods int `json:"untrackedAntiPods,omitempty"`
	// FeatureGates.NodeOverlay is on, these NodeOverlays exist and the decorated provider is in use: see overlay.go
	Overlays []Overlay `json:"overlays,omitempty"`
	// FeatureGates.CapacityBuffer is on and these CapacityBuffers exist: see buffers.go
	Buffers []Buffer `json:"buffers,omitempty"`
	// dynamic resource allocation is on (IgnoreDRARequests=false): see dra.go
	DRA *Dra `json:"dra,omitempty"`
}

type Env struct {
	W      *world.World
	Ctx    context.Context
	Client client.Client // counts writes, forwards to W.Client
	Prov   *provisioning.Provisioner
	Rec    *test.EventRecorder
	Queue  *disruption.Queue
	Writes *atomic.Int64
	Ext    *Ext
	// the deviceallocation controller the Provisioner reads the allocated in-cluster devices from (nil without DRA)
	Dev *deviceallocation.Controller
	// the cloud provider the Provisioner and the disruption helpers see: W.CP, or W.CP behind the NodeOverlay decorator
	CP cloudprovider.CloudProvider
	// the NodeOverlay instance type store behind the decorator (nil without overlays)
	Store *nodeoverlay.InstanceTypeStore
	// the cache of CapacityBuffer virtual pods the Provisioner appends to the pending pods (nil without buffers)
	VPods *virtualpods.Cache
	ids   map[*corev1.Pod]int
	// armed by the harness: runs once at the next List call made through Client
	onList atomic.Pointer[func()]
}

// loseNode: the Node object is deleted (kubectl delete node; finalizers dropped first) and the node informer tells the
// cluster state. The harness's own, legitimate change of the world.
func (e *Env) loseNode(name string) {
	node := &corev1.Node{}
	if err := e.W.Client.Get(e.Ctx, types.NamespacedName{Name: name}, node); err == nil {
		node.Finalizers = nil
		if err := e.W.Client.Update(e.Ctx, node); err == nil {
			_ = e.W.Client.Delete(e.Ctx, node)
		}
	}
	e.W.Cluster.DeleteNode(name)
}

const csiDriver = "csi.c18.io"

func ptr[T any](v T) *T { return &v }

func countingClient(base client.Client, n *atomic.Int64, onList *atomic.Pointer[func()]) client.Client {
	ww := base.(client.WithWatch)
	return interceptor.NewClient(ww, interceptor.Funcs{
		// a hook the harness can arm to let something else happen in the cluster in the middle of a pass (fires once, at
		// the next List call made through this client)
		List: func(ctx context.Context, c client.WithWatch, list client.ObjectList, opts ...client.ListOption) error {
			if h := onList.Swap(nil); h != nil {
				(*h)()
			}
			return c.List(ctx, list, opts...)
		},
		Create: func(ctx context.Context, c client.WithWatch, obj client.Object, opts ...client.CreateOption) error {
			n.Add(1)
			return c.Create(ctx, obj, opts...)
		},
		Update: func(ctx context.Context, c client.WithWatch, obj client.Object, opts ...client.UpdateOption) error {
			n.Add(1)
			return c.Update(ctx, obj, opts...)
		},
		Patch: func(ctx context.Context, c client.WithWatch, obj client.Object, patch client.Patch, opts ...client.PatchOption) error {
			n.Add(1)
			return c.Patch(ctx, obj, patch, opts...)
		},
		Delete: func(ctx context.Context, c client.WithWatch, obj client.Object, opts ...client.DeleteOption) error {
			n.Add(1)
			return c.Delete(ctx, obj, opts...)
		},
		DeleteAllOf: func(ctx context.Context, c client.WithWatch, obj client.Object, opts ...client.DeleteAllOfOption) error {
			n.Add(1)
			return c.DeleteAllOf(ctx, obj, opts...)
		},
		SubResourceCreate: func(ctx context.Context, c client.Client, sub string, obj client.Object, subObj client.Object, opts ...client.SubResourceCreateOption) error {
			n.Add(1)
			return c.SubResource(sub).Create(ctx, obj, subObj, opts...)
		},
		SubResourceUpdate: func(ctx context.Context, c client.Client, sub string, obj client.Object, opts ...client.SubResourceUpdateOption) error {
			n.Add(1)
			return c.SubResource(sub).Update(ctx, obj, opts...)
		},
		SubResourcePatch: func(ctx context.Context, c client.Client, sub string, obj client.Object, patch client.Patch, opts ...client.SubResourcePatchOption) error {
			n.Add(1)
			return c.SubResource(sub).Patch(ctx, obj, patch, opts...)
		},
	})
}

// BuildEnv builds the world of a scenario and applies the extensions.
func BuildEnv(s *world.Scenario, ext *Ext) (*Env, error) {
	w, err := world.Build(s)
	if err != nil {
		return nil, err
	}
	e := &Env{W: w, Ctx: w.Ctx, Writes: &atomic.Int64{}, Ext: ext, Rec: test.NewEventRecorder()}
	if ext == nil {
		ext = &Ext{}
		e.Ext = ext
	}
	if ext.DefaultSpread {
		o := *options.FromContext(w.Ctx)
		o.SchedulerConfig = &options.SchedulerConfiguration{PodTopologySpread: &options.PodTopologySpreadConfig{
			DefaultConstraints: []corev1.TopologySpreadConstraint{{MaxSkew: 1, TopologyKey: corev1.LabelTopologyZone, WhenUnsatisfiable: corev1.ScheduleAnyway}},
		}}
		e.Ctx = options.ToContext(context.Background(), &o)
		svc := &corev1.Service{ObjectMeta: metav1.ObjectMeta{Name: "svc-a", Namespace: "default", UID: "svc-a"},
			Spec: corev1.ServiceSpec{Selector: map[string]string{"app": "a"}}}
		if err := w.Client.Create(e.Ctx, svc); err != nil {
			return nil, err
		}
	}
	for _, p := range ext.PDBs {
		pdb := &policyv1.PodDisruptionBudget{
			ObjectMeta: metav1.ObjectMeta{Name: p.Name, Namespace: "default", UID: types.UID("pdb-" + p.Name), CreationTimestamp: metav1.NewTime(world.T0.Add(-time.Hour))},
			Spec:       policyv1.PodDisruptionBudgetSpec{Selector: &metav1.LabelSelector{MatchLabels: p.MatchLabels}},
			Status:     policyv1.PodDisruptionBudgetStatus{DisruptionsAllowed: p.DisruptionsAllowed},
		}
		if p.MaxUnavailable != nil {
			pdb.Spec.MaxUnavailable = ptr(intstr.FromInt32(*p.MaxUnavailable))
		}
		if p.MinAvailable != nil {
			pdb.Spec.MinAvailable = ptr(intstr.FromInt32(*p.MinAvailable))
		}
		if err := w.Client.Create(e.Ctx, pdb); err != nil {
			return nil, err
		}
	}
	if err := e.applyPodEdits(s); err != nil {
		return nil, err
	}
	for _, name := range ext.Ack {
		p := &corev1.Pod{}
		if err := w.Client.Get(e.Ctx, types.NamespacedName{Namespace: "default", Name: name}, p); err == nil {
			w.Cluster.AckPods(p)
		}
	}
	if ext.DaemonPods {
		if err := e.addDaemonPods(s); err != nil {
			return nil, err
		}
	}
	if ext.SpotToSpot {
		o := *options.FromContext(e.Ctx)
		o.FeatureGates.SpotToSpotConsolidation = true
		e.Ctx = options.ToContext(context.Background(), &o)
	}
	if ext.Consolidatable {
		var nps v1.NodePoolList
		if err := w.Client.List(e.Ctx, &nps); err != nil {
			return nil, err
		}
		for i := range nps.Items {
			np := &nps.Items[i]
			np.Spec.Disruption.ConsolidateAfter = v1.MustParseNillableDuration("0s")
			np.Spec.Disruption.ConsolidationPolicy = v1.ConsolidationPolicyWhenEmptyOrUnderutilized
			if err := w.Client.Update(e.Ctx, np); err != nil {
				return nil, err
			}
		}
		var ncs v1.NodeClaimList
		if err := w.Client.List(e.Ctx, &ncs); err != nil {
			return nil, err
		}
		for i := range ncs.Items {
			nc := &ncs.Items[i]
			nc.StatusConditions().SetTrue(v1.ConditionTypeConsolidatable)
			nc.StatusConditions().SetTrue(v1.ConditionTypeDrifted)
			if err := w.Client.Status().Update(e.Ctx, nc); err != nil {
				return nil, err
			}
			w.Cluster.UpdateNodeClaim(nc)
		}
	}
	if ext.UntrackedAntiPods > 0 {
		if err := e.addUntrackedAntiPods(s, ext.UntrackedAntiPods); err != nil {
			return nil, err
		}
	}
	if ext.DRA != nil {
		if err := e.applyDRA(ext.DRA); err != nil {
			return nil, err
		}
	}
	e.Client = countingClient(w.Client, e.Writes, &e.onList)
	e.CP = w.CP
	if len(ext.Overlays) > 0 {
		if err := e.applyOverlays(ext.Overlays); err != nil {
			return nil, err
		}
	}
	if len(ext.Buffers) > 0 {
		if err := e.applyBuffers(ext.Buffers); err != nil {
			return nil, err
		}
		e.Writes.Store(0)
	}
	vp := e.VPods
	if vp == nil {
		vp = virtualpods.NewVirtualPodCache(e.Client)
	}
	e.Prov = provisioning.NewProvisioner(e.Client, e.Rec, e.CP, w.Cluster, w.Clock, e.Dev, vp)
	e.Queue = disruption.NewQueue(e.Client, e.Rec, w.Cluster, w.Clock, e.Prov)
	w.Cluster.SetSynced(true)
	// memoised derived data of the instance types is computed once up front (it is a cache, not a change of the catalog)
	for _, it := range w.CP.InstanceTypes {
		it.Allocatable()
	}
	return e, nil
}

// addUntrackedAntiPods: pods whose own event reaches the cluster state before the event of the node they run on.
func (e *Env) addUntrackedAntiPods(s *world.Scenario, k int) error {
	w := e.W
	if len(s.ITs) == 0 {
		return nil
	}
	it := w.ITs[s.ITs[0].Name]
	node := test.Node(test.NodeOptions{
		ObjectMeta: metav1.ObjectMeta{Name: "late-node", UID: "node-late", CreationTimestamp: metav1.NewTime(world.T0.Add(-5 * time.Minute)),
			Labels: map[string]string{corev1.LabelHostname: "late-node", corev1.LabelTopologyZone: world.Zones[0], corev1.LabelInstanceTypeStable: it.Name,
				corev1.LabelArchStable: "amd64", corev1.LabelOSStable: "linux"}},
		ProviderID:  "fake://late-node",
		Allocatable: it.Allocatable(), Capacity: it.Capacity,
	})
	node.Namespace = ""
	if err := w.Client.Create(e.Ctx, node); err != nil {
		return err
	}
	for i := 0; i < k; i++ {
		app := []string{"a", "b", "c"}[i%3]
		key := []string{corev1.LabelHostname, corev1.LabelTopologyZone}[i%2]
		pod := w.BuildPod(world.Pod{Name: fmt.Sprintf("late-anti-%d", i), Labels: map[string]string{"app": app}, CPU: 100, Mem: 64,
			Affinity: []world.PodAffinity{{TopologyKey: key, MatchLabels: map[string]string{"app": app}, Anti: true, Required: true}}}, "late-node", 900+i)
		pod.Status.Phase = corev1.PodRunning
		if err := w.Client.Create(e.Ctx, pod); err != nil {
			return err
		}
		_ = w.Cluster.UpdatePod(e.Ctx, pod) // NotFound for the node: the informer would retry later
	}
	return nil
}

// addDaemonPods gives every DaemonSet a running pod it controls and lets the cluster state see it.
func (e *Env) addDaemonPods(s *world.Scenario) error {
	w := e.W
	var nodes corev1.NodeList
	if err := w.Client.List(e.Ctx, &nodes); err != nil {
		return err
	}
	if len(nodes.Items) == 0 {
		return nil
	}
	sort.Slice(nodes.Items, func(i, j int) bool { return nodes.Items[i].Name < nodes.Items[j].Name })
	var dss appsv1.DaemonSetList
	if err := w.Client.List(e.Ctx, &dss); err != nil {
		return err
	}
	for i := range dss.Items {
		d := &dss.Items[i]
		pod := &corev1.Pod{
			ObjectMeta: metav1.ObjectMeta{Name: "dpod-" + d.Name, Namespace: d.Namespace, UID: types.UID("dpod-" + d.Name), Labels: d.Spec.Template.Labels,
				CreationTimestamp: metav1.NewTime(world.T0.Add(-90 * time.Minute)),
				OwnerReferences:   []metav1.OwnerReference{{APIVersion: "apps/v1", Kind: "DaemonSet", Name: d.Name, UID: d.UID, Controller: ptr(true), BlockOwnerDeletion: ptr(true)}}},
			Spec:   *d.Spec.Template.Spec.DeepCopy(),
			Status: corev1.PodStatus{Phase: corev1.PodRunning, Conditions: []corev1.PodCondition{{Type: corev1.PodScheduled, Status: corev1.ConditionTrue}}},
		}
		pod.Spec.NodeName = nodes.Items[0].Name
		if err := w.Client.Create(e.Ctx, pod); err != nil {
			return err
		}
		if err := w.Cluster.UpdatePod(e.Ctx, pod); err != nil {
			return err
		}
		if err := w.Cluster.UpdateDaemonSet(e.Ctx, d); err != nil {
			return err
		}
	}
	return nil
}

// applyPodEdits adds volumes / invalid selectors to the pods world.Build created and refreshes the cluster state from
// the API (the same calls the pod and node informers make).
func (e *Env) applyPodEdits(s *world.Scenario) error {
	ext, w := e.Ext, e.W
	if len(ext.Volumes) == 0 && len(ext.InvalidPods) == 0 && ext.VolumeLimit == 0 {
		return nil
	}
	if len(ext.Volumes) > 0 {
		sc := &storagev1.StorageClass{ObjectMeta: metav1.ObjectMeta{Name: "sc-c18", UID: "sc-c18"}, Provisioner: csiDriver,
			VolumeBindingMode: ptr(storagev1.VolumeBindingWaitForFirstConsumer)}
		if err := w.Client.Create(e.Ctx, sc); err != nil {
			return err
		}
	}
	invalid := map[string]bool{}
	for _, n := range ext.InvalidPods {
		invalid[n] = true
	}
	var pods corev1.PodList
	if err := w.Client.List(e.Ctx, &pods); err != nil {
		return err
	}
	sort.Slice(pods.Items, func(i, j int) bool { return pods.Items[i].Name < pods.Items[j].Name })
	for i := range pods.Items {
		p := &pods.Items[i]
		changed := false
		if k := ext.Volumes[p.Name]; k > 0 {
			for v := 0; v < k; v++ {
				name := fmt.Sprintf("pvc-%s-%d", p.Name, v)
				pvc := &corev1.PersistentVolumeClaim{
					ObjectMeta: metav1.ObjectMeta{Name: name, Namespace: "default", UID: types.UID(name)},
					Spec: corev1.PersistentVolumeClaimSpec{StorageClassName: ptr("sc-c18"),
						Resources: corev1.VolumeResourceRequirements{Requests: corev1.ResourceList{corev1.ResourceStorage: resource.MustParse("1Gi")}}},
				}
				if err := w.Client.Create(e.Ctx, pvc); err != nil {
					return err
				}
				p.Spec.Volumes = append(p.Spec.Volumes, corev1.Volume{Name: fmt.Sprintf("v%d", v),
					VolumeSource: corev1.VolumeSource{PersistentVolumeClaim: &corev1.PersistentVolumeClaimVolumeSource{ClaimName: name}}})
			}
			changed = true
		}
		if invalid[p.Name] && p.Spec.NodeName == "" {
			if p.Spec.NodeSelector == nil {
				p.Spec.NodeSelector = map[string]string{}
			}
			p.Spec.NodeSelector["karpenter.sh/c18-restricted"] = "x"
			changed = true
		}
		if changed {
			if err := w.Client.Update(e.Ctx, p); err != nil {
				return err
			}
		}
	}
	var nodes corev1.NodeList
	if err := w.Client.List(e.Ctx, &nodes); err != nil {
		return err
	}
	for i := range nodes.Items {
		n := &nodes.Items[i]
		if ext.VolumeLimit > 0 {
			csi := &storagev1.CSINode{ObjectMeta: metav1.ObjectMeta{Name: n.Name, UID: types.UID("csinode-" + n.Name)},
				Spec: storagev1.CSINodeSpec{Drivers: []storagev1.CSINodeDriver{{Name: csiDriver, NodeID: n.Name,
					Allocatable: &storagev1.VolumeNodeResources{Count: ptr(int32(ext.VolumeLimit))}}}}}
			if err := w.Client.Create(e.Ctx, csi); err != nil {
				return err
			}
		}
		if err := w.Cluster.UpdateNode(e.Ctx, n); err != nil {
			return err
		}
	}
	return nil
}

// ---------- contexts that time out ----------

// expiringCtx reports DeadlineExceeded from its (limit+1)-th Err() call on: a deterministic stand-in for a simulation
// that runs into its timeout somewhere in the middle of Solve.
type expiringCtx struct {
	context.Context
	calls atomic.Int64
	limit int64
	done  chan struct{}
	once  sync.Once
}

func newExpiringCtx(parent context.Context, limit int) *expiringCtx {
	return &expiringCtx{Context: parent, limit: int64(limit), done: make(chan struct{})}
}

func (c *expiringCtx) Err() error {
	if c.calls.Add(1) > c.limit {
		c.once.Do(func() { close(c.done) })
		return context.DeadlineExceeded
	}
	return nil
}
func (c *expiringCtx) Done() <-chan struct{}       { return c.done }
func (c *expiringCtx) Deadline() (time.Time, bool) { return time.Time{}, false }

// ctxFor returns the context for a run mode: "ok" | "cancelled" | "deadline" | "expire" (after n Err() calls).
func (e *Env) ctxFor(mode string, n int) (context.Context, context.CancelFunc) {
	switch mode {
	case "cancelled":
		ctx, cancel := context.WithCancel(e.Ctx)
		cancel()
		return ctx, func() {}
	case "deadline":
		return context.WithDeadline(e.Ctx, time.Now().Add(-time.Hour))
	case "expire":
		return newExpiringCtx(e.Ctx, n), func() {}
	}
	return e.Ctx, func() {}
}
