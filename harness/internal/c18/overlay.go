package c18

// NodeOverlays in the C18 worlds: FeatureGates.NodeOverlay on, NodeOverlay objects (price / priceAdjustment / capacity,
// requirements on well-known labels, weights, sometimes conflicting) on the fake client, the REAL nodeoverlay controller's
// Reconcile to evaluate them into a real InstanceTypeStore, and the overlay-decorated cloud provider
// (overlay.Decorate(fake provider, client, store)) handed to the real Provisioner and to the disruption helpers — as the
// operator wires them. Every GetInstanceTypes call a simulation makes goes through InstanceTypeStore.ApplyAll, which
// builds overlaid copies of the instance types / offerings it changes and shares the rest with the provider: the
// provider's own instance types and offerings (digested field by field in section "provider") and the store (section
// "overlay") must be as before afterwards.

import (
	"context"
	"fmt"
	"math/rand/v2"
	"sort"

	corev1 "k8s.io/api/core/v1"
	"k8s.io/apimachinery/pkg/api/resource"
	metav1 "k8s.io/apimachinery/pkg/apis/meta/v1"
	"k8s.io/apimachinery/pkg/types"
	"sigs.k8s.io/controller-runtime/pkg/client"
	"sigs.k8s.io/controller-runtime/pkg/client/interceptor"
	"sigs.k8s.io/controller-runtime/pkg/reconcile"

	"sigs.k8s.io/karpenter/pkg/apis/v1alpha1"
	"sigs.k8s.io/karpenter/pkg/cloudprovider/overlay"
	"sigs.k8s.io/karpenter/pkg/controllers/nodeoverlay"
	"sigs.k8s.io/karpenter/pkg/operator/options"

	"verifharness/internal/world"
)

type Overlay struct {
	Name   string        `json:"name"`
	Weight int32         `json:"weight"`
	Reqs   []world.KExpr `json:"reqs"` // requirements on well-known labels (instance type, zone, capacity type, arch)
	// at most one of the two: an absolute price ("0.05") or an adjustment ("+10%", "-25%", "+0.01", "-0.002")
	Price           string `json:"price,omitempty"`
	PriceAdjustment string `json:"priceAdjustment,omitempty"`
	// extended resources added to the capacity of the matching instance types
	Capacity map[string]int64 `json:"capacity,omitempty"`
}

// statusAsObject lets Status().Patch / Update of a kind the shared fake client knows no status subresource for act on the
// object itself (the API server of a real cluster has the subresource)
func statusAsObject(base client.Client) client.Client {
	return interceptor.NewClient(base.(client.WithWatch), interceptor.Funcs{
		SubResourcePatch: func(ctx context.Context, c client.Client, sub string, obj client.Object, patch client.Patch, opts ...client.SubResourcePatchOption) error {
			if _, ok := obj.(*v1alpha1.NodeOverlay); ok && sub == "status" {
				return c.Patch(ctx, obj, patch)
			}
			return c.SubResource(sub).Patch(ctx, obj, patch, opts...)
		},
		SubResourceUpdate: func(ctx context.Context, c client.Client, sub string, obj client.Object, opts ...client.SubResourceUpdateOption) error {
			if _, ok := obj.(*v1alpha1.NodeOverlay); ok && sub == "status" {
				return c.Update(ctx, obj)
			}
			return c.SubResource(sub).Update(ctx, obj, opts...)
		},
	})
}

// applyOverlays creates the NodeOverlays, lets the real controller evaluate them and puts the decorated provider in front
// of the fake one. Called before the Provisioner is built.
func (e *Env) applyOverlays(ovs []Overlay) error {
	w := e.W
	o := *options.FromContext(e.Ctx)
	o.FeatureGates.NodeOverlay = true
	e.Ctx = options.ToContext(e.Ctx, &o)
	for i, ov := range ovs {
		obj := &v1alpha1.NodeOverlay{
			ObjectMeta: metav1.ObjectMeta{Name: ov.Name, UID: types.UID(fmt.Sprintf("ov-%d", i)), Generation: 1, CreationTimestamp: metav1.NewTime(world.T0.Add(-3 * 3600e9))},
			Spec:       v1alpha1.NodeOverlaySpec{Weight: ptr(ov.Weight)},
		}
		for _, r := range ov.Reqs {
			obj.Spec.Requirements = append(obj.Spec.Requirements, v1alpha1.NodeSelectorRequirement{Key: r.Key, Operator: corev1.NodeSelectorOperator(r.Op), Values: r.Values})
		}
		if ov.Price != "" {
			obj.Spec.Price = ptr(ov.Price)
		} else if ov.PriceAdjustment != "" {
			obj.Spec.PriceAdjustment = ptr(ov.PriceAdjustment)
		}
		if len(ov.Capacity) > 0 {
			obj.Spec.Capacity = corev1.ResourceList{}
			for k, v := range ov.Capacity {
				obj.Spec.Capacity[corev1.ResourceName(k)] = *resource.NewQuantity(v, resource.DecimalSI)
			}
		}
		if err := w.Client.Create(e.Ctx, obj); err != nil {
			return err
		}
	}
	e.Store = nodeoverlay.NewInstanceTypeStore()
	// the controller looks at the undecorated provider and publishes what it evaluated to the store
	ctl := nodeoverlay.NewController(w.Clock, statusAsObject(w.Client), w.CP, e.Store, w.Cluster)
	for i := 0; i < 3; i++ {
		res, err := ctl.Reconcile(e.Ctx, reconcile.Request{})
		if err != nil {
			return fmt.Errorf("nodeoverlay controller: %w", err)
		}
		if !res.Requeue { //nolint:staticcheck
			break
		}
	}
	e.CP = overlay.Decorate(w.CP, e.Client, e.Store)
	return nil
}

// overlayEntries: what the store holds (reflection over the internal store the atomic pointer refers to) and the overlay
// objects' digests are part of the api section already.
func overlayEntries(e *Env, out Snapshot) Snapshot {
	if e.Store == nil {
		return out
	}
	ptrField := unexportedField(e.Store, "store")
	res := ptrField.Addr().MethodByName("Load").Call(nil)
	if len(res) == 1 && !res[0].IsNil() {
		out = structFields(out, "overlay", "store", res[0].Interface(), nil, nil)
	} else {
		out = append(out, Entry{"overlay", "store", "<nil>", "nil"})
	}
	return out
}

// ---------- generator ----------

// genOverlays: 1..3 overlays. Most adjust prices (relative: the kind that compounds when applied twice; absolute; flat
// offsets) of the offerings selected by instance type / capacity type / zone — always at least one that matches an
// offering that exists; some add an extended resource; sometimes two overlays of equal weight conflict (the controller
// then drops the later one).
func genOverlays(r *rand.Rand, s *world.Scenario) []Overlay {
	var out []Overlay
	n := 1 + r.IntN(3)
	for i := 0; i < n; i++ {
		ov := Overlay{Name: fmt.Sprintf("ov-%d", i), Weight: int32(pickOne(r, []int{1, 10, 10, 20, 50}))}
		it := s.ITs[r.IntN(len(s.ITs))]
		switch r.IntN(5) {
		case 0:
			ov.Reqs = []world.KExpr{{Key: corev1.LabelInstanceTypeStable, Op: "In", Values: []string{it.Name}}}
		case 1:
			ov.Reqs = []world.KExpr{{Key: "karpenter.sh/capacity-type", Op: "In", Values: []string{pickOne(r, []string{"spot", "on-demand"})}}}
		case 2:
			of := it.Offerings[r.IntN(len(it.Offerings))]
			ov.Reqs = []world.KExpr{{Key: corev1.LabelInstanceTypeStable, Op: "In", Values: []string{it.Name}},
				{Key: "karpenter.sh/capacity-type", Op: "In", Values: []string{of.CapacityType}}, {Key: corev1.LabelTopologyZone, Op: "In", Values: []string{of.Zone}}}
		case 3:
			ov.Reqs = []world.KExpr{{Key: corev1.LabelTopologyZone, Op: pickOne(r, []string{"In", "NotIn"}), Values: []string{world.Zones[r.IntN(3)]}}}
		default:
			ov.Reqs = []world.KExpr{{Key: corev1.LabelArchStable, Op: "In", Values: []string{"amd64"}}} // every instance type
		}
		switch x := r.IntN(10); {
		case x < 5:
			ov.PriceAdjustment = pickOne(r, []string{"+10%", "-10%", "+50%", "-25%", "+100%"})
		case x < 7:
			ov.PriceAdjustment = pickOne(r, []string{"+0.01", "-0.001", "+0.5"})
		case x < 9:
			ov.Price = pickOne(r, []string{"0.01", "0.05", "1.5"})
		}
		if ov.Price == "" && ov.PriceAdjustment == "" || r.IntN(5) == 0 {
			ov.Capacity = map[string]int64{"example.com/widgets": int64(1 + r.IntN(8))}
		}
		out = append(out, ov)
	}
	sort.Slice(out, func(i, j int) bool { return out[i].Name < out[j].Name })
	return out
}

func overlayLabels(ovs []Overlay) []string {
	if len(ovs) == 0 {
		return nil
	}
	seen := map[string]bool{"node-overlays": true}
	for _, ov := range ovs {
		switch {
		case ov.Price != "":
			seen["overlay:absolute-price"] = true
		case len(ov.PriceAdjustment) > 0 && ov.PriceAdjustment[len(ov.PriceAdjustment)-1] == '%':
			seen["overlay:relative-price-adjustment"] = true
		case ov.PriceAdjustment != "":
			seen["overlay:flat-price-adjustment"] = true
		}
		if len(ov.Capacity) > 0 {
			seen["overlay:capacity"] = true
		}
	}
	var out []string
	for k := range seen {
		out = append(out, k)
	}
	sort.Strings(out)
	return out
}
