package c18

// Deep structural digests ("the world before and after").
//
// The digest walks a Go value with reflection and follows every pointer, map, slice, interface and struct field,
// exported or not (unexported fields are made readable through unsafe: read-only use). Maps are hashed as sorted sets of
// (key digest, value digest) so that Go's iteration order does not matter; slices are hashed in order (an in-place sort
// is a change). A few types are canonicalised because their representation legitimately varies without their value
// changing (resource.Quantity caches its string form, time.Time carries a monotonic reading / location pointer) and the
// synchronisation primitives are skipped (sync.Once/Mutex/RWMutex, sync/atomic): they hold no state of the world.

import (
	"crypto/sha256"
	"encoding/binary"
	"encoding/hex"
	"fmt"
	"hash"
	"math"
	"reflect"
	"sort"
	"sync"
	"time"
	"unsafe"

	"k8s.io/apimachinery/pkg/api/resource"
)

var (
	tQuantity = reflect.TypeOf(resource.Quantity{})
	tTime     = reflect.TypeOf(time.Time{})
	tSyncMap  = reflect.TypeOf(sync.Map{})
)

type visitKey struct {
	p uintptr
	t reflect.Type
}

type digester struct {
	h       hash.Hash
	visited map[visitKey]int
	// skip lists struct fields ("pkg.Type.field") that are not part of the digest (links out of the world: API client,
	// clock, cloud provider handle)
	skip map[string]bool
	n    int
}

func newDigester(skip map[string]bool) *digester {
	return &digester{h: sha256.New(), visited: map[visitKey]int{}, skip: skip}
}

func (d *digester) sum() string {
	return hex.EncodeToString(d.h.Sum(nil)[:8])
}

func (d *digester) tag(s string) { d.h.Write([]byte(s)); d.h.Write([]byte{0}) }
func (d *digester) u64(x uint64) {
	var b [8]byte
	binary.LittleEndian.PutUint64(b[:], x)
	d.h.Write(b[:])
}

// readable returns v with the read-only flag (unexported field) cleared when that is possible.
func readable(v reflect.Value) reflect.Value {
	if !v.IsValid() || v.CanInterface() {
		return v
	}
	if v.CanAddr() {
		return reflect.NewAt(v.Type(), unsafe.Pointer(v.UnsafeAddr())).Elem()
	}
	return v
}

func isSyncPrimitive(t reflect.Type) bool {
	switch t.PkgPath() {
	case "sync":
		return t.Name() != "Map"
	case "sync/atomic", "internal/sync":
		return true
	}
	return false
}

// sub returns the digest of one value computed with a fresh hash but the same visited set semantics (a fresh visited
// set: digests of map entries must not depend on traversal order).
func (d *digester) sub(v reflect.Value) string {
	s := newDigester(d.skip)
	s.walk(v)
	return s.sum()
}

func (d *digester) walk(v reflect.Value) {
	d.n++
	if !v.IsValid() {
		d.tag("invalid")
		return
	}
	v = readable(v)
	t := v.Type()
	if isSyncPrimitive(t) {
		d.tag("sync")
		return
	}
	switch t {
	case tQuantity:
		if v.CanInterface() {
			q := v.Interface().(resource.Quantity)
			d.tag("qty")
			d.tag(q.AsDec().String())
			d.tag(string(q.Format))
			return
		}
	case tTime:
		if v.CanInterface() {
			tm := v.Interface().(time.Time)
			d.tag("time")
			if tm.IsZero() {
				d.tag("zero")
			} else {
				d.tag(tm.UTC().Format(time.RFC3339Nano))
			}
			return
		}
	case tSyncMap:
		if v.CanAddr() {
			m := (*sync.Map)(unsafe.Pointer(v.UnsafeAddr()))
			var entries []string
			m.Range(func(k, val any) bool {
				entries = append(entries, d.sub(reflect.ValueOf(k))+":"+d.sub(reflect.ValueOf(val)))
				return true
			})
			sort.Strings(entries)
			d.tag("syncmap")
			for _, e := range entries {
				d.tag(e)
			}
			return
		}
		d.tag("syncmap-unaddressable")
		return
	}
	switch v.Kind() {
	case reflect.Bool:
		if v.Bool() {
			d.tag("T")
		} else {
			d.tag("F")
		}
	case reflect.Int, reflect.Int8, reflect.Int16, reflect.Int32, reflect.Int64:
		d.tag("i")
		d.u64(uint64(v.Int()))
	case reflect.Uint, reflect.Uint8, reflect.Uint16, reflect.Uint32, reflect.Uint64, reflect.Uintptr:
		d.tag("u")
		d.u64(v.Uint())
	case reflect.Float32, reflect.Float64:
		d.tag("f")
		d.u64(math.Float64bits(v.Float()))
	case reflect.Complex64, reflect.Complex128:
		d.tag("c")
		d.u64(math.Float64bits(real(v.Complex())))
		d.u64(math.Float64bits(imag(v.Complex())))
	case reflect.String:
		d.tag("s")
		d.tag(v.String())
	case reflect.Pointer:
		if v.IsNil() {
			d.tag("nil")
			return
		}
		k := visitKey{v.Pointer(), t}
		if id, ok := d.visited[k]; ok {
			d.tag("backref")
			d.u64(uint64(id))
			return
		}
		d.visited[k] = len(d.visited)
		d.tag("ptr")
		d.walk(v.Elem())
	case reflect.Interface:
		if v.IsNil() {
			d.tag("nil")
			return
		}
		e := v.Elem()
		d.tag("iface:" + e.Type().String())
		if !e.CanAddr() && e.CanInterface() && e.Kind() == reflect.Struct {
			c := reflect.New(e.Type()).Elem()
			c.Set(e)
			e = c
		}
		d.walk(e)
	case reflect.Slice:
		if v.IsNil() {
			d.tag("nilslice")
			return
		}
		d.tag("slice")
		d.u64(uint64(v.Len()))
		if t.Elem().Kind() == reflect.Uint8 {
			d.h.Write(v.Bytes())
			return
		}
		for i := 0; i < v.Len(); i++ {
			d.walk(v.Index(i))
		}
	case reflect.Array:
		d.tag("array")
		for i := 0; i < v.Len(); i++ {
			d.walk(v.Index(i))
		}
	case reflect.Map:
		if v.IsNil() {
			d.tag("nilmap")
			return
		}
		entries := make([]string, 0, v.Len())
		it := v.MapRange()
		for it.Next() {
			k, e := it.Key(), it.Value()
			if e.CanInterface() && !e.CanAddr() && (e.Kind() == reflect.Struct || e.Kind() == reflect.Array) {
				c := reflect.New(e.Type()).Elem()
				c.Set(e)
				e = c
			}
			if k.CanInterface() && !k.CanAddr() && k.Kind() == reflect.Struct {
				c := reflect.New(k.Type()).Elem()
				c.Set(k)
				k = c
			}
			entries = append(entries, d.sub(k)+":"+d.sub(e))
		}
		sort.Strings(entries)
		d.tag("map")
		d.u64(uint64(len(entries)))
		for _, e := range entries {
			d.tag(e)
		}
	case reflect.Struct:
		d.tag("struct:" + t.String())
		for i := 0; i < v.NumField(); i++ {
			f := t.Field(i)
			if d.skip != nil && d.skip[t.String()+"."+f.Name] {
				continue
			}
			d.tag(f.Name)
			d.walk(v.Field(i))
		}
	case reflect.Func:
		if v.IsNil() {
			d.tag("nilfunc")
		} else {
			d.tag("func")
		}
	case reflect.Chan, reflect.UnsafePointer:
		d.tag("opaque")
	default:
		d.tag("kind:" + v.Kind().String())
	}
}

// Digest returns the deep structural digest of a value (pass a pointer to reach unexported fields).
func Digest(x any, skip map[string]bool) string {
	d := newDigester(skip)
	d.walk(reflect.ValueOf(x))
	return d.sum()
}

// Entry is one observed component of the world: a section (api | cluster | node | accessor | provider | input),
// the object it belongs to, the field / accessor name, and the digest of its value.
type Entry struct {
	Sec string `json:"s"`
	Obj string `json:"o"`
	Fld string `json:"f"`
	Dig string `json:"d"`
}

type Snapshot []Entry

func (s Snapshot) sorted() Snapshot {
	sort.Slice(s, func(i, j int) bool {
		if s[i].Sec != s[j].Sec {
			return s[i].Sec < s[j].Sec
		}
		if s[i].Obj != s[j].Obj {
			return s[i].Obj < s[j].Obj
		}
		return s[i].Fld < s[j].Fld
	})
	return s
}

// structFields appends one entry per field of the struct pointed to by ptr (all fields, exported or not).
func structFields(out Snapshot, sec, obj string, ptr any, skip map[string]bool, except map[string]bool) Snapshot {
	v := reflect.ValueOf(ptr)
	if v.Kind() != reflect.Pointer || v.IsNil() {
		return append(out, Entry{sec, obj, "<nil>", "nil"})
	}
	v = v.Elem()
	t := v.Type()
	for i := 0; i < t.NumField(); i++ {
		name := t.Field(i).Name
		if except[name] {
			continue
		}
		f := readable(v.Field(i))
		d := newDigester(skip)
		d.walk(f)
		out = append(out, Entry{sec, obj, name, d.sum()})
	}
	return out
}

// fieldNames lists the fields of the struct type behind ptr.
func fieldNames(ptr any) []string {
	t := reflect.TypeOf(ptr).Elem()
	var out []string
	for i := 0; i < t.NumField(); i++ {
		out = append(out, t.Field(i).Name)
	}
	return out
}

// unexportedField returns a readable reflect.Value of a (possibly unexported) field of the struct behind ptr.
func unexportedField(ptr any, name string) reflect.Value {
	v := reflect.ValueOf(ptr).Elem().FieldByName(name)
	if !v.IsValid() {
		panic(fmt.Sprintf("c18 probe: %T has no field %q", ptr, name))
	}
	return readable(v)
}
