package c18

// Dynamic resource allocation (DRA) in the C18 worlds: IgnoreDRARequests=false, a hydrated deviceallocation controller
// handed to the Provisioner, DeviceClasses / ResourceSlices / ResourceClaims on the fake client, instance types whose
// DynamicResources carry ResourceSlice templates (plain exclusive template devices and a partitionable device: a template
// that declares a shared counter budget plus template partitions that consume it), pending pods and pods bound to
// (candidate) nodes that reference ResourceClaims, some of them already allocated and reserved for the pod.
//
// What a simulation may reach here and must leave alone: the provider's ResourceSliceTemplates (devices, SharedCounters
// budgets — digested with every other field of the InstanceType), the deviceallocation controller's maps (section
// "dra"), the ResourceClaim / ResourceSlice / DeviceClass objects (section "api").

import (
	"context"
	"fmt"
	"math/rand/v2"
	"sort"
	"unique"

	corev1 "k8s.io/api/core/v1"
	resourcev1 "k8s.io/api/resource/v1"
	"k8s.io/apimachinery/pkg/api/resource"
	metav1 "k8s.io/apimachinery/pkg/apis/meta/v1"
	"k8s.io/apimachinery/pkg/types"

	"sigs.k8s.io/karpenter/pkg/cloudprovider"
	"sigs.k8s.io/karpenter/pkg/controllers/dynamicresources/deviceallocation"
	"sigs.k8s.io/karpenter/pkg/controllers/provisioning/scheduling"
	"sigs.k8s.io/karpenter/pkg/operator/options"

	"verifharness/internal/world"
)

const (
	drvExcl   = "gpu.example.com"
	drvShared = "shared.example.com"
	drvTmpl   = "tmpl.example.com"
	drvPart   = "part.example.com"
	drvTPart  = "tpart.example.com"
	capDim    = "mem"
	ctrSet    = "cs"
	ctrName   = "slots"
)

// DraPart is a partition of a partitionable device: an exclusive device that consumes W units of the shared counter
type DraPart struct {
	Name string `json:"name"`
	W    int64  `json:"w"`
}

// DraCounterDev is a partitionable device: a shared counter budget of Slots units and the partitions drawing from it.
// On an instance type it is published as two ResourceSlice templates (counter declaration, partitions); on an existing
// node as two ResourceSlices pinned to and owned by the Node.
type DraCounterDev struct {
	Slots int64     `json:"slots"`
	Parts []DraPart `json:"parts"`
	// the counter set is declared in Sets templates / slices of the pool (1 = the usual single declaration; 2 = the
	// budget is split over two declarations of the same counter set, which the allocator sums up)
	Split bool `json:"split,omitempty"`
}

type DraShared struct {
	Name string `json:"name"`
	Cap  int64  `json:"cap"` // capacity in the dimension "mem"
	// further consumable capacity dimensions of the device (e.g. bw, iops) and their capacity
	Caps map[string]int64 `json:"caps,omitempty"`
}

// DraAlloc is the allocation an in-cluster claim already holds
type DraAlloc struct {
	Driver string `json:"driver"`
	Pool   string `json:"pool"`
	Device string `json:"device"`
	Cap    int64  `json:"cap,omitempty"` // consumed capacity (dimension "mem") on a multi-allocatable device
	// consumed capacity in further dimensions; a claim may consume some dimensions only (Cap == 0)
	Caps map[string]int64 `json:"caps,omitempty"`
	// the pods the claim is reserved for (by name); NonPod: reserved for a consumer that is not a pod
	Pods   []string `json:"pods"`
	NonPod bool     `json:"nonPod,omitempty"`
}

type DraClaim struct {
	Name  string `json:"name"`
	Class string `json:"class"` // gpu | tmpl | shared | part | tpart | anypart (part or tpart)
	Count int64  `json:"count"`
	Cap   int64  `json:"cap,omitempty"`
	// capacity requested in further dimensions of a multi-allocatable device
	Caps  map[string]int64 `json:"caps,omitempty"`
	Alloc *DraAlloc        `json:"alloc,omitempty"`
}

type Dra struct {
	Tmpl      map[string][]string      `json:"tmpl"`      // instance type -> exclusive template devices
	TParts    map[string]DraCounterDev `json:"tparts"`    // instance type -> the partitionable device it comes with
	NodeParts map[string]DraCounterDev `json:"nodeParts"` // existing node -> its node-local partitionable device
	Excl      []string                 `json:"excl"`      // cluster-wide exclusive devices
	Shared    []DraShared              `json:"shared"`    // cluster-wide multi-allocatable devices
	Claims    []DraClaim               `json:"claims"`
	PodClaims map[string][]string      `json:"podClaims"` // pod (pending or bound) -> the ResourceClaims it references
}

func qty(n int64) resource.Quantity { return *resource.NewQuantity(n, resource.DecimalSI) }

func counterConsumption(w int64) []resourcev1.DeviceCounterConsumption {
	return []resourcev1.DeviceCounterConsumption{{CounterSet: ctrSet, Counters: map[string]resourcev1.Counter{ctrName: {Value: qty(w)}}}}
}

// counterDecls: the declarations of the counter set (one, or two halves when split)
func counterDecls(d DraCounterDev) [][]resourcev1.CounterSet {
	one := func(n int64) []resourcev1.CounterSet {
		return []resourcev1.CounterSet{{Name: ctrSet, Counters: map[string]resourcev1.Counter{ctrName: {Value: qty(n)}}}}
	}
	if d.Split && d.Slots >= 2 {
		return [][]resourcev1.CounterSet{one(d.Slots / 2), one(d.Slots - d.Slots/2)}
	}
	return [][]resourcev1.CounterSet{one(d.Slots)}
}

func templatesFor(d DraCounterDev) []*cloudprovider.ResourceSliceTemplate {
	if len(d.Parts) == 0 {
		return nil
	}
	pool := cloudprovider.ResourcePool{Name: unique.Make("pool-tp")}
	var out []*cloudprovider.ResourceSliceTemplate
	for _, cs := range counterDecls(d) {
		out = append(out, &cloudprovider.ResourceSliceTemplate{Driver: unique.Make(drvTPart), Pool: pool, SharedCounters: cs})
	}
	devs := []cloudprovider.Device{}
	for _, p := range d.Parts {
		devs = append(devs, cloudprovider.Device{Name: unique.Make(p.Name), ConsumesCounters: counterConsumption(p.W)})
	}
	return append(out, &cloudprovider.ResourceSliceTemplate{Driver: unique.Make(drvTPart), Pool: pool, Devices: devs})
}

func draDeviceClass(name, expr string, i int) *resourcev1.DeviceClass {
	return &resourcev1.DeviceClass{ObjectMeta: metav1.ObjectMeta{Name: name, UID: types.UID(fmt.Sprintf("dc-%d", i))},
		Spec: resourcev1.DeviceClassSpec{Selectors: []resourcev1.DeviceSelector{{CEL: &resourcev1.CELDeviceSelector{Expression: expr}}}}}
}

// applyDRA publishes the DRA vocabulary of the scenario. Called after world.Build (pods and nodes exist).
func (e *Env) applyDRA(d *Dra) error {
	w := e.W
	o := *options.FromContext(e.Ctx)
	o.IgnoreDRARequests = false
	e.Ctx = options.ToContext(context.Background(), &o)
	ctx := e.Ctx
	// the provider's catalogue: ResourceSlice templates
	for _, it := range w.CP.InstanceTypes {
		if devs := d.Tmpl[it.Name]; len(devs) > 0 {
			ds := []cloudprovider.Device{}
			for _, n := range devs {
				ds = append(ds, cloudprovider.Device{Name: unique.Make(n)})
			}
			it.DynamicResources.ResourceSliceTemplates = append(it.DynamicResources.ResourceSliceTemplates,
				&cloudprovider.ResourceSliceTemplate{Driver: unique.Make(drvTmpl), Pool: cloudprovider.ResourcePool{Name: unique.Make("pool-t")}, Devices: ds})
		}
		if tp, ok := d.TParts[it.Name]; ok {
			it.DynamicResources.ResourceSliceTemplates = append(it.DynamicResources.ResourceSliceTemplates, templatesFor(tp)...)
		}
	}
	is := func(drv string) string { return fmt.Sprintf(`device.driver == %q`, drv) }
	for _, dc := range []*resourcev1.DeviceClass{
		draDeviceClass("gpu", is(drvExcl), 0), draDeviceClass("tmpl", is(drvTmpl), 1), draDeviceClass("shared", is(drvShared), 2),
		draDeviceClass("part", is(drvPart), 3), draDeviceClass("tpart", is(drvTPart), 4),
		draDeviceClass("anypart", is(drvPart)+" || "+is(drvTPart), 5)} {
		if err := w.Client.Create(ctx, dc); err != nil {
			return err
		}
	}
	seq := 0
	meta := func(name string, owner *corev1.Node) metav1.ObjectMeta {
		seq++
		m := metav1.ObjectMeta{Name: name, UID: types.UID(fmt.Sprintf("rs-%d", seq))}
		if owner != nil {
			m.OwnerReferences = []metav1.OwnerReference{{APIVersion: "v1", Kind: "Node", Name: owner.Name, UID: owner.UID}}
		}
		return m
	}
	if len(d.Excl) > 0 {
		s := &resourcev1.ResourceSlice{ObjectMeta: meta("s-excl", nil), Spec: resourcev1.ResourceSliceSpec{Driver: drvExcl,
			Pool: resourcev1.ResourcePool{Name: "pool-a", Generation: 1, ResourceSliceCount: 1}, AllNodes: ptr(true)}}
		for _, n := range d.Excl {
			s.Spec.Devices = append(s.Spec.Devices, resourcev1.Device{Name: n})
		}
		if err := w.Client.Create(ctx, s); err != nil {
			return err
		}
	}
	if len(d.Shared) > 0 {
		s := &resourcev1.ResourceSlice{ObjectMeta: meta("s-shared", nil), Spec: resourcev1.ResourceSliceSpec{Driver: drvShared,
			Pool: resourcev1.ResourcePool{Name: "pool-b", Generation: 1, ResourceSliceCount: 1}, AllNodes: ptr(true)}}
		for _, sd := range d.Shared {
			caps := map[resourcev1.QualifiedName]resourcev1.DeviceCapacity{capDim: {Value: qty(sd.Cap)}}
			for k, v := range sd.Caps {
				caps[resourcev1.QualifiedName(k)] = resourcev1.DeviceCapacity{Value: qty(v)}
			}
			s.Spec.Devices = append(s.Spec.Devices, resourcev1.Device{Name: sd.Name, AllowMultipleAllocations: ptr(true), Capacity: caps})
		}
		if err := w.Client.Create(ctx, s); err != nil {
			return err
		}
	}
	var nodeNames []string
	for n := range d.NodeParts {
		nodeNames = append(nodeNames, n)
	}
	sort.Strings(nodeNames)
	for _, name := range nodeNames {
		np := d.NodeParts[name]
		node := &corev1.Node{}
		if err := w.Client.Get(ctx, types.NamespacedName{Name: name}, node); err != nil || len(np.Parts) == 0 {
			continue // no Node object (a NodeClaim that has not registered): nothing publishes slices for it
		}
		decls := counterDecls(np)
		pool := resourcev1.ResourcePool{Name: "np-" + name, Generation: 1, ResourceSliceCount: int64(len(decls) + 1)}
		for i, cs := range decls {
			s := &resourcev1.ResourceSlice{ObjectMeta: meta(fmt.Sprintf("s-np-%s-counters-%d", name, i), node),
				Spec: resourcev1.ResourceSliceSpec{Driver: drvPart, Pool: pool, NodeName: ptr(name), SharedCounters: cs}}
			if err := w.Client.Create(ctx, s); err != nil {
				return err
			}
		}
		ds := &resourcev1.ResourceSlice{ObjectMeta: meta("s-np-"+name+"-devices", node),
			Spec: resourcev1.ResourceSliceSpec{Driver: drvPart, Pool: pool, NodeName: ptr(name)}}
		for _, p := range np.Parts {
			ds.Spec.Devices = append(ds.Spec.Devices, resourcev1.Device{Name: p.Name, ConsumesCounters: counterConsumption(p.W)})
		}
		if err := w.Client.Create(ctx, ds); err != nil {
			return err
		}
	}
	// pods reference their claims
	var pods corev1.PodList
	if err := w.Client.List(ctx, &pods); err != nil {
		return err
	}
	uid := map[string]types.UID{}
	for i := range pods.Items {
		p := &pods.Items[i]
		uid[p.Name] = p.UID
		cs := d.PodClaims[p.Name]
		if len(cs) == 0 {
			continue
		}
		for j, cn := range cs {
			p.Spec.ResourceClaims = append(p.Spec.ResourceClaims, corev1.PodResourceClaim{Name: fmt.Sprintf("c%d", j), ResourceClaimName: ptr(cn)})
		}
		if err := w.Client.Update(ctx, p); err != nil {
			return err
		}
		if p.Spec.NodeName != "" {
			if err := w.Cluster.UpdatePod(ctx, p); err != nil {
				return err
			}
		}
	}
	for i, c := range d.Claims {
		req := resourcev1.DeviceRequest{Name: "req", Exactly: &resourcev1.ExactDeviceRequest{DeviceClassName: c.Class, Count: max(c.Count, 1)}}
		if c.Class == "shared" {
			reqs := map[resourcev1.QualifiedName]resource.Quantity{}
			if c.Cap > 0 || len(c.Caps) == 0 {
				reqs[capDim] = qty(c.Cap)
			}
			for k, v := range c.Caps {
				reqs[resourcev1.QualifiedName(k)] = qty(v)
			}
			req.Exactly.Capacity = &resourcev1.CapacityRequirements{Requests: reqs}
		}
		rc := &resourcev1.ResourceClaim{ObjectMeta: metav1.ObjectMeta{Name: c.Name, Namespace: "default", UID: types.UID(fmt.Sprintf("rc-%d", i))},
			Spec: resourcev1.ResourceClaimSpec{Devices: resourcev1.DeviceClaim{Requests: []resourcev1.DeviceRequest{req}}}}
		if a := c.Alloc; a != nil {
			res := resourcev1.DeviceRequestAllocationResult{Request: "req", Driver: a.Driver, Pool: a.Pool, Device: a.Device}
			if a.Cap > 0 || len(a.Caps) > 0 {
				res.ShareID = ptr(types.UID(fmt.Sprintf("share-%d", i)))
				res.ConsumedCapacity = map[resourcev1.QualifiedName]resource.Quantity{}
				if a.Cap > 0 {
					res.ConsumedCapacity[capDim] = qty(a.Cap)
				}
				for k, v := range a.Caps {
					res.ConsumedCapacity[resourcev1.QualifiedName(k)] = qty(v)
				}
			}
			rc.Status.Allocation = &resourcev1.AllocationResult{Devices: resourcev1.DeviceAllocationResult{Results: []resourcev1.DeviceRequestAllocationResult{res}}}
			for _, pn := range a.Pods {
				if u, ok := uid[pn]; ok {
					rc.Status.ReservedFor = append(rc.Status.ReservedFor, resourcev1.ResourceClaimConsumerReference{Resource: "pods", Name: pn, UID: u})
				}
			}
			if a.NonPod {
				rc.Status.ReservedFor = append(rc.Status.ReservedFor, resourcev1.ResourceClaimConsumerReference{APIGroup: "example.com", Resource: "widgets", Name: "w", UID: "w-1"})
			}
		}
		if err := w.Client.Create(ctx, rc); err != nil {
			return err
		}
	}
	e.Dev = deviceallocation.NewController(w.Client)
	e.Dev.Hydrate(ctx)
	return nil
}

// draSummary: how many ResourceClaims a result allocated, and how many of them from the counter-consuming template
// partitions of an instance type
func draSummary(res scheduling.Results) (claims int, tmplCounter int, tmpl int) {
	for _, m := range res.DRAClaimAllocationMetadata {
		claims++
		tc, t := false, false
		for _, devs := range m.Devices {
			for _, dv := range devs {
				if dv.DeviceID.Driver.Value() == drvTPart {
					tc = true
				}
				if dv.DeviceID.Template {
					t = true
				}
			}
		}
		if tc {
			tmplCounter++
		}
		if t {
			tmpl++
		}
	}
	return
}

// ---------- generator ----------

func pickOne[T any](r *rand.Rand, xs []T) T { return xs[r.IntN(len(xs))] }

// genDra decorates a scenario with DRA: most instance types get template devices (a partitionable device with a budget
// around what its partitions need: exactly enough for one / for all / one unit short; sometimes declared in two halves),
// a few cluster-wide exclusive and multi-allocatable devices, node-local partitionable devices on some existing nodes,
// claims for most pending pods and for some bound pods (those already allocated and reserved for the pod).
func genDra(r *rand.Rand, s *world.Scenario) *Dra {
	d := &Dra{Tmpl: map[string][]string{}, TParts: map[string]DraCounterDev{}, NodeParts: map[string]DraCounterDev{},
		Excl: []string{}, Shared: []DraShared{}, Claims: []DraClaim{}, PodClaims: map[string][]string{}}
	counterDev := func(prefix string) DraCounterDev {
		cd := DraCounterDev{Split: r.IntN(5) == 0}
		var sum, mx int64
		for j := 0; j < 2+r.IntN(2); j++ {
			p := DraPart{Name: fmt.Sprintf("%s-%d", prefix, j), W: int64(1 + r.IntN(3))}
			cd.Parts = append(cd.Parts, p)
			sum += p.W
			mx = max(mx, p.W)
		}
		cd.Slots = pickOne(r, []int64{mx, sum, sum, sum - 1, sum + 1, 2 * sum})
		return cd
	}
	for _, it := range s.ITs {
		if r.IntN(3) != 0 {
			d.TParts[it.Name] = counterDev("tp")
		}
		if r.IntN(3) == 0 {
			for j := 0; j < 1+r.IntN(2); j++ {
				d.Tmpl[it.Name] = append(d.Tmpl[it.Name], fmt.Sprintf("tdev-%d", j))
			}
		}
	}
	for i := 0; i < r.IntN(4); i++ {
		d.Excl = append(d.Excl, fmt.Sprintf("gpu-%d", i))
	}
	if r.IntN(3) != 0 {
		sd := DraShared{Name: "mig-0", Cap: int64(2 + r.IntN(6))}
		// most multi-allocatable devices have several consumable capacity dimensions
		if r.IntN(4) != 0 {
			sd.Caps = map[string]int64{"bw": int64(1 + r.IntN(4))}
			if r.IntN(3) == 0 {
				sd.Caps["iops"] = int64(1 + r.IntN(4))
			}
		}
		d.Shared = append(d.Shared, sd)
	}
	for _, n := range s.Nodes {
		if n.Stage != "claim" && r.IntN(3) == 0 {
			d.NodeParts[n.Name] = counterDev("np-" + n.Name)
		}
	}
	// bound pods that hold devices: exclusive in-cluster ones, a share of a multi-allocatable one, a partition of their
	// node's device
	freeExcl := append([]string{}, d.Excl...)
	sharedLeft := map[string]int64{} // "<device>/<dimension>" -> capacity left
	for _, sd := range d.Shared {
		sharedLeft[sd.Name+"/"+capDim] = sd.Cap
		for k, v := range sd.Caps {
			sharedLeft[sd.Name+"/"+k] = v
		}
	}
	// a share of the device: a random non-empty subset of its dimensions that still have capacity (often a single one:
	// the claim is then the only consumer of that dimension, or one of few)
	takeShare := func(sd DraShared) (int64, map[string]int64, bool) {
		dims := []string{capDim}
		for _, k := range []string{"bw", "iops"} {
			if _, ok := sd.Caps[k]; ok {
				dims = append(dims, k)
			}
		}
		var mem int64
		caps := map[string]int64{}
		for _, k := range dims {
			left := sharedLeft[sd.Name+"/"+k]
			if left <= 0 || r.IntN(2) == 0 {
				continue
			}
			c := 1 + r.Int64N(left)
			if r.IntN(3) == 0 {
				c = left // uses the dimension up
			}
			sharedLeft[sd.Name+"/"+k] -= c
			if k == capDim {
				mem = c
			} else {
				caps[k] = c
			}
		}
		if len(caps) == 0 {
			caps = nil
		}
		return mem, caps, mem > 0 || caps != nil
	}
	newClaim := func(c DraClaim) string {
		c.Name = fmt.Sprintf("rc-%d", len(d.Claims))
		d.Claims = append(d.Claims, c)
		return c.Name
	}
	for _, n := range s.Nodes {
		if n.Stage == "claim" {
			continue
		}
		np, hasNP := d.NodeParts[n.Name]
		usedSlots, nextPart := int64(0), 0
		for _, p := range n.Pods {
			if p.Daemon || r.IntN(2) == 0 {
				continue
			}
			k := r.IntN(3)
			if len(d.Shared) > 0 && r.IntN(3) != 0 {
				k = 1 // worlds with a multi-allocatable device: most device holders hold a share of it
			}
			switch {
			case k == 0 && len(freeExcl) > 0:
				dev := freeExcl[0]
				freeExcl = freeExcl[1:]
				d.PodClaims[p.Name] = append(d.PodClaims[p.Name], newClaim(DraClaim{Class: "gpu", Count: 1,
					Alloc: &DraAlloc{Driver: drvExcl, Pool: "pool-a", Device: dev, Pods: []string{p.Name}, NonPod: r.IntN(8) == 0}}))
			case k == 1 && len(d.Shared) > 0:
				sd := d.Shared[0]
				mem, caps, ok := takeShare(sd)
				if !ok {
					continue
				}
				d.PodClaims[p.Name] = append(d.PodClaims[p.Name], newClaim(DraClaim{Class: "shared", Count: 1, Cap: mem, Caps: caps,
					Alloc: &DraAlloc{Driver: drvShared, Pool: "pool-b", Device: sd.Name, Cap: mem, Caps: caps, Pods: []string{p.Name}}}))
			case hasNP && nextPart < len(np.Parts) && usedSlots+np.Parts[nextPart].W <= np.Slots:
				part := np.Parts[nextPart]
				nextPart++
				usedSlots += part.W
				d.PodClaims[p.Name] = append(d.PodClaims[p.Name], newClaim(DraClaim{Class: pickOne(r, []string{"part", "anypart", "anypart"}), Count: 1,
					Alloc: &DraAlloc{Driver: drvPart, Pool: "np-" + n.Name, Device: part.Name, Pods: []string{p.Name}}}))
			}
		}
	}
	// a device held by something that is not a pod
	if len(freeExcl) > 0 && r.IntN(4) == 0 {
		newClaim(DraClaim{Class: "gpu", Count: 1, Alloc: &DraAlloc{Driver: drvExcl, Pool: "pool-a", Device: freeExcl[0], Pods: []string{}, NonPod: true}})
	}
	// pending pods: most carry a claim
	var pendingClaims []string
	for _, p := range s.Pods {
		if r.IntN(4) == 0 {
			continue
		}
		if len(pendingClaims) > 0 && r.IntN(8) == 0 {
			d.PodClaims[p.Name] = append(d.PodClaims[p.Name], pickOne(r, pendingClaims)) // a claim shared between pods
			continue
		}
		c := DraClaim{Count: 1}
		switch x := r.IntN(10); {
		case x < 5 && len(d.TParts) > 0:
			c.Class = pickOne(r, []string{"tpart", "tpart", "anypart"})
			if r.IntN(6) == 0 {
				c.Count = 2
			}
		case x < 6 && len(d.Tmpl) > 0:
			c.Class = "tmpl"
		case x < 8 && len(d.Shared) > 0:
			c.Class, c.Cap = "shared", int64(1+r.IntN(4))
		case x < 9 && len(d.NodeParts) > 0:
			c.Class = "part"
		default:
			c.Class = "gpu"
		}
		name := newClaim(c)
		pendingClaims = append(pendingClaims, name)
		d.PodClaims[p.Name] = append(d.PodClaims[p.Name], name)
	}
	return d
}

func draLabels(d *Dra) []string {
	if d == nil {
		return nil
	}
	l := []string{"dra"}
	if len(d.TParts) > 0 {
		l = append(l, "dra:instance-type-with-template-counter-budget")
		for _, tp := range d.TParts {
			if tp.Split {
				l = append(l, "dra:counter-set-declared-twice")
				break
			}
		}
	}
	if len(d.Tmpl) > 0 {
		l = append(l, "dra:instance-type-with-template-devices")
	}
	if len(d.NodeParts) > 0 {
		l = append(l, "dra:node-local-counter-device")
	}
	pre, nonPod := false, false
	for _, c := range d.Claims {
		if c.Alloc != nil {
			pre = true
			nonPod = nonPod || c.Alloc.NonPod
			if c.Alloc.Cap > 0 || len(c.Alloc.Caps) > 0 {
				l = append(l, "dra:bound-pod-holds-shared-capacity")
			}
			if len(c.Alloc.Caps) > 0 {
				l = append(l, "dra:bound-pod-holds-capacity-in-further-dimensions")
			}
			if c.Alloc.Cap == 0 && len(c.Alloc.Caps) == 1 {
				l = append(l, "dra:bound-pod-claim-consumes-a-single-dimension")
			}
		}
	}
	if pre {
		l = append(l, "dra:bound-pod-holds-device")
	}
	if nonPod {
		l = append(l, "dra:device-held-by-non-pod-consumer")
	}
	seen := map[string]bool{}
	out := []string{}
	for _, x := range l {
		if !seen[x] {
			seen[x] = true
			out = append(out, x)
		}
	}
	return out
}

// shrinkDra: smaller DRA decorations (fewer pods with claims, no node-local devices, no plain template devices)
func shrinkDra(d *Dra) []*Dra {
	var out []*Dra
	var names []string
	for n := range d.PodClaims {
		names = append(names, n)
	}
	sort.Strings(names)
	for _, n := range names {
		c := *d
		c.PodClaims = map[string][]string{}
		for k, v := range d.PodClaims {
			if k != n {
				c.PodClaims[k] = v
			}
		}
		out = append(out, &c)
	}
	if len(d.NodeParts) > 0 {
		c := *d
		c.NodeParts = map[string]DraCounterDev{}
		out = append(out, &c)
	}
	if len(d.Tmpl) > 0 {
		c := *d
		c.Tmpl = map[string][]string{}
		out = append(out, &c)
	}
	if len(d.Excl) > 0 || len(d.Shared) > 0 {
		c := *d
		c.Excl, c.Shared = []string{}, []DraShared{}
		out = append(out, &c)
	}
	return out
}
