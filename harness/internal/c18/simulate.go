package c18

// c18.simulate: consecutive REAL disruption.SimulateScheduling calls (accepted, rejected, cancelled, timed out at the
// start or in the middle of Solve) over shared Candidate objects from the real disruption.GetCandidates, with a digest
// of the whole observable world before and after every call.

import (
	"context"
	"encoding/json"
	"errors"
	"fmt"
	"math/rand/v2"
	"sort"
	"strings"

	corev1 "k8s.io/api/core/v1"

	"sigs.k8s.io/karpenter/pkg/controllers/disruption"
	"sigs.k8s.io/karpenter/pkg/controllers/provisioning/scheduling"

	"verifharness/internal/core"
	"verifharness/internal/world"
)

type Run struct {
	Subset        []int  `json:"subset"` // indices (mod #candidates) of the candidates simulated together; empty = none
	Mode          string `json:"mode"`   // ok | cancelled | deadline | expire
	After         int    `json:"after"`  // expire: number of ctx.Err() calls that still succeed
	Consolidation bool   `json:"consolidation"`
	// a node another controller marks for deletion just before this run (the harness's own, legitimate change: the
	// "before" snapshot is taken after it)
	Mark string `json:"mark"`
}

type SimIn struct {
	Scn  world.Scenario `json:"scn"`
	Ext  Ext            `json:"ext"`
	Want []string       `json:"want"` // nodes wanted as candidates (those the real NewCandidate accepts are used)
	Runs []Run          `json:"runs"`
}

type RunOut struct {
	Before     int      `json:"before"` // indices into snaps
	After      int      `json:"after"`
	Class      string   `json:"class"` // scheduled | pod-errors | candidate-deleting | ctx | error
	Candidates []string `json:"candidates"`
	NewClaims  int      `json:"newClaims"`
	Placed     int      `json:"placed"`
	PodErrors  int      `json:"podErrors"`
	Writes     int64    `json:"writes"` // client write calls made during the run
	Events     int      `json:"events"`
	// DRA: ResourceClaims the result allocated / of those from template devices / from counter-consuming template partitions
	DraClaims      int `json:"draClaims"`
	DraTmpl        int `json:"draTmpl"`
	DraTmplCounter int `json:"draTmplCounter"`
	// CapacityBuffer virtual pods the simulation placed (existing nodes or new NodeClaims)
	Virtual int `json:"virtual"`
}

type SimOut struct {
	Now        int64      `json:"now"`
	Candidates []string   `json:"candidates"`
	Ignored    []string   `json:"ignored"` // pending pods the provisioner refuses to consider (Provisioner.Validate)
	Snaps      []Snapshot `json:"snaps"`
	Vals       []Values   `json:"vals"`
	Runs       []RunOut   `json:"runs"`
}

func (e *Env) ignoredPods() ([]string, error) {
	var pods corev1.PodList
	if err := e.W.Client.List(e.Ctx, &pods); err != nil {
		return nil, err
	}
	out := []string{}
	for i := range pods.Items {
		p := &pods.Items[i]
		if p.Spec.NodeName != "" {
			continue
		}
		if err := e.Prov.Validate(e.Ctx, p); err != nil {
			out = append(out, p.Name)
		}
	}
	sort.Strings(out)
	return out, nil
}

func (e *Env) candidates(want []string) ([]*disruption.Candidate, error) {
	w := map[string]bool{}
	for _, n := range want {
		w[n] = true
	}
	cands, err := disruption.GetCandidates(e.Ctx, e.W.Cluster, e.Client, e.Rec, e.W.Clock, e.CP,
		func(_ context.Context, c *disruption.Candidate) bool { return w[c.Name()] }, disruption.GracefulDisruptionClass, e.Queue)
	if err != nil {
		return nil, err
	}
	sort.Slice(cands, func(i, j int) bool { return cands[i].Name() < cands[j].Name() })
	return cands, nil
}

func classify(res scheduling.Results, err error) string {
	switch {
	case err == nil && res.AllNonPendingPodsScheduled():
		return "scheduled"
	case err == nil:
		return "pod-errors"
	case strings.Contains(err.Error(), "candidate is deleting"):
		return "candidate-deleting"
	case errors.Is(err, context.Canceled), errors.Is(err, context.DeadlineExceeded):
		return "ctx"
	}
	return "error"
}

func implSimulate(raw json.RawMessage) (any, error) {
	var in SimIn
	if err := json.Unmarshal(raw, &in); err != nil {
		return nil, err
	}
	e, err := BuildEnv(&in.Scn, &in.Ext)
	if err != nil {
		return nil, err
	}
	cands, err := e.candidates(in.Want)
	if err != nil {
		return nil, err
	}
	out := &SimOut{Now: e.W.Clock.Now().UnixNano(), Candidates: []string{}, Snaps: []Snapshot{}, Vals: []Values{}, Runs: []RunOut{}}
	for _, c := range cands {
		out.Candidates = append(out.Candidates, c.Name())
	}
	if out.Ignored, err = e.ignoredPods(); err != nil {
		return nil, err
	}
	take := func() (int, error) {
		s, err := e.Take(cands)
		if err != nil {
			return 0, err
		}
		v, err := e.TakeValues()
		if err != nil {
			return 0, err
		}
		out.Snaps = append(out.Snaps, s)
		out.Vals = append(out.Vals, v)
		return len(out.Snaps) - 1, nil
	}
	cur, err := take()
	if err != nil {
		return nil, err
	}
	for _, r := range in.Runs {
		if r.Mark != "" {
			e.W.Cluster.MarkForDeletion("fake://" + r.Mark)
			if cur, err = take(); err != nil {
				return nil, err
			}
		}
		var sub []*disruption.Candidate
		seen := map[int]bool{}
		for _, i := range r.Subset {
			if len(cands) == 0 {
				break
			}
			j := ((i % len(cands)) + len(cands)) % len(cands)
			if !seen[j] {
				seen[j] = true
				sub = append(sub, cands[j])
			}
		}
		ro := RunOut{Before: cur, Candidates: []string{}}
		for _, c := range sub {
			ro.Candidates = append(ro.Candidates, c.Name())
		}
		var opts []scheduling.Options
		if r.Consolidation {
			opts = append(opts, scheduling.IsConsolidationSimulation)
		}
		ctx, cancel := e.ctxFor(r.Mode, r.After)
		w0, ev0 := e.Writes.Load(), len(e.Rec.Events())
		res, serr := disruption.SimulateScheduling(ctx, e.Client, e.W.Cluster, e.Prov, e.W.Clock, e.Rec, opts, sub...)
		cancel()
		ro.Writes, ro.Events = e.Writes.Load()-w0, len(e.Rec.Events())-ev0
		ro.Class = classify(res, serr)
		if serr == nil {
			ro.NewClaims = len(res.NewNodeClaims)
			for _, en := range res.ExistingNodes {
				ro.Placed += len(en.Pods)
			}
			ro.PodErrors = len(res.PodErrors)
			ro.DraClaims, ro.DraTmplCounter, ro.DraTmpl = draSummary(res)
			for _, en := range res.ExistingNodes {
				for _, p := range en.Pods {
					if isVirtual(p) {
						ro.Virtual++
					}
				}
			}
			for _, nc := range res.NewNodeClaims {
				for _, p := range nc.Pods {
					if isVirtual(p) {
						ro.Virtual++
					}
				}
			}
		}
		if cur, err = take(); err != nil {
			return nil, err
		}
		ro.After = cur
		out.Runs = append(out.Runs, ro)
	}
	return out, nil
}

// ---------- generator ----------

var simOpts = world.GenOpts{InterPod: 0.25, NodeAffinity: 0.35, Existing: 1.0, Limits: 0.25, MaxPods: 5}

func nodeNames(s *world.Scenario) []string {
	var out []string
	for _, n := range s.Nodes {
		out = append(out, n.Name)
	}
	return out
}

// genWorld draws a scenario biased towards what a disruption decision looks at: several initialized managed nodes with
// bound pods (so that candidates exist), some in-flight / deleting / unmanaged nodes, pending pods, daemonsets, PDBs,
// volumes with attach limits, pods the provisioner ignores, cluster-default spread constraints.
func genWorld(r *rand.Rand, t core.Tier) (*world.Scenario, *Ext) {
	o := simOpts
	o.Reserved = r.Float64() < 0.3
	s := world.GenScenario(r, o)
	// make most managed nodes initialized and give every initialized node at least one pod
	for i := range s.Nodes {
		n := &s.Nodes[i]
		if n.Pool != "" && r.Float64() < 0.6 {
			n.Stage = "initialized"
			n.Taints = nil
		}
		if n.Stage == "initialized" && len(n.Pods) == 0 && r.Float64() < 0.8 {
			p := world.GenPod(r, fmt.Sprintf("extra-%d", i), s.ITs, s.Pools, world.GenOpts{InterPod: 0.3})
			p.NodeSelector, p.Required, p.Preferred = nil, nil, nil
			p.CPU = 100 * int64(1+r.IntN(5))
			world.FixExprs(&p)
			n.Pods = append(n.Pods, p)
		}
	}
	if r.Float64() < 0.3 {
		s.Pods = nil // nothing pending: the simulation only moves the candidates' pods
	}
	// bound pods with several preferred node-affinity terms (lightest first) and with required terms: the scheduler
	// orders and relaxes these on the pods it is given
	for i := range s.Nodes {
		for j := range s.Nodes[i].Pods {
			p := &s.Nodes[i].Pods[j]
			if p.Daemon {
				continue
			}
			if r.Float64() < 0.25 {
				p.Preferred = []world.Preferred{
					{Weight: int32(1 + r.IntN(10)), Exprs: []world.KExpr{{Key: "topology.kubernetes.io/zone", Op: "In", Values: []string{world.Zones[r.IntN(3)]}}}},
					{Weight: int32(20 + r.IntN(10)), Exprs: []world.KExpr{{Key: "karpenter.sh/capacity-type", Op: "In", Values: []string{"spot"}}}},
				}
				if r.Float64() < 0.5 {
					p.Preferred = append(p.Preferred, world.Preferred{Weight: int32(50 + r.IntN(10)), Exprs: []world.KExpr{{Key: "team", Op: "In", Values: []string{"red"}}}})
				}
			}
			if r.Float64() < 0.15 {
				p.Required = [][]world.KExpr{{{Key: "topology.kubernetes.io/zone", Op: "In", Values: []string{"z9"}}}, {{Key: "kubernetes.io/arch", Op: "In", Values: []string{"amd64"}}}}
			}
			if r.Float64() < 0.1 {
				p.Tolerations = append(p.Tolerations, world.Toleration{Key: "dedicated", Operator: "Exists"})
			}
		}
	}
	ext := &Ext{Volumes: map[string]int{}}
	if r.Float64() < 0.3 {
		lab := map[string]string{"app": []string{"a", "b", "c"}[r.IntN(3)]}
		switch r.IntN(3) {
		case 0:
			ext.PDBs = append(ext.PDBs, PDB{Name: "pdb-0", MatchLabels: lab, MaxUnavailable: ptr(int32(0))}) // fully blocking
		case 1:
			ext.PDBs = append(ext.PDBs, PDB{Name: "pdb-0", MatchLabels: lab, MinAvailable: ptr(int32(1)), DisruptionsAllowed: 0})
		default:
			ext.PDBs = append(ext.PDBs, PDB{Name: "pdb-0", MatchLabels: lab, MaxUnavailable: ptr(int32(1)), DisruptionsAllowed: 1})
		}
	}
	if r.Float64() < 0.35 {
		ext.VolumeLimit = 1 + r.IntN(3)
		for _, n := range s.Nodes {
			for _, p := range n.Pods {
				if r.Float64() < 0.5 {
					ext.Volumes[p.Name] = 1 + r.IntN(2)
				}
			}
		}
		for _, p := range s.Pods {
			if r.Float64() < 0.4 {
				ext.Volumes[p.Name] = 1 + r.IntN(2)
			}
		}
	}
	if len(s.Pods) > 0 && r.Float64() < 0.3 {
		ext.InvalidPods = []string{s.Pods[r.IntN(len(s.Pods))].Name}
	}
	ext.DefaultSpread = r.Float64() < 0.2
	ext.DaemonPods = r.Float64() < 0.6
	ext.Ack = []string{}
	for _, p := range s.Pods {
		if r.Float64() < 0.6 {
			ext.Ack = append(ext.Ack, p.Name)
		}
	}
	if r.Float64() < 0.15 {
		ext.UntrackedAntiPods = 1 + r.IntN(2)
	}
	// NodeOverlays: the instance types reach the scheduler through the overlay decorator
	if r.Float64() < 0.2 {
		ext.Overlays = genOverlays(r, s)
	}
	// CapacityBuffers: virtual pods from the long-lived cache join the pods of every simulation; half of these worlds also
	// configure cluster-default spread constraints
	if r.Float64() < 0.2 {
		ext.Buffers = genBuffers(r, s)
		if r.Float64() < 0.5 {
			ext.DefaultSpread = true
		}
	}
	// dynamic resource allocation: template devices / counter budgets on the instance types, claims on pending and bound pods
	if r.Float64() < 0.35 {
		ext.DRA = genDra(r, s)
	}
	return s, ext
}

func genRuns(r *rand.Rand, t core.Tier, s *world.Scenario, nCand int) []Run {
	k := 1 + r.IntN(4)
	if t == core.Thorough {
		k = 1 + r.IntN(8)
	}
	var runs []Run
	for i := 0; i < k; i++ {
		run := Run{Mode: "ok", Consolidation: r.Float64() < 0.6}
		switch x := r.Float64(); {
		case x < 0.08:
			run.Mode = "cancelled"
		case x < 0.16:
			run.Mode = "deadline"
		case x < 0.36:
			run.Mode = "expire"
			run.After = r.IntN(12)
		}
		// like multi-node consolidation: prefixes of the same candidate list; like single-node / drift: one at a time
		switch r.IntN(3) {
		case 0:
			run.Subset = []int{r.IntN(4)}
		case 1:
			m := 1 + r.IntN(4)
			for j := 0; j < m; j++ {
				run.Subset = append(run.Subset, j)
			}
		default:
			for j := 0; j < 4; j++ {
				if r.Float64() < 0.5 {
					run.Subset = append(run.Subset, j)
				}
			}
		}
		if run.Subset == nil {
			run.Subset = []int{}
		}
		if r.Float64() < 0.06 && len(s.Nodes) > 0 {
			run.Mark = s.Nodes[r.IntN(len(s.Nodes))].Name
		}
		runs = append(runs, run)
	}
	return runs
}

func genSimulate(r *rand.Rand, t core.Tier) any {
	s, ext := genWorld(r, t)
	return SimIn{Scn: *s, Ext: *ext, Want: nodeNames(s), Runs: genRuns(r, t, s, len(s.Nodes))}
}

func simLabels(raw json.RawMessage, impl any) []string {
	var in SimIn
	json.Unmarshal(raw, &in)
	m, _ := impl.(map[string]any)
	l := []string{}
	if c, ok := m["candidates"].([]any); ok {
		l = append(l, fmt.Sprintf("candidates=%d", min(len(c), 4)))
	}
	if ig, ok := m["ignored"].([]any); ok && len(ig) > 0 {
		l = append(l, "ignored-pods")
	}
	if runs, ok := m["runs"].([]any); ok {
		l = append(l, fmt.Sprintf("runs=%d", len(runs)))
		for _, x := range runs {
			rm, _ := x.(map[string]any)
			l = append(l, "class:"+fmt.Sprint(rm["class"]))
			if n, _ := rm["newClaims"].(json.Number); n != "" && n != "0" {
				l = append(l, "opens-new-claims")
			}
			if n, _ := rm["placed"].(json.Number); n != "" && n != "0" {
				l = append(l, "places-on-existing")
			}
			if n, _ := rm["virtual"].(json.Number); n != "" && n != "0" {
				l = append(l, "buffer:virtual-pods-placed-by-simulation")
			}
			if n, _ := rm["draClaims"].(json.Number); n != "" && n != "0" {
				l = append(l, "dra:allocates-claims")
			}
			if n, _ := rm["draTmpl"].(json.Number); n != "" && n != "0" {
				l = append(l, "dra:allocates-template-devices")
			}
			if n, _ := rm["draTmplCounter"].(json.Number); n != "" && n != "0" {
				l = append(l, "dra:allocates-template-counter-partitions")
			}
		}
	}
	l = append(l, draLabels(in.Ext.DRA)...)
	l = append(l, bufferLabels(in.Ext.Buffers, in.Ext.DefaultSpread)...)
	l = append(l, overlayLabels(in.Ext.Overlays)...)
	for _, r := range in.Runs {
		l = append(l, "mode:"+r.Mode)
		if r.Mark != "" {
			l = append(l, "concurrent-mark")
		}
	}
	if len(in.Ext.PDBs) > 0 {
		l = append(l, "pdb")
	}
	if len(in.Ext.Volumes) > 0 {
		l = append(l, "volumes")
	}
	if in.Ext.DefaultSpread {
		l = append(l, "default-spread")
	}
	if in.Ext.UntrackedAntiPods > 0 {
		l = append(l, "anti-affinity-pod-event-before-node-event")
	}
	if in.Scn.ReservedCapacity {
		l = append(l, "reserved")
	}
	return l
}

func simNontrivial(_ json.RawMessage, impl any) bool {
	m, _ := impl.(map[string]any)
	runs, _ := m["runs"].([]any)
	for _, x := range runs {
		rm, _ := x.(map[string]any)
		cs, _ := rm["candidates"].([]any)
		pl, _ := rm["placed"].(json.Number)
		nc, _ := rm["newClaims"].(json.Number)
		if len(cs) > 0 && (pl != "0" || nc != "0") {
			return true
		}
	}
	return false
}

func shrinkSim(raw json.RawMessage) []any {
	var in SimIn
	json.Unmarshal(raw, &in)
	var out []any
	for _, c := range core.ShrinkList(in.Runs) {
		if len(c) == 0 {
			continue
		}
		x := in
		x.Runs = c
		out = append(out, x)
	}
	for _, c := range core.ShrinkList(in.Scn.Pods) {
		x := in
		x.Scn.Pods = c
		out = append(out, x)
	}
	for _, c := range core.ShrinkList(in.Scn.Nodes) {
		x := in
		x.Scn.Nodes = c
		if x.Scn.Nodes == nil {
			x.Scn.Nodes = []world.Node{}
		}
		out = append(out, x)
	}
	for _, c := range core.ShrinkList(in.Scn.DaemonSets) {
		x := in
		x.Scn.DaemonSets = c
		if x.Scn.DaemonSets == nil {
			x.Scn.DaemonSets = []world.DaemonSet{}
		}
		out = append(out, x)
	}
	for i := range in.Scn.Nodes {
		for _, c := range core.ShrinkList(in.Scn.Nodes[i].Pods) {
			x := in
			x.Scn.Nodes = append([]world.Node{}, in.Scn.Nodes...)
			x.Scn.Nodes[i].Pods = c
			out = append(out, x)
		}
	}
	if len(in.Ext.PDBs) > 0 || len(in.Ext.Volumes) > 0 || in.Ext.DefaultSpread || len(in.Ext.InvalidPods) > 0 || in.Ext.UntrackedAntiPods > 0 {
		x := in
		x.Ext = Ext{Volumes: map[string]int{}, DRA: in.Ext.DRA, Buffers: in.Ext.Buffers, Overlays: in.Ext.Overlays, DefaultSpread: in.Ext.DefaultSpread && len(in.Ext.Buffers) > 0}
		out = append(out, x)
	}
	for _, c := range core.ShrinkList(in.Ext.Overlays) {
		x := in
		x.Ext.Overlays = c
		out = append(out, x)
	}
	for _, c := range core.ShrinkList(in.Ext.Buffers) {
		x := in
		x.Ext.Buffers = c
		out = append(out, x)
	}
	for i, b := range in.Ext.Buffers {
		if b.Replicas > 1 {
			x := in
			x.Ext.Buffers = append([]Buffer{}, in.Ext.Buffers...)
			x.Ext.Buffers[i].Replicas = 1
			out = append(out, x)
		}
	}
	if in.Ext.DRA != nil {
		x := in
		x.Ext.DRA = nil
		out = append(out, x)
		for _, sd := range shrinkDra(in.Ext.DRA) {
			y := in
			y.Ext.DRA = sd
			out = append(out, y)
		}
	}
	return out
}
