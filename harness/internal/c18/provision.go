package c18

// c18.provision: consecutive REAL Provisioner.Schedule passes (the step of a provisioning pass before it creates
// NodeClaims) with the world digested before and after every pass, and the nominations / pod bookkeeping read back as
// explicit values so that the Lean model of Results.Record + MarkPodSchedulingDecisions can predict them.

import (
	"context"
	"encoding/json"
	"errors"
	"fmt"
	"math/rand/v2"
	"sort"
	"sync"
	"sync/atomic"
	"time"

	corev1 "k8s.io/api/core/v1"
	"k8s.io/apimachinery/pkg/types"

	v1 "sigs.k8s.io/karpenter/pkg/apis/v1"
	"sigs.k8s.io/karpenter/pkg/operator/options"

	"verifharness/internal/core"
	"verifharness/internal/world"
)

type Pass struct {
	AdvanceSec int    `json:"advanceSec"` // clock step before the pass
	Mode       string `json:"mode"`       // ok | cancelled | deadline | expire (after n ctx.Value() calls)
	After      int    `json:"after"`
	// (first pass only) a node that disappears WHILE the pass runs: its Node object is deleted and the cluster state
	// forgets it at the pass's first List call, i.e. after the pass took its DeepCopyNodes() snapshot and before it records
	// its results. The pass is then judged against a twin world in which the node disappeared just before the pass.
	LoseNodeDuring string `json:"loseNodeDuring,omitempty"`
}

type PassIn struct {
	Scn         world.Scenario `json:"scn"`
	Ext         Ext            `json:"ext"`
	BatchMaxSec int            `json:"batchMaxSec"` // options.BatchMaxDuration (the nomination window is derived from it)
	Healthy     []string       `json:"healthy"`     // NodePools with NodeRegistrationHealthy=True
	Ack         []string       `json:"ack"`         // pending pods the pod controller already acknowledged
	Passes      []Pass         `json:"passes"`
}

type PlacedPod struct {
	Name  string `json:"name"`
	Bound bool   `json:"bound"` // already bound to a (deleting) node: pod.Spec.NodeName != ""
}

type ExistingPlacement struct {
	ProviderID string      `json:"providerID"`
	NodeClaim  string      `json:"nodeClaim"` // "" = unmanaged node
	Pool       string      `json:"pool"`      // the node's karpenter.sh/nodepool label
	Pods       []PlacedPod `json:"pods"`
}

type ClaimPlacement struct {
	Pool string      `json:"pool"`
	Pods []PlacedPod `json:"pods"`
}

type PassOut struct {
	Before   int                 `json:"before"`
	After    int                 `json:"after"`
	Now      int64               `json:"now"`
	Class    string              `json:"class"` // ok | error
	Existing []ExistingPlacement `json:"existing"`
	Claims   []ClaimPlacement    `json:"claims"`
	Errors   []string            `json:"errors"`
	Writes   int64               `json:"writes"`
	// DRA: ResourceClaims the result allocated / of those from template devices / from counter-consuming template partitions
	DraClaims      int `json:"draClaims"`
	DraTmpl        int `json:"draTmpl"`
	DraTmplCounter int `json:"draTmplCounter"`
	// CapacityBuffer virtual pods placed on existing nodes / in new NodeClaims / not placed
	VirtualPlaced int `json:"virtualPlaced"`
	VirtualClaims int `json:"virtualClaims"`
	VirtualErrors int `json:"virtualErrors"`
}

type ProvOut struct {
	BatchMaxNs int64      `json:"batchMaxNs"`
	Healthy    []string   `json:"healthy"`
	Ignored    []string   `json:"ignored"`
	Snaps      []Snapshot `json:"snaps"`
	Vals       []Values   `json:"vals"`
	Passes     []PassOut  `json:"passes"`
}

// valueExpiringCtx reports DeadlineExceeded (and closes Done) from its (limit+1)-th Value() call on; Provisioner.Schedule
// derives its own timeout context, which observes the parent through Done().
type valueExpiringCtx struct {
	context.Context
	calls atomic.Int64
	limit int64
	done  chan struct{}
	once  sync.Once
	dead  atomic.Bool
}

func (c *valueExpiringCtx) Value(k any) any {
	if c.calls.Add(1) > c.limit {
		c.dead.Store(true)
		c.once.Do(func() { close(c.done) })
	}
	return c.Context.Value(k)
}
func (c *valueExpiringCtx) Err() error {
	if c.dead.Load() {
		return context.DeadlineExceeded
	}
	return nil
}
func (c *valueExpiringCtx) Done() <-chan struct{}       { return c.done }
func (c *valueExpiringCtx) Deadline() (time.Time, bool) { return time.Time{}, false }

// placed lists the real pods of a placement: CapacityBuffer virtual pods are no API objects, the cluster state keeps no
// bookkeeping for them and Results.Record nominates no node for them
func placed(pods []*corev1.Pod) []PlacedPod {
	out := []PlacedPod{}
	for _, p := range pods {
		if isVirtual(p) {
			continue
		}
		out = append(out, PlacedPod{Name: p.Name, Bound: p.Spec.NodeName != ""})
	}
	sort.Slice(out, func(i, j int) bool { return out[i].Name < out[j].Name })
	return out
}

func entryKey(e Entry) string { return e.Sec + "\x00" + e.Obj + "\x00" + e.Fld }

// applyDelta returns snapshot m changed the way t0 -> t1 changed: components that t1 dropped are dropped, components it
// added are added, components whose digest moved take t1's digest; where m and t0 disagreed about such a component its new
// value is unknown (wildcard).
func applyDelta(m, t0, t1 Snapshot) (Snapshot, map[string]bool) {
	d0, d1 := map[string]string{}, map[string]string{}
	for _, e := range t0 {
		d0[entryKey(e)] = e.Dig
	}
	for _, e := range t1 {
		d1[entryKey(e)] = e.Dig
	}
	wild := map[string]bool{}
	out := Snapshot{}
	for _, e := range m {
		k := entryKey(e)
		v1, in1 := d1[k]
		v0, in0 := d0[k]
		switch {
		case in0 && !in1:
			continue // dropped
		case in0 && in1 && v0 != v1:
			if e.Dig != v0 {
				wild[k] = true
			}
			e.Dig = v1
		}
		out = append(out, e)
	}
	have := map[string]bool{}
	for _, e := range m {
		have[entryKey(e)] = true
	}
	for _, e := range t1 {
		if _, in0 := d0[entryKey(e)]; !in0 && !have[entryKey(e)] {
			out = append(out, e)
		}
	}
	return out.sorted(), wild
}

// setupProv builds the world of a c18.provision input up to the first snapshot.
func setupProv(in *PassIn) (*Env, *ProvOut, error) {
	e, err := BuildEnv(&in.Scn, &in.Ext)
	if err != nil {
		return nil, nil, err
	}
	batch := time.Duration(in.BatchMaxSec) * time.Second
	if in.BatchMaxSec <= 0 {
		batch = 10 * time.Second
	}
	o := *options.FromContext(e.Ctx)
	o.BatchMaxDuration = batch
	e.Ctx = options.ToContext(context.Background(), &o)
	out := &ProvOut{BatchMaxNs: int64(batch), Healthy: []string{}, Snaps: []Snapshot{}, Vals: []Values{}, Passes: []PassOut{}}
	for _, name := range in.Healthy {
		np := &v1.NodePool{}
		if err := e.W.Client.Get(e.Ctx, types.NamespacedName{Name: name}, np); err != nil {
			continue
		}
		np.StatusConditions().SetTrue(v1.ConditionTypeNodeRegistrationHealthy)
		if err := e.W.Client.Status().Update(e.Ctx, np); err != nil {
			return nil, nil, err
		}
		out.Healthy = append(out.Healthy, name)
	}
	for _, name := range in.Ack {
		p := &corev1.Pod{}
		if err := e.W.Client.Get(e.Ctx, types.NamespacedName{Namespace: "default", Name: name}, p); err == nil {
			e.W.Cluster.AckPods(p)
		}
	}
	if out.Ignored, err = e.ignoredPods(); err != nil {
		return nil, nil, err
	}
	return e, out, nil
}

func implProvision(raw json.RawMessage) (any, error) {
	var in PassIn
	if err := json.Unmarshal(raw, &in); err != nil {
		return nil, err
	}
	e, out, err := setupProv(&in)
	if err != nil {
		return nil, err
	}
	take := func() (int, error) {
		s, err := e.Take(nil)
		if err != nil {
			return 0, err
		}
		v, err := e.TakeValues()
		if err != nil {
			return 0, err
		}
		out.Snaps = append(out.Snaps, s)
		out.Vals = append(out.Vals, v)
		return len(out.Snaps) - 1, nil
	}
	cur, err := take()
	if err != nil {
		return nil, err
	}
	var wildcards map[string]bool
	for pi, p := range in.Passes {
		if p.AdvanceSec > 0 {
			e.W.Clock.Step(time.Duration(p.AdvanceSec) * time.Second)
			if cur, err = take(); err != nil { // the clock moved: Nominated() may legitimately flip
				return nil, err
			}
		}
		po := PassOut{Before: cur, Now: e.W.Clock.Now().UnixNano(), Existing: []ExistingPlacement{}, Claims: []ClaimPlacement{}, Errors: []string{}}
		var ctx context.Context
		cancel := func() {}
		if p.Mode == "expire" {
			ctx = &valueExpiringCtx{Context: e.Ctx, limit: int64(p.After), done: make(chan struct{})}
		} else {
			ctx, cancel = e.ctxFor(p.Mode, p.After)
		}
		if pi == 0 && p.LoseNodeDuring != "" {
			// the twin world: the node disappears just before the pass; its snapshot is what the pass is compared with
			twin, _, err := setupProv(&in)
			if err != nil {
				return nil, err
			}
			// two worlds built from the same input differ in a few digests (condition timestamps, generated names): what the
			// node's disappearance does is therefore taken as a DELTA in the twin (snapshot before / after it) and applied to
			// this world's own snapshot
			t0, err := twin.Take(nil)
			if err != nil {
				return nil, err
			}
			twin.loseNode(p.LoseNodeDuring)
			t1, err := twin.Take(nil)
			if err != nil {
				return nil, err
			}
			tv, err := twin.TakeValues()
			if err != nil {
				return nil, err
			}
			before, wild := applyDelta(out.Snaps[cur], t0, t1)
			out.Snaps, out.Vals = append(out.Snaps, before), append(out.Vals, tv)
			po.Before = len(out.Snaps) - 1
			wildcards = wild
			lose := func() { e.loseNode(p.LoseNodeDuring) }
			e.onList.Store(&lose)
		}
		w0 := e.Writes.Load()
		res, serr := e.Prov.Schedule(ctx)
		cancel()
		if h := e.onList.Swap(nil); h != nil {
			(*h)() // the pass made no List call (it failed before): the node disappears right after it
		}
		po.Writes = e.Writes.Load() - w0
		po.Class = "ok"
		if serr != nil {
			po.Class = "error"
			if !errors.Is(serr, context.Canceled) && !errors.Is(serr, context.DeadlineExceeded) {
				po.Class = "error:" + fmt.Sprintf("%.40s", serr.Error())
			}
		}
		for _, en := range res.ExistingNodes {
			for _, p := range en.Pods {
				if isVirtual(p) {
					po.VirtualPlaced++
				}
			}
			if len(placed(en.Pods)) == 0 {
				continue
			}
			ep := ExistingPlacement{ProviderID: en.ProviderID(), Pool: en.Labels()[v1.NodePoolLabelKey], Pods: placed(en.Pods)}
			if en.NodeClaim != nil {
				ep.NodeClaim = en.NodeClaim.Name
			}
			po.Existing = append(po.Existing, ep)
		}
		sort.Slice(po.Existing, func(i, j int) bool { return po.Existing[i].ProviderID < po.Existing[j].ProviderID })
		for _, nc := range res.NewNodeClaims {
			for _, p := range nc.Pods {
				if isVirtual(p) {
					po.VirtualClaims++
				}
			}
			po.Claims = append(po.Claims, ClaimPlacement{Pool: nc.Labels[v1.NodePoolLabelKey], Pods: placed(nc.Pods)})
		}
		sort.Slice(po.Claims, func(i, j int) bool {
			a, b := po.Claims[i], po.Claims[j]
			if a.Pool != b.Pool {
				return a.Pool < b.Pool
			}
			return fmt.Sprint(a.Pods) < fmt.Sprint(b.Pods)
		})
		for p := range res.PodErrors {
			if isVirtual(p) {
				po.VirtualErrors++
				continue
			}
			po.Errors = append(po.Errors, p.Name)
		}
		sort.Strings(po.Errors)
		po.DraClaims, po.DraTmplCounter, po.DraTmpl = draSummary(res)
		if cur, err = take(); err != nil {
			return nil, err
		}
		if len(wildcards) > 0 {
			// components whose expected value cannot be derived (they differ between the two worlds AND the disappearance
			// changed them): taken as they are
			b := out.Snaps[po.Before]
			for _, en := range out.Snaps[cur] {
				if wildcards[entryKey(en)] {
					for i := range b {
						if entryKey(b[i]) == entryKey(en) {
							b[i].Dig = en.Dig
						}
					}
				}
			}
			wildcards = nil
		}
		po.After = cur
		out.Passes = append(out.Passes, po)
	}
	return out, nil
}

var provOpts = world.GenOpts{InterPod: 0.2, NodeAffinity: 0.35, Existing: 0.85, Limits: 0.25, MaxPods: 6}

func genProvision(r *rand.Rand, t core.Tier) any {
	o := provOpts
	o.Reserved = r.Float64() < 0.25
	s := world.GenScenario(r, o)
	ext := &Ext{Volumes: map[string]int{}}
	if r.Float64() < 0.3 {
		ext.VolumeLimit = 1 + r.IntN(3)
		for _, n := range s.Nodes {
			for _, p := range n.Pods {
				if r.Float64() < 0.5 {
					ext.Volumes[p.Name] = 1
				}
			}
		}
		for _, p := range s.Pods {
			if r.Float64() < 0.4 {
				ext.Volumes[p.Name] = 1 + r.IntN(2)
			}
		}
	}
	if len(s.Pods) > 0 && r.Float64() < 0.3 {
		ext.InvalidPods = []string{s.Pods[r.IntN(len(s.Pods))].Name}
	}
	ext.DefaultSpread = r.Float64() < 0.15
	if r.Float64() < 0.3 {
		ext.DRA = genDra(r, s)
	}
	if r.Float64() < 0.15 {
		ext.UntrackedAntiPods = 1 + r.IntN(2)
	}
	if r.Float64() < 0.2 {
		ext.Overlays = genOverlays(r, s)
	}
	if r.Float64() < 0.2 {
		ext.Buffers = genBuffers(r, s)
		if r.Float64() < 0.5 {
			ext.DefaultSpread = true
		}
	}
	in := PassIn{Scn: *s, Ext: *ext, BatchMaxSec: []int{1, 4, 5, 6, 10, 30}[r.IntN(6)], Healthy: []string{}, Ack: []string{}}
	for _, np := range s.Pools {
		if r.Float64() < 0.5 {
			in.Healthy = append(in.Healthy, np.Name)
		}
	}
	for _, p := range s.Pods {
		if r.Float64() < 0.6 {
			in.Ack = append(in.Ack, p.Name)
		}
	}
	k := 1 + r.IntN(3)
	for i := 0; i < k; i++ {
		p := Pass{Mode: "ok"}
		if i > 0 {
			p.AdvanceSec = []int{0, 1, 9, 10, 11, 19, 20, 21, 61}[r.IntN(9)]
		}
		switch x := r.Float64(); {
		case x < 0.06:
			p.Mode = "cancelled"
		case x < 0.12:
			p.Mode = "deadline"
		case x < 0.25:
			p.Mode = "expire"
			p.After = 20 + r.IntN(400)
		}
		in.Passes = append(in.Passes, p)
	}
	// a node disappears while the first pass runs (after DeepCopyNodes, before Results.Record)
	if r.Float64() < 0.25 {
		var withNode []string
		for _, n := range s.Nodes {
			if n.Stage != "claim" || n.Pool == "" {
				withNode = append(withNode, n.Name)
			}
		}
		if len(withNode) > 0 {
			in.Passes[0].LoseNodeDuring = withNode[r.IntN(len(withNode))]
		}
	}
	return in
}

func provLabels(raw json.RawMessage, impl any) []string {
	var in PassIn
	json.Unmarshal(raw, &in)
	m, _ := impl.(map[string]any)
	l := []string{fmt.Sprintf("passes=%d", len(in.Passes)), fmt.Sprintf("batchMax=%ds", in.BatchMaxSec)}
	if ig, ok := m["ignored"].([]any); ok && len(ig) > 0 {
		l = append(l, "ignored-pods")
	}
	if ps, ok := m["passes"].([]any); ok {
		for _, x := range ps {
			pm, _ := x.(map[string]any)
			l = append(l, "class:"+fmt.Sprintf("%.5s", fmt.Sprint(pm["class"])))
			if ex, _ := pm["existing"].([]any); len(ex) > 0 {
				l = append(l, "nominates")
			}
			if cs, _ := pm["claims"].([]any); len(cs) > 0 {
				l = append(l, "new-claims")
			}
			if es, _ := pm["errors"].([]any); len(es) > 0 {
				l = append(l, "pod-errors")
			}
			if n, _ := pm["draClaims"].(json.Number); n != "" && n != "0" {
				l = append(l, "dra:allocates-claims")
			}
			if n, _ := pm["virtualPlaced"].(json.Number); n != "" && n != "0" {
				l = append(l, "buffer:virtual-pod-on-existing-node")
			}
			if n, _ := pm["virtualClaims"].(json.Number); n != "" && n != "0" {
				l = append(l, "buffer:virtual-pod-in-new-nodeclaim")
			}
			if n, _ := pm["virtualErrors"].(json.Number); n != "" && n != "0" {
				l = append(l, "buffer:virtual-pod-unschedulable")
			}
			if n, _ := pm["draTmpl"].(json.Number); n != "" && n != "0" {
				l = append(l, "dra:allocates-template-devices")
			}
			if n, _ := pm["draTmplCounter"].(json.Number); n != "" && n != "0" {
				l = append(l, "dra:allocates-template-counter-partitions")
			}
		}
	}
	for i, p := range in.Passes {
		l = append(l, "mode:"+p.Mode)
		if i == 0 && p.LoseNodeDuring != "" {
			l = append(l, "node-lost-during-pass")
			if ps, ok := m["passes"].([]any); ok && len(ps) > 0 {
				pm, _ := ps[0].(map[string]any)
				ex, _ := pm["existing"].([]any)
				for _, x := range ex {
					xm, _ := x.(map[string]any)
					if xm["providerID"] == "fake://"+p.LoseNodeDuring {
						l = append(l, "node-lost-during-pass-that-placed-a-pod-on-it")
					}
				}
			}
		}
	}
	l = append(l, draLabels(in.Ext.DRA)...)
	l = append(l, bufferLabels(in.Ext.Buffers, in.Ext.DefaultSpread)...)
	l = append(l, overlayLabels(in.Ext.Overlays)...)
	if in.Ext.UntrackedAntiPods > 0 {
		l = append(l, "anti-affinity-pod-event-before-node-event")
	}
	return l
}

func provNontrivial(_ json.RawMessage, impl any) bool {
	m, _ := impl.(map[string]any)
	ps, _ := m["passes"].([]any)
	for _, x := range ps {
		pm, _ := x.(map[string]any)
		if ex, _ := pm["existing"].([]any); len(ex) > 0 {
			return true
		}
	}
	return false
}

func shrinkProv(raw json.RawMessage) []any {
	var in PassIn
	json.Unmarshal(raw, &in)
	var out []any
	for _, c := range core.ShrinkList(in.Passes) {
		if len(c) == 0 {
			continue
		}
		x := in
		x.Passes = c
		out = append(out, x)
	}
	for _, c := range core.ShrinkList(in.Scn.Pods) {
		x := in
		x.Scn.Pods = c
		out = append(out, x)
	}
	for _, c := range core.ShrinkList(in.Scn.Nodes) {
		x := in
		x.Scn.Nodes = c
		if x.Scn.Nodes == nil {
			x.Scn.Nodes = []world.Node{}
		}
		out = append(out, x)
	}
	for _, c := range core.ShrinkList(in.Scn.DaemonSets) {
		x := in
		x.Scn.DaemonSets = c
		if x.Scn.DaemonSets == nil {
			x.Scn.DaemonSets = []world.DaemonSet{}
		}
		out = append(out, x)
	}
	for _, c := range core.ShrinkList(in.Ext.Overlays) {
		x := in
		x.Ext.Overlays = c
		out = append(out, x)
	}
	for _, c := range core.ShrinkList(in.Ext.Buffers) {
		x := in
		x.Ext.Buffers = c
		out = append(out, x)
	}
	if in.Ext.DRA != nil {
		x := in
		x.Ext.DRA = nil
		out = append(out, x)
		for _, sd := range shrinkDra(in.Ext.DRA) {
			y := in
			y.Ext.DRA = sd
			out = append(out, y)
		}
	}
	return out
}
