package c18

// c18.provision: consecutive REAL Provisioner.Schedule passes (the step of a provisioning pass before it creates
// NodeClaims) with the world digested before and after every pass, and the nominations / pod bookkeeping read back as
// explicit values so that the Lean model of Results.Record + MarkPodSchedulingDecisions can predict them.

import (
	"context"
	"encoding/json"
	"errors"
	"fmt"
	"math/rand/v2"
	"sort"
	"sync"
	"sync/atomic"
	"time"

	corev1 "k8s.io/api/core/v1"
	"k8s.io/apimachinery/pkg/types"

	v1 "sigs.k8s.io/karpenter/pkg/apis/v1"
	"sigs.k8s.io/karpenter/pkg/operator/options"

	"verifharness/internal/core"
	"verifharness/internal/world"
)

type Pass struct {
	AdvanceSec int    `json:"advanceSec"` // clock step before the pass
	Mode       string `json:"mode"`       // ok | cancelled | deadline | expire (after n ctx.Value() calls)
	After      int    `json:"after"`
}

type PassIn struct {
	Scn         world.Scenario `json:"scn"`
	Ext         Ext            `json:"ext"`
	BatchMaxSec int            `json:"batchMaxSec"` // options.BatchMaxDuration (the nomination window is derived from it)
	Healthy     []string       `json:"healthy"`     // NodePools with NodeRegistrationHealthy=True
	Ack         []string       `json:"ack"`         // pending pods the pod controller already acknowledged
	Passes      []Pass         `json:"passes"`
}

type PlacedPod struct {
	Name  string `json:"name"`
	Bound bool   `json:"bound"` // already bound to a (deleting) node: pod.Spec.NodeName != ""
}

type ExistingPlacement struct {
	ProviderID string      `json:"providerID"`
	NodeClaim  string      `json:"nodeClaim"` // "" = unmanaged node
	Pool       string      `json:"pool"`      // the node's karpenter.sh/nodepool label
	Pods       []PlacedPod `json:"pods"`
}

type ClaimPlacement struct {
	Pool string      `json:"pool"`
	Pods []PlacedPod `json:"pods"`
}

type PassOut struct {
	Before   int                 `json:"before"`
	After    int                 `json:"after"`
	Now      int64               `json:"now"`
	Class    string              `json:"class"` // ok | error
	Existing []ExistingPlacement `json:"existing"`
	Claims   []ClaimPlacement    `json:"claims"`
	Errors   []string            `json:"errors"`
	Writes   int64               `json:"writes"`
	// DRA: ResourceClaims the result allocated / of those from template devices / from counter-consuming template partitions
	DraClaims      int `json:"draClaims"`
	DraTmpl        int `json:"draTmpl"`
	DraTmplCounter int `json:"draTmplCounter"`
}

type ProvOut struct {
	BatchMaxNs int64      `json:"batchMaxNs"`
	Healthy    []string   `json:"healthy"`
	Ignored    []string   `json:"ignored"`
	Snaps      []Snapshot `json:"snaps"`
	Vals       []Values   `json:"vals"`
	Passes     []PassOut  `json:"passes"`
}

// valueExpiringCtx reports DeadlineExceeded (and closes Done) from its (limit+1)-th Value() call on; Provisioner.Schedule
// derives its own timeout context, which observes the parent through Done().
type valueExpiringCtx struct {
	context.Context
	calls atomic.Int64
	limit int64
	done  chan struct{}
	once  sync.Once
	dead  atomic.Bool
}

func (c *valueExpiringCtx) Value(k any) any {
	if c.calls.Add(1) > c.limit {
		c.dead.Store(true)
		c.once.Do(func() { close(c.done) })
	}
	return c.Context.Value(k)
}
func (c *valueExpiringCtx) Err() error {
	if c.dead.Load() {
		return context.DeadlineExceeded
	}
	return nil
}
func (c *valueExpiringCtx) Done() <-chan struct{}       { return c.done }
func (c *valueExpiringCtx) Deadline() (time.Time, bool) { return time.Time{}, false }

func placed(pods []*corev1.Pod) []PlacedPod {
	out := []PlacedPod{}
	for _, p := range pods {
		out = append(out, PlacedPod{Name: p.Name, Bound: p.Spec.NodeName != ""})
	}
	sort.Slice(out, func(i, j int) bool { return out[i].Name < out[j].Name })
	return out
}

func implProvision(raw json.RawMessage) (any, error) {
	var in PassIn
	if err := json.Unmarshal(raw, &in); err != nil {
		return nil, err
	}
	e, err := BuildEnv(&in.Scn, &in.Ext)
	if err != nil {
		return nil, err
	}
	batch := time.Duration(in.BatchMaxSec) * time.Second
	if in.BatchMaxSec <= 0 {
		batch = 10 * time.Second
	}
	o := *options.FromContext(e.Ctx)
	o.BatchMaxDuration = batch
	e.Ctx = options.ToContext(context.Background(), &o)
	out := &ProvOut{BatchMaxNs: int64(batch), Healthy: []string{}, Snaps: []Snapshot{}, Vals: []Values{}, Passes: []PassOut{}}
	for _, name := range in.Healthy {
		np := &v1.NodePool{}
		if err := e.W.Client.Get(e.Ctx, types.NamespacedName{Name: name}, np); err != nil {
			continue
		}
		np.StatusConditions().SetTrue(v1.ConditionTypeNodeRegistrationHealthy)
		if err := e.W.Client.Status().Update(e.Ctx, np); err != nil {
			return nil, err
		}
		out.Healthy = append(out.Healthy, name)
	}
	for _, name := range in.Ack {
		p := &corev1.Pod{}
		if err := e.W.Client.Get(e.Ctx, types.NamespacedName{Namespace: "default", Name: name}, p); err == nil {
			e.W.Cluster.AckPods(p)
		}
	}
	if out.Ignored, err = e.ignoredPods(); err != nil {
		return nil, err
	}
	take := func() (int, error) {
		s, err := e.Take(nil)
		if err != nil {
			return 0, err
		}
		v, err := e.TakeValues()
		if err != nil {
			return 0, err
		}
		out.Snaps = append(out.Snaps, s)
		out.Vals = append(out.Vals, v)
		return len(out.Snaps) - 1, nil
	}
	cur, err := take()
	if err != nil {
		return nil, err
	}
	for _, p := range in.Passes {
		if p.AdvanceSec > 0 {
			e.W.Clock.Step(time.Duration(p.AdvanceSec) * time.Second)
			if cur, err = take(); err != nil { // the clock moved: Nominated() may legitimately flip
				return nil, err
			}
		}
		po := PassOut{Before: cur, Now: e.W.Clock.Now().UnixNano(), Existing: []ExistingPlacement{}, Claims: []ClaimPlacement{}, Errors: []string{}}
		var ctx context.Context
		cancel := func() {}
		if p.Mode == "expire" {
			ctx = &valueExpiringCtx{Context: e.Ctx, limit: int64(p.After), done: make(chan struct{})}
		} else {
			ctx, cancel = e.ctxFor(p.Mode, p.After)
		}
		w0 := e.Writes.Load()
		res, serr := e.Prov.Schedule(ctx)
		cancel()
		po.Writes = e.Writes.Load() - w0
		po.Class = "ok"
		if serr != nil {
			po.Class = "error"
			if !errors.Is(serr, context.Canceled) && !errors.Is(serr, context.DeadlineExceeded) {
				po.Class = "error:" + fmt.Sprintf("%.40s", serr.Error())
			}
		}
		for _, en := range res.ExistingNodes {
			if len(en.Pods) == 0 {
				continue
			}
			ep := ExistingPlacement{ProviderID: en.ProviderID(), Pool: en.Labels()[v1.NodePoolLabelKey], Pods: placed(en.Pods)}
			if en.NodeClaim != nil {
				ep.NodeClaim = en.NodeClaim.Name
			}
			po.Existing = append(po.Existing, ep)
		}
		sort.Slice(po.Existing, func(i, j int) bool { return po.Existing[i].ProviderID < po.Existing[j].ProviderID })
		for _, nc := range res.NewNodeClaims {
			po.Claims = append(po.Claims, ClaimPlacement{Pool: nc.Labels[v1.NodePoolLabelKey], Pods: placed(nc.Pods)})
		}
		sort.Slice(po.Claims, func(i, j int) bool {
			a, b := po.Claims[i], po.Claims[j]
			if a.Pool != b.Pool {
				return a.Pool < b.Pool
			}
			return fmt.Sprint(a.Pods) < fmt.Sprint(b.Pods)
		})
		for p := range res.PodErrors {
			po.Errors = append(po.Errors, p.Name)
		}
		sort.Strings(po.Errors)
		po.DraClaims, po.DraTmplCounter, po.DraTmpl = draSummary(res)
		if cur, err = take(); err != nil {
			return nil, err
		}
		po.After = cur
		out.Passes = append(out.Passes, po)
	}
	return out, nil
}

var provOpts = world.GenOpts{InterPod: 0.2, NodeAffinity: 0.35, Existing: 0.85, Limits: 0.25, MaxPods: 6}

func genProvision(r *rand.Rand, t core.Tier) any {
	o := provOpts
	o.Reserved = r.Float64() < 0.25
	s := world.GenScenario(r, o)
	ext := &Ext{Volumes: map[string]int{}}
	if r.Float64() < 0.3 {
		ext.VolumeLimit = 1 + r.IntN(3)
		for _, n := range s.Nodes {
			for _, p := range n.Pods {
				if r.Float64() < 0.5 {
					ext.Volumes[p.Name] = 1
				}
			}
		}
		for _, p := range s.Pods {
			if r.Float64() < 0.4 {
				ext.Volumes[p.Name] = 1 + r.IntN(2)
			}
		}
	}
	if len(s.Pods) > 0 && r.Float64() < 0.3 {
		ext.InvalidPods = []string{s.Pods[r.IntN(len(s.Pods))].Name}
	}
	ext.DefaultSpread = r.Float64() < 0.15
	if r.Float64() < 0.3 {
		ext.DRA = genDra(r, s)
	}
	if r.Float64() < 0.15 {
		ext.UntrackedAntiPods = 1 + r.IntN(2)
	}
	in := PassIn{Scn: *s, Ext: *ext, BatchMaxSec: []int{1, 4, 5, 6, 10, 30}[r.IntN(6)], Healthy: []string{}, Ack: []string{}}
	for _, np := range s.Pools {
		if r.Float64() < 0.5 {
			in.Healthy = append(in.Healthy, np.Name)
		}
	}
	for _, p := range s.Pods {
		if r.Float64() < 0.6 {
			in.Ack = append(in.Ack, p.Name)
		}
	}
	k := 1 + r.IntN(3)
	for i := 0; i < k; i++ {
		p := Pass{Mode: "ok"}
		if i > 0 {
			p.AdvanceSec = []int{0, 1, 9, 10, 11, 19, 20, 21, 61}[r.IntN(9)]
		}
		switch x := r.Float64(); {
		case x < 0.06:
			p.Mode = "cancelled"
		case x < 0.12:
			p.Mode = "deadline"
		case x < 0.25:
			p.Mode = "expire"
			p.After = 20 + r.IntN(400)
		}
		in.Passes = append(in.Passes, p)
	}
	return in
}

func provLabels(raw json.RawMessage, impl any) []string {
	var in PassIn
	json.Unmarshal(raw, &in)
	m, _ := impl.(map[string]any)
	l := []string{fmt.Sprintf("passes=%d", len(in.Passes)), fmt.Sprintf("batchMax=%ds", in.BatchMaxSec)}
	if ig, ok := m["ignored"].([]any); ok && len(ig) > 0 {
		l = append(l, "ignored-pods")
	}
	if ps, ok := m["passes"].([]any); ok {
		for _, x := range ps {
			pm, _ := x.(map[string]any)
			l = append(l, "class:"+fmt.Sprintf("%.5s", fmt.Sprint(pm["class"])))
			if ex, _ := pm["existing"].([]any); len(ex) > 0 {
				l = append(l, "nominates")
			}
			if cs, _ := pm["claims"].([]any); len(cs) > 0 {
				l = append(l, "new-claims")
			}
			if es, _ := pm["errors"].([]any); len(es) > 0 {
				l = append(l, "pod-errors")
			}
			if n, _ := pm["draClaims"].(json.Number); n != "" && n != "0" {
				l = append(l, "dra:allocates-claims")
			}
			if n, _ := pm["draTmpl"].(json.Number); n != "" && n != "0" {
				l = append(l, "dra:allocates-template-devices")
			}
			if n, _ := pm["draTmplCounter"].(json.Number); n != "" && n != "0" {
				l = append(l, "dra:allocates-template-counter-partitions")
			}
		}
	}
	for _, p := range in.Passes {
		l = append(l, "mode:"+p.Mode)
	}
	l = append(l, draLabels(in.Ext.DRA)...)
	if in.Ext.UntrackedAntiPods > 0 {
		l = append(l, "anti-affinity-pod-event-before-node-event")
	}
	return l
}

func provNontrivial(_ json.RawMessage, impl any) bool {
	m, _ := impl.(map[string]any)
	ps, _ := m["passes"].([]any)
	for _, x := range ps {
		pm, _ := x.(map[string]any)
		if ex, _ := pm["existing"].([]any); len(ex) > 0 {
			return true
		}
	}
	return false
}

func shrinkProv(raw json.RawMessage) []any {
	var in PassIn
	json.Unmarshal(raw, &in)
	var out []any
	for _, c := range core.ShrinkList(in.Passes) {
		if len(c) == 0 {
			continue
		}
		x := in
		x.Passes = c
		out = append(out, x)
	}
	for _, c := range core.ShrinkList(in.Scn.Pods) {
		x := in
		x.Scn.Pods = c
		out = append(out, x)
	}
	for _, c := range core.ShrinkList(in.Scn.Nodes) {
		x := in
		x.Scn.Nodes = c
		if x.Scn.Nodes == nil {
			x.Scn.Nodes = []world.Node{}
		}
		out = append(out, x)
	}
	for _, c := range core.ShrinkList(in.Scn.DaemonSets) {
		x := in
		x.Scn.DaemonSets = c
		if x.Scn.DaemonSets == nil {
			x.Scn.DaemonSets = []world.DaemonSet{}
		}
		out = append(out, x)
	}
	if in.Ext.DRA != nil {
		x := in
		x.Ext.DRA = nil
		out = append(out, x)
		for _, sd := range shrinkDra(in.Ext.DRA) {
			y := in
			y.Ext.DRA = sd
			out = append(out, y)
		}
	}
	return out
}
