package c18

// CapacityBuffers in the C18 worlds: FeatureGates.CapacityBuffer on, CapacityBuffer objects (ready for provisioning, or
// not) that reference a PodTemplate / Deployment / ReplicaSet on the fake client, and a REAL virtualpods.Cache handed to
// the real NewProvisioner: hydrated from the API by its first GetAll, or filled through Cache.UpdateEntry as the buffer
// controller does. Provisioner.GetPendingPods appends the cached virtual pods — uncopied — to the pods of every
// provisioning pass and of every disruption simulation. The cache lives as long as the process: whatever a simulation
// does to a cached pod is seen by every later simulation and pass, so the cached pods are digested (section
// "virtualpods") like every other piece of shared state.

import (
	"fmt"
	"math/rand/v2"
	"sort"
	"strings"
	"time"

	appsv1 "k8s.io/api/apps/v1"
	corev1 "k8s.io/api/core/v1"
	metav1 "k8s.io/apimachinery/pkg/apis/meta/v1"
	"k8s.io/apimachinery/pkg/types"

	autoscalingv1beta1 "sigs.k8s.io/karpenter/pkg/apis/autoscaling/v1beta1"
	"sigs.k8s.io/karpenter/pkg/operator/options"
	"sigs.k8s.io/karpenter/pkg/state/virtualpods"

	"verifharness/internal/world"
)

type Buffer struct {
	Name     string `json:"name"`
	Replicas int32  `json:"replicas"`
	// where the pod template comes from: template (spec.podTemplateRef) | deployment | replicaset (spec.scalableRef)
	Source string `json:"source"`
	// how the cache learns of the buffer: hydrate (the first GetAll lists the API) | update (the buffer controller calls
	// Cache.UpdateEntry with the resolved template; the cache is warm by then)
	Via string `json:"via"`
	// the ReadyForProvisioning condition is not True: the buffer contributes no virtual pods
	NotReady bool `json:"notReady,omitempty"`
	// the pod template (name unused): labels, requests, node selector, required / preferred node affinity, pod
	// (anti-)affinity, topology spread constraints, tolerations
	Pod world.Pod `json:"pod"`
}

func isVirtual(p *corev1.Pod) bool {
	return p.Annotations[autoscalingv1beta1.FakePodAnnotationKey] == autoscalingv1beta1.FakePodAnnotationValue
}

// applyBuffers creates the buffers and their templates and builds the cache. Called before the Provisioner is built.
func (e *Env) applyBuffers(bufs []Buffer) error {
	w := e.W
	_ = w
	o := *options.FromContext(e.Ctx)
	o.FeatureGates.CapacityBuffer = true
	e.Ctx = options.ToContext(e.Ctx, &o)
	ctx := e.Ctx
	type upd struct {
		cb   *autoscalingv1beta1.CapacityBuffer
		spec corev1.PodTemplateSpec
	}
	var updates []upd
	for i, b := range bufs {
		tp := w.BuildPod(b.Pod, "", 700+i)
		tmpl := corev1.PodTemplateSpec{ObjectMeta: metav1.ObjectMeta{Labels: tp.Labels}, Spec: tp.Spec}
		cb := &autoscalingv1beta1.CapacityBuffer{
			ObjectMeta: metav1.ObjectMeta{Name: b.Name, Namespace: "default", UID: types.UID("cb-" + b.Name), Generation: 1,
				CreationTimestamp: metav1.NewTime(world.T0.Add(-40 * time.Minute))},
			Spec: autoscalingv1beta1.CapacityBufferSpec{Replicas: ptr(b.Replicas)},
		}
		sel := &metav1.LabelSelector{MatchLabels: tp.Labels}
		switch b.Source {
		case "deployment":
			d := &appsv1.Deployment{ObjectMeta: metav1.ObjectMeta{Name: "dep-" + b.Name, Namespace: "default", UID: types.UID("dep-" + b.Name)},
				Spec: appsv1.DeploymentSpec{Replicas: ptr(int32(2)), Selector: sel, Template: tmpl}}
			if err := e.W.Client.Create(ctx, d); err != nil {
				return err
			}
			cb.Spec.ScalableRef = &autoscalingv1beta1.ScalableRef{APIGroup: "apps", Kind: autoscalingv1beta1.KindDeployment, Name: d.Name}
		case "replicaset":
			rs := &appsv1.ReplicaSet{ObjectMeta: metav1.ObjectMeta{Name: "rs-" + b.Name, Namespace: "default", UID: types.UID("rs-" + b.Name)},
				Spec: appsv1.ReplicaSetSpec{Replicas: ptr(int32(2)), Selector: sel, Template: tmpl}}
			if err := e.W.Client.Create(ctx, rs); err != nil {
				return err
			}
			cb.Spec.ScalableRef = &autoscalingv1beta1.ScalableRef{Kind: autoscalingv1beta1.KindReplicaSet, Name: rs.Name}
		default:
			pt := &corev1.PodTemplate{ObjectMeta: metav1.ObjectMeta{Name: "pt-" + b.Name, Namespace: "default", UID: types.UID("pt-" + b.Name), Generation: 1}, Template: tmpl}
			if err := e.W.Client.Create(ctx, pt); err != nil {
				return err
			}
			cb.Spec.PodTemplateRef = &autoscalingv1beta1.LocalObjectRef{Name: pt.Name}
		}
		cb.Status.Replicas = ptr(b.Replicas)
		st := metav1.ConditionTrue
		if b.NotReady {
			st = metav1.ConditionFalse
		}
		cb.Status.Conditions = []metav1.Condition{{Type: autoscalingv1beta1.ReadyForProvisioningCondition, Status: st, Reason: "Resolved",
			ObservedGeneration: 1, LastTransitionTime: metav1.NewTime(world.T0.Add(-30 * time.Minute))}}
		if b.Via == "update" {
			// the buffer appears after the cache is warm: only the controller's UpdateEntry brings it in
			updates = append(updates, upd{cb, tmpl})
			continue
		}
		if err := e.W.Client.Create(ctx, cb); err != nil {
			return err
		}
	}
	e.VPods = virtualpods.NewVirtualPodCache(e.Client)
	// the first GetAll hydrates the cache from the API (a one-time, legitimate change of the cache: done before the first
	// snapshot, like the memoised Allocatable() of the instance types)
	e.VPods.GetAll(ctx)
	for _, u := range updates {
		if err := e.W.Client.Create(ctx, u.cb); err != nil {
			return err
		}
		e.VPods.UpdateEntry(u.cb, *u.spec.DeepCopy())
	}
	return nil
}

// virtualPods lists the cached pods (the objects themselves, as GetAll hands them out) ordered by name.
func (e *Env) virtualPods() []*corev1.Pod {
	if e.VPods == nil {
		return nil
	}
	pods := e.VPods.GetAll(e.Ctx)
	sort.Slice(pods, func(i, j int) bool { return pods[i].Name < pods[j].Name })
	return pods
}

// fields of virtualpods.Cache that hold no state of the world
var vpodLinks = map[string]bool{"kubeClient": true, "mutex": true, "capacityBufferToPods": true}

// BuildVirtualPods stamps time.Now() on the pods: not part of the digest (it never changes afterwards either)
var vpodSkip = map[string]bool{"v1.ObjectMeta.CreationTimestamp": true}

// virtualPodEntries: every cached virtual pod whole (reflection digest) and split into the parts the scheduler is known to
// decorate (topology spread constraints, preferred node-affinity terms as a set and in order, the rest), which buffers
// the cache holds and how many pods of each, and the cache's remaining fields.
func virtualPodEntries(e *Env, out Snapshot) Snapshot {
	if e.VPods == nil {
		return out
	}
	out = structFields(out, "virtualpods", "cache", e.VPods, nil, vpodLinks)
	m := unexportedField(e.VPods, "capacityBufferToPods")
	var keys []string
	it := m.MapRange()
	for it.Next() {
		keys = append(keys, fmt.Sprintf("%v=%d", it.Key().Interface(), it.Value().Len()))
	}
	sort.Strings(keys)
	out = append(out, Entry{"virtualpods", "cache", "buffers", strings.Join(keys, ",")})
	for _, p := range e.virtualPods() {
		obj := "pod:" + p.Name
		out = append(out, Entry{"virtualpods", obj, "pod", Digest(p, vpodSkip)})
		for _, en := range podEntries(nil, obj, p) {
			en.Sec = "virtualpods"
			out = append(out, en)
		}
	}
	return out
}

// ---------- generator ----------

// genBuffers: 1..2 buffers of 1..3 replicas whose pod template carries what a scheduler relaxes or decorates: several
// preferred node-affinity terms listed lightest first (some not satisfiable), preferred pod (anti-)affinity,
// ScheduleAnyway spreads, several required node-affinity terms, or nothing (then the cluster-default spread constraints,
// when configured, apply to it: the template is labelled app=a|b|c and a Service selects app=a).
func genBuffers(r *rand.Rand, s *world.Scenario) []Buffer {
	var out []Buffer
	n := 1 + r.IntN(2)
	for i := 0; i < n; i++ {
		b := Buffer{Name: fmt.Sprintf("buf-%d", i), Replicas: int32(1 + r.IntN(3)), Source: pickOne(r, []string{"template", "template", "deployment", "replicaset"}),
			Via: pickOne(r, []string{"hydrate", "hydrate", "update"}), NotReady: r.IntN(10) == 0}
		p := world.Pod{Name: "tmpl-" + b.Name, Labels: map[string]string{"app": pickOne(r, []string{"a", "a", "b", "c"})}, CPU: int64(100 * (1 + r.IntN(10))), Mem: 64}
		if r.IntN(2) == 0 {
			p.Preferred = []world.Preferred{
				{Weight: int32(1 + r.IntN(10)), Exprs: []world.KExpr{{Key: "topology.kubernetes.io/zone", Op: "In", Values: []string{world.Zones[r.IntN(3)]}}}},
				{Weight: int32(20 + r.IntN(10)), Exprs: []world.KExpr{{Key: "karpenter.sh/capacity-type", Op: "In", Values: []string{pickOne(r, []string{"spot", "on-demand"})}}}},
			}
			if r.IntN(2) == 0 {
				// cannot be met anywhere: the scheduler has to relax it
				p.Preferred = append(p.Preferred, world.Preferred{Weight: int32(50 + r.IntN(10)), Exprs: []world.KExpr{{Key: "topology.kubernetes.io/zone", Op: "In", Values: []string{"z9"}}}})
			}
		}
		if r.IntN(5) == 0 {
			p.Required = [][]world.KExpr{{{Key: "topology.kubernetes.io/zone", Op: "In", Values: []string{"z9"}}}, {{Key: "kubernetes.io/arch", Op: "In", Values: []string{"amd64"}}}}
		}
		if r.IntN(4) == 0 {
			p.Affinity = []world.PodAffinity{{TopologyKey: pickOne(r, []string{"kubernetes.io/hostname", "topology.kubernetes.io/zone"}), MatchLabels: map[string]string{"app": pickOne(r, []string{"a", "b"})},
				Anti: r.IntN(2) == 0, Required: false, Weight: int32(1 + r.IntN(50))}}
		}
		if r.IntN(4) == 0 {
			p.Spreads = []world.Spread{{TopologyKey: "topology.kubernetes.io/zone", MaxSkew: 1, DoNotSchedule: false, MatchLabels: map[string]string{"app": p.Labels["app"]}}}
			if r.IntN(2) == 0 {
				p.Spreads = append(p.Spreads, world.Spread{TopologyKey: "kubernetes.io/hostname", MaxSkew: 1, DoNotSchedule: false, MatchLabels: map[string]string{"app": p.Labels["app"]}})
			}
		}
		if len(s.Pools) > 0 && r.IntN(6) == 0 {
			p.Tolerations = []world.Toleration{{Operator: "Exists"}}
		}
		world.FixExprs(&p)
		b.Pod = p
		out = append(out, b)
	}
	return out
}

func bufferLabels(bufs []Buffer, defaultSpread bool) []string {
	if len(bufs) == 0 {
		return nil
	}
	seen := map[string]bool{}
	add := func(s string) { seen[s] = true }
	add("capacity-buffers")
	for _, b := range bufs {
		add("buffer:source=" + b.Source)
		add("buffer:via=" + b.Via)
		if b.NotReady {
			add("buffer:not-ready")
		}
		if len(b.Pod.Preferred) > 0 {
			add("buffer:preferred-node-affinity")
		}
		if len(b.Pod.Preferred) > 2 {
			add("buffer:unsatisfiable-preference")
		}
		if len(b.Pod.Required) > 1 {
			add("buffer:several-required-terms")
		}
		if len(b.Pod.Affinity) > 0 {
			add("buffer:preferred-pod-affinity")
		}
		if len(b.Pod.Spreads) > 0 {
			add("buffer:schedule-anyway-spread")
		}
		if defaultSpread && len(b.Pod.Spreads) == 0 && b.Pod.Labels["app"] == "a" && !b.NotReady {
			add("buffer:default-spread-applies")
		}
	}
	var out []string
	for k := range seen {
		out = append(out, k)
	}
	sort.Strings(out)
	return out
}
