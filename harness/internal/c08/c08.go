// Package c08: correspondence ops for C08 (stub, not yet built).
package c08

import (
	"verifharness/internal/core"
	"verifharness/internal/registry"
)

func init() { registry.Register("C08", Ops) }

func Ops() []*core.Op { return nil }
