package c08

import (
	"encoding/json"
	"fmt"
	"math/rand/v2"
	"strconv"
	"strings"
	"time"

	"sigs.k8s.io/karpenter/pkg/controllers/disruption"

	"verifharness/internal/core"
	"verifharness/internal/registry"
)

func init() { registry.Register("C08", Ops) }

const (
	sec       = int64(time.Second)
	minRetry  = 600 * sec // only used to aim the generated clock at the edge of the retry window; the model reads the real constant
	windowEps = int64(1)
)

// ---------- running ----------

func implProtocol(raw json.RawMessage) (any, error) {
	var in In
	if err := json.Unmarshal(raw, &in); err != nil {
		return nil, err
	}
	if in.RetrySteps != RetrySteps() {
		return nil, fmt.Errorf("retrySteps %d is not the process' retry.DefaultBackoff.Steps %d", in.RetrySteps, RetrySteps())
	}
	for _, c := range in.Cmds {
		seen := map[int]bool{}
		for _, i := range c.Cands {
			if seen[i] {
				return nil, fmt.Errorf("duplicate candidate in a command")
			}
			seen[i] = true
		}
	}
	return run(&in)
}

// census runs a fault-free history and returns how often every call site was used, cumulatively after every step.
func census(in *In) ([]map[string]int, error) {
	e, err := newEnv(in)
	if err != nil {
		return nil, err
	}
	var out []map[string]int
	for _, s := range in.Steps {
		if so := e.step(s); strings.HasPrefix(so.Res, "harness:") {
			return nil, fmt.Errorf("%s", so.Res)
		}
		c := map[string]int{}
		e.mu.Lock()
		for k, v := range e.counts {
			c[k] = v
		}
		e.mu.Unlock()
		out = append(out, c)
	}
	return out, nil
}

// ---------- generators ----------

func pickInt(r *rand.Rand, xs ...int) int { return xs[r.IntN(len(xs))] }

func keyUniverse(in *In) []string {
	var ks []string
	for i := 0; i < in.NCands; i++ {
		for _, p := range []string{"get.node.", "patch.node.", "get.nc.", "status.nc.", "del.nc."} {
			ks = append(ks, p+strconv.Itoa(i))
		}
	}
	for i := 0; i < maxRepls; i++ {
		ks = append(ks, "get.pool."+strconv.Itoa(i))
	}
	for k, c := range in.Cmds {
		for i := 0; i < c.Repls; i++ {
			ks = append(ks, fmt.Sprintf("create.repl.%d.%d", k, i), fmt.Sprintf("get.repl.%d.%d", k, i))
		}
	}
	return ks
}

func genCmds(r *rand.Rand, ncands int) []CmdIn {
	n := pickInt(r, 1, 1, 2, 2, 3)
	cmds := make([]CmdIn, 0, n)
	for k := 0; k < n; k++ {
		perm := r.Perm(ncands)
		m := 1 + r.IntN(ncands)
		if r.Float64() < 0.4 {
			m = 1
		}
		cmds = append(cmds, CmdIn{Cands: append([]int{}, perm[:m]...), Repls: pickInt(r, 0, 1, 1, 1, 2, 2, 3)})
	}
	return cmds
}

// genProtocol draws a history: actions are started (mostly through the controller's candidate filter), replacements
// launch / initialize / vanish in any order, the queue and the controller's cleanup run in between, the clock is
// aimed at the edges of the retry window, the process restarts, and a few API calls fail.
func genProtocol(r *rand.Rand, t core.Tier) any {
	in := In{NCands: pickInt(r, 1, 1, 2, 2, 2, 3, 3, 4), MissingPools: []int{}, Faults: []FaultIn{}, RetrySteps: RetrySteps()}
	in.Cmds = genCmds(r, in.NCands)
	if r.Float64() < 0.1 {
		in.MissingPools = append(in.MissingPools, r.IntN(maxRepls))
	}
	maxLen := 24
	if t == core.Thorough {
		maxLen = 60
	}
	n := 4 + r.IntN(maxLen)
	started := []int{}
	now, lastStart := int64(0), int64(-1)
	pEnvGood := 0.3 + 0.6*r.Float64() // how cooperative the replacements are
	allowGone := r.Float64() < 0.45
	for len(in.Steps) < n {
		x := r.Float64()
		anyCmd := func() int {
			if len(started) > 0 && r.Float64() < 0.85 {
				return started[r.IntN(len(started))]
			}
			return r.IntN(len(in.Cmds))
		}
		switch {
		case x < 0.14 || len(started) == 0 && x < 0.6:
			k := r.IntN(len(in.Cmds))
			in.Steps = append(in.Steps, StepIn{Op: "start", Cmd: k, Via: r.Float64() < 0.6})
			started = append(started, k)
			lastStart = now
		case x < 0.42:
			k := anyCmd()
			in.Steps = append(in.Steps, StepIn{Op: "reconcile", Cmd: k, On: r.IntN(len(in.Cmds[k].Cands))})
		case x < 0.66:
			k := anyCmd()
			if in.Cmds[k].Repls == 0 {
				continue
			}
			op := "init"
			switch y := r.Float64(); {
			case y < pEnvGood:
				op = "init"
			case y < pEnvGood+0.15:
				op = "launch"
			case y < pEnvGood+0.15+(1-pEnvGood-0.15)*0.6:
				op = "vanish"
			default:
				op = "vanishStale"
			}
			in.Steps = append(in.Steps, StepIn{Op: op, Cmd: k, Repl: r.IntN(in.Cmds[k].Repls)})
		case x < 0.70:
			// a candidate goes away on its own (in 45% of the histories; mostly a candidate of an action that has been
			// started, so that the completing pass meets it)
			if !allowGone || len(started) == 0 && r.Float64() < 0.7 {
				continue
			}
			c := r.IntN(in.NCands)
			if len(started) > 0 && r.Float64() < 0.8 {
				k := started[r.IntN(len(started))]
				cs := in.Cmds[k].Cands
				c = cs[r.IntN(len(cs))]
				if len(cs) > 1 && r.Float64() < 0.5 {
					c = cs[r.IntN(len(cs)-1)] // not the last of the command's list
				}
				in.Steps = append(in.Steps, StepIn{Op: "candGone", Cand: c})
				// half of the time the action is completed soon afterwards: it fails (a replacement disappears, or the
				// retry window passes while a replacement stalls) or its replacements become ready
				if y := r.Float64(); y < 0.5 && in.Cmds[k].Repls > 0 {
					switch i := r.IntN(in.Cmds[k].Repls); {
					case y < 0.2:
						in.Steps = append(in.Steps, StepIn{Op: "vanish", Cmd: k, Repl: i})
					case y < 0.3:
						in.Steps = append(in.Steps, StepIn{Op: "launch", Cmd: k, Repl: i}, StepIn{Op: "advance", Ns: minRetry + 1})
						now += minRetry + 1
					default:
						for j := 0; j < in.Cmds[k].Repls; j++ {
							in.Steps = append(in.Steps, StepIn{Op: "init", Cmd: k, Repl: j})
						}
					}
					in.Steps = append(in.Steps, StepIn{Op: "reconcile", Cmd: k, On: r.IntN(len(cs))})
				}
				continue
			}
			in.Steps = append(in.Steps, StepIn{Op: "candGone", Cand: c})
		case x < 0.80:
			var d int64
			switch y := r.Float64(); {
			case y < 0.35 && lastStart >= 0:
				// aim at the edge of the retry window of the most recent action: exactly at it, just before, just after
				target := lastStart + minRetry + int64(pickInt(r, -1, 0, 0, 1, 1))*windowEps
				d = target - now
			case y < 0.55:
				d = int64(pickInt(r, 1, 30, 299, 300, 301, 599, 600, 601, 3600)) * sec
			default:
				d = int64(1+r.IntN(120)) * sec
			}
			if d <= 0 {
				d = sec
			}
			now += d
			in.Steps = append(in.Steps, StepIn{Op: "advance", Ns: d})
		case x < 0.91:
			in.Steps = append(in.Steps, StepIn{Op: "cleanup"})
		case x < 0.95:
			in.Steps = append(in.Steps, StepIn{Op: "sync"})
		default:
			in.Steps = append(in.Steps, StepIn{Op: "restart"})
		}
	}
	// a final quiet period: everything launches or is cleaned up, then the cleanup pass runs
	if r.Float64() < 0.5 {
		in.Steps = append(in.Steps, StepIn{Op: "sync"})
		for k, c := range in.Cmds {
			for i := 0; i < c.Repls; i++ {
				in.Steps = append(in.Steps, StepIn{Op: "launch", Cmd: k, Repl: i})
			}
		}
		in.Steps = append(in.Steps, StepIn{Op: "cleanup"})
	}
	nf := pickInt(r, 0, 0, 1, 1, 1, 2, 2, 3)
	ks := keyUniverse(&in)
	for f := 0; f < nf; f++ {
		cls := "err"
		if r.Float64() < 0.3 {
			cls = "notfound"
		}
		in.Faults = append(in.Faults, FaultIn{Key: ks[r.IntN(len(ks))], From: pickInt(r, 0, 0, 0, 1, 1, 2, 3, 5), Count: pickInt(r, 1, 1, 2, 3, 4, 4, 5, 9), Class: cls})
	}
	return avoidKnown(in)
}

// avoidKnown rewrites a drawn history so that it cannot reach the two recorded findings (which are re-established
// by the dedicated op c08.findings): the rewrite looks at the INPUT only and over-approximates their triggers, so a
// violation with one of those signatures in c08.protocol / c08.faults is a new violation.
//
//	F1 (retry window applied to a pass that deletes): a reconcile step later than minRetry after the start step of an
//	    action all of whose replacements have had an `init` step  ->  the reconcile step becomes a cleanup step
//	F2 (latched replacement vanishes): init(k,i) ... reconcile ... vanish(k,i) ... reconcile  ->  the vanish step
//	    becomes a launch step
func avoidKnown(in In) In {
	now := int64(0)
	type key struct{ k, i int }
	startAt := map[int]int64{}
	inited := map[key]bool{}
	seenByPass := map[key]bool{} // init followed by some reconcile
	for j := range in.Steps {
		s := &in.Steps[j]
		switch s.Op {
		case "advance":
			if s.Ns > 0 {
				now += s.Ns
			}
		case "start":
			if _, ok := startAt[s.Cmd]; !ok {
				startAt[s.Cmd] = now
			}
		case "init":
			inited[key{s.Cmd, s.Repl}] = true
		case "vanish", "vanishStale":
			if seenByPass[key{s.Cmd, s.Repl}] {
				s.Op = "launch"
			}
		case "reconcile":
			late := false
			for k, at := range startAt {
				if now-at <= minRetry {
					continue
				}
				all := true
				for i := 0; i < in.Cmds[k].Repls; i++ {
					if !inited[key{k, i}] {
						all = false
					}
				}
				if all {
					late = true
				}
			}
			if late {
				*s = StepIn{Op: "cleanup"}
				continue
			}
			for ki := range inited {
				seenByPass[ki] = true
			}
		}
	}
	return in
}

// ---------- systematic single / double fault enumeration ----------

type script struct {
	name string
	in   In
}

func baseScripts() []script {
	st := func(k int, via bool) StepIn { return StepIn{Op: "start", Cmd: k, Via: via} }
	rec := func(k int) StepIn { return StepIn{Op: "reconcile", Cmd: k} }
	env := func(op string, k, i int) StepIn { return StepIn{Op: op, Cmd: k, Repl: i} }
	adv := func(ns int64) StepIn { return StepIn{Op: "advance", Ns: ns} }
	recOn := func(k, on int) StepIn { return StepIn{Op: "reconcile", Cmd: k, On: on} }
	gone := func(c int) StepIn { return StepIn{Op: "candGone", Cand: c} }
	cl := StepIn{Op: "cleanup"}
	mk := func(name string, ncands int, cmds []CmdIn, steps ...StepIn) script {
		return script{name, In{NCands: ncands, MissingPools: []int{}, Cmds: cmds, Steps: steps, Faults: []FaultIn{}, RetrySteps: RetrySteps()}}
	}
	one := []CmdIn{{Cands: []int{0}, Repls: 1}}
	return []script{
		mk("replace-1x1", 1, one, st(0, true), rec(0), env("init", 0, 0), rec(0), cl),
		mk("replace-2x2", 2, []CmdIn{{Cands: []int{0, 1}, Repls: 2}}, st(0, true), env("init", 0, 1), rec(0), env("init", 0, 0), rec(0), cl),
		mk("vanish", 1, one, st(0, false), env("vanish", 0, 0), rec(0), cl),
		mk("vanish-stale-then-timeout", 1, one, st(0, true), env("vanishStale", 0, 0), rec(0), adv(minRetry+1), rec(0), StepIn{Op: "sync"}, cl),
		mk("stall-timeout", 2, []CmdIn{{Cands: []int{1, 0}, Repls: 1}}, st(0, true), env("launch", 0, 0), rec(0), adv(minRetry), rec(0), adv(1), rec(0), cl),
		mk("restart-in-flight", 1, one, st(0, true), env("launch", 0, 0), StepIn{Op: "restart"}, cl, rec(0)),
		mk("delete-only", 2, []CmdIn{{Cands: []int{0, 1}, Repls: 0}}, st(0, true), rec(0), cl),
		mk("ready-just-inside-window", 1, one, st(0, true), adv(minRetry), env("init", 0, 0), rec(0), cl),
		mk("two-actions-one-node", 2, []CmdIn{{Cands: []int{0}, Repls: 1}, {Cands: []int{0, 1}, Repls: 1}}, st(0, true), st(1, false), env("init", 0, 0), rec(1), rec(0), cl),
		mk("second-action-after-failure", 1, []CmdIn{{Cands: []int{0}, Repls: 1}, {Cands: []int{0}, Repls: 1}}, st(0, true), env("vanish", 0, 0), rec(0), st(1, true), env("init", 1, 0), rec(1), cl),
		// candidates that go away on their own while their action is in flight (first / middle / last of the command's
		// list), then the action fails (replacement gone; timeout) or succeeds; a later action over the remaining nodes
		mk("cand-gone-then-replacement-gone", 3, []CmdIn{{Cands: []int{0, 1, 2}, Repls: 1}, {Cands: []int{2, 0}, Repls: 0}},
			st(0, true), rec(0), gone(1), env("vanish", 0, 0), recOn(0, 1), cl, st(1, true), rec(1), cl),
		mk("first-cand-gone-then-timeout", 2, []CmdIn{{Cands: []int{1, 0}, Repls: 1}},
			st(0, true), gone(1), env("launch", 0, 0), adv(minRetry+1), recOn(0, 1), cl),
		mk("cand-gone-then-ready", 3, []CmdIn{{Cands: []int{2, 0, 1}, Repls: 1}, {Cands: []int{0}, Repls: 0}},
			st(0, false), gone(0), gone(1), env("init", 0, 0), rec(0), cl, st(1, true)),
	}
}

// singleFaults: every call of the fault-free run as a fault position; firesIn[i] = the step in which fault i fires.
func singleFaults(s script) (out []FaultIn, firesIn []int) {
	cs, err := census(&s.in)
	if err != nil {
		panic(err)
	}
	if len(cs) == 0 {
		return nil, nil
	}
	last := cs[len(cs)-1]
	for _, key := range keyUniverse(&s.in) {
		n := last[key]
		for occ := 0; occ < n; occ++ {
			step := 0
			for step < len(cs) && cs[step][key] <= occ {
				step++
			}
			for _, cls := range []string{"err", "notfound"} {
				for _, cnt := range []int{1, RetrySteps()} {
					out = append(out, FaultIn{Key: key, From: occ, Count: cnt, Class: cls})
					firesIn = append(firesIn, step)
				}
			}
		}
	}
	return out, firesIn
}

func withFaults(s script, fs ...FaultIn) In {
	in := s.in
	in.Faults = append([]FaultIn{}, fs...)
	return in
}

func withRestartAt(s script, p int) In {
	in := s.in
	steps := append([]StepIn{}, in.Steps[:p]...)
	steps = append(steps, StepIn{Op: "restart"}, StepIn{Op: "cleanup"})
	steps = append(steps, in.Steps[p:]...)
	// after the restart the replacements launch eventually and the cleanup pass runs once more
	steps = append(steps, StepIn{Op: "sync"})
	for k, c := range in.Cmds {
		for i := 0; i < c.Repls; i++ {
			steps = append(steps, StepIn{Op: "launch", Cmd: k, Repl: i})
		}
	}
	steps = append(steps, StepIn{Op: "cleanup"})
	in.Steps = steps
	return in
}

// enumFaults: every base script fault-free; with every single fault position (each call of the fault-free run failing
// once or through the whole retry loop, as a NotFound or as another error); with a restart between any two steps; in
// the thorough tier every pair of such faults.
func enumFaults(t core.Tier) []any {
	var out []any
	for _, s := range baseScripts() {
		out = append(out, s.in)
		fs, firesIn := singleFaults(s)
		for i, f := range fs {
			out = append(out, withFaults(s, f))
			// crash point: the process dies in the step in which the call failed (whatever the step did after the
			// failing call is lost with the process or is an API state a crash can leave) and restarts
			if f.Count != 1 {
				c := withRestartAt(s, firesIn[i]+1)
				c.Faults = []FaultIn{f}
				out = append(out, c)
			}
		}
		for p := 0; p <= len(s.in.Steps); p++ {
			out = append(out, withRestartAt(s, p))
		}
		if t == core.Thorough {
			for a := 0; a < len(fs); a++ {
				for b := a + 1; b < len(fs); b++ {
					if fs[a].Key == fs[b].Key && fs[a].From == fs[b].From {
						continue
					}
					// restrict pairs to transient×any to keep the space in bounds
					if fs[a].Count != 1 && fs[b].Count != 1 {
						continue
					}
					out = append(out, withFaults(s, fs[a], fs[b]))
				}
			}
		}
	}
	return out
}

// ---------- the recorded findings, re-established on every run ----------

func findingScripts() []script {
	st := func(k int, via bool) StepIn { return StepIn{Op: "start", Cmd: k, Via: via} }
	rec := func(k int) StepIn { return StepIn{Op: "reconcile", Cmd: k} }
	env := func(op string, k, i int) StepIn { return StepIn{Op: op, Cmd: k, Repl: i} }
	adv := func(ns int64) StepIn { return StepIn{Op: "advance", Ns: ns} }
	cl := StepIn{Op: "cleanup"}
	mk := func(name string, ncands int, cmds []CmdIn, faults []FaultIn, steps ...StepIn) script {
		if faults == nil {
			faults = []FaultIn{}
		}
		return script{name, In{NCands: ncands, MissingPools: []int{}, Cmds: cmds, Steps: steps, Faults: faults, RetrySteps: RetrySteps()}}
	}
	one := []CmdIn{{Cands: []int{0}, Repls: 1}}
	delFault := []FaultIn{{Key: "del.nc.1", From: 0, Count: RetrySteps(), Class: "err"}}
	delFault0 := []FaultIn{{Key: "del.nc.0", From: 0, Count: RetrySteps(), Class: "err"}}
	return []script{
		// F1: the retry window is applied to a pass that issues the deletes
		mk("late-ready", 1, one, nil, st(0, true), adv(minRetry+1), env("init", 0, 0), rec(0), cl),
		mk("late-delete-only", 2, []CmdIn{{Cands: []int{0, 1}, Repls: 0}}, nil, st(0, true), adv(minRetry+1), rec(0), cl),
		mk("late-after-partial-delete", 2, []CmdIn{{Cands: []int{0, 1}, Repls: 1}}, delFault, st(0, true), env("init", 0, 0), rec(0), adv(minRetry+1), rec(0), cl),
		// F2: a replacement whose readiness was latched by an earlier pass vanishes before the deletes are issued
		mk("latched-vanish", 1, []CmdIn{{Cands: []int{0}, Repls: 2}}, nil, st(0, true), env("init", 0, 0), rec(0), env("vanish", 0, 0), env("init", 0, 1), rec(0), cl),
		mk("latched-vanish-after-delete-error", 1, one, delFault0, st(0, true), env("init", 0, 0), rec(0), env("vanishStale", 0, 0), rec(0), cl),
		// neighbours that satisfy the property (the model is compared on these)
		mk("ready-at-window-edge", 1, one, nil, st(0, true), adv(minRetry), env("init", 0, 0), rec(0), cl),
		mk("latched-stays", 1, []CmdIn{{Cands: []int{0}, Repls: 2}}, nil, st(0, true), env("init", 0, 0), rec(0), env("init", 0, 1), rec(0), cl),
	}
}

func enumFindings(core.Tier) []any {
	var out []any
	for _, s := range findingScripts() {
		out = append(out, s.in)
	}
	return out
}

// genFinding: random variations around the two recorded triggers.
func genFinding(r *rand.Rand, _ core.Tier) any {
	in := In{NCands: 1 + r.IntN(3), MissingPools: []int{}, Faults: []FaultIn{}, RetrySteps: RetrySteps()}
	perm := r.Perm(in.NCands)
	m := 1 + r.IntN(in.NCands)
	if r.Float64() < 0.5 {
		repls := r.IntN(3)
		in.Cmds = []CmdIn{{Cands: perm[:m], Repls: repls}}
		in.Steps = append(in.Steps, StepIn{Op: "start", Cmd: 0, Via: r.Float64() < 0.5})
		order := r.Perm(repls)
		cut := 0
		if repls > 0 {
			cut = r.IntN(repls + 1)
		}
		for _, i := range order[:cut] {
			in.Steps = append(in.Steps, StepIn{Op: "init", Cmd: 0, Repl: i})
		}
		if r.Float64() < 0.5 {
			in.Steps = append(in.Steps, StepIn{Op: "reconcile", Cmd: 0})
		}
		in.Steps = append(in.Steps, StepIn{Op: "advance", Ns: minRetry + 1 + int64(r.IntN(3))*sec})
		for _, i := range order[cut:] {
			in.Steps = append(in.Steps, StepIn{Op: "init", Cmd: 0, Repl: i})
		}
		in.Steps = append(in.Steps, StepIn{Op: "reconcile", Cmd: 0, On: r.IntN(m)}, StepIn{Op: "cleanup"})
		return in
	}
	repls := 2 + r.IntN(2)
	in.Cmds = []CmdIn{{Cands: perm[:m], Repls: repls}}
	order := r.Perm(repls)
	vop := "vanish"
	if r.Float64() < 0.5 {
		vop = "vanishStale"
	}
	in.Steps = append(in.Steps, StepIn{Op: "start", Cmd: 0, Via: r.Float64() < 0.5},
		StepIn{Op: "init", Cmd: 0, Repl: order[0]}, StepIn{Op: "reconcile", Cmd: 0}, StepIn{Op: vop, Cmd: 0, Repl: order[0]})
	for _, i := range order[1:] {
		in.Steps = append(in.Steps, StepIn{Op: "init", Cmd: 0, Repl: i})
	}
	in.Steps = append(in.Steps, StepIn{Op: "reconcile", Cmd: 0, On: r.IntN(m)}, StepIn{Op: "cleanup"})
	return in
}

// ---------- evidence helpers ----------

func decode(raw json.RawMessage, impl any) (In, *Out) {
	var in In
	_ = json.Unmarshal(raw, &in)
	var out Out
	b, _ := json.Marshal(impl)
	if json.Unmarshal(b, &out) != nil || len(out.Steps) != len(in.Steps) {
		return in, nil
	}
	return in, &out
}

func nontrivial(raw json.RawMessage, impl any) bool {
	in, out := decode(raw, impl)
	if out == nil {
		return false
	}
	for i, s := range in.Steps {
		if s.Op == "start" && out.Steps[i].Res == "ok" && s.Cmd < len(in.Cmds) && in.Cmds[s.Cmd].Repls >= 1 {
			return true
		}
	}
	return false
}

func labels(raw json.RawMessage, impl any) []string {
	in, out := decode(raw, impl)
	l := []string{fmt.Sprintf("cands=%d", in.NCands), fmt.Sprintf("cmds=%d", len(in.Cmds)), fmt.Sprintf("faults=%d", len(in.Faults))}
	if out == nil {
		return append(l, "no-trace")
	}
	seen := map[string]bool{}
	add := func(s string) {
		if !seen[s] {
			seen[s] = true
			l = append(l, s)
		}
	}
	for _, f := range in.Faults {
		add("fault:" + strings.Join(strings.Split(f.Key, ".")[:2], ".") + ":" + f.Class)
	}
	for i, s := range in.Steps {
		o := out.Steps[i]
		add(s.Op + ":" + o.Res)
		if o.NF > 0 {
			add("fault-fired-in:" + s.Op)
		}
		if len(o.Deletes) > 0 {
			add("delete-issued")
		}
		if s.Op == "candGone" && o.Res == "ok" && s.Cand < len(o.Cands) && o.Cands[s.Cand].Owner >= 0 {
			add("cand-gone-in-flight")
		}
		// a completing pass of an action one of whose candidates has gone away; "…not-last": some candidate listed after
		// the gone one still exists (the pass has to move on past an id the cluster state does not know)
		if s.Op == "reconcile" && i > 0 && (o.Res == "failed" || o.Res == "succeeded") && s.Cmd < len(in.Cmds) {
			prev := out.Steps[i-1].Cands
			cs := in.Cmds[s.Cmd].Cands
			on := s.On
			if on < 0 || on >= len(cs) {
				on = 0
			}
			if cs[on] < len(prev) && prev[cs[on]].Owner >= 0 && prev[cs[on]].Owner < len(in.Cmds) {
				k := prev[cs[on]].Owner
				seenGone, notLast := false, false
				for _, c := range in.Cmds[k].Cands {
					if c >= len(prev) || prev[c].Owner != k {
						continue
					}
					if prev[c].Gone {
						seenGone = true
					} else if seenGone {
						notLast = true
					}
				}
				if seenGone {
					add(o.Res + "-with-cand-gone")
				}
				if notLast {
					add(o.Res + "-with-cand-gone-not-last")
				}
			}
		}
	}
	return l
}

func shrinkIn(raw json.RawMessage) []any {
	var in In
	if json.Unmarshal(raw, &in) != nil {
		return nil
	}
	var out []any
	for _, c := range core.ShrinkList(in.Steps) {
		x := in
		x.Steps = c
		out = append(out, x)
	}
	for _, c := range core.ShrinkList(in.Faults) {
		x := in
		x.Faults = c
		if x.Faults == nil {
			x.Faults = []FaultIn{}
		}
		out = append(out, x)
	}
	if len(in.MissingPools) > 0 {
		x := in
		x.MissingPools = []int{}
		out = append(out, x)
	}
	return out
}

// ---------- leaf op: Queue.GetMaxRetryDuration ----------

type RetryIn struct {
	Entries int `json:"entries"`
}
type RetryOut struct {
	Ns int64 `json:"ns"`
}

func genRetry(r *rand.Rand, _ core.Tier) any {
	switch x := r.Float64(); {
	case x < 0.3:
		return RetryIn{Entries: r.IntN(200)}
	case x < 0.6:
		return RetryIn{Entries: pickInt(r, 7499, 7500, 7501, 44999, 45000, 45001)}
	}
	return RetryIn{Entries: r.IntN(60000)}
}

func implRetry(raw json.RawMessage) (any, error) {
	var in RetryIn
	if err := json.Unmarshal(raw, &in); err != nil {
		return nil, err
	}
	q := disruption.NewQueue(nil, nil, nil, nil, nil)
	q.Lock()
	for i := 0; i < in.Entries; i++ {
		q.ProviderIDToCommand[strconv.Itoa(i)] = &disruption.Command{}
	}
	q.Unlock()
	return RetryOut{Ns: int64(q.GetMaxRetryDuration())}, nil
}

func Ops() []*core.Op {
	protoOp := func(name, doc, rule string) *core.Op {
		return &core.Op{
			Name: name, Doc: doc, Rule: rule,
			Impl:       implProtocol,
			Nontrivial: nontrivial,
			Labels:     labels,
			Signature:  func(json.RawMessage, any) string { return "protocol" },
			Shrink:     shrinkIn,
		}
	}
	faults := protoOp("c08.faults",
		"disruption.Queue (StartCommand, Reconcile/waitOrTerminate, CompleteCommand) + Controller.Reconcile cleanup + state.Cluster marks on the fake client: thirteen base scripts (three with candidates whose Node and NodeClaim go away while their action is in flight), each fault-free, with EVERY call of the fault-free run failing (once / through the whole retry loop; NotFound / other error), and with a process restart between any two steps; thorough: all fault pairs",
		"systematic enumeration; non-trivial = an action with >= 1 replacement was started; distinct = distinct (script, fault vector, restart point)")
	faults.Enum = enumFaults
	faults.ExhaustiveNote = "every single-fault position of every base script x {once, whole retry loop} x {NotFound, other}; restart at every step boundary; restart right after the step of every persistent fault; thorough: + all pairs with one transient fault"
	protocol := protoOp("c08.protocol",
		"the same real components driven by random histories: 1-3 actions over 1-4 candidates (shared candidates, via NewCandidate or direct), replacements launching / initializing / vanishing (fresh or stale cluster state) in any order, candidates going away on their own (Node + NodeClaim removed from the API and the cluster state, ~5% of the steps, mostly candidates of an action in flight), clock aimed at the retry-window edge (-1 ns, 0, +1 ns), cleanup passes, informer syncs, restarts, 0-3 injected API faults, missing NodePools",
		"random histories (4..28 steps quick, 4..64 thorough); non-trivial = an action with >= 1 replacement was started")
	protocol.Gen = genProtocol
	protocol.N = func(t core.Tier) int {
		if t == core.Thorough {
			return 12000
		}
		return 1500
	}
	findings := protoOp("c08.findings",
		"the two recorded findings re-established on the real queue: (F1) a pass later than the retry window whose replacements are all ready issues the candidate deletes and is then reported failed and rolled back; (F2) a replacement whose readiness was latched by an earlier pass vanishes, the deletes are issued anyway; plus neighbouring histories that satisfy the property",
		"7 witness / neighbour scripts + 8 random variations around the two triggers (kept below the engine's failure cap so that nothing is masked)")
	findings.Enum = enumFindings
	findings.Gen = genFinding
	findings.N = func(core.Tier) int { return 8 }
	findings.Shrink = nil
	return []*core.Op{
		faults,
		protocol,
		staticOp(),
		findings,
		{
			Name: "c08.retry",
			Doc:  "disruption.Queue.GetMaxRetryDuration for a queue with n entries (clamp(80ms*n, 10min, 1h)) vs the model's retryDuration",
			N: func(t core.Tier) int {
				if t == core.Thorough {
					return 3000
				}
				return 300
			},
			Gen:  genRetry,
			Impl: implRetry,
			Rule: "queue sizes 0..60000 with the clamp edges (7500, 45000) +-1; non-trivial = the scaled value is not clamped to the minimum",
			Nontrivial: func(raw json.RawMessage, _ any) bool {
				var in RetryIn
				_ = json.Unmarshal(raw, &in)
				return in.Entries > 7500
			},
			Labels: func(raw json.RawMessage, _ any) []string {
				var in RetryIn
				_ = json.Unmarshal(raw, &in)
				switch {
				case in.Entries <= 7500:
					return []string{"min"}
				case in.Entries >= 45000:
					return []string{"max"}
				}
				return []string{"scaled"}
			},
			Signature: func(json.RawMessage, any) string { return "retry" },
		},
	}
}
