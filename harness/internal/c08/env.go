// Package c08: the disruption orchestration queue (StartCommand / Reconcile / waitOrTerminate), the
// disruption controller's stale-taint cleanup pass and the cluster deletion marks — the REAL code on the
// controller-runtime fake client with a fault-injecting interceptor, a fake clock and replacement scripts,
// against the Lean model (Karp/Model/OrchQueue.lean) and the independent specification
// (Karp/Spec/OrchQueue.lean).
package c08

import (
	"context"
	"errors"
	"fmt"
	"sort"
	"strings"
	"sync"
	"time"

	"github.com/go-logr/logr"
	"github.com/google/uuid"
	corev1 "k8s.io/api/core/v1"
	apierrors "k8s.io/apimachinery/pkg/api/errors"
	"k8s.io/apimachinery/pkg/api/resource"
	metav1 "k8s.io/apimachinery/pkg/apis/meta/v1"
	"k8s.io/apimachinery/pkg/runtime/schema"
	"k8s.io/apimachinery/pkg/runtime/serializer"
	"k8s.io/apimachinery/pkg/types"
	"k8s.io/client-go/kubernetes/scheme"
	clienttesting "k8s.io/client-go/testing"
	"k8s.io/client-go/util/retry"
	clocktesting "k8s.io/utils/clock/testing"
	"sigs.k8s.io/controller-runtime/pkg/client"
	"sigs.k8s.io/controller-runtime/pkg/client/fake"
	"sigs.k8s.io/controller-runtime/pkg/client/interceptor"
	crlog "sigs.k8s.io/controller-runtime/pkg/log"

	_ "sigs.k8s.io/karpenter/pkg/apis"
	v1 "sigs.k8s.io/karpenter/pkg/apis/v1"
	"sigs.k8s.io/karpenter/pkg/cloudprovider"
	fakecp "sigs.k8s.io/karpenter/pkg/cloudprovider/fake"
	"sigs.k8s.io/karpenter/pkg/controllers/disruption"
	"sigs.k8s.io/karpenter/pkg/controllers/provisioning"
	"sigs.k8s.io/karpenter/pkg/controllers/provisioning/scheduling"
	"sigs.k8s.io/karpenter/pkg/controllers/state"
	"sigs.k8s.io/karpenter/pkg/operator/options"
	"sigs.k8s.io/karpenter/pkg/state/cost"
	"sigs.k8s.io/karpenter/pkg/state/virtualpods"
	"sigs.k8s.io/karpenter/pkg/test"
	"sigs.k8s.io/karpenter/pkg/utils/pdb"
)

func init() {
	crlog.SetLogger(logr.Discard())
	// The queue and the state helpers retry failed API calls with client-go's retry.DefaultBackoff (4 steps,
	// 10 ms × 5^k of REAL sleep). The number of steps is kept (the model takes it as an input read from this
	// variable); only the sleeping is removed so that persistent faults do not cost 310 ms of wall time each.
	retry.DefaultBackoff.Duration = time.Microsecond
	retry.DefaultBackoff.Factor = 1.0
	retry.DefaultBackoff.Jitter = 0
}

// RetrySteps is the number of attempts of a retried API call (client-go retry.DefaultBackoff.Steps).
func RetrySteps() int { return retry.DefaultBackoff.Steps }

var t0 = time.Date(2026, 1, 1, 0, 0, 0, 0, time.UTC)

const (
	candPool  = "np-c"           // pool of the candidates (always exists)
	replAnno  = "verif.c08/repl" // "<cmd>.<idx>" on every replacement NodeClaim
	maxRepls  = 3
	maxCands  = 4
	finalizer = v1.TerminationFinalizer
)

func candNode(i int) string  { return fmt.Sprintf("node-%d", i) }
func candClaim(i int) string { return fmt.Sprintf("nc-%d", i) }
func candPID(i int) string   { return fmt.Sprintf("fake://cand-%d", i) }
func replPool(i int) string  { return fmt.Sprintf("np-%d", i) }
func replPID(k, i int) string {
	return fmt.Sprintf("fake://repl-%d-%d", k, i)
}

// ---------- protocol types ----------

type CmdIn struct {
	Cands []int `json:"cands"` // candidate indices, in command order
	Repls int   `json:"repls"` // number of replacement NodeClaims (replacement i is launched from pool np-i)
}

type StepIn struct {
	Op   string `json:"op"`             // start | reconcile | advance | launch | init | vanish | vanishStale | candGone | sync | restart | cleanup
	Cmd  int    `json:"cmd,omitempty"`  // start, reconcile, launch, init, vanish*
	Cand int    `json:"cand,omitempty"` // candGone: the candidate whose Node and NodeClaim go away on their own
	Repl int    `json:"repl,omitempty"` // launch, init, vanish*
	On   int    `json:"on,omitempty"`   // reconcile: position in the command's candidate list whose NodeClaim is handed to Reconcile
	Via  bool   `json:"via,omitempty"`  // start: build the candidates through disruption.NewCandidate (the controller's path)
	Ns   int64  `json:"ns,omitempty"`   // advance
}

type FaultIn struct {
	Key   string `json:"key"`   // call site, e.g. get.node.0 patch.node.0 get.nc.0 status.nc.0 del.nc.0 get.pool.1 create.repl.0.1 get.repl.0.1
	From  int    `json:"from"`  // first failing occurrence of that call (0-based, counted over the whole history)
	Count int    `json:"count"` // number of consecutive failing occurrences
	Class string `json:"class"` // err | notfound
}

type In struct {
	NCands       int       `json:"ncands"`
	MissingPools []int     `json:"missingPools"` // replacement pools np-i that do not exist (creation fails without any injected fault)
	Cmds         []CmdIn   `json:"cmds"`
	Steps        []StepIn  `json:"steps"`
	Faults       []FaultIn `json:"faults"`
	RetrySteps   int       `json:"retrySteps"` // retry.DefaultBackoff.Steps of the real process (4)
}

type DelEvent struct {
	Cand  int      `json:"cand"`
	Repls []string `json:"repls"` // state of every replacement of the reconciling command when Delete was called: absent | pending | launched | init
	Ok    bool     `json:"ok"`    // the call reached the API (no injected fault)
}

type CandSnap struct {
	Taint    bool `json:"taint"`
	Cond     bool `json:"cond"`
	Deleting bool `json:"deleting"`
	Mark     bool `json:"mark"`  // StateNode.MarkedForDeletion() as the provisioner / candidate filter see it
	Owner    int  `json:"owner"` // index of the command holding the provider id in Queue.ProviderIDToCommand, -1 if none
	Gone     bool `json:"gone"`  // neither the Node nor the NodeClaim exists in the API and the cluster state has no StateNode for the provider id
}

type ReplSnap struct {
	Named   bool   `json:"named"`   // cmd.Replacements[i].Name is set
	Latched bool   `json:"latched"` // cmd.Replacements[i].Initialized
	API     string `json:"api"`     // absent | pending | launched | init
	Known   bool   `json:"known"`   // cluster.NodeClaimExists(name)
}

type CmdSnap struct {
	Started   bool       `json:"started"`
	Succeeded bool       `json:"succeeded"`
	Repls     []ReplSnap `json:"repls"`
}

type StepOut struct {
	Res     string     `json:"res"`
	NF      int        `json:"nf"` // injected faults that fired during the step
	Deletes []DelEvent `json:"deletes"`
	Cands   []CandSnap `json:"cands"`
	Cmds    []CmdSnap  `json:"cmds"`
}

type Out struct {
	Steps []StepOut `json:"steps"`
}

// ---------- environment ----------

type cmdState struct {
	in      CmdIn
	started bool
	cmd     *disruption.Command
	// names of the replacement NodeClaims as created in the API (by replacement index; "" = never created)
	names []string
}

type env struct {
	ctx   context.Context
	in    *In
	clk   *clocktesting.FakeClock
	raw   client.WithWatch // harness access, no faults
	cli   client.Client    // what the code under test sees
	cp    *fakecp.CloudProvider
	pool  *v1.NodePool
	pools []*v1.NodePool

	cluster *state.Cluster
	prov    *provisioning.Provisioner
	queue   *disruption.Queue
	ctrl    *disruption.Controller
	rec     *test.EventRecorder

	cmds []*cmdState

	mu        sync.Mutex
	counts    map[string]int
	fired     int
	deletes   []DelEvent
	current   int               // command being reconciled (-1 otherwise)
	// static-pass mode (c08.staticpass): the commands are computed by the REAL method and started one after the other;
	// a replacement NodeClaim belongs to the command whose StartCommand call created it
	static       bool
	starting     int // command whose StartCommand call is running (-1 otherwise)
	startCreates int // NodeClaims that call has tried to create so far
	replNames map[string][2]int // NodeClaim name -> (cmd, idx)
	lastObjs  *candObjs
}

var clientScheme = scheme.Scheme

func injected(class, name string) error {
	switch class {
	case "notfound":
		return apierrors.NewNotFound(schema.GroupResource{Group: "karpenter.sh", Resource: "injected"}, name)
	default:
		return apierrors.NewInternalError(errors.New("injected failure"))
	}
}

// hit counts one occurrence of the call `key` and returns the injected error, if the plan has one for it.
func (e *env) hit(key string) error {
	e.mu.Lock()
	defer e.mu.Unlock()
	n := e.counts[key]
	e.counts[key] = n + 1
	for _, f := range e.in.Faults {
		if f.Key == key && n >= f.From && n < f.From+f.Count {
			e.fired++
			return injected(f.Class, key)
		}
	}
	return nil
}

func candIndex(name, prefix string) (int, bool) {
	if !strings.HasPrefix(name, prefix) {
		return 0, false
	}
	var i int
	if _, err := fmt.Sscanf(name[len(prefix):], "%d", &i); err != nil {
		return 0, false
	}
	return i, true
}

// keyFor maps an API call to its call-site key ("" = not a fault position of this property).
func (e *env) keyFor(verb string, obj client.Object, name string) string {
	switch obj.(type) {
	case *corev1.Node:
		if i, ok := candIndex(name, "node-"); ok && (verb == "get" || verb == "patch") {
			return fmt.Sprintf("%s.node.%d", verb, i)
		}
	case *v1.NodePool:
		if e.static {
			// the single replacement of a static command is stamped out of the candidate's own (static) NodePool
			if verb == "get" && strings.HasPrefix(name, "sp-") {
				return "get.pool.0"
			}
			return ""
		}
		if i, ok := candIndex(name, "np-"); ok && verb == "get" {
			return fmt.Sprintf("get.pool.%d", i)
		}
	case *v1.NodeClaim:
		if i, ok := candIndex(name, "nc-"); ok {
			switch verb {
			case "get", "status", "del":
				return fmt.Sprintf("%s.nc.%d", verb, i)
			}
			return ""
		}
		if verb == "create" && e.static {
			e.mu.Lock()
			defer e.mu.Unlock()
			if e.starting < 0 {
				return ""
			}
			e.startCreates++
			return fmt.Sprintf("create.repl.%d.%d", e.starting, e.startCreates-1)
		}
		if verb == "create" {
			if a, ok := obj.GetAnnotations()[replAnno]; ok {
				return "create.repl." + a
			}
			return ""
		}
		e.mu.Lock()
		ki, ok := e.replNames[name]
		e.mu.Unlock()
		if ok && verb == "get" {
			return fmt.Sprintf("get.repl.%d.%d", ki[0], ki[1])
		}
	}
	return ""
}

func (e *env) funcs() interceptor.Funcs {
	return interceptor.Funcs{
		Get: func(ctx context.Context, c client.WithWatch, key client.ObjectKey, obj client.Object, opts ...client.GetOption) error {
			if k := e.keyFor("get", obj, key.Name); k != "" {
				if err := e.hit(k); err != nil {
					return err
				}
			}
			return c.Get(ctx, key, obj, opts...)
		},
		Patch: func(ctx context.Context, c client.WithWatch, obj client.Object, patch client.Patch, opts ...client.PatchOption) error {
			if k := e.keyFor("patch", obj, obj.GetName()); k != "" {
				if err := e.hit(k); err != nil {
					return err
				}
			}
			return c.Patch(ctx, obj, patch, opts...)
		},
		SubResourcePatch: func(ctx context.Context, c client.Client, sub string, obj client.Object, patch client.Patch, opts ...client.SubResourcePatchOption) error {
			if k := e.keyFor("status", obj, obj.GetName()); k != "" && sub == "status" {
				if err := e.hit(k); err != nil {
					return err
				}
			}
			return c.SubResource(sub).Patch(ctx, obj, patch, opts...)
		},
		Create: func(ctx context.Context, c client.WithWatch, obj client.Object, opts ...client.CreateOption) error {
			k := e.keyFor("create", obj, obj.GetName())
			if k != "" {
				if err := e.hit(k); err != nil {
					return err
				}
			}
			if err := c.Create(ctx, obj, opts...); err != nil {
				return err
			}
			if k != "" {
				var ck, ci int
				if _, err := fmt.Sscanf(strings.TrimPrefix(k, "create.repl."), "%d.%d", &ck, &ci); err == nil {
					e.mu.Lock()
					e.replNames[obj.GetName()] = [2]int{ck, ci}
					if ck < len(e.cmds) && ci < len(e.cmds[ck].names) {
						e.cmds[ck].names[ci] = obj.GetName()
					}
					e.mu.Unlock()
				}
			}
			return nil
		},
		Delete: func(ctx context.Context, c client.WithWatch, obj client.Object, opts ...client.DeleteOption) error {
			k := e.keyFor("del", obj, obj.GetName())
			if k == "" {
				return c.Delete(ctx, obj, opts...)
			}
			i, _ := candIndex(obj.GetName(), "nc-")
			ev := DelEvent{Cand: i, Repls: []string{}}
			e.mu.Lock()
			cur := e.current
			e.mu.Unlock()
			if cur >= 0 {
				for ri := range e.cmds[cur].names {
					ev.Repls = append(ev.Repls, e.replAPI(cur, ri))
				}
			}
			err := e.hit(k)
			ev.Ok = err == nil
			e.mu.Lock()
			e.deletes = append(e.deletes, ev)
			e.mu.Unlock()
			if err != nil {
				return err
			}
			return c.Delete(ctx, obj, opts...)
		},
	}
}

func newRawClient(objs ...client.Object) client.WithWatch {
	// a plain tracker: the default field-managed tracker rebuilds a REST mapper on every write (~16x slower)
	tracker := clienttesting.NewObjectTracker(clientScheme, serializer.NewCodecFactory(clientScheme).UniversalDecoder())
	return fake.NewClientBuilder().WithScheme(clientScheme).WithObjectTracker(tracker).
		WithStatusSubresource(&v1.NodeClaim{}, &v1.NodePool{}).
		WithIndex(&corev1.Pod{}, "spec.nodeName", func(o client.Object) []string { return []string{o.(*corev1.Pod).Spec.NodeName} }).
		WithIndex(&corev1.Node{}, "spec.providerID", func(o client.Object) []string { return []string{o.(*corev1.Node).Spec.ProviderID} }).
		WithIndex(&v1.NodeClaim{}, "status.providerID", func(o client.Object) []string { return []string{o.(*v1.NodeClaim).Status.ProviderID} }).
		WithIndex(&v1.NodeClaim{}, "spec.nodeClassRef.group", func(o client.Object) []string {
			return []string{o.(*v1.NodeClaim).Spec.NodeClassRef.Group}
		}).
		WithIndex(&v1.NodeClaim{}, "spec.nodeClassRef.kind", func(o client.Object) []string {
			return []string{o.(*v1.NodeClaim).Spec.NodeClassRef.Kind}
		}).
		WithIndex(&v1.NodeClaim{}, "spec.nodeClassRef.name", func(o client.Object) []string {
			return []string{o.(*v1.NodeClaim).Spec.NodeClassRef.Name}
		}).
		WithIndex(&v1.NodePool{}, "spec.template.spec.nodeClassRef.group", func(o client.Object) []string {
			return []string{o.(*v1.NodePool).Spec.Template.Spec.NodeClassRef.Group}
		}).
		WithIndex(&v1.NodePool{}, "spec.template.spec.nodeClassRef.kind", func(o client.Object) []string {
			return []string{o.(*v1.NodePool).Spec.Template.Spec.NodeClassRef.Kind}
		}).
		WithIndex(&v1.NodePool{}, "spec.template.spec.nodeClassRef.name", func(o client.Object) []string {
			return []string{o.(*v1.NodePool).Spec.Template.Spec.NodeClassRef.Name}
		}).
		WithObjects(objs...).Build()
}

var instanceTypes = fakecp.InstanceTypes(3)

func newEnv(in *In) (*env, error) {
	if in.NCands < 1 || in.NCands > maxCands {
		return nil, fmt.Errorf("ncands out of range")
	}
	for _, c := range in.Cmds {
		if c.Repls < 0 || c.Repls > maxRepls || len(c.Cands) == 0 {
			return nil, fmt.Errorf("bad command")
		}
		for _, i := range c.Cands {
			if i < 0 || i >= in.NCands {
				return nil, fmt.Errorf("bad candidate index")
			}
		}
	}
	e := &env{in: in, counts: map[string]int{}, replNames: map[string][2]int{}, current: -1, starting: -1}
	e.ctx = options.ToContext(context.Background(), test.Options())
	e.clk = clocktesting.NewFakeClock(t0)
	e.cp = fakecp.NewCloudProvider()
	e.cp.InstanceTypes = instanceTypes
	var objs []client.Object
	mkPool := func(name string) *v1.NodePool {
		p := test.NodePool(v1.NodePool{ObjectMeta: metav1.ObjectMeta{Name: name, UID: types.UID("uid-" + name)}})
		p.CreationTimestamp = metav1.NewTime(t0.Add(-time.Hour))
		return p
	}
	e.pool = mkPool(candPool)
	objs = append(objs, e.pool)
	missing := map[int]bool{}
	for _, i := range in.MissingPools {
		missing[i] = true
	}
	for i := 0; i < maxRepls; i++ {
		p := mkPool(replPool(i))
		e.pools = append(e.pools, p)
		if !missing[i] {
			objs = append(objs, p)
		}
	}
	it := instanceTypes[0]
	for i := 0; i < in.NCands; i++ {
		nc, node := test.NodeClaimAndNode(v1.NodeClaim{
			ObjectMeta: metav1.ObjectMeta{
				Name:       candClaim(i),
				UID:        types.UID("uid-" + candClaim(i)),
				Finalizers: []string{finalizer},
				Labels: map[string]string{
					v1.NodePoolLabelKey:            candPool,
					corev1.LabelInstanceTypeStable: it.Name,
					v1.CapacityTypeLabelKey:        v1.CapacityTypeOnDemand,
					corev1.LabelTopologyZone:       "test-zone-1",
					v1.NodeRegisteredLabelKey:      "true",
					v1.NodeInitializedLabelKey:     "true",
				},
			},
			Status: v1.NodeClaimStatus{
				ProviderID:  candPID(i),
				NodeName:    candNode(i),
				Allocatable: corev1.ResourceList{corev1.ResourceCPU: resource.MustParse("32"), corev1.ResourcePods: resource.MustParse("100")},
				Capacity:    corev1.ResourceList{corev1.ResourceCPU: resource.MustParse("32"), corev1.ResourcePods: resource.MustParse("100")},
			},
		})
		nc.CreationTimestamp = metav1.NewTime(t0.Add(-time.Hour))
		nc.StatusConditions().SetTrue(v1.ConditionTypeLaunched)
		nc.StatusConditions().SetTrue(v1.ConditionTypeRegistered)
		nc.StatusConditions().SetTrue(v1.ConditionTypeInitialized)
		node.Name = candNode(i)
		node.Namespace = ""
		node.UID = types.UID("uid-" + candNode(i))
		node.CreationTimestamp = metav1.NewTime(t0.Add(-time.Hour))
		node.Finalizers = []string{finalizer}
		node.Spec.Taints = nil
		objs = append(objs, nc, node)
	}
	e.raw = newRawClient(objs...)
	e.cli = interceptor.NewClient(e.raw, e.funcs())
	for _, c := range in.Cmds {
		e.cmds = append(e.cmds, &cmdState{in: c, names: make([]string, c.Repls)})
	}
	e.boot()
	return e, nil
}

// boot (re)creates every in-memory component on top of the API objects: process start / restart.
func (e *env) boot() {
	e.rec = test.NewEventRecorder()
	e.cluster = state.NewCluster(e.clk, e.cli, e.cp)
	e.prov = provisioning.NewProvisioner(e.cli, e.rec, e.cp, e.cluster, e.clk, nil, virtualpods.NewVirtualPodCache(e.cli))
	e.queue = disruption.NewQueue(e.cli, e.rec, e.cluster, e.clk, e.prov)
	// no methods: Controller.Reconcile then only runs the sync gate and the stale taint / condition cleanup
	e.ctrl = disruption.NewController(e.clk, e.cli, e.prov, e.cp, e.rec, e.cluster, e.queue, cost.NewClusterCost(e.ctx, e.cp, e.cli), disruption.WithMethods())
	e.syncAll()
	// the informers have caught up: a first Synced() call latches hasSynced
	e.cluster.Synced(e.ctx)
}

// syncAll plays the state informers: every Node / NodeClaim of the API is pushed into the cluster state and
// NodeClaims that are gone are removed.
func (e *env) syncAll() {
	e.syncCands()
	e.mu.Lock()
	names := make([]string, 0, len(e.replNames))
	for n := range e.replNames {
		names = append(names, n)
	}
	e.mu.Unlock()
	sort.Strings(names)
	for _, n := range names {
		nc := &v1.NodeClaim{}
		if err := e.raw.Get(e.ctx, types.NamespacedName{Name: n}, nc); err != nil {
			e.cluster.DeleteNodeClaim(n)
			continue
		}
		e.cluster.UpdateNodeClaim(nc)
	}
}

// candObjs reads the candidates' objects once per step (shared by the informer play-back and the snapshot).
type candObjs struct {
	nodes  []*corev1.Node
	claims []*v1.NodeClaim
}

func (e *env) fetchCands() *candObjs {
	o := &candObjs{nodes: make([]*corev1.Node, e.in.NCands), claims: make([]*v1.NodeClaim, e.in.NCands)}
	for i := 0; i < e.in.NCands; i++ {
		node := &corev1.Node{}
		if err := e.raw.Get(e.ctx, types.NamespacedName{Name: candNode(i)}, node); err == nil {
			o.nodes[i] = node
		}
		nc := &v1.NodeClaim{}
		if err := e.raw.Get(e.ctx, types.NamespacedName{Name: candClaim(i)}, nc); err == nil {
			o.claims[i] = nc
		}
	}
	return o
}

func (e *env) syncCands() *candObjs {
	o := e.fetchCands()
	for i := 0; i < e.in.NCands; i++ {
		if o.nodes[i] != nil {
			if err := e.cluster.UpdateNode(e.ctx, o.nodes[i].DeepCopy()); err != nil {
				panic(fmt.Sprintf("harness: UpdateNode: %v", err))
			}
		}
		if o.claims[i] != nil {
			e.cluster.UpdateNodeClaim(o.claims[i].DeepCopy())
		}
	}
	return o
}

// stateNodes: deep copies of the candidates' StateNodes (what GetCandidates hands to NewCandidate).
func (e *env) stateNodes() map[string]*state.StateNode {
	m := map[string]*state.StateNode{}
	for _, n := range e.cluster.DeepCopyNodes() {
		m[n.ProviderID()] = n
	}
	return m
}

// replAPI: state of replacement (k, i) in the API.
func (e *env) replAPI(k, i int) string {
	e.mu.Lock()
	name := e.cmds[k].names[i]
	e.mu.Unlock()
	if name == "" {
		return "absent"
	}
	nc := &v1.NodeClaim{}
	if err := e.raw.Get(e.ctx, types.NamespacedName{Name: name}, nc); err != nil {
		return "absent"
	}
	switch {
	case nc.StatusConditions().Get(v1.ConditionTypeInitialized).IsTrue():
		return "init"
	case nc.Status.ProviderID != "":
		return "launched"
	}
	return "pending"
}

func (e *env) snapshot(o *candObjs) ([]CandSnap, []CmdSnap) {
	cands := make([]CandSnap, e.in.NCands)
	e.queue.RLock()
	owners := map[string]*disruption.Command{}
	for k, v := range e.queue.ProviderIDToCommand {
		owners[k] = v
	}
	e.queue.RUnlock()
	marks := map[string]bool{}
	known := map[string]bool{}
	for n := range e.cluster.Nodes() {
		marks[n.ProviderID()] = n.MarkedForDeletion()
		known[n.ProviderID()] = true
	}
	for i := range cands {
		s := CandSnap{Owner: -1}
		if node := o.nodes[i]; node != nil {
			for _, t := range node.Spec.Taints {
				if t.MatchTaint(&v1.DisruptedNoScheduleTaint) {
					s.Taint = true
				}
			}
		}
		if nc := o.claims[i]; nc != nil {
			s.Cond = nc.StatusConditions().Get(v1.ConditionTypeDisruptionReason) != nil
			s.Deleting = !nc.DeletionTimestamp.IsZero()
		} else if o.nodes[i] != nil {
			s.Deleting = true
		}
		// candGone removes both objects and tells the cluster state in one step, so the three go together
		s.Gone = o.nodes[i] == nil && o.claims[i] == nil && !known[candPID(i)]
		s.Mark = marks[candPID(i)]
		if c, ok := owners[candPID(i)]; ok {
			s.Owner = -2 // a command the harness does not know
			for k, cs := range e.cmds {
				if cs.cmd == c {
					s.Owner = k
				}
			}
		}
		cands[i] = s
	}
	cmds := make([]CmdSnap, len(e.cmds))
	for k, cs := range e.cmds {
		s := CmdSnap{Started: cs.started, Repls: []ReplSnap{}}
		if cs.cmd != nil {
			s.Succeeded = cs.cmd.Succeeded
		}
		for i := 0; i < cs.in.Repls; i++ {
			r := ReplSnap{API: e.replAPI(k, i)}
			if cs.cmd != nil && i < len(cs.cmd.Replacements) {
				r.Named = cs.cmd.Replacements[i].Name != ""
				r.Latched = cs.cmd.Replacements[i].Initialized
			}
			e.mu.Lock()
			name := cs.names[i]
			e.mu.Unlock()
			if name != "" {
				r.Known = e.cluster.NodeClaimExists(name)
			}
			s.Repls = append(s.Repls, r)
		}
		cmds[k] = s
	}
	return cands, cmds
}

// ---------- steps ----------

func (e *env) start(k int, via bool) string {
	cs := e.cmds[k]
	if cs.started {
		return "skip"
	}
	var cands []*disruption.Candidate
	if via {
		limits, err := pdb.NewLimits(e.ctx, e.cli)
		if err != nil {
			return "harness:" + err.Error()
		}
		pools := map[string]*v1.NodePool{candPool: e.pool}
		its := map[string]map[string]*cloudprovider.InstanceType{candPool: {}}
		for _, it := range instanceTypes {
			its[candPool][it.Name] = it
		}
		sns := e.stateNodes()
		for _, i := range cs.in.Cands {
			sn := sns[candPID(i)]
			if sn == nil {
				return "notcand"
			}
			c, err := disruption.NewCandidate(e.ctx, e.cli, e.rec, e.clk, sn, limits, pools, its, e.queue, disruption.GracefulDisruptionClass)
			if err != nil {
				return "notcand"
			}
			cands = append(cands, c)
		}
	} else {
		sns := e.stateNodes()
		for _, i := range cs.in.Cands {
			sn := sns[candPID(i)]
			if sn == nil {
				// a node the cluster state does not know cannot be a candidate (GetCandidates ranges over the state nodes)
				return "notcand"
			}
			cands = append(cands, &disruption.Candidate{StateNode: sn, NodePool: e.pool})
		}
	}
	var repls []*disruption.Replacement
	for i := 0; i < cs.in.Repls; i++ {
		nct := scheduling.NewNodeClaimTemplate(e.pools[i])
		nct.InstanceTypeOptions = append(cloudprovider.InstanceTypes{}, instanceTypes...)
		nct.Annotations = map[string]string{}
		for a, b := range scheduling.NewNodeClaimTemplate(e.pools[i]).Annotations {
			nct.Annotations[a] = b
		}
		nct.Annotations[replAnno] = fmt.Sprintf("%d.%d", k, i)
		repls = append(repls, &disruption.Replacement{NodeClaim: &scheduling.NodeClaim{NodeClaimTemplate: *nct}})
	}
	cmd := &disruption.Command{
		Method:            disruption.NewDrift(e.cli, e.cluster, e.prov, e.rec, e.clk),
		CreationTimestamp: e.clk.Now(),
		ID:                uuid.New(),
		Results:           scheduling.Results{},
		Candidates:        cands,
		Replacements:      repls,
	}
	cs.started = true
	cs.cmd = cmd
	err := e.queue.StartCommand(e.ctx, cmd)
	switch {
	case err == nil:
		return "ok"
	case strings.Contains(err.Error(), "candidate is being disrupted"):
		return "busy"
	case strings.Contains(err.Error(), "marking disrupted"):
		return "mark"
	case strings.Contains(err.Error(), "launching replacement"):
		return "launch"
	}
	return "error"
}

func (e *env) reconcile(k, on int) string {
	cs := e.cmds[k]
	if on < 0 || on >= len(cs.in.Cands) {
		on = 0
	}
	ci := cs.in.Cands[on]
	nc := &v1.NodeClaim{}
	if err := e.raw.Get(e.ctx, types.NamespacedName{Name: candClaim(ci)}, nc); err != nil {
		// the object is gone: the controller would hand over the last known object; only the provider id matters
		nc = &v1.NodeClaim{ObjectMeta: metav1.ObjectMeta{Name: candClaim(ci)}, Status: v1.NodeClaimStatus{ProviderID: candPID(ci)}}
	}
	e.queue.RLock()
	owner, queued := e.queue.ProviderIDToCommand[candPID(ci)]
	e.queue.RUnlock()
	e.mu.Lock()
	e.current = k
	if queued {
		// deletes issued by this pass belong to the command the queue resolves the provider id to
		for kk, c := range e.cmds {
			if c.cmd == owner {
				e.current = kk
			}
		}
	}
	e.mu.Unlock()
	res, err := e.queue.Reconcile(e.ctx, nc)
	e.mu.Lock()
	e.current = -1
	e.mu.Unlock()
	switch {
	case err != nil:
		return "error"
	case !queued:
		return "nocmd"
	case res.RequeueAfter > 0:
		return "requeue"
	case owner.Succeeded:
		return "succeeded"
	}
	return "failed"
}

func (e *env) cleanup() string {
	res, err := e.ctrl.Reconcile(e.ctx)
	switch {
	case err != nil:
		return "fail"
	case res.Requeue:
		return "fail"
	case res.RequeueAfter == time.Second:
		return "unsynced"
	}
	return "ok"
}

func (e *env) replObj(k, i int) *v1.NodeClaim {
	if k < 0 || k >= len(e.cmds) || i < 0 || i >= len(e.cmds[k].names) {
		return nil
	}
	e.mu.Lock()
	name := e.cmds[k].names[i]
	e.mu.Unlock()
	if name == "" {
		return nil
	}
	nc := &v1.NodeClaim{}
	if err := e.raw.Get(e.ctx, types.NamespacedName{Name: name}, nc); err != nil {
		return nil
	}
	return nc
}

func (e *env) envStep(op string, k, i int) string {
	nc := e.replObj(k, i)
	if nc == nil {
		return "noop"
	}
	switch op {
	case "launch", "init":
		if nc.Status.ProviderID == "" {
			nc.Status.ProviderID = replPID(k, i)
		}
		nc.StatusConditions().SetTrue(v1.ConditionTypeLaunched)
		if op == "init" {
			nc.StatusConditions().SetTrue(v1.ConditionTypeRegistered)
			nc.StatusConditions().SetTrue(v1.ConditionTypeInitialized)
		}
		if err := e.raw.Status().Update(e.ctx, nc); err != nil {
			return "harness:" + err.Error()
		}
		e.cluster.UpdateNodeClaim(nc)
		return "ok"
	case "vanish", "vanishStale":
		if len(nc.Finalizers) > 0 {
			nc.Finalizers = nil
			if err := e.raw.Update(e.ctx, nc); err != nil {
				return "harness:" + err.Error()
			}
		}
		if err := e.raw.Delete(e.ctx, nc); err != nil && !apierrors.IsNotFound(err) {
			return "harness:" + err.Error()
		}
		if op == "vanish" {
			e.cluster.DeleteNodeClaim(nc.Name)
		}
		return "ok"
	}
	return "harness:bad env op"
}

// candGone: candidate i goes away on its own while actions may be in flight (the node is removed by somebody else or
// its termination finishes): the finalizers are dropped, Node and NodeClaim are deleted from the API, and the informers
// make the cluster state forget both (DeleteNodeClaim + DeleteNode). The queue is not told.
func (e *env) candGone(i int) string {
	if i < 0 || i >= e.in.NCands {
		return "noop"
	}
	gone := true
	nc := &v1.NodeClaim{}
	if err := e.raw.Get(e.ctx, types.NamespacedName{Name: candClaim(i)}, nc); err == nil {
		gone = false
		if len(nc.Finalizers) > 0 {
			nc.Finalizers = nil
			if err := e.raw.Update(e.ctx, nc); err != nil {
				return "harness:" + err.Error()
			}
		}
		if err := e.raw.Delete(e.ctx, nc); err != nil && !apierrors.IsNotFound(err) {
			return "harness:" + err.Error()
		}
	}
	node := &corev1.Node{}
	if err := e.raw.Get(e.ctx, types.NamespacedName{Name: candNode(i)}, node); err == nil {
		gone = false
		if len(node.Finalizers) > 0 {
			node.Finalizers = nil
			if err := e.raw.Update(e.ctx, node); err != nil {
				return "harness:" + err.Error()
			}
		}
		if err := e.raw.Delete(e.ctx, node); err != nil && !apierrors.IsNotFound(err) {
			return "harness:" + err.Error()
		}
	}
	if gone {
		return "noop"
	}
	e.cluster.DeleteNodeClaim(candClaim(i))
	e.cluster.DeleteNode(candNode(i))
	return "ok"
}

func (e *env) step(s StepIn) StepOut {
	e.mu.Lock()
	e.fired = 0
	e.deletes = nil
	e.mu.Unlock()
	var res string
	switch s.Op {
	case "start":
		if s.Cmd < 0 || s.Cmd >= len(e.cmds) {
			res = "skip"
		} else {
			res = e.start(s.Cmd, s.Via)
		}
	case "reconcile":
		if s.Cmd < 0 || s.Cmd >= len(e.cmds) || !e.cmds[s.Cmd].started {
			res = "skip"
		} else {
			res = e.reconcile(s.Cmd, s.On)
		}
	case "advance":
		if s.Ns > 0 {
			e.clk.Step(time.Duration(s.Ns))
		}
		res = "ok"
	case "launch", "init", "vanish", "vanishStale":
		res = e.envStep(s.Op, s.Cmd, s.Repl)
	case "candGone":
		res = e.candGone(s.Cand)
	case "sync":
		e.syncAll()
		res = "ok"
	case "restart":
		e.boot()
		res = "ok"
	case "cleanup":
		res = e.cleanup()
	default:
		res = "skip"
	}
	// the state informers observe what the step wrote to the candidates' objects
	var objs *candObjs
	switch s.Op {
	case "advance", "launch", "init", "vanish", "vanishStale":
		// nothing was written to the candidates' objects
		objs = e.lastObjs
	}
	if objs == nil {
		objs = e.syncCands()
	}
	e.lastObjs = objs
	out := StepOut{Res: res}
	e.mu.Lock()
	out.NF = e.fired
	out.Deletes = append([]DelEvent{}, e.deletes...)
	e.mu.Unlock()
	sort.SliceStable(out.Deletes, func(a, b int) bool { return out.Deletes[a].Cand < out.Deletes[b].Cand })
	out.Cands, out.Cmds = e.snapshot(objs)
	return out
}

func run(in *In) (*Out, error) {
	e, err := newEnv(in)
	if err != nil {
		return nil, err
	}
	out := &Out{Steps: []StepOut{}}
	for _, s := range in.Steps {
		so := e.step(s)
		if strings.HasPrefix(so.Res, "harness:") {
			return nil, errors.New(so.Res)
		}
		out.Steps = append(out.Steps, so)
	}
	return out, nil
}
