package c08

// c08.staticpass: the commands are not built by the harness but COMPUTED BY THE REAL METHOD. A world of static
// NodePools (spec.replicas set) with drifted and undrifted nodes is handed to the real candidate filter
// (disruption.GetCandidates), the real budget computation (disruption.BuildDisruptionBudgetMapping) and the real
// disruption.StaticDrift.ComputeCommands; every command it returns is started through the real Queue.StartCommand
// exactly as Controller.disrupt does (copy of the Command value, id, timestamp, method), one after the other, so
// that the harness knows independently which replacement NodeClaim was launched for which command (the NodeClaims
// created while that command's StartCommand call ran). Afterwards the history goes on like c08.protocol:
// replacements launch / initialize / vanish in any order, queue passes, cleanup passes, restarts, faults, and
// further disruption passes. What the method chose (which nodes, how many commands) is taken from the run; the
// Lean model then predicts the whole trace for those commands and the independent specification judges every
// Delete call against the replacements launched for the command that owns the deleted candidate.

import (
	"context"
	"encoding/json"
	"errors"
	"fmt"
	"math/rand/v2"
	"sort"
	"strconv"
	"strings"
	"time"

	"github.com/google/uuid"
	"github.com/samber/lo"
	corev1 "k8s.io/api/core/v1"
	"k8s.io/apimachinery/pkg/api/resource"
	metav1 "k8s.io/apimachinery/pkg/apis/meta/v1"
	"k8s.io/apimachinery/pkg/types"
	clocktesting "k8s.io/utils/clock/testing"
	"sigs.k8s.io/controller-runtime/pkg/client"
	"sigs.k8s.io/controller-runtime/pkg/client/interceptor"

	v1 "sigs.k8s.io/karpenter/pkg/apis/v1"
	fakecp "sigs.k8s.io/karpenter/pkg/cloudprovider/fake"
	"sigs.k8s.io/karpenter/pkg/controllers/disruption"
	"sigs.k8s.io/karpenter/pkg/operator/options"
	"sigs.k8s.io/karpenter/pkg/test"

	"verifharness/internal/core"
)

const maxStaticPools = 2

func staticPool(i int) string { return fmt.Sprintf("sp-%d", i) }

type StaticPoolIn struct {
	Replicas int `json:"replicas"` // spec.replicas
	Budget   int `json:"budget"`   // spec.disruption.budgets = [{nodes: "<budget>"}]
}

type StaticNodeIn struct {
	Pool    int  `json:"pool"`
	Drifted bool `json:"drifted"` // the NodeClaim carries Drifted=True
}

// StaticIn: steps as in c08.protocol (cmd = index of the command in the order in which the passes started them)
// plus `pass`; there is no `start` step.
type StaticIn struct {
	Pools      []StaticPoolIn `json:"pools"`
	Nodes      []StaticNodeIn `json:"nodes"`
	Steps      []StepIn       `json:"steps"`
	Faults     []FaultIn      `json:"faults"`
	RetrySteps int            `json:"retrySteps"`
}

// StaticOut: the commands the method computed (in start order), how many each pass started, and the trace in which
// every pass step is replaced by one entry per StartCommand call.
type StaticOut struct {
	Cmds   []CmdIn   `json:"cmds"`
	Passes []int     `json:"passes"`
	Steps  []StepOut `json:"steps"`
}

func newStaticEnv(sin *StaticIn) (*env, error) {
	if len(sin.Nodes) < 1 || len(sin.Nodes) > maxCands || len(sin.Pools) < 1 || len(sin.Pools) > maxStaticPools {
		return nil, fmt.Errorf("nodes / pools out of range")
	}
	in := &In{NCands: len(sin.Nodes), MissingPools: []int{}, Cmds: []CmdIn{}, Faults: sin.Faults, RetrySteps: sin.RetrySteps}
	e := &env{in: in, counts: map[string]int{}, replNames: map[string][2]int{}, current: -1, starting: -1, static: true}
	e.ctx = options.ToContext(context.Background(), test.Options())
	e.clk = clocktesting.NewFakeClock(t0)
	e.cp = fakecp.NewCloudProvider()
	e.cp.InstanceTypes = instanceTypes
	var objs []client.Object
	for i, p := range sin.Pools {
		if p.Replicas < 0 || p.Budget < 0 {
			return nil, fmt.Errorf("bad pool")
		}
		np := test.StaticNodePool(v1.NodePool{
			ObjectMeta: metav1.ObjectMeta{Name: staticPool(i), UID: types.UID("uid-" + staticPool(i))},
			Spec: v1.NodePoolSpec{
				Replicas:   lo.ToPtr(int64(p.Replicas)),
				Disruption: v1.Disruption{Budgets: []v1.Budget{{Nodes: strconv.Itoa(p.Budget)}}},
			},
		})
		np.CreationTimestamp = metav1.NewTime(t0.Add(-time.Hour))
		e.pools = append(e.pools, np)
		objs = append(objs, np)
	}
	it := instanceTypes[0]
	for i, n := range sin.Nodes {
		if n.Pool < 0 || n.Pool >= len(sin.Pools) {
			return nil, fmt.Errorf("bad pool index")
		}
		nc, node := test.NodeClaimAndNode(v1.NodeClaim{
			ObjectMeta: metav1.ObjectMeta{
				Name:       candClaim(i),
				UID:        types.UID("uid-" + candClaim(i)),
				Finalizers: []string{finalizer},
				Labels: map[string]string{
					v1.NodePoolLabelKey:            staticPool(n.Pool),
					corev1.LabelInstanceTypeStable: it.Name,
					v1.CapacityTypeLabelKey:        v1.CapacityTypeOnDemand,
					corev1.LabelTopologyZone:       "test-zone-1",
					v1.NodeRegisteredLabelKey:      "true",
					v1.NodeInitializedLabelKey:     "true",
				},
			},
			Status: v1.NodeClaimStatus{
				ProviderID:  candPID(i),
				NodeName:    candNode(i),
				Allocatable: corev1.ResourceList{corev1.ResourceCPU: resource.MustParse("32"), corev1.ResourcePods: resource.MustParse("100")},
				Capacity:    corev1.ResourceList{corev1.ResourceCPU: resource.MustParse("32"), corev1.ResourcePods: resource.MustParse("100")},
			},
		})
		nc.CreationTimestamp = metav1.NewTime(t0.Add(-time.Hour))
		nc.StatusConditions().SetTrue(v1.ConditionTypeLaunched)
		nc.StatusConditions().SetTrue(v1.ConditionTypeRegistered)
		nc.StatusConditions().SetTrue(v1.ConditionTypeInitialized)
		if n.Drifted {
			nc.StatusConditions().SetTrue(v1.ConditionTypeDrifted)
		}
		node.Name = candNode(i)
		node.Namespace = ""
		node.UID = types.UID("uid-" + candNode(i))
		node.CreationTimestamp = metav1.NewTime(t0.Add(-time.Hour))
		node.Finalizers = []string{finalizer}
		node.Spec.Taints = nil
		objs = append(objs, nc, node)
	}
	e.raw = newRawClient(objs...)
	e.cli = interceptor.NewClient(e.raw, e.funcs())
	e.boot()
	return e, nil
}

func startResult(err error) string {
	switch {
	case err == nil:
		return "ok"
	case strings.Contains(err.Error(), "candidate is being disrupted"):
		return "busy"
	case strings.Contains(err.Error(), "marking disrupted"):
		return "mark"
	case strings.Contains(err.Error(), "launching replacement"):
		return "launch"
	}
	return "error"
}

// pass: what Controller.disrupt does for the StaticDrift method, with the commands started one after the other.
func (e *env) pass() ([]StepOut, error) {
	sd := disruption.NewStaticDrift(e.cluster, e.prov, e.cp)
	cands, err := disruption.GetCandidates(e.ctx, e.cluster, e.cli, e.rec, e.clk, e.cp, sd.ShouldDisrupt, sd.Class(), e.queue)
	if err != nil {
		return nil, fmt.Errorf("harness: candidates: %w", err)
	}
	if len(cands) == 0 {
		return nil, nil
	}
	budgets, err := disruption.BuildDisruptionBudgetMapping(e.ctx, e.cluster, e.clk, e.cli, e.cp, e.rec, sd.Reason())
	if err != nil {
		return nil, fmt.Errorf("harness: budgets: %w", err)
	}
	cmds, err := sd.ComputeCommands(e.ctx, budgets, cands...)
	if err != nil {
		return nil, fmt.Errorf("harness: compute: %w", err)
	}
	cmds = lo.Filter(cmds, func(c disruption.Command, _ int) bool { return c.Decision() != disruption.NoOpDecision })
	var outs []StepOut
	for i := range cmds {
		cmd := cmds[i] // the controller starts a copy of the Command value
		cmd.CreationTimestamp = e.clk.Now()
		cmd.ID = uuid.New()
		cmd.Method = sd
		ci := []int{}
		for _, c := range cmd.Candidates {
			idx, ok := candIndex(c.ProviderID(), "fake://cand-")
			if !ok {
				return nil, fmt.Errorf("harness: unknown candidate %s", c.ProviderID())
			}
			ci = append(ci, idx)
		}
		if len(cmd.Replacements) > maxRepls {
			return nil, fmt.Errorf("harness: %d replacements", len(cmd.Replacements))
		}
		cs := &cmdState{in: CmdIn{Cands: ci, Repls: len(cmd.Replacements)}, started: true, cmd: &cmd, names: make([]string, len(cmd.Replacements))}
		e.mu.Lock()
		e.cmds = append(e.cmds, cs)
		e.fired = 0
		e.deletes = nil
		e.starting = len(e.cmds) - 1
		e.startCreates = 0
		e.mu.Unlock()
		res := startResult(e.queue.StartCommand(e.ctx, &cmd))
		e.mu.Lock()
		e.starting = -1
		e.mu.Unlock()
		objs := e.syncCands()
		e.lastObjs = objs
		out := StepOut{Res: res}
		e.mu.Lock()
		out.NF = e.fired
		out.Deletes = append([]DelEvent{}, e.deletes...)
		e.mu.Unlock()
		out.Cands, out.Cmds = e.snapshot(objs)
		outs = append(outs, out)
	}
	return outs, nil
}

func runStatic(sin *StaticIn) (*StaticOut, error) {
	e, err := newStaticEnv(sin)
	if err != nil {
		return nil, err
	}
	out := &StaticOut{Cmds: []CmdIn{}, Passes: []int{}, Steps: []StepOut{}}
	for _, s := range sin.Steps {
		switch s.Op {
		case "start":
			return nil, fmt.Errorf("no start steps in a static-pass history")
		case "pass":
			outs, err := e.pass()
			if err != nil {
				return nil, err
			}
			out.Passes = append(out.Passes, len(outs))
			out.Steps = append(out.Steps, outs...)
			continue
		}
		so := e.step(s)
		if strings.HasPrefix(so.Res, "harness:") {
			return nil, errors.New(so.Res)
		}
		out.Steps = append(out.Steps, so)
	}
	for _, cs := range e.cmds {
		out.Cmds = append(out.Cmds, cs.in)
	}
	// commands that were computed later are "not started, nothing launched" in every earlier snapshot
	for i := range out.Steps {
		for k := len(out.Steps[i].Cmds); k < len(out.Cmds); k++ {
			s := CmdSnap{Repls: []ReplSnap{}}
			for j := 0; j < out.Cmds[k].Repls; j++ {
				s.Repls = append(s.Repls, ReplSnap{API: "absent"})
			}
			out.Steps[i].Cmds = append(out.Steps[i].Cmds, s)
		}
	}
	return out, nil
}

func implStatic(raw json.RawMessage) (any, error) {
	var in StaticIn
	if err := json.Unmarshal(raw, &in); err != nil {
		return nil, err
	}
	if in.RetrySteps != RetrySteps() {
		return nil, fmt.Errorf("retrySteps %d is not the process' retry.DefaultBackoff.Steps %d", in.RetrySteps, RetrySteps())
	}
	if in.Faults == nil {
		in.Faults = []FaultIn{}
	}
	return runStatic(&in)
}

// ---------- generator ----------

// genStatic: 1-2 static NodePools over 1-4 nodes (70% drifted), replicas around the pool size (a pool that is still
// scaling down is skipped by the method), Drifted budgets 0-4 (mostly >= 2 so that SEVERAL commands come out of one
// pass), one or more disruption passes, the replacements of the started commands initializing / launching / vanishing
// in any order and at different times, queue passes in between, retry-window edges, candidates going away, cleanup
// passes, restarts, 0-2 injected API faults.
func genStatic(r *rand.Rand, t core.Tier) any {
	in := StaticIn{Faults: []FaultIn{}, RetrySteps: RetrySteps()}
	np := pickInt(r, 1, 1, 1, 2)
	n := pickInt(r, 1, 2, 2, 3, 3, 3, 4, 4)
	size := make([]int, np)
	for i := 0; i < n; i++ {
		p := r.IntN(np)
		size[p]++
		in.Nodes = append(in.Nodes, StaticNodeIn{Pool: p, Drifted: r.Float64() < 0.7})
	}
	for p := 0; p < np; p++ {
		rep := size[p] + pickInt(r, 0, 0, 0, 0, 1, 2, -1)
		if rep < 0 {
			rep = 0
		}
		in.Pools = append(in.Pools, StaticPoolIn{Replicas: rep, Budget: pickInt(r, 0, 1, 2, 2, 3, 4, 4)})
	}
	maxLen := 20
	if t == core.Thorough {
		maxLen = 40
	}
	steps := 4 + r.IntN(maxLen)
	in.Steps = append(in.Steps, StepIn{Op: "pass"})
	type key struct{ k, i int }
	inited := map[key]bool{}
	now, lastPass := int64(0), int64(0)
	pGood := 0.3 + 0.6*r.Float64()
	maxCmd := n // at most this many commands are worth addressing (later passes add more)
	for len(in.Steps) < steps {
		k := r.IntN(maxCmd)
		if r.Float64() < 0.8 {
			k = r.IntN(lo.Min([]int{n, 3}))
		}
		switch x := r.Float64(); {
		case x < 0.07:
			in.Steps = append(in.Steps, StepIn{Op: "pass"})
			lastPass = now
			maxCmd = lo.Min([]int{maxCmd + n, 8})
		case x < 0.40:
			in.Steps = append(in.Steps, StepIn{Op: "reconcile", Cmd: k})
		case x < 0.72:
			op := "init"
			switch y := r.Float64(); {
			case y < pGood:
			case y < pGood+0.15:
				op = "launch"
			case y < pGood+0.15+(1-pGood-0.15)*0.6:
				op = "vanish"
			default:
				op = "vanishStale"
			}
			// not the recorded finding F2 (a replacement that vanishes after its readiness may have been latched)
			if op == "init" {
				inited[key{k, 0}] = true
			} else if strings.HasPrefix(op, "vanish") && inited[key{k, 0}] {
				op = "launch"
			}
			in.Steps = append(in.Steps, StepIn{Op: op, Cmd: k, Repl: 0})
		case x < 0.76:
			in.Steps = append(in.Steps, StepIn{Op: "candGone", Cand: r.IntN(n)})
		case x < 0.86:
			var d int64
			switch y := r.Float64(); {
			case y < 0.35:
				d = lastPass + minRetry + int64(pickInt(r, -1, 0, 0, 1, 1))*windowEps - now
			case y < 0.55:
				d = int64(pickInt(r, 1, 30, 599, 600, 601, 3600)) * sec
			default:
				d = int64(1+r.IntN(120)) * sec
			}
			if d <= 0 {
				d = sec
			}
			now += d
			in.Steps = append(in.Steps, StepIn{Op: "advance", Ns: d})
		case x < 0.94:
			in.Steps = append(in.Steps, StepIn{Op: "cleanup"})
		case x < 0.97:
			in.Steps = append(in.Steps, StepIn{Op: "sync"})
		default:
			in.Steps = append(in.Steps, StepIn{Op: "restart"})
			// the new process knows nothing of the old commands: what they latched is gone with them
		}
	}
	if r.Float64() < 0.5 {
		in.Steps = append(in.Steps, StepIn{Op: "sync"}, StepIn{Op: "cleanup"}, StepIn{Op: "pass"})
	}
	nf := pickInt(r, 0, 0, 0, 1, 1, 2)
	var ks []string
	for i := 0; i < n; i++ {
		for _, p := range []string{"get.node.", "patch.node.", "get.nc.", "status.nc.", "del.nc."} {
			ks = append(ks, p+strconv.Itoa(i))
		}
		ks = append(ks, fmt.Sprintf("create.repl.%d.0", i), fmt.Sprintf("get.repl.%d.0", i))
	}
	ks = append(ks, "get.pool.0")
	for f := 0; f < nf; f++ {
		cls := "err"
		if r.Float64() < 0.3 {
			cls = "notfound"
		}
		in.Faults = append(in.Faults, FaultIn{Key: ks[r.IntN(len(ks))], From: pickInt(r, 0, 0, 0, 1, 1, 2, 3), Count: pickInt(r, 1, 1, 2, 4, 4, 5), Class: cls})
	}
	return in
}

// enumStatic: the small systematic core: 2-3 drifted nodes of ONE static pool, budget >= the number of nodes, one pass,
// then EVERY order in which the replacements of the first two commands become ready (only the first / only the second
// / first then second / second then first), each followed by a queue pass for every command; and the same with the
// unready replacement vanishing or stalling past the retry window.
func enumStatic(core.Tier) []any {
	var out []any
	rec := func(k int) StepIn { return StepIn{Op: "reconcile", Cmd: k} }
	envS := func(op string, k int) StepIn { return StepIn{Op: op, Cmd: k, Repl: 0} }
	for _, n := range []int{2, 3} {
		nodes := make([]StaticNodeIn, n)
		for i := range nodes {
			nodes[i] = StaticNodeIn{Pool: 0, Drifted: true}
		}
		for _, budget := range []int{1, n} {
			for a := 0; a < 2; a++ {
				b := 1 - a
				for _, tail := range [][]StepIn{
					{},
					{envS("init", b), rec(a), rec(b)},
					{envS("vanish", b), rec(a), rec(b)},
					{envS("launch", b), {Op: "advance", Ns: minRetry + 1}, rec(a), rec(b)},
				} {
					steps := []StepIn{{Op: "pass"}, rec(0), envS("init", a), rec(0), rec(1), rec(2)}
					steps = append(steps, tail...)
					steps = append(steps, StepIn{Op: "cleanup"}, StepIn{Op: "pass"})
					out = append(out, StaticIn{
						Pools: []StaticPoolIn{{Replicas: n, Budget: budget}}, Nodes: nodes, Steps: steps,
						Faults: []FaultIn{}, RetrySteps: RetrySteps(),
					})
				}
			}
		}
	}
	return out
}

// ---------- evidence ----------

func decodeStatic(raw json.RawMessage, impl any) (StaticIn, *StaticOut) {
	var in StaticIn
	_ = json.Unmarshal(raw, &in)
	var out StaticOut
	b, _ := json.Marshal(impl)
	if json.Unmarshal(b, &out) != nil || out.Steps == nil {
		return in, nil
	}
	return in, &out
}

func nontrivialStatic(raw json.RawMessage, impl any) bool {
	_, out := decodeStatic(raw, impl)
	if out == nil {
		return false
	}
	for _, n := range out.Passes {
		if n >= 1 {
			return true
		}
	}
	return false
}

func labelsStatic(raw json.RawMessage, impl any) []string {
	in, out := decodeStatic(raw, impl)
	l := []string{fmt.Sprintf("nodes=%d", len(in.Nodes)), fmt.Sprintf("pools=%d", len(in.Pools)), fmt.Sprintf("faults=%d", len(in.Faults))}
	if out == nil {
		return append(l, "no-trace")
	}
	seen := map[string]bool{}
	add := func(s string) {
		if !seen[s] {
			seen[s] = true
			l = append(l, s)
		}
	}
	for _, n := range out.Passes {
		switch {
		case n == 0:
			add("pass:no-command")
		case n == 1:
			add("pass:1-command")
		default:
			add("pass:several-commands")
		}
	}
	add(fmt.Sprintf("cmds-total=%d", lo.Min([]int{len(out.Cmds), 5})))
	for _, s := range out.Steps {
		add("res:" + s.Res)
		if s.NF > 0 {
			add("fault-fired")
		}
		if len(s.Deletes) > 0 {
			add("delete-issued")
			// a Delete while a replacement launched for ANOTHER command in flight is not ready: the circumstance in
			// which commands must not look at each other's replacements
			for k, c := range s.Cmds {
				_ = k
				if c.Started && !c.Succeeded {
					for _, rp := range c.Repls {
						if rp.Named && rp.API != "init" && rp.API != "absent" {
							add("delete-while-other-command-waits")
						}
					}
				}
			}
		}
	}
	sort.Strings(l[3:])
	return l
}

func shrinkStatic(raw json.RawMessage) []any {
	var in StaticIn
	if json.Unmarshal(raw, &in) != nil {
		return nil
	}
	var out []any
	for _, c := range core.ShrinkList(in.Steps) {
		x := in
		x.Steps = c
		out = append(out, x)
	}
	for _, c := range core.ShrinkList(in.Faults) {
		x := in
		x.Faults = c
		if x.Faults == nil {
			x.Faults = []FaultIn{}
		}
		out = append(out, x)
	}
	return out
}

func staticOp() *core.Op {
	return &core.Op{
		Name: "c08.staticpass",
		Doc:  "commands COMPUTED BY THE REAL METHOD: disruption.GetCandidates + BuildDisruptionBudgetMapping + StaticDrift.ComputeCommands over 1-2 static NodePools (1-4 nodes, 70% drifted, Drifted budget 0-4, replicas around the pool size), every returned command started through the real Queue.StartCommand as Controller.disrupt does (sequentially, so that each launched replacement NodeClaim is attributed to the command whose start created it), then replacements initialize / launch / vanish at different times, queue passes, window edges, candidates going away, cleanup passes, restarts, further disruption passes, 0-2 API faults; the model predicts the trace for the commands the method chose, the specification judges every Delete against the replacements launched for the owning command",
		Rule: "32 systematic scripts (2-3 drifted nodes of one pool x budget {1, n} x which replacement becomes ready first x {nothing, the other one ready, vanishes, stalls past the window}) + random histories (5..24 steps quick, 5..44 thorough); non-trivial = some pass started >= 1 command",
		N: func(t core.Tier) int {
			if t == core.Thorough {
				return 4000
			}
			return 500
		},
		Gen:        genStatic,
		Enum:       enumStatic,
		Impl:       implStatic,
		Nontrivial: nontrivialStatic,
		Labels:     labelsStatic,
		Signature:  func(json.RawMessage, any) string { return "protocol" },
		Shrink:     shrinkStatic,
	}
}
