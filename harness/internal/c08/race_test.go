package c08

import (
	"encoding/json"
	"sync"
	"testing"

	"verifharness/internal/core"
)

// Independent worlds evaluated concurrently (as the engine does) must not share mutable state: run with -race.
func TestParallelWorlds(t *testing.T) {
	n := 48
	var wg sync.WaitGroup
	for w := 0; w < 8; w++ {
		wg.Add(1)
		go func(w int) {
			defer wg.Done()
			for i := w; i < n; i += 8 {
				b, _ := json.Marshal(genProtocol(core.RNG(7, "c08.protocol", i), core.Quick))
				if _, err := implProtocol(b); err != nil {
					t.Error(err)
				}
			}
		}(w)
	}
	wg.Wait()
}
