package c08

import "testing"

// A fault-free replace action on the real queue: nothing is deleted before both replacements are Initialized.
func TestSmokeHappy(t *testing.T) {
	in := &In{NCands: 2, Cmds: []CmdIn{{Cands: []int{0, 1}, Repls: 2}}, RetrySteps: RetrySteps(),
		Steps: []StepIn{{Op: "start", Cmd: 0, Via: true}, {Op: "reconcile", Cmd: 0}, {Op: "init", Cmd: 0, Repl: 0}, {Op: "reconcile", Cmd: 0},
			{Op: "init", Cmd: 0, Repl: 1}, {Op: "reconcile", Cmd: 0, On: 1}, {Op: "cleanup"}}}
	out, err := run(in)
	if err != nil {
		t.Fatal(err)
	}
	want := []string{"ok", "requeue", "ok", "requeue", "ok", "succeeded", "ok"}
	for i, s := range out.Steps {
		if s.Res != want[i] {
			t.Fatalf("step %d: %s, want %s", i, s.Res, want[i])
		}
		if i < 5 && len(s.Deletes) != 0 {
			t.Fatalf("step %d: delete before the replacements were ready", i)
		}
	}
	if len(out.Steps[5].Deletes) != 2 {
		t.Fatalf("expected both candidates to be deleted, got %v", out.Steps[5].Deletes)
	}
}

// The recorded finding F1 on the real queue (see known_findings.json, C08-timeout-after-delete).
func TestSmokeLateReady(t *testing.T) {
	in := &In{NCands: 1, Cmds: []CmdIn{{Cands: []int{0}, Repls: 1}}, RetrySteps: RetrySteps(),
		Steps: []StepIn{{Op: "start", Cmd: 0}, {Op: "advance", Ns: minRetry + 1}, {Op: "init", Cmd: 0, Repl: 0}, {Op: "reconcile", Cmd: 0}}}
	out, err := run(in)
	if err != nil {
		t.Fatal(err)
	}
	last := out.Steps[3]
	t.Logf("late pass: res=%s deletes=%d taint=%v mark=%v", last.Res, len(last.Deletes), last.Cands[0].Taint, last.Cands[0].Mark)
}
