// Package c14: correspondence ops for C14 (stub, not yet built).
package c14

import (
	"verifharness/internal/core"
	"verifharness/internal/registry"
)

func init() { registry.Register("C14", Ops) }

func Ops() []*core.Op { return nil }
